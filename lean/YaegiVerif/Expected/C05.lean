import YaegiVerif.Model.Method
/- C05 — what the extractor is expected to read from the pinned source (written by hand from a
   reading of interp/cfg.go, interp/type.go and interp/run.go). -/
namespace YaegiVerif.Expected.C05
open YaegiVerif.Method

/-- since ff01288 ("test the clauses of a switch in source order") the pre-order pass leaves the
    clause list alone and the post-order pass sends a failed clause to the next clause with a test,
    the last one to the default clause -/
def facts : Facts :=
  { defaultSwap := false,
    clauseChain := .nextTest,
    fieldLoopEmbedOnly := false,
    containsNamesOnly := true,
    methodWinsCond := "d >= 0 && d < len(ti) => { goto tryMethods }",
    ambiguousCond := "d == len(ti)",
    recvBind := { ptrToVal := .set, valToPtr := .set, same := .set } }

/-- the values the two switch facts had before ff01288 (finding F05-16); only
    `typeswitch_default_swap_witness` refers to them -/
def oldDefaultSwap : Bool := true
def oldClauseChain : Chain := .nextClause

def unrecognised : List String := []

def sourceHashes : List (String × String) :=
  [("itype.lookupField", "79b6a1ad2d1bca07"),
   ("itype.fieldIndex", "20b35923c91324ca"),
   ("itype.lookupMethod", "8c093410929b12b2"),
   ("itype.lookupMethod2", "0ca384a42b4d78db"),
   ("itype.getMethod", "7c8adb8c9829a9d1"),
   ("itype.methodDepth", "1d0e71e467a5ef05"),
   ("itype.methods", "5ee74f81a5c4777a"),
   ("methodSet.contains", "4962c458fd56665c"),
   ("itype.implements", "e9e5c356951a363a"),
   ("lookupFieldOrMethod", "775975244d11efe2"),
   ("matchSelectorMethod", "b1e1cee700cac56d"),
   ("getDefault", "e432131cb00f89f6"),
   ("typeAssert", "ab9567e8974b257b"),
   ("_case", "60fb01345bd252bd"),
   ("implementsInterface", "596e652087668932"),
   ("canAssertTypes", "4f6cf211377634a0"),
   ("getMethod", "95e70d1020e1b372"),
   ("getMethodByName", "f50f4b6cbd60d2d3"),
   ("lookupMethodValue", "375ef5678906848e"),
   ("stripReceiverFromArgs", "bb4ae1a98125a1a0"),
   ("genFunctionWrapper", "2865f1c325015a31"),
   ("typecheck.typeAssertionExpr", "c9bf8687572eccaf"),
   ("genDestValue", "6d332c89aa45b5ab"),
   ("genValueInterface", "ace589b21eb98d0d"),
   ("genValueRecv", "a3dad7fc975e9eb7"),
   ("cfg.go case selectorExpr", "86bed37595933c73"),
   ("cfg.go pre-order case switchStmt, typeSwitch", "773e4a50ec016090"),
   ("cfg.go post-order case switchStmt", "dd29a2c95d07e79f"),
   ("genFunctionWrapper receiver binding", "96e4f6806432f9e4")]

end YaegiVerif.Expected.C05
