import YaegiVerif.Model.Bind
/-
  C14 — hand-written expectations: what was read in the repository.
  Tables that the kernel consults once per table entry are written as codes (see `Bind.enc`); `Props/C14.lean`
  proves that they are the codes of the readable lists next to them.
-/
namespace YaegiVerif.Expected.C14
open YaegiVerif.Bind

/-- documented replacements, readable form: package, key, local identifier.
    * the first seven are `stdlib/restricted.go` (selected by the `restricted` map of `extract/extract.go`);
    * the last four are the builtins of package unsafe, which cannot be taken as values: `stdlib/unsafe/unsafe.go`
      binds local functions (`Offsetof` to a function literal "used for signature check only"). -/
def replNames : List (String × String × String) :=
  [("os", "Exit", "osExit"), ("os", "FindProcess", "osFindProcess"),
   ("log", "Fatal", "logFatal"), ("log", "Fatalf", "logFatalf"), ("log", "Fatalln", "logFatalln"),
   ("log", "Logger", "logLogger"), ("log", "New", "logNew"),
   ("unsafe", "Add", "add"), ("unsafe", "Sizeof", "sizeof"), ("unsafe", "Alignof", "alignof"),
   ("unsafe", "Offsetof", "<funclit>")]

def repls : List Repl := [
  ⟨94067, 5460486516, 404015854152052⟩, -- os.Exit ↦ osExit
  ⟨94067, 394607702045321756416504691, 29112411541556690556421671318387⟩, -- os.FindProcess ↦ osFindProcess
  ⟨23883623, 1401794355564, 26260321504201040236⟩, -- log.Fatal ↦ logFatal
  ⟨23883623, 358859355024486, 6722642305075466300518⟩, -- log.Fatalf ↦ logFatalf
  ⟨23883623, 91867994886270062, 1720996430099319372934254⟩, -- log.Fatalln ↦ logFatalln
  ⟨23883623, 365516336620914, 6722642311732447896946⟩, -- log.Logger ↦ logLogger
  ⟨23883623, 21914999, 400700707071351⟩, -- log.New ↦ logNew
  ⟨410592219326053, 21062756, 23159908⟩, -- unsafe.Add ↦ add
  ⟨410592219326053, 373187466850150, 408371838938982⟩, -- unsafe.Sizeof ↦ sizeof
  ⟨410592219326053, 90472667486777190, 99479866741518182⟩, -- unsafe.Alignof ↦ alignof
  ⟨410592219326053, 24168117096139747174, 5836554055829661774910⟩] -- unsafe.Offsetof ↦ <funclit>

/-- what `extract/extract.go restricted` and `stdlib/restricted.go` say: identifier, package, key, declaration -/
def restricted : List (String × String × String × String) :=
  [("logFatal", "log", "Fatal", "func"), ("logFatalf", "log", "Fatalf", "func"), ("logFatalln", "log", "Fatalln", "func"),
   ("logLogger", "log", "Logger", "type"), ("logNew", "log", "New", "func"),
   ("osExit", "os", "Exit", "func"), ("osFindProcess", "os", "FindProcess", "func")]

/-- **F13, class `float-const-rounded`**: the untyped floating-point constants whose value does not survive
    `extract.go fixConst` (exact rational → `big.Float` of max(bitlen num, bitlen den, 64) bits → that many decimal
    digits; `Bind.asBuilt`): the literal in the table is the decimal expansion of the *rounded* value. Readable
    form, then codes. -/
def floatRoundedNames : List (String × String) :=
  [("math", "E"), ("math", "Ln10"), ("math", "Ln2"), ("math", "Log10E"), ("math", "Log2E"), ("math", "Phi"),
   ("math", "Pi"), ("math", "Sqrt2"), ("math", "SqrtE"), ("math", "SqrtPhi"), ("math", "SqrtPi")]

def floatRounded : List (Nat × Nat) := [
  (6130070632, 325), -- math.E
  (6130070632, 5577257264), -- math.Ln10
  (6130070632, 21786162), -- math.Ln2
  (6130070632, 365516333068357), -- math.Log10E
  (6130070632, 1427798176325), -- math.Log2E
  (6130070632, 22046825), -- math.Phi
  (6130070632, 86121), -- math.Pi
  (6130070632, 1457897239602), -- math.Sqrt2
  (6130070632, 1457897239621), -- math.SqrtE
  (6130070632, 95544753496549481), -- math.SqrtPhi
  (6130070632, 373221693345897)] -- math.SqrtPi

/-- go:generate lines of `stdlib/syscall/syscall.go` (exclude) and `stdlib/unrestricted/unrestricted.go` (include) -/
def exitPatterns : List String :=
  ["^Exec", "Exit", "ForkExec", "Kill", "Ptrace", "Reboot", "Shutdown", "StartProcess", "Syscall"]

/-- the tables of the hand-written files: file, table key, entry key, bound expression -/
def handTables : List (String × String × String × String) := [
  ("stdlib/stdlib.go", "github.com/traefik/yaegi/stdlib/stdlib", "Symbols", "value Symbols"),
  ("stdlib/stdlib.go", ".", "MapTypes", "value MapTypes"),
  ("stdlib/syscall/syscall.go", "github.com/traefik/yaegi/stdlib/syscall/syscall", "Symbols", "value Symbols"),
  ("stdlib/unsafe/unsafe.go", "github.com/traefik/yaegi/stdlib/unsafe/unsafe", "Symbols", "value Symbols"),
  ("stdlib/unsafe/unsafe.go", "github.com/traefik/yaegi/yaegi", "convert", "value convert"),
  ("stdlib/unsafe/unsafe.go", "unsafe/unsafe", "Add", "value add"),
  ("stdlib/unsafe/unsafe.go", "unsafe/unsafe", "Sizeof", "value sizeof"),
  ("stdlib/unsafe/unsafe.go", "unsafe/unsafe", "Alignof", "value alignof"),
  ("stdlib/unsafe/unsafe.go", "unsafe/unsafe", "Offsetof", "value <funclit>"),
  ("stdlib/unrestricted/unrestricted.go", "os/os", "Exit", "value os.Exit"),
  ("stdlib/unrestricted/unrestricted.go", "os/os", "FindProcess", "value os.FindProcess"),
  ("stdlib/unrestricted/unrestricted.go", "os/exec/exec", "Command", "value os/exec.Command"),
  ("stdlib/unrestricted/unrestricted.go", "os/exec/exec", "CommandContext", "value os/exec.CommandContext"),
  ("stdlib/unrestricted/unrestricted.go", "os/exec/exec", "ErrNotFound", "addr os/exec.ErrNotFound"),
  ("stdlib/unrestricted/unrestricted.go", "os/exec/exec", "LookPath", "value os/exec.LookPath"),
  ("stdlib/unrestricted/unrestricted.go", "os/exec/exec", "Cmd", "typ os/exec.Cmd"),
  ("stdlib/unrestricted/unrestricted.go", "os/exec/exec", "Error", "typ os/exec.Error"),
  ("stdlib/unrestricted/unrestricted.go", "os/exec/exec", "ExitError", "typ os/exec.ExitError"),
  -- added by 77e1d98 (C13 F13-6): with unrestricted.Symbols loaded, log.Default is the host's function again
  ("stdlib/unrestricted/unrestricted.go", "log/log", "Default", "value log.Default"),
  ("stdlib/unrestricted/unrestricted.go", "log/log", "Fatal", "value log.Fatal"),
  ("stdlib/unrestricted/unrestricted.go", "log/log", "Fatalf", "value log.Fatalf"),
  ("stdlib/unrestricted/unrestricted.go", "log/log", "Fatalln", "value log.Fatalln"),
  ("stdlib/unrestricted/unrestricted.go", "log/log", "New", "value log.New"),
  ("stdlib/unrestricted/unrestricted.go", "log/log", "Logger", "typ log.Logger"),
  ("stdlib/unrestricted/unrestricted.go", "github.com/traefik/yaegi/stdlib/unrestricted/unrestricted", "Symbols", "value Symbols")]

/-- number of generated files per (directory, release): 0 stdlib, 1 stdlib/syscall, 2 stdlib/unsafe, 3 stdlib/unrestricted -/
def census : List (Nat × Nat × Nat) :=
  [(0, 21, 152), (0, 22, 154), (1, 21, 47), (1, 22, 48), (2, 21, 1), (2, 22, 1), (3, 21, 47), (3, 22, 48)]

/-- `stdlib/wrapper-composed.go`: struct ↦ the interfaces it composes (package path, interface name), as the
    comments of that file say; readable form, then codes -/
def composedNames : List (String × List (String × String)) :=
  [("_netHTTPResponseWriterHijacker", [("net/http", "ResponseWriter"), ("net/http", "Hijacker")]),
   ("_ioReaderWriteTo", [("io", "Reader"), ("io", "WriterTo")]),
   ("_ioWriterReadFrom", [("io", "Writer"), ("io", "ReaderFrom")])]

def composed : List (Nat × List (Nat × Nat)) := [
  (2425489246234194029457576913718513730848368190858715582206075624365974898, [(26401636137494148208, 6863492217150246689507564376581490), (26401636137494148208, 23664562683507336562)]), -- _netHTTPResponseWriterHijacker = net/http.ResponseWriter + net/http.Hijacker
  (467106475566202685699791810309348742255, [(92527, 372070355854706), (92527, 24747958850993411183)]), -- _ioReaderWriteTo = io.Reader + io.WriterTo
  (119579257847392396892981812586251981844333, [(92527, 377623883834738), (92527, 1598030010207045579599725)])] -- _ioWriterReadFrom = io.Writer + io.ReaderFrom

/-- every `MapTypes[…] = …` of the hand-written files: file, key, interface types (or composed wrappers) -/
def mapTypes : List String :=
  ["stdlib/maptypes.go: fmt.Errorf -> fmt.Formatter, fmt.Stringer",
   "stdlib/maptypes.go: fmt.Fprint -> fmt.Formatter, fmt.Stringer",
   "stdlib/maptypes.go: fmt.Fprintf -> fmt.Formatter, fmt.Stringer",
   "stdlib/maptypes.go: fmt.Fprintln -> fmt.Formatter, fmt.Stringer",
   "stdlib/maptypes.go: fmt.Print -> fmt.Formatter, fmt.Stringer",
   "stdlib/maptypes.go: fmt.Printf -> fmt.Formatter, fmt.Stringer",
   "stdlib/maptypes.go: fmt.Println -> fmt.Formatter, fmt.Stringer",
   "stdlib/maptypes.go: fmt.Sprint -> fmt.Formatter, fmt.Stringer",
   "stdlib/maptypes.go: fmt.Sprintf -> fmt.Formatter, fmt.Stringer",
   "stdlib/maptypes.go: fmt.Sprintln -> fmt.Formatter, fmt.Stringer",
   "stdlib/maptypes.go: log.Fatal -> fmt.Formatter, fmt.Stringer",
   "stdlib/maptypes.go: log.Fatalf -> fmt.Formatter, fmt.Stringer",
   "stdlib/maptypes.go: log.Fatalln -> fmt.Formatter, fmt.Stringer",
   "stdlib/maptypes.go: log.Panic -> fmt.Formatter, fmt.Stringer",
   "stdlib/maptypes.go: log.Panicf -> fmt.Formatter, fmt.Stringer",
   "stdlib/maptypes.go: log.Panicln -> fmt.Formatter, fmt.Stringer",
   "stdlib/maptypes.go: fmt.Scan -> fmt.Scanner",
   "stdlib/maptypes.go: fmt.Scanf -> fmt.Scanner",
   "stdlib/maptypes.go: fmt.Scanln -> fmt.Scanner",
   "stdlib/maptypes.go: json.Marshal -> json.Marshaler, encoding.TextMarshaler",
   "stdlib/maptypes.go: json.Unmarshal -> json.Unmarshaler, encoding.TextUnmarshaler",
   "stdlib/maptypes.go: xml.Marshal -> xml.Marshaler, encoding.TextMarshaler",
   "stdlib/maptypes.go: xml.Unmarshal -> xml.Unmarshaler, encoding.TextUnmarshaler",
   "stdlib/wrapper-composed.go: _net_http_ResponseWriter -> _netHTTPResponseWriterHijacker",
   "stdlib/wrapper-composed.go: _io_Reader -> _ioReaderWriteTo",
   "stdlib/wrapper-composed.go: _io_Writer -> _ioWriterReadFrom"]

/-- corrections applied to the reference (read from the sources of the installed go1.23 toolchain) for files of
    older releases, on platforms GOROOT/api does not describe: go1.22 rewrote `src/syscall/net_fake.go`; until
    go1.21 the fake socket constants were `const ( _ = iota; IPV6_V6ONLY; SOMAXCONN; SO_ERROR )` -/
def refCorrections : List String :=
  ["syscall js/wasm ≤go1.21 SOMAXCONN = 2", "syscall js/wasm ≤go1.21 SO_ERROR = 3",
   "syscall wasip1/wasm ≤go1.21 SOMAXCONN = 2", "syscall wasip1/wasm ≤go1.21 SO_ERROR = 3"]

/-- **F14-1, class `platform-frozen-const`**: the files of `stdlib/` proper are compiled on every platform, and an
    untyped constant is frozen into them as a literal. These are all the literal entries (newest release) whose
    namesake has another value on one of the probe platforms linux/386, linux/arm, windows/amd64, darwin/arm64,
    js/wasm, plan9/amd64 (the theorems judge these files against the host platform, linux/amd64). -/
def platformFrozen : List String := [
  "math.MaxInt on linux/386: bound int:9223372036854775807, namesake int:2147483647",
  "math.MaxUint on linux/386: bound int:18446744073709551615, namesake int:4294967295",
  "math.MinInt on linux/386: bound int:-9223372036854775808, namesake int:-2147483648",
  "math/bits.UintSize on linux/386: bound int:64, namesake int:32",
  "strconv.IntSize on linux/386: bound int:64, namesake int:32",
  "math.MaxInt on linux/arm: bound int:9223372036854775807, namesake int:2147483647",
  "math.MaxUint on linux/arm: bound int:18446744073709551615, namesake int:4294967295",
  "math.MinInt on linux/arm: bound int:-9223372036854775808, namesake int:-2147483648",
  "math/bits.UintSize on linux/arm: bound int:64, namesake int:32",
  "strconv.IntSize on linux/arm: bound int:64, namesake int:32",
  "os.DevNull on windows/amd64: bound str:/dev/null, namesake str:NUL",
  "os.PathListSeparator on windows/amd64: bound int:58, namesake int:59",
  "os.PathSeparator on windows/amd64: bound int:47, namesake int:92",
  "path/filepath.ListSeparator on windows/amd64: bound int:58, namesake int:59",
  "path/filepath.Separator on windows/amd64: bound int:47, namesake int:92",
  "os.PathListSeparator on plan9/amd64: bound int:58, namesake int:0",
  "path/filepath.ListSeparator on plan9/amd64: bound int:58, namesake int:0"]

end YaegiVerif.Expected.C14
