-- Hand-checked expectation: copy of the extractor output on the reviewed tree (see extract/cmd/c01); refreshed after the reviewed repairs 7a6586f, a963a95, 08f21a9, fc85736.
namespace YaegiVerif.Expected.C01
/-- fingerprints of the cfg.go clauses and run.go / op.go functions transcribed by Model/Cfg.lean and Model/CfgSlots.lean -/
def sourceHashes : List (String × String) :=
  [("case breakStmt#0", "ba987f207a463f6a"),
   ("case breakStmt#1", "593d6c0ce56d24ea"),
   ("case continueStmt#0", "ba987f207a463f6a"),
   ("case continueStmt#1", "0923b6b7f4db2bfa"),
   ("case forStmt0#0", "4ade14a187f7f000"),
   ("case forStmt0#1", "17553c132ba96ee3"),
   ("case forStmt1#0", "4ade14a187f7f000"),
   ("case forStmt1#1", "bf9f797cae584062"),
   ("case forStmt2#0", "4ade14a187f7f000"),
   ("case forStmt2#1", "353124378192b24c"),
   ("case forStmt3#0", "4ade14a187f7f000"),
   ("case forStmt3#1", "f1f1c4e4e2db4ccf"),
   ("case forStmt4#0", "4ade14a187f7f000"),
   ("case forStmt4#1", "a84c39c4ac17427f"),
   ("case forStmt5#0", "4ade14a187f7f000"),
   ("case forStmt5#1", "d7ead331df763748"),
   ("case forStmt6#0", "4ade14a187f7f000"),
   ("case forStmt6#1", "48b6d2fd598ec2dd"),
   ("case forStmt7#0", "4ade14a187f7f000"),
   ("case forStmt7#1", "26bc6cf55ebb5a93"),
   ("case ifStmt0#0", "592cdc28fdc201d7"),
   ("case ifStmt0#1", "9fd353b40e821186"),
   ("case ifStmt1#0", "592cdc28fdc201d7"),
   ("case ifStmt1#1", "59765e9d5b22f35b"),
   ("case ifStmt2#0", "592cdc28fdc201d7"),
   ("case ifStmt2#1", "36c6949d0520f99e"),
   ("case ifStmt3#0", "592cdc28fdc201d7"),
   ("case ifStmt3#1", "ac82cc0bee664854"),
   ("case landExpr#0", "c9075fed206b13bb"),
   ("case lorExpr#0", "00ec81d8fb56d3ae"),
   ("case parenExpr#0", "6e24d036a7f5c856"),
   ("case parenExpr#1", "65a34b4f4445f16e"),
   ("case parenExpr#2", "4a8379d90b552d93"),
   ("case parenExpr#3", "5fc4865eeba4feb4"),
   ("case switchIfStmt#0", "773e4a50ec016090"),
   ("case switchIfStmt#1", "e1a8aec3738c8e73"),
   ("case switchStmt#0", "773e4a50ec016090"),
   ("case switchStmt#1", "46d028998950625e"),
   ("wireChild", "a85b0d7e0de5134f"),
   ("setFNext", "0f44129452794df2"),
   ("runCfg", "d90b0b7ab1fcffd5"),
   ("branch", "b7a09978f3df34b2"),
   ("nop", "38a10715a79b43bd"),
   -- frame-slot level (Model/CfgSlots.lean): the slot-choosing switches of cfg.go and the closures
   ("assignStmt: skip-assign switch", "ba87596cde52c992"),
   ("binaryExpr: findex switch", "3e0cb5dc9e13d05a"),
   ("unaryExpr: findex switch", "93fe04f42235e3c4"),
   ("isArithmeticAction", "f57163de29913322"),
   ("run.go assign", "59eb4dfab86ac553"),
   ("run.go _return", "6895724d699b988d"),
   ("run.go neg", "200badd1f78ebdba"),
   ("run.go bitNot", "dbce9a8788bf2dae"),
   ("op.go add", "fa31f33a3ea5323a"),
   ("op.go quo", "88d5dd115428d689"),
   ("op.go lower", "d81ccb894c300fc6")]

-- Final sync on the frozen tree (/repo at 48cb9d4). Rows of the first two levels that changed since ba001d8, each reviewed:
--   case landExpr#0 / lorExpr#0: check.logicalExpr and folding of two CONSTANT operands added (b3f92e0, 5877dba); wiring unchanged
--   case parenExpr#0 / #1: type propagation skipped under comparisons (isBoolAction); #2 is a new empty clause in assignXStmt
--     (assignment-mismatch check), the post-order clause is now #3 and unchanged
--   assignStmt: skip-assign switch / unaryExpr: findex switch: the channel-receive shortcut removed (212dc2e) — not in the fragment
-- closure fragment (Model/Closures.lean): copy of the extractor output on the same tree. Reviewed since the model was written (2e388d6):
-- da35a0b hidden slot of a ranged pointer-to-array and 2d45b63 "cannot range over" check (rangeStmt slots); 8bd8040 + 6ebc898 redeclared
-- marking of multi-variable `:=`; d26dd9e getFunc without the reset of its temporary slot, newCallFrame; 716c992 rangeInt copies the bound
-- (fact "rangeInt keeps the value object of the bound" false: F51 repaired); 26ad67e isLoopVarCopy — a define of the loop variable's name
-- in the loop body takes a slot of its own (fact "… is a nop" false: F52 repaired).
-- Last sync (/repo at fb8122a): dc95f3e gives frames an `epoch` (newFrame inherits it, clone copies it), newCallFrame(interp, anc, n, e) now
-- builds the frame itself — `anc: anc`, `data: make(…, length)`, run id / done / dead id from the interpreter and the epoch — and getFunc
-- passes `n.interp, fr, …, fr.getEpoch()`: the call frame's ancestor is still the clone, one frame per call; cancellation is not modelled.
-- Round-5 sync (/repo at 52cb9ff, 29 commits after fb8122a), changed rows reviewed against `git diff green-r4..HEAD`:
--   assignStmt: skip-assign switch — 050210f adds `case dest.rval.IsValid():` (destination is a host variable: keep the assign); not in the fragment
--   run.go _return — 8544122 two-phase store when an operand lives in an EARLIER result slot (`c.findex < i`: never for one result), 0a3a691 a bare
--     `return` gets a closure of its own (functions of the fragment return a value); the single-operand arms are unchanged
--   case assignStmt, defineStmt: define allocates a slot — 52cb9ff rejects an untyped nil source; slot allocation unchanged
--   new tied fact "call copies the results when the callee returns" (1b5ab85, repairs F01): both Lean levels with calls deliver the result at the
--     return (doReturn / doReturn2), neither assumed that the callee's result slot is the caller's destination cell
-- Round-6 sync (/repo at 7171cc6): run.go assign — 8f0dcdc types the temporaries of the MULTI-assign branch after the destination; single assign and
--   the define branch unchanged. New rows `case switchStmt#0/#1`, `case switchIfStmt#0/#1` (pre-order scope push, post-order clause wiring): taken after
--   64eb664 (tagged switch: every expression of a non-constant case list is wired before the clause test; with ONE expression per clause — the fragment —
--   `c.child[0].tnext = c` as before) and 3b98047 (tagless switch: the conditions of a case list are chained, F53 repaired; one condition: unchanged).
-- Round-7 sync (/repo at 9f81224, frozen for good): binaryExpr / unaryExpr findex switches — aa2ac2f inserts `check.operationResult(n, <destination or
--   result type>, …)` (a type check that only returns an error) at the four write-into-destination sites, before the node takes the destination type,
--   and a `break` after the interface-result arm of the return site; which slot an operator node writes is unchanged. 2992617 and 9f81224 touch nothing tied.
/-- fingerprints of the functions and clauses Model/Closures.lean transcribes -/
def closureHashes : List (String × String) :=
  [("newFrame", "8d3a53ebf9cf8afa"),
   ("newCallFrame", "40f1e0d7f7a1dce0"),
   ("frame.clone", "288c927fcf00073e")] ++
  [("getFrame", "48dc117bdbd1af33"),
   ("getFunc", "b1cec79847c23ec5"),
   ("assignFromCall", "68cf8ed8c8ebe68c"),
   ("loopVarFor", "e36ed4f219e83478"),
   ("loopVarForEnd", "fe93ec26819e3e17"),
   ("loopVarKey", "850d1ef64799110f"),
   ("loopVarVal", "fcbafb1e09580702"),
   ("rangeInt", "d725eec9c1021829")] ++
  [("scope.lookup", "cc08c4552fe1b40f"),
   ("scope.add", "441317678d25bfc3"),
   ("scope.push", "0aefc5f773643548"),
   ("scope.pushBloc", "6951928dd155310c"),
   ("scope.pushFunc", "0db98350fb383035"),
   ("scope.pop", "8cb627335be1a171")] ++
  [("run.go assign: define branch", "3fc491eab953d151"),
   ("case funcLit#0", "f555f72b975797df"),
   ("case funcLit#1", "ff3c817d9d2647b4"),
   ("case blockStmt: rangeStmt slots", "ec42ad96f33938f7"),
   ("case blockStmt: rangeStmt loop variables", "622ea483f6088b41"),
   ("case blockStmt: forStmt7 loop variable", "bab8f2008eed8949"),
   ("case assignStmt, defineStmt: define allocates a slot", "bc9549f6d7842924"),
   ("isLoopVarCopy", "a90f7911dc6ac156")]
/-- the choices of the source Model/Closures.lean is parametrised by (`Mech`) -/
def mechFacts : List (String × String) :=
  [("define allocates a fresh value", "true"),
   ("getFunc clones the frame", "true"),
   ("loopVarFor allocates a fresh value", "true"),
   ("loopVarKey allocates a fresh value", "true"),
   ("rangeInt keeps the value object of the bound", "false"),
   ("call copies the results when the callee returns", "true"),
   ("switchIfStmt chains every condition of a case list", "true"),
   ("a define of the loop variable's name in the loop body is a nop", "false"),
   ("identExpr takes level and index from scope.lookup", "true"),
   ("loopVarForEnd copies back", "true")]
end YaegiVerif.Expected.C01
