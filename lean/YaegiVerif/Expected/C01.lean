-- Hand-checked expectation: copy of the extractor output on the reviewed tree (see extract/cmd/c01); refreshed after the reviewed repairs 7a6586f, a963a95, 08f21a9, fc85736.
namespace YaegiVerif.Expected.C01
/-- fingerprints of the cfg.go clauses and run.go / op.go functions transcribed by Model/Cfg.lean and Model/CfgSlots.lean -/
def sourceHashes : List (String × String) :=
  [("case breakStmt#0", "ba987f207a463f6a"),
   ("case breakStmt#1", "593d6c0ce56d24ea"),
   ("case continueStmt#0", "ba987f207a463f6a"),
   ("case continueStmt#1", "0923b6b7f4db2bfa"),
   ("case forStmt0#0", "4ade14a187f7f000"),
   ("case forStmt0#1", "17553c132ba96ee3"),
   ("case forStmt1#0", "4ade14a187f7f000"),
   ("case forStmt1#1", "bf9f797cae584062"),
   ("case forStmt2#0", "4ade14a187f7f000"),
   ("case forStmt2#1", "353124378192b24c"),
   ("case forStmt3#0", "4ade14a187f7f000"),
   ("case forStmt3#1", "f1f1c4e4e2db4ccf"),
   ("case forStmt4#0", "4ade14a187f7f000"),
   ("case forStmt4#1", "a84c39c4ac17427f"),
   ("case forStmt5#0", "4ade14a187f7f000"),
   ("case forStmt5#1", "d7ead331df763748"),
   ("case forStmt6#0", "4ade14a187f7f000"),
   ("case forStmt6#1", "48b6d2fd598ec2dd"),
   ("case forStmt7#0", "4ade14a187f7f000"),
   ("case forStmt7#1", "26bc6cf55ebb5a93"),
   ("case ifStmt0#0", "592cdc28fdc201d7"),
   ("case ifStmt0#1", "9fd353b40e821186"),
   ("case ifStmt1#0", "592cdc28fdc201d7"),
   ("case ifStmt1#1", "59765e9d5b22f35b"),
   ("case ifStmt2#0", "592cdc28fdc201d7"),
   ("case ifStmt2#1", "36c6949d0520f99e"),
   ("case ifStmt3#0", "592cdc28fdc201d7"),
   ("case ifStmt3#1", "ac82cc0bee664854"),
   ("case landExpr#0", "5afec12133b733bb"),
   ("case lorExpr#0", "22da81a1dc20475b"),
   ("case parenExpr#0", "ef944c3d107b7994"),
   ("case parenExpr#1", "28c5fe2b2cea6fed"),
   ("case parenExpr#2", "5fc4865eeba4feb4"),
   ("wireChild", "a85b0d7e0de5134f"),
   ("setFNext", "0f44129452794df2"),
   ("runCfg", "d90b0b7ab1fcffd5"),
   ("branch", "b7a09978f3df34b2"),
   ("nop", "38a10715a79b43bd"),
   -- frame-slot level (Model/CfgSlots.lean): the slot-choosing switches of cfg.go and the closures
   ("assignStmt: skip-assign switch", "477e8a7ce6cd24ad"),
   ("binaryExpr: findex switch", "48c75e35f0734e48"),
   ("unaryExpr: findex switch", "7c446f5014699902"),
   ("isArithmeticAction", "f57163de29913322"),
   ("run.go assign", "bc12620dcf6fb973"),
   ("run.go _return", "a27f80f01fc3a454"),
   ("run.go neg", "200badd1f78ebdba"),
   ("run.go bitNot", "dbce9a8788bf2dae"),
   ("op.go add", "fa31f33a3ea5323a"),
   ("op.go quo", "88d5dd115428d689"),
   ("op.go lower", "d81ccb894c300fc6")]

-- closure fragment (Model/Closures.lean): copy of the extractor output on the reviewed tree (/repo at ba001d8). Reviewed since the
-- model was written (2e388d6): da35a0b adds the hidden slot of a ranged pointer-to-array; 8bd8040 + 6ebc898 mark named variables
-- redeclared in their own scope by a multi-variable `:=` (and changed the multi-define path of run.go assign); d26dd9e removes the
-- reset of the function literal's own temporary slot from getFunc, whose call frame now comes from newCallFrame(fr, …) = newFrame(fr, …)
-- with the root's run id — none of it is in the fragment or changes the mechanism modelled.
/-- fingerprints of the functions and clauses Model/Closures.lean transcribes -/
def closureHashes : List (String × String) :=
  [("newFrame", "da1db819d5067f56"),
   ("newCallFrame", "43aa5e7f13021a5b"),
   ("frame.clone", "ccd71f62c6588b0a")] ++
  [("getFrame", "48dc117bdbd1af33"),
   ("getFunc", "767f1bf470b0d0fd"),
   ("assignFromCall", "68cf8ed8c8ebe68c"),
   ("loopVarFor", "e36ed4f219e83478"),
   ("loopVarForEnd", "fe93ec26819e3e17"),
   ("loopVarKey", "850d1ef64799110f"),
   ("loopVarVal", "fcbafb1e09580702"),
   ("rangeInt", "2c22101342e1ed12")] ++
  [("scope.lookup", "cc08c4552fe1b40f"),
   ("scope.add", "441317678d25bfc3"),
   ("scope.push", "0aefc5f773643548"),
   ("scope.pushBloc", "6951928dd155310c"),
   ("scope.pushFunc", "0db98350fb383035"),
   ("scope.pop", "8cb627335be1a171")] ++
  [("run.go assign: define branch", "3fc491eab953d151"),
   ("case funcLit#0", "f555f72b975797df"),
   ("case funcLit#1", "ff3c817d9d2647b4"),
   ("case blockStmt: rangeStmt slots", "ea000d42ea48b396"),
   ("case blockStmt: rangeStmt loop variables", "622ea483f6088b41"),
   ("case blockStmt: forStmt7 loop variable", "bab8f2008eed8949"),
   ("case assignStmt, defineStmt: define allocates a slot", "f7438b5e8a549c39")]
/-- the choices of the source Model/Closures.lean is parametrised by (`Mech`) -/
def mechFacts : List (String × String) :=
  [("define allocates a fresh value", "true"),
   ("getFunc clones the frame", "true"),
   ("loopVarFor allocates a fresh value", "true"),
   ("loopVarKey allocates a fresh value", "true"),
   ("rangeInt keeps the value object of the bound", "true"),
   ("identExpr takes level and index from scope.lookup", "true"),
   ("loopVarForEnd copies back", "true")]
end YaegiVerif.Expected.C01
