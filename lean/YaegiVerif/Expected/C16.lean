import YaegiVerif.Model.Src
/- What interp/src.go says today, as read by hand. The extractor re-emits the same values into
   Generated/C16.lean on every run; `Props.C16.words_tie` / `source_tie` compare them. -/
namespace YaegiVerif.Expected.C16
open YaegiVerif.Src

/-- the words, and the decisions of pkgDir, previousRoot, importSrc, mainRoot and gta after the repairs of
    F16, F16-1, F16-2, F16-3, F16-4, F16-6, F16-9, F16-10: a candidate must be a directory, the second
    attempt is GOPATH/src/<path> at the empty root only, a regular file named vendor does not stop the walk,
    resolution goes through goPkgDir from mainRoot(rPath), vendor elements are rejected, relatively imported
    packages are identified and located by their path from the main package -/
def words : Words :=
  { vendor := "vendor", vendorLit := "vendor", vendorDir := "vendor", src := "src", mainID := "main",
    defaultName := "_.go", noRoot := "..", vendorFirst := true, effCandidate := false, candMustBeDir := true,
    vendorFileStops := false, goFilesSkip := true, rejectVendor := true, mainRoot := true, relRoot := true,
    relKey := true, relSub := true, retry := false }

/-- the facts before the repair of F16-11 (657b966): importSrc tried a failed resolution again from the
    location of the main file -/
def retryWords : Words :=
  { vendor := "vendor", vendorLit := "vendor", vendorDir := "vendor", src := "src", mainID := "main",
    defaultName := "_.go", noRoot := "..", vendorFirst := true, effCandidate := false, candMustBeDir := true,
    vendorFileStops := false, goFilesSkip := true, rejectVendor := true, mainRoot := true, relRoot := true,
    relKey := true, relSub := true, retry := true }

/-- what the same extraction gives on the tree before those repairs (79ed061): used by the old-fact
    examples of Props/C16.lean, which reproduce the repaired findings in the model -/
def oldWords : Words :=
  { vendor := "vendor", vendorLit := "vendor", vendorDir := "vendor", src := "src", mainID := "main",
    defaultName := "_.go", noRoot := "absent", vendorFirst := true, effCandidate := true, candMustBeDir := false,
    vendorFileStops := true, goFilesSkip := false, rejectVendor := false, mainRoot := false, relRoot := false,
    relKey := false, relSub := false, retry := true }

/-- order of the bookkeeping statements of importSrc, by first occurrence: the already-imported test, the
    rejection of vendor elements, the resolution, the cycle test, the mark, the recursion (gta), the registration -/
def importOrder : List String :=
  ["srcPkg-test", "vendor-test", "resolve", "rdir-test", "rdir-set", "gta", "srcPkg-set"]

/-- the io/fs entry points the resolution uses (all through the configured file system) -/
def fsCalls : List String :=
  ["fs.ReadDir(filesystem)", "fs.ReadDir(interp.opt.filesystem)", "fs.ReadFile(interp.opt.filesystem)", "fs.Stat(filesystem)"]

/-- no direct os/ioutil call in importSrc, goPkgDir, hasGoFiles, pkgDir, isDir, previousRoot, effectivePkg,
    rootFromSourceLocation, rootFromDir, mainRoot, relativePath (os.Getwd left with the repair of F16-4) -/
def osCalls : List String := []

/-- the one place where the process is consulted: rootFromDir makes the package directory and GOPATH/src
    absolute (both against the same working directory) before comparing them -/
def wdCalls : List String := ["rootFromDir:filepath.Abs"]

/-- gta.go importSpec does not rewrite the import path "x/x" of a source package any more (F16-7) -/
def gtaCollapse : Bool := false

/- importSrc re-read at 52cb9ff (green-r4..HEAD): 657b966 removes the second resolution attempt (fact `retry`),
   and `interp.frame.setrunid(interp.runid())` before the execution of the package became
   `defer interp.end(interp.begin())` (evaluation epochs, C09/C10): after the bookkeeping, not part of this model. -/
/-- fingerprints (extract/common FuncHash) of the functions Model/Src.lean was transcribed from -/
def sourceHashes : List (String × String) :=
  [("Interpreter.importSrc", "e1c22856fd77f359"),
   ("Interpreter.rootFromSourceLocation", "c6cbb2779907acb0"),
   ("Interpreter.rootFromDir", "e99c87ffbfab385e"),
   ("Interpreter.mainRoot", "7fa06822003a1d76"),
   ("Interpreter.goPkgDir", "bb87fe31facfd623"),
   ("hasGoFiles", "cd64e9606467c110"),
   ("Interpreter.pkgDir", "69a53c6407a6fcff"),
   ("isDir", "45130a5806effe5e"),
   ("previousRoot", "5e48a38bb5878f66"),
   ("effectivePkg", "d6f8d7c683ef8bea"),
   ("relativePath", "e2a99d3e4fa9641e"),
   ("isPathRelative", "66480ee04f4d0eb0")]

end YaegiVerif.Expected.C16
