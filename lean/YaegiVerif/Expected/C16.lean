import YaegiVerif.Model.Src
/- What interp/src.go says today, as read by hand. The extractor re-emits the same values into
   Generated/C16.lean on every run; `Props.C16.words_tie` / `source_tie` compare them. -/
namespace YaegiVerif.Expected.C16
open YaegiVerif.Src

def words : Words :=
  { vendor := "vendor", vendorLit := "vendor", vendorDir := "vendor", src := "src", mainID := "main",
    defaultName := "_.go", vendorFirst := true }

/-- order of the bookkeeping statements of importSrc, by first occurrence:
    the already-imported test, the resolution, the cycle test, the mark, the recursion (gta), the registration -/
def importOrder : List String :=
  ["srcPkg-test", "resolve", "rdir-test", "rdir-set", "gta", "srcPkg-set"]

/-- the io/fs entry points the resolution uses (all through the configured file system) -/
def fsCalls : List String :=
  ["fs.ReadDir(interp.opt.filesystem)", "fs.ReadFile(interp.opt.filesystem)", "fs.Stat(filesystem)",
   "fs.Stat(interp.opt.filesystem)"]

/-- no direct os/ioutil call in importSrc, pkgDir, previousRoot, effectivePkg -/
def osCalls : List String := []

/-- gta.go importSpec rewrites the import path "x/x" to "x" -/
def gtaCollapse : Bool := true

/-- fingerprints (extract/common FuncHash) of the functions Model/Src.lean was transcribed from -/
def sourceHashes : List (String × String) :=
  [("Interpreter.importSrc", "523be9b327589e94"),
   ("Interpreter.rootFromSourceLocation", "ee80b6987c557247"),
   ("Interpreter.pkgDir", "daabd0545f80d74a"),
   ("previousRoot", "72d5bbec27d4b335"),
   ("effectivePkg", "d6f8d7c683ef8bea"),
   ("isPathRelative", "66480ee04f4d0eb0")]

end YaegiVerif.Expected.C16
