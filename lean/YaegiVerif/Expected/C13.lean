import YaegiVerif.Model.Restricted
/- What the source says today, as read by hand: stdlib/restricted.go, interp/use.go fixStdlib,
   cmd/yaegi/run.go, and the functions of the default table that hand out a host *log.Logger.
   The extractor re-emits the same values into Generated/C13.lean on every run; Props.C13.*_tie compare them. -/
namespace YaegiVerif.Expected.C13
open YaegiVerif.Restricted

def loggerReturning : List LoggerSrc :=
  [⟨"log", "Default", .host "log" "Default", ["*log.Logger"]⟩,
   ⟨"log/slog", "NewLogLogger", .host "slog" "NewLogLogger", ["*log.Logger"]⟩,
   ⟨"log/syslog", "NewLogger", .host "syslog" "NewLogger", ["*log.Logger", "error"]⟩]

def decls : List Decl :=
  [⟨"osExit", [], [⟨"panic", "panic", "panic"⟩, ⟨"strconv.Itoa", "strconv", "Itoa"⟩]⟩,
   ⟨"osFindProcess", ["os.Process", "error"], [⟨"os.Getpid", "os", "Getpid"⟩, ⟨"os.FindProcess", "os", "FindProcess"⟩]⟩,
   ⟨"logFatal", [], [⟨"log.Panic", "log", "Panic"⟩]⟩,
   ⟨"logFatalf", [], [⟨"log.Panicf", "log", "Panicf"⟩]⟩,
   ⟨"logFatalln", [], [⟨"log.Panicln", "log", "Panicln"⟩]⟩,
   ⟨"logNew", ["logLogger"], [⟨"log.New", "log", "New"⟩]⟩,
   ⟨"logLogger.Fatal", [], [⟨"l.l.Panic", "l", "Panic"⟩]⟩,
   ⟨"logLogger.Fatalf", [], [⟨"l.l.Panicf", "l", "Panicf"⟩]⟩,
   ⟨"logLogger.Fatalln", [], [⟨"l.l.Panicln", "l", "Panicln"⟩]⟩,
   ⟨"logLogger.Flags", ["int"], [⟨"l.l.Flags", "l", "Flags"⟩]⟩,
   ⟨"logLogger.Output", ["error"], [⟨"l.l.Output", "l", "Output"⟩]⟩,
   ⟨"logLogger.Panic", [], [⟨"l.l.Panic", "l", "Panic"⟩]⟩,
   ⟨"logLogger.Panicf", [], [⟨"l.l.Panicf", "l", "Panicf"⟩]⟩,
   ⟨"logLogger.Panicln", [], [⟨"l.l.Panicln", "l", "Panicln"⟩]⟩,
   ⟨"logLogger.Prefix", ["string"], [⟨"l.l.Prefix", "l", "Prefix"⟩]⟩,
   ⟨"logLogger.Print", [], [⟨"l.l.Print", "l", "Print"⟩]⟩,
   ⟨"logLogger.Printf", [], [⟨"l.l.Printf", "l", "Printf"⟩]⟩,
   ⟨"logLogger.Println", [], [⟨"l.l.Println", "l", "Println"⟩]⟩,
   ⟨"logLogger.SetFlags", [], [⟨"l.l.SetFlags", "l", "SetFlags"⟩]⟩,
   ⟨"logLogger.SetOutput", [], [⟨"l.l.SetOutput", "l", "SetOutput"⟩]⟩,
   ⟨"logLogger.SetPrefix", [], [⟨"l.l.SetPrefix", "l", "SetPrefix"⟩]⟩,
   ⟨"logLogger.Writer", ["io.Writer"], [⟨"l.l.Writer", "l", "Writer"⟩]⟩]

/- interp/use.go fixStdlib as of 77e1d98, read by hand:
     fmt     six closures over the locals stdin / stdout;
     flag    CommandLine = a set named `prog` (3f8ef33: element 0 of interp.args, "" when there is none), output to stderr;
             restricted mode only (b69bc95): NewFlagSet = the host's constructor with ExitOnError replaced by PanicOnError;
     log     (77e1d98) l = the logger made by the table's own log.New (the host's in unrestricted mode or when the table has
             none) over stderr; Default = a function returning l; Fatal* = l's Panic*; thirteen names (the range loop) =
             l's methods of the same name;
     os      Args, the three streams (special stdio / *os.File), the seven environment functions (restricted mode only);
     math/bits UintSize. -/
def rebinds : List Rebind :=
  [⟨"fmt", "Print", [], [⟨"reflect.ValueOf", "reflect", "ValueOf"⟩, ⟨"fmt.Fprint", "fmt", "Fprint"⟩, ⟨"stdout", "stdout", "stdout"⟩], .expr⟩,
   ⟨"fmt", "Printf", [], [⟨"reflect.ValueOf", "reflect", "ValueOf"⟩, ⟨"fmt.Fprintf", "fmt", "Fprintf"⟩, ⟨"stdout", "stdout", "stdout"⟩], .expr⟩,
   ⟨"fmt", "Println", [], [⟨"reflect.ValueOf", "reflect", "ValueOf"⟩, ⟨"fmt.Fprintln", "fmt", "Fprintln"⟩, ⟨"stdout", "stdout", "stdout"⟩], .expr⟩,
   ⟨"fmt", "Scan", [], [⟨"reflect.ValueOf", "reflect", "ValueOf"⟩, ⟨"fmt.Fscan", "fmt", "Fscan"⟩, ⟨"stdin", "stdin", "stdin"⟩], .expr⟩,
   ⟨"fmt", "Scanf", [], [⟨"reflect.ValueOf", "reflect", "ValueOf"⟩, ⟨"fmt.Fscanf", "fmt", "Fscanf"⟩, ⟨"stdin", "stdin", "stdin"⟩], .expr⟩,
   ⟨"fmt", "Scanln", [], [⟨"reflect.ValueOf", "reflect", "ValueOf"⟩, ⟨"fmt.Fscanln", "fmt", "Fscanln"⟩, ⟨"stdin", "stdin", "stdin"⟩], .expr⟩,
   ⟨"flag", "CommandLine", [], [⟨"reflect.ValueOf", "reflect", "ValueOf"⟩, ⟨"c", "c", "c"⟩], .expr⟩,
   ⟨"flag", "NewFlagSet", ["!interp.unrestricted"], [⟨"reflect.ValueOf", "reflect", "ValueOf"⟩, ⟨"flag.ErrorHandling", "flag", "ErrorHandling"⟩, ⟨"flag.FlagSet", "flag", "FlagSet"⟩, ⟨"flag.ExitOnError", "flag", "ExitOnError"⟩, ⟨"flag.PanicOnError", "flag", "PanicOnError"⟩, ⟨"flag.NewFlagSet", "flag", "NewFlagSet"⟩], .remap "flag.NewFlagSet" [(⟨"flag.ExitOnError", "flag", "ExitOnError"⟩, ⟨"flag.PanicOnError", "flag", "PanicOnError"⟩)]⟩,
   ⟨"log", "Default", [], [⟨"reflect.MakeFunc", "reflect", "MakeFunc"⟩, ⟨"reflect.FuncOf", "reflect", "FuncOf"⟩, ⟨"reflect.Type", "reflect", "Type"⟩, ⟨"l.Type", "l", "Type"⟩, ⟨"reflect.Value", "reflect", "Value"⟩, ⟨"l", "l", "l"⟩], .constFn "l"⟩,
   ⟨"log", "Fatal", [], [⟨"l.MethodByName", "l", "MethodByName"⟩], .method "l" "Panic"⟩,
   ⟨"log", "Fatalf", [], [⟨"l.MethodByName", "l", "MethodByName"⟩], .method "l" "Panicf"⟩,
   ⟨"log", "Fatalln", [], [⟨"l.MethodByName", "l", "MethodByName"⟩], .method "l" "Panicln"⟩,
   ⟨"log", "Flags", [], [⟨"l.MethodByName", "l", "MethodByName"⟩], .method "l" "Flags"⟩,
   ⟨"log", "Output", [], [⟨"l.MethodByName", "l", "MethodByName"⟩], .method "l" "Output"⟩,
   ⟨"log", "Panic", [], [⟨"l.MethodByName", "l", "MethodByName"⟩], .method "l" "Panic"⟩,
   ⟨"log", "Panicf", [], [⟨"l.MethodByName", "l", "MethodByName"⟩], .method "l" "Panicf"⟩,
   ⟨"log", "Panicln", [], [⟨"l.MethodByName", "l", "MethodByName"⟩], .method "l" "Panicln"⟩,
   ⟨"log", "Prefix", [], [⟨"l.MethodByName", "l", "MethodByName"⟩], .method "l" "Prefix"⟩,
   ⟨"log", "Print", [], [⟨"l.MethodByName", "l", "MethodByName"⟩], .method "l" "Print"⟩,
   ⟨"log", "Printf", [], [⟨"l.MethodByName", "l", "MethodByName"⟩], .method "l" "Printf"⟩,
   ⟨"log", "Println", [], [⟨"l.MethodByName", "l", "MethodByName"⟩], .method "l" "Println"⟩,
   ⟨"log", "SetFlags", [], [⟨"l.MethodByName", "l", "MethodByName"⟩], .method "l" "SetFlags"⟩,
   ⟨"log", "SetOutput", [], [⟨"l.MethodByName", "l", "MethodByName"⟩], .method "l" "SetOutput"⟩,
   ⟨"log", "SetPrefix", [], [⟨"l.MethodByName", "l", "MethodByName"⟩], .method "l" "SetPrefix"⟩,
   ⟨"log", "Writer", [], [⟨"l.MethodByName", "l", "MethodByName"⟩], .method "l" "Writer"⟩,
   ⟨"os", "Args", [], [⟨"reflect.ValueOf", "reflect", "ValueOf"⟩, ⟨"interp.args", "interp", "args"⟩], .expr⟩,
   ⟨"os", "Stdin", ["interp.specialStdio"], [⟨"reflect.ValueOf", "reflect", "ValueOf"⟩, ⟨"stdin", "stdin", "stdin"⟩], .expr⟩,
   ⟨"os", "Stdout", ["interp.specialStdio"], [⟨"reflect.ValueOf", "reflect", "ValueOf"⟩, ⟨"stdout", "stdout", "stdout"⟩], .expr⟩,
   ⟨"os", "Stderr", ["interp.specialStdio"], [⟨"reflect.ValueOf", "reflect", "ValueOf"⟩, ⟨"stderr", "stderr", "stderr"⟩], .expr⟩,
   ⟨"os", "Stdin", ["!(interp.specialStdio)", "stdin.(*os.File)"], [⟨"reflect.ValueOf", "reflect", "ValueOf"⟩, ⟨"s", "s", "s"⟩, ⟨"stdin", "stdin", "stdin"⟩], .expr⟩,
   ⟨"os", "Stdout", ["!(interp.specialStdio)", "stdout.(*os.File)"], [⟨"reflect.ValueOf", "reflect", "ValueOf"⟩, ⟨"s", "s", "s"⟩, ⟨"stdout", "stdout", "stdout"⟩], .expr⟩,
   ⟨"os", "Stderr", ["!(interp.specialStdio)", "stderr.(*os.File)"], [⟨"reflect.ValueOf", "reflect", "ValueOf"⟩, ⟨"s", "s", "s"⟩, ⟨"stderr", "stderr", "stderr"⟩], .expr⟩,
   ⟨"os", "Clearenv", ["!interp.unrestricted"], [⟨"reflect.ValueOf", "reflect", "ValueOf"⟩, ⟨"interp.env", "interp", "env"⟩], .expr⟩,
   ⟨"os", "ExpandEnv", ["!interp.unrestricted"], [⟨"reflect.ValueOf", "reflect", "ValueOf"⟩, ⟨"os.Expand", "os", "Expand"⟩, ⟨"getenv", "getenv", "getenv"⟩], .expr⟩,
   ⟨"os", "Getenv", ["!interp.unrestricted"], [⟨"reflect.ValueOf", "reflect", "ValueOf"⟩, ⟨"getenv", "getenv", "getenv"⟩], .expr⟩,
   ⟨"os", "LookupEnv", ["!interp.unrestricted"], [⟨"reflect.ValueOf", "reflect", "ValueOf"⟩, ⟨"interp.env", "interp", "env"⟩], .expr⟩,
   ⟨"os", "Setenv", ["!interp.unrestricted"], [⟨"reflect.ValueOf", "reflect", "ValueOf"⟩, ⟨"interp.env", "interp", "env"⟩], .expr⟩,
   ⟨"os", "Unsetenv", ["!interp.unrestricted"], [⟨"reflect.ValueOf", "reflect", "ValueOf"⟩, ⟨"interp.env", "interp", "env"⟩], .expr⟩,
   ⟨"os", "Environ", ["!interp.unrestricted"], [⟨"reflect.ValueOf", "reflect", "ValueOf"⟩, ⟨"interp.env", "interp", "env"⟩], .expr⟩,
   ⟨"math/bits", "UintSize", [], [⟨"reflect.ValueOf", "reflect", "ValueOf"⟩, ⟨"constant.MakeInt64", "constant", "MakeInt64"⟩, ⟨"bits.UintSize", "bits", "UintSize"⟩], .expr⟩]

def locals : List LocalDef :=
  [⟨"stdin", [⟨"interp.stdin", "interp", "stdin"⟩], "fmt", "interp.stdin", []⟩,
   ⟨"stdout", [⟨"interp.stdout", "interp", "stdout"⟩], "fmt", "interp.stdout", []⟩,
   ⟨"stderr", [⟨"interp.stderr", "interp", "stderr"⟩], "fmt", "interp.stderr", []⟩,
   ⟨"prog", [⟨"interp.args", "interp", "args"⟩], "flag", "\"\"", [⟨["len(interp.args) > 0"], "interp.args[0]", [⟨"interp.args", "interp", "args"⟩]⟩]⟩,
   ⟨"c", [⟨"flag.NewFlagSet", "flag", "NewFlagSet"⟩, ⟨"prog", "prog", "prog"⟩, ⟨"flag.PanicOnError", "flag", "PanicOnError"⟩, ⟨"stderr", "stderr", "stderr"⟩], "flag", "flag.NewFlagSet(prog, flag.PanicOnError)", []⟩,
   ⟨"newLogger", [⟨"p", "p", "p"⟩, ⟨"reflect.ValueOf", "reflect", "ValueOf"⟩, ⟨"log.New", "log", "New"⟩], "log", "p[\"New\"]", [⟨["interp.unrestricted || !newLogger.IsValid()"], "reflect.ValueOf(log.New)", [⟨"reflect.ValueOf", "reflect", "ValueOf"⟩, ⟨"log.New", "log", "New"⟩]⟩]⟩,
   ⟨"l", [⟨"newLogger.Call", "newLogger", "Call"⟩, ⟨"reflect.Value", "reflect", "Value"⟩, ⟨"reflect.ValueOf", "reflect", "ValueOf"⟩, ⟨"stderr", "stderr", "stderr"⟩, ⟨"log.LstdFlags", "log", "LstdFlags"⟩], "log", "newLogger.Call([]reflect.Value{reflect.ValueOf(stderr), reflect.ValueOf(\"\"), reflect.ValueOf(log.LstdFlags)})[0]", []⟩,
   ⟨"getenv", [⟨"interp.env", "interp", "env"⟩], "os", "func(key string) string { return interp.env[key] }", []⟩]

def uses : List UseCall := [⟨"stdlib", ""⟩, ⟨"interp", ""⟩, ⟨"syscall", "useSyscall"⟩, ⟨"unsafe", "useUnsafe"⟩, ⟨"unrestricted", "useUnrestricted"⟩]

def gateFlags : List GateFlag := [⟨"interactive", "i", ""⟩, ⟨"useSyscall", "syscall", "YAEGI_SYSCALL"⟩, ⟨"useUnrestricted", "unrestricted", "YAEGI_UNRESTRICTED"⟩, ⟨"useUnsafe", "unsafe", "YAEGI_UNSAFE"⟩, ⟨"noAutoImport", "noautoimport", ""⟩]

def newOptions : List (String × String) := [("GoPath", "build.Default.GOPATH"), ("BuildTags", "strings.Split(tags, \",\")"), ("Env", "os.Environ()"), ("Unrestricted", "useUnrestricted")]

/-- interp/interp.go `type Options` -/
def optionFields : List (String × String) :=
  [("GoPath", "string"), ("BuildTags", "[]string"), ("Stdin", "io.Reader"), ("Stdout", "io.Writer"), ("Stderr", "io.Writer"),
   ("Args", "[]string"), ("Env", "[]string"), ("SourcecodeFilesystem", "fs.FS"), ("Unrestricted", "bool")]

/-- interp/interp.go `New`: every statement that reads a field of Options (see `OptFlow`).
    Streams and Args: the host's value is used exactly when the field is nil (an empty non-nil Args is kept);
    Env: no default at all — nil and empty both leave the initial empty map, and the loop is skipped in unrestricted mode;
    SourcecodeFilesystem: used when non-nil, else the real file system; GoPath: always (never the host's GOPATH);
    BuildTags: used when non-empty, else those of build.Default. -/
def optFlows : List OptFlow :=
  [⟨"Stdin", "stdin", "i.opt.stdin", "default-if", "_ == nil", "os.Stdin", []⟩,
   ⟨"Stdout", "stdout", "i.opt.stdout", "default-if", "_ == nil", "os.Stdout", []⟩,
   ⟨"Stderr", "stderr", "i.opt.stderr", "default-if", "_ == nil", "os.Stderr", []⟩,
   ⟨"Args", "args", "i.opt.args", "default-if", "_ == nil", "os.Args", []⟩,
   ⟨"Unrestricted", "unrestricted", "i.opt.unrestricted", "flag", "_", "zero", []⟩,
   ⟨"Env", "env", "i.opt.env", "range", "", "map[string]string{}", ["!(options.Unrestricted)"]⟩,
   ⟨"SourcecodeFilesystem", "filesystem", "i.opt.filesystem", "set-if", "_ != nil", "&realFS{}", []⟩,
   ⟨"GoPath", "GOPATH", "i.opt.context.GOPATH", "always", "", "", []⟩,
   ⟨"BuildTags", "BuildTags", "i.opt.context.BuildTags", "set-if", "len(_) > 0", "build.Default.BuildTags", []⟩]

def sourceHashes : List (String × String) :=
  [("use.fixStdlib", "c6e0c4ecff823aa7"),
   ("use.Interpreter.Use", "4e42634dd7e03d36"),
   ("interp.Interpreter.ImportUsed", "fdad9fdce34294a2"),
   ("interp.fixKey", "304d3ffc90827c96"),
   ("interp.New.env", "82c172bc294d7950"),
   ("interp.New.options", "59b8e97d5d7065da"),
   ("gta.importSpec", "0643759c43d4c036"),
   ("restricted.osExit", "303ff636090f458b"),
   ("restricted.osFindProcess", "f0ae354e2d0b7566"),
   ("restricted.logNew", "cdfff7bf0e482ce5")]

end YaegiVerif.Expected.C13
