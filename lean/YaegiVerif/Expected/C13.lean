import YaegiVerif.Model.Restricted
/- What the source says today, as read by hand: stdlib/restricted.go, interp/use.go fixStdlib,
   cmd/yaegi/run.go, and the functions of the default table that hand out a host *log.Logger.
   The extractor re-emits the same values into Generated/C13.lean on every run; Props.C13.*_tie compare them. -/
namespace YaegiVerif.Expected.C13
open YaegiVerif.Restricted

def loggerReturning : List LoggerSrc :=
  [⟨"log", "Default", .host "log" "Default", ["*log.Logger"]⟩,
   ⟨"log/slog", "NewLogLogger", .host "slog" "NewLogLogger", ["*log.Logger"]⟩,
   ⟨"log/syslog", "NewLogger", .host "syslog" "NewLogger", ["*log.Logger", "error"]⟩]

def decls : List Decl :=
  [⟨"osExit", [], [⟨"panic", "panic", "panic"⟩, ⟨"strconv.Itoa", "strconv", "Itoa"⟩]⟩,
   ⟨"osFindProcess", ["os.Process", "error"], [⟨"os.Getpid", "os", "Getpid"⟩, ⟨"os.FindProcess", "os", "FindProcess"⟩]⟩,
   ⟨"logFatal", [], [⟨"log.Panic", "log", "Panic"⟩]⟩,
   ⟨"logFatalf", [], [⟨"log.Panicf", "log", "Panicf"⟩]⟩,
   ⟨"logFatalln", [], [⟨"log.Panicln", "log", "Panicln"⟩]⟩,
   ⟨"logNew", ["logLogger"], [⟨"log.New", "log", "New"⟩]⟩,
   ⟨"logLogger.Fatal", [], [⟨"l.l.Panic", "l", "Panic"⟩]⟩,
   ⟨"logLogger.Fatalf", [], [⟨"l.l.Panicf", "l", "Panicf"⟩]⟩,
   ⟨"logLogger.Fatalln", [], [⟨"l.l.Panicln", "l", "Panicln"⟩]⟩,
   ⟨"logLogger.Flags", ["int"], [⟨"l.l.Flags", "l", "Flags"⟩]⟩,
   ⟨"logLogger.Output", ["error"], [⟨"l.l.Output", "l", "Output"⟩]⟩,
   ⟨"logLogger.Panic", [], [⟨"l.l.Panic", "l", "Panic"⟩]⟩,
   ⟨"logLogger.Panicf", [], [⟨"l.l.Panicf", "l", "Panicf"⟩]⟩,
   ⟨"logLogger.Panicln", [], [⟨"l.l.Panicln", "l", "Panicln"⟩]⟩,
   ⟨"logLogger.Prefix", ["string"], [⟨"l.l.Prefix", "l", "Prefix"⟩]⟩,
   ⟨"logLogger.Print", [], [⟨"l.l.Print", "l", "Print"⟩]⟩,
   ⟨"logLogger.Printf", [], [⟨"l.l.Printf", "l", "Printf"⟩]⟩,
   ⟨"logLogger.Println", [], [⟨"l.l.Println", "l", "Println"⟩]⟩,
   ⟨"logLogger.SetFlags", [], [⟨"l.l.SetFlags", "l", "SetFlags"⟩]⟩,
   ⟨"logLogger.SetOutput", [], [⟨"l.l.SetOutput", "l", "SetOutput"⟩]⟩,
   ⟨"logLogger.Writer", ["io.Writer"], [⟨"l.l.Writer", "l", "Writer"⟩]⟩]

def rebinds : List Rebind :=
  [⟨"fmt", "Print", [], [⟨"reflect.ValueOf", "reflect", "ValueOf"⟩, ⟨"fmt.Fprint", "fmt", "Fprint"⟩, ⟨"stdout", "stdout", "stdout"⟩]⟩,
   ⟨"fmt", "Printf", [], [⟨"reflect.ValueOf", "reflect", "ValueOf"⟩, ⟨"fmt.Fprintf", "fmt", "Fprintf"⟩, ⟨"stdout", "stdout", "stdout"⟩]⟩,
   ⟨"fmt", "Println", [], [⟨"reflect.ValueOf", "reflect", "ValueOf"⟩, ⟨"fmt.Fprintln", "fmt", "Fprintln"⟩, ⟨"stdout", "stdout", "stdout"⟩]⟩,
   ⟨"fmt", "Scan", [], [⟨"reflect.ValueOf", "reflect", "ValueOf"⟩, ⟨"fmt.Fscan", "fmt", "Fscan"⟩, ⟨"stdin", "stdin", "stdin"⟩]⟩,
   ⟨"fmt", "Scanf", [], [⟨"reflect.ValueOf", "reflect", "ValueOf"⟩, ⟨"fmt.Fscanf", "fmt", "Fscanf"⟩, ⟨"stdin", "stdin", "stdin"⟩]⟩,
   ⟨"fmt", "Scanln", [], [⟨"reflect.ValueOf", "reflect", "ValueOf"⟩, ⟨"fmt.Fscanln", "fmt", "Fscanln"⟩, ⟨"stdin", "stdin", "stdin"⟩]⟩,
   ⟨"flag", "CommandLine", [], [⟨"reflect.ValueOf", "reflect", "ValueOf"⟩, ⟨"c", "c", "c"⟩]⟩,
   ⟨"log", "Fatal", [], [⟨"reflect.ValueOf", "reflect", "ValueOf"⟩, ⟨"l.Panic", "l", "Panic"⟩]⟩,
   ⟨"log", "Fatalf", [], [⟨"reflect.ValueOf", "reflect", "ValueOf"⟩, ⟨"l.Panicf", "l", "Panicf"⟩]⟩,
   ⟨"log", "Fatalln", [], [⟨"reflect.ValueOf", "reflect", "ValueOf"⟩, ⟨"l.Panicln", "l", "Panicln"⟩]⟩,
   ⟨"log", "Flags", [], [⟨"reflect.ValueOf", "reflect", "ValueOf"⟩, ⟨"l.Flags", "l", "Flags"⟩]⟩,
   ⟨"log", "Output", [], [⟨"reflect.ValueOf", "reflect", "ValueOf"⟩, ⟨"l.Output", "l", "Output"⟩]⟩,
   ⟨"log", "Panic", [], [⟨"reflect.ValueOf", "reflect", "ValueOf"⟩, ⟨"l.Panic", "l", "Panic"⟩]⟩,
   ⟨"log", "Panicf", [], [⟨"reflect.ValueOf", "reflect", "ValueOf"⟩, ⟨"l.Panicf", "l", "Panicf"⟩]⟩,
   ⟨"log", "Panicln", [], [⟨"reflect.ValueOf", "reflect", "ValueOf"⟩, ⟨"l.Panicln", "l", "Panicln"⟩]⟩,
   ⟨"log", "Prefix", [], [⟨"reflect.ValueOf", "reflect", "ValueOf"⟩, ⟨"l.Prefix", "l", "Prefix"⟩]⟩,
   ⟨"log", "Print", [], [⟨"reflect.ValueOf", "reflect", "ValueOf"⟩, ⟨"l.Print", "l", "Print"⟩]⟩,
   ⟨"log", "Printf", [], [⟨"reflect.ValueOf", "reflect", "ValueOf"⟩, ⟨"l.Printf", "l", "Printf"⟩]⟩,
   ⟨"log", "Println", [], [⟨"reflect.ValueOf", "reflect", "ValueOf"⟩, ⟨"l.Println", "l", "Println"⟩]⟩,
   ⟨"log", "SetFlags", [], [⟨"reflect.ValueOf", "reflect", "ValueOf"⟩, ⟨"l.SetFlags", "l", "SetFlags"⟩]⟩,
   ⟨"log", "SetOutput", [], [⟨"reflect.ValueOf", "reflect", "ValueOf"⟩, ⟨"l.SetOutput", "l", "SetOutput"⟩]⟩,
   ⟨"log", "SetPrefix", [], [⟨"reflect.ValueOf", "reflect", "ValueOf"⟩, ⟨"l.SetPrefix", "l", "SetPrefix"⟩]⟩,
   ⟨"log", "Writer", [], [⟨"reflect.ValueOf", "reflect", "ValueOf"⟩, ⟨"l.Writer", "l", "Writer"⟩]⟩,
   ⟨"os", "Args", [], [⟨"reflect.ValueOf", "reflect", "ValueOf"⟩, ⟨"interp.args", "interp", "args"⟩]⟩,
   ⟨"os", "Stdin", ["interp.specialStdio"], [⟨"reflect.ValueOf", "reflect", "ValueOf"⟩, ⟨"stdin", "stdin", "stdin"⟩]⟩,
   ⟨"os", "Stdout", ["interp.specialStdio"], [⟨"reflect.ValueOf", "reflect", "ValueOf"⟩, ⟨"stdout", "stdout", "stdout"⟩]⟩,
   ⟨"os", "Stderr", ["interp.specialStdio"], [⟨"reflect.ValueOf", "reflect", "ValueOf"⟩, ⟨"stderr", "stderr", "stderr"⟩]⟩,
   ⟨"os", "Stdin", ["!(interp.specialStdio)", "stdin.(*os.File)"], [⟨"reflect.ValueOf", "reflect", "ValueOf"⟩, ⟨"s", "s", "s"⟩, ⟨"stdin", "stdin", "stdin"⟩]⟩,
   ⟨"os", "Stdout", ["!(interp.specialStdio)", "stdout.(*os.File)"], [⟨"reflect.ValueOf", "reflect", "ValueOf"⟩, ⟨"s", "s", "s"⟩, ⟨"stdout", "stdout", "stdout"⟩]⟩,
   ⟨"os", "Stderr", ["!(interp.specialStdio)", "stderr.(*os.File)"], [⟨"reflect.ValueOf", "reflect", "ValueOf"⟩, ⟨"s", "s", "s"⟩, ⟨"stderr", "stderr", "stderr"⟩]⟩,
   ⟨"os", "Clearenv", ["!interp.unrestricted"], [⟨"reflect.ValueOf", "reflect", "ValueOf"⟩, ⟨"interp.env", "interp", "env"⟩]⟩,
   ⟨"os", "ExpandEnv", ["!interp.unrestricted"], [⟨"reflect.ValueOf", "reflect", "ValueOf"⟩, ⟨"os.Expand", "os", "Expand"⟩, ⟨"getenv", "getenv", "getenv"⟩]⟩,
   ⟨"os", "Getenv", ["!interp.unrestricted"], [⟨"reflect.ValueOf", "reflect", "ValueOf"⟩, ⟨"getenv", "getenv", "getenv"⟩]⟩,
   ⟨"os", "LookupEnv", ["!interp.unrestricted"], [⟨"reflect.ValueOf", "reflect", "ValueOf"⟩, ⟨"interp.env", "interp", "env"⟩]⟩,
   ⟨"os", "Setenv", ["!interp.unrestricted"], [⟨"reflect.ValueOf", "reflect", "ValueOf"⟩, ⟨"interp.env", "interp", "env"⟩]⟩,
   ⟨"os", "Unsetenv", ["!interp.unrestricted"], [⟨"reflect.ValueOf", "reflect", "ValueOf"⟩, ⟨"interp.env", "interp", "env"⟩]⟩,
   ⟨"os", "Environ", ["!interp.unrestricted"], [⟨"reflect.ValueOf", "reflect", "ValueOf"⟩, ⟨"interp.env", "interp", "env"⟩]⟩,
   ⟨"math/bits", "UintSize", [], [⟨"reflect.ValueOf", "reflect", "ValueOf"⟩, ⟨"constant.MakeInt64", "constant", "MakeInt64"⟩, ⟨"bits.UintSize", "bits", "UintSize"⟩]⟩]

def locals : List LocalDef :=
  [⟨"stdin", [⟨"interp.stdin", "interp", "stdin"⟩]⟩,
   ⟨"stdout", [⟨"interp.stdout", "interp", "stdout"⟩]⟩,
   ⟨"stderr", [⟨"interp.stderr", "interp", "stderr"⟩]⟩,
   ⟨"c", [⟨"flag.NewFlagSet", "flag", "NewFlagSet"⟩, ⟨"os.Args", "os", "Args"⟩, ⟨"flag.PanicOnError", "flag", "PanicOnError"⟩, ⟨"stderr", "stderr", "stderr"⟩]⟩,
   ⟨"l", [⟨"log.New", "log", "New"⟩, ⟨"stderr", "stderr", "stderr"⟩, ⟨"log.LstdFlags", "log", "LstdFlags"⟩]⟩,
   ⟨"getenv", [⟨"interp.env", "interp", "env"⟩]⟩]

def uses : List UseCall := [⟨"stdlib", ""⟩, ⟨"interp", ""⟩, ⟨"syscall", "useSyscall"⟩, ⟨"unsafe", "useUnsafe"⟩, ⟨"unrestricted", "useUnrestricted"⟩]

def gateFlags : List GateFlag := [⟨"interactive", "i", ""⟩, ⟨"useSyscall", "syscall", "YAEGI_SYSCALL"⟩, ⟨"useUnrestricted", "unrestricted", "YAEGI_UNRESTRICTED"⟩, ⟨"useUnsafe", "unsafe", "YAEGI_UNSAFE"⟩, ⟨"noAutoImport", "noautoimport", ""⟩]

def newOptions : List (String × String) := [("GoPath", "build.Default.GOPATH"), ("BuildTags", "strings.Split(tags, \",\")"), ("Env", "os.Environ()"), ("Unrestricted", "useUnrestricted")]

/-- interp/interp.go `type Options` -/
def optionFields : List (String × String) :=
  [("GoPath", "string"), ("BuildTags", "[]string"), ("Stdin", "io.Reader"), ("Stdout", "io.Writer"), ("Stderr", "io.Writer"),
   ("Args", "[]string"), ("Env", "[]string"), ("SourcecodeFilesystem", "fs.FS"), ("Unrestricted", "bool")]

/-- interp/interp.go `New`: every statement that reads a field of Options (see `OptFlow`).
    Streams and Args: the host's value is used exactly when the field is nil (an empty non-nil Args is kept);
    Env: no default at all — nil and empty both leave the initial empty map, and the loop is skipped in unrestricted mode;
    SourcecodeFilesystem: used when non-nil, else the real file system; GoPath: always (never the host's GOPATH);
    BuildTags: used when non-empty, else those of build.Default. -/
def optFlows : List OptFlow :=
  [⟨"Stdin", "stdin", "i.opt.stdin", "default-if", "_ == nil", "os.Stdin", []⟩,
   ⟨"Stdout", "stdout", "i.opt.stdout", "default-if", "_ == nil", "os.Stdout", []⟩,
   ⟨"Stderr", "stderr", "i.opt.stderr", "default-if", "_ == nil", "os.Stderr", []⟩,
   ⟨"Args", "args", "i.opt.args", "default-if", "_ == nil", "os.Args", []⟩,
   ⟨"Unrestricted", "unrestricted", "i.opt.unrestricted", "flag", "_", "zero", []⟩,
   ⟨"Env", "env", "i.opt.env", "range", "", "map[string]string{}", ["!(options.Unrestricted)"]⟩,
   ⟨"SourcecodeFilesystem", "filesystem", "i.opt.filesystem", "set-if", "_ != nil", "&realFS{}", []⟩,
   ⟨"GoPath", "GOPATH", "i.opt.context.GOPATH", "always", "", "", []⟩,
   ⟨"BuildTags", "BuildTags", "i.opt.context.BuildTags", "set-if", "len(_) > 0", "build.Default.BuildTags", []⟩]

def sourceHashes : List (String × String) :=
  [("use.fixStdlib", "89411da84378427f"),
   ("use.Interpreter.Use", "4e42634dd7e03d36"),
   ("interp.Interpreter.ImportUsed", "fdad9fdce34294a2"),
   ("interp.fixKey", "304d3ffc90827c96"),
   ("interp.New.env", "82c172bc294d7950"),
   ("interp.New.options", "59b8e97d5d7065da"),
   ("gta.importSpec", "a8a1223cf5295e74"),
   ("restricted.osExit", "303ff636090f458b"),
   ("restricted.osFindProcess", "f0ae354e2d0b7566"),
   ("restricted.logNew", "cdfff7bf0e482ce5")]

end YaegiVerif.Expected.C13
