import YaegiVerif.Model.Conc
import YaegiVerif.Model.ConcFrames
/-
  C08 — what the extractor is expected to find in the current source (written by hand from reading
  interp/run.go, interp/op.go, interp/value.go, interp/interp.go).
-/
namespace YaegiVerif.Expected.C08
open YaegiVerif.Conc YaegiVerif.ConcFrames

/-- no closure of run.go / op.go / value.go writes a variable of its generator: since the repair of F08 (`fix:`
    commit in _select) every execution of a select statement works on its own copy of the case vector -/
def closureWrites : CW := []

/-- the table BEFORE the repair: `cases := make([]reflect.SelectCase, nbClause+1)` was built once per statement and
    every execution stored `cases[i].Chan`, `cases[i].Send`, `cases[nbClause]` into it (F08); kept for the
    regression statements of Props/C08.lean -/
def closureWritesOld : CW := [("_select", ["cases"])]

/-- generators named by the model's statement kinds and by the frame model -/
def modelledGenerators : List String :=
  ["assign", "add", "lower", "nop", "send", "recv2", "genBuiltinDeferWrapper", "_select", "callBin", "_return",
   "call", "getFunc", "genFunctionWrapperFor", "rangeChan", "recv"]

def goFacts : GoFacts :=
  { goBinArgsCopied := true,
    srcArgsCopied := true,
    frameInClosure := true,
    wrapperFramePerCall := true,
    wrapperRecvBound := true,
    wrapperLateRecv := "n.recv.node == nil",
    callBinGoArgsCopied := true,
    callBinGoArg := "copyDeferArg(getBinValue(getMapType, v, f))",
    callBinGoStmt := "go callFn(fn, in)",
    getFuncClones := true,
    getFuncAncIsClone := true,
    getFuncStoreLocked := true,
    getFuncNoDefFrameWrite := true,
    cloneLocked := true,
    cloneCopiesData := true,
    callFrameLocked := true,
    selectDoneLocked := true,
    casesPerStatement := true,
    selectCopiesCases := true,
    callArgStores := ["dest[i] = genFunctionWrapper(nod)(f)", "dest[i].Set(val)", "vararg.Set(reflect.Append(vararg, v(f)))", "vararg.Set(v(f))"],
    -- since 1b5ab85 (round 5, F04-20 / F01) the result cells of a call frame are always fresh cells of the callee
    -- (`nf.data[i] = v(f)`, the aliasing of the caller's destination, is gone): every cell of a call frame is private
    frameCellInits := ["nf.data[i] = reflect.New(def.types[i]).Elem()", "nf.data[numRet+i] = reflect.New(t).Elem()"],
    goStmts := ["call: go callf(in)", "call: go runCfg(def.child[3].start, nf, def, n)"],
    newFrameCalls := ["call: nf := newFrame(f, len(def.types), f.runid())", "genFunctionWrapper: fr := newCallFrame(n.interp, f, len(def.types), e)", "getFunc: fr2 := newCallFrame(n.interp, fr, len(n.types), fr.getEpoch())"],
    goValueArgLoop := ["value := v(f)", "in[i] = reflect.New(value.Type()).Elem()", "in[i].Set(value)"],
    goValueArgKinds := [],
    callBinGoArgLoop := ["in[i] = copyDeferArg(getBinValue(getMapType, v, f))"],
    callBinGoArgKinds := [],
    srcArgLoopHash := "13eb101a47871afb",
    srcArgKinds := ["reflect.Interface"],
    wrapperCellsFresh := true,
    wrapperCellInits := ["d[i] = reflect.New(t).Elem()"],
    wrapperCellSets := ["d[i].Set(arg)", "d[i].Set(reflect.ValueOf(valueInterface{value: arg.Elem()}))", "d[numRet].Set(bindRecv())", "d[numRet].Set(recv)"],
    getFuncCellsFresh := true,
    getFuncCellInits := ["d[i] = reflect.New(t).Elem()"],
    getFuncCellSets := ["d[i].Set(arg)", "d[i].Set(reflect.ValueOf(valueInterface{value: arg.Elem()}))"] }

/-- fingerprints of the functions transcribed by Model/Conc.lean (`_select`, `clauseChanDir`) and
    Model/ConcFrames.lean (`getFunc`, `frame.clone`, `newFrame`, `copyDeferArg`: reflect.New(t).Elem() + Set; `newCallFrame`: a frame whose anc is the given frame (the clone / the wrapper's frame), with the interpreter's current
    run id and done channel read under interp.mutex, and the epoch of the function value; `newFrame` and `frame.clone` carry the epoch;
    `genValueRecv`: a receiver without node is the constant `n.recv.val`, not a frame read) -/
def sourceHashes : List (String × String) :=
  [("_select", "cd8dc2eaadeedc62"),
   ("clauseChanDir", "16908262bfe9789f"),
   ("getFunc", "b1cec79847c23ec5"),
   ("frame.clone", "288c927fcf00073e"),
   ("newFrame", "8d3a53ebf9cf8afa"),
   ("copyDeferArg", "d8586ba1ea695e54"),
   ("newCallFrame", "40f1e0d7f7a1dce0"),
   ("genValueRecv", "a3dad7fc975e9eb7")]

end YaegiVerif.Expected.C08
