import YaegiVerif.Model.RunId
/- What interp/interp.go, interp/program.go and interp/run.go say today, as read by hand.
   The extractor re-emits the same record into Generated/C09.lean (and Generated/C10.lean) on every run;
   `Props.C09.runidfacts_tie` / `Props.C10.runidfacts_tie` compare them. -/
namespace YaegiVerif.Expected.C09
open YaegiVerif.RunId

def facts : RunIdFacts :=
  { callId := .parent,          -- run.go call: newFrame(f, len(def.types), f.runid())
    wrapperId := .parent,       -- run.go genFunctionWrapper: newFrame(f, len(def.types), f.runid())
    closureId := .parent,       -- run.go getFunc: fr := f.clone(); newFrame(fr, len(n.types), fr.runid())
    cloneKeepsId := true,       -- interp.go clone: id: f.runid()
    cloneKeepsDone := true,     --                  done: f.done   (F09-2)
    entryId := .interp,         -- run.go (*Interpreter).run: newFrame(cf, len(n.types), interp.runid())
    entryRootShared := true,    --   if cf == nil { f = interp.frame }
    guardPlain := true,         -- run.go runCfg: for exec := n.exec; exec != nil && f.runid() == n.interp.runid(); {
    guardDebug := true,         --               for m, exec := n, n.exec; f.runid() == n.interp.runid(); {
    stopBumps := true,          -- interp.go stop: atomic.AddUint64(&interp.id, 1)
    stopCloses := true,         --                 close(interp.done)
    execRefresh := true,        -- program.go Execute: interp.frame.setrunid(interp.runid())
    execChecksCancel := false,  -- program.go Execute walks its whole run list whatever happened (F09)
    watcherStops := true,       -- case <-ctx.Done(): interp.stop()
    watcherCtxErr := true,      --                    return reflect.Value{}, ctx.Err()
    ctxSetsCancelChan := true,  -- interp.cancelChan = !interp.opt.fastChan; interp.done = make(chan struct{})
    recv := { doneCase := true, byFlag := true, doneEnds := true },    -- variant chosen when generated (F26)
    recv2 := { doneCase := true, byFlag := true, doneEnds := true },
    send := { doneCase := true, byFlag := true, doneEnds := true },
    range := { doneCase := true, byFlag := false, doneEnds := true },
    select := { doneCase := true, byFlag := false, doneEnds := true } }

/-- program.go Execute: root code and global variables run on the root frame, every init (and main,
    appended to p.init by Compile) in a new frame -/
def execRuns : List String := ["p.root, nil", "n, nil", "loop p.init: n, interp.frame"]

/-- fingerprints (extract/common FuncHash) of the small functions Model/RunId.lean was transcribed from -/
def sourceHashes : List (String × String) :=
  [("newFrame", "da1db819d5067f56"),
   ("frame.runid", "b7fc6ada9f6f42f5"),
   ("frame.setrunid", "77219c18ca24e88d"),
   ("frame.clone", "ccd71f62c6588b0a"),
   ("Interpreter.stop", "eef620e47532de64"),
   ("Interpreter.runid", "7284bb1c1cc48ab0"),
   ("Interpreter.EvalWithContext", "ad7b3d0744ee53d6"),
   ("Interpreter.EvalPathWithContext", "456ce9153c2e8f52"),
   ("Interpreter.ExecuteWithContext", "bb4020fdfa140ba6"),
   ("Interpreter.run", "c686d275d40de84f"),
   ("rangeChan", "948ef0190bcb7722")]

/-- the facts a repaired interpreter would have: `Execute` abandons its run list after a cancellation, the
    channel generators do not depend on when they were generated, and a closure's frame does not keep the done
    channel of the evaluation that made it. The specification column (`g=`) of the
    driver is the machine run with these facts; `Props.C09.ideal_*` prove the full statement for them. -/
def ideal : RunIdFacts :=
  { facts with
    execChecksCancel := true,
    cloneKeepsDone := false,
    recv := { doneCase := true, byFlag := false, doneEnds := true },
    recv2 := { doneCase := true, byFlag := false, doneEnds := true },
    send := { doneCase := true, byFlag := false, doneEnds := true } }

end YaegiVerif.Expected.C09
