import YaegiVerif.Model.RunId
/- What interp/interp.go, interp/program.go, interp/run.go and interp/src.go say today, as read by hand.
   The extractor re-emits the same record into Generated/C09.lean (and Generated/C10.lean) on every run;
   `Props.C09.runidfacts_tie` / `Props.C10.runidfacts_tie` compare them. -/
namespace YaegiVerif.Expected.C09
open YaegiVerif.RunId

def facts : RunIdFacts :=
  { callId := .parent,          -- run.go call: newFrame(f, len(def.types), f.runid())
    wrapperId := .root,         -- run.go genFunctionWrapper: newCallFrame(f, len(def.types))              (4a41b28, F10)
    wrapperDone := .root,       --   interp.go newCallFrame: root := anc.root; f := newFrame(anc, length, root.runid());
    closureId := .root,         -- run.go getFunc: fr := f.clone(); newCallFrame(fr, len(n.types))         (4a41b28, F10)
    closureDone := .root,       --   f.done = root.done                                                    (1578873, F09-2)
    cloneKeepsId := true,       -- interp.go clone: id: f.runid()
    cloneKeepsDone := true,     --                  done: f.done   (no longer looked at by newCallFrame)
    entryId := .parent,         -- run.go (*Interpreter).run: newFrame(cf, len(n.types), cf.runid())       (c403bf5, F09)
    entryRootShared := true,    --   if cf == nil { f = interp.frame }
    guardPlain := true,         -- run.go runCfg: for exec := n.exec; exec != nil && f.runid() == n.interp.runid(); {
    guardDebug := true,         --               for m, exec := n, n.exec; f.runid() == n.interp.runid(); {
    stopBumps := true,          -- interp.go stop: atomic.AddUint64(&interp.id, 1)
    stopCloses := true,         --                 close(interp.done)
    stopRenews := true,         --                 interp.done = make(chan struct{})                       (ba001d8)
    execRefresh := true,        -- program.go Execute: interp.frame.setrunid(interp.runid())
    execRefreshAtReturn := true, --                    defer func() { interp.frame.setrunid(interp.runid()) }()   (4a41b28)
    execChecksCancel := false,  -- program.go Execute walks its whole run list whatever happened (the entries are stale)
    importRefresh := true,      -- src.go importSrc: interp.frame.setrunid(interp.runid()) before the entry points (2667a11)
    watcherStops := true,       -- case <-ctx.Done(): interp.stop()
    watcherCtxErr := true,      --                    return reflect.Value{}, ctx.Err()
    ctxFreshDone := true,       -- interp.done = make(chan struct{}) in the three ...WithContext entry points
    ctxSetsCancelChan := false, -- (they no longer touch cancelChan)
    newSetsCancelChan := true,  -- interp.go New: i.cancelChan = !i.opt.fastChan                            (cc65000, F26)
    recv := { doneCase := true, byFlag := true, doneEnds := true },    -- variant chosen when generated: by a flag that is now constant
    recv2 := { doneCase := true, byFlag := true, doneEnds := true },
    send := { doneCase := true, byFlag := true, doneEnds := true },
    range := { doneCase := true, byFlag := false, doneEnds := true },
    select := { doneCase := true, byFlag := false, doneEnds := true },
    recvStoresAfterCheck := true,   -- chosen, v, _ := reflect.Select(…); if chosen == 0 { return nil }; getFrame(f, l).data[i] = v  (50c4f88, cc65000)
    closureRestoresSlot := false }  -- getFunc's wrapper no longer writes getFrame(f, l).data[i] back       (d26dd9e, F09-1)

/-- program.go Execute: root code and global variables run on the root frame, every init (and main,
    appended to p.init by Compile) in a new frame -/
def execRuns : List String := ["p.root, nil", "n, nil", "loop p.init: n, interp.frame"]

/-- fingerprints (extract/common FuncHash) of the small functions Model/RunId.lean was transcribed from -/
def sourceHashes : List (String × String) :=
  [("newFrame", "da1db819d5067f56"),
   ("newCallFrame", "43aa5e7f13021a5b"),
   ("frame.runid", "b7fc6ada9f6f42f5"),
   ("frame.setrunid", "77219c18ca24e88d"),
   ("frame.clone", "ccd71f62c6588b0a"),
   ("Interpreter.stop", "02f62084f0b94724"),                 -- ba001d8: lock, close, fresh channel, unlock
   ("Interpreter.runid", "7284bb1c1cc48ab0"),
   ("Interpreter.EvalWithContext", "dc254e0454ea5c26"),      -- cc65000: the cancelChan assignment is gone
   ("Interpreter.EvalPathWithContext", "8ab1ac4be2fe2922"),  -- cc65000
   ("Interpreter.ExecuteWithContext", "015dc2f92b36711b"),   -- cc65000
   ("Interpreter.run", "313a9867b7b4d0f2"),                  -- c403bf5: cf.runid()
   ("rangeChan", "948ef0190bcb7722")]

/-- the record the extractor produces on the tree before the eight repairs of round 2 (32d4f06): the subject of the
    old-fact witnesses (F09, F26, F09-2 in Props/C09.lean, F10 in Props/C10.lean) -/
def oldFacts : RunIdFacts :=
  { facts with
    wrapperId := .parent, wrapperDone := .inherit, closureId := .parent, closureDone := .inherit,
    entryId := .interp, stopRenews := false, execRefreshAtReturn := false, importRefresh := false,
    ctxSetsCancelChan := true, newSetsCancelChan := false,
    recvStoresAfterCheck := false, closureRestoresSlot := true }

/-- what the property demands of the calls of function values: a frame made by an operation of a frame of the
    cancelled evaluation belongs to that evaluation (it takes that frame's id), whoever made the function value.
    The specification column (`g=`) of the driver is the machine run with these facts; `Props.C09.ideal_full`
    proves the full statement for them. -/
def ideal : RunIdFacts :=
  { facts with wrapperId := .parent, closureId := .parent }

end YaegiVerif.Expected.C09
