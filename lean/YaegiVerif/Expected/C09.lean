import YaegiVerif.Model.RunId
/- What interp/interp.go, interp/program.go, interp/run.go and interp/src.go say today, as read by hand.
   The extractor re-emits the same record into Generated/C09.lean (and Generated/C10.lean) on every run;
   `Props.C09.runidfacts_tie` / `Props.C10.runidfacts_tie` compare them. -/
namespace YaegiVerif.Expected.C09
open YaegiVerif.RunId

def facts : RunIdFacts :=
  { callId := .parent,          -- run.go call: newFrame(f, len(def.types), f.runid())
    wrapperId := .epoch,        -- run.go genFunctionWrapperFor: newCallFrame(n.interp, f, len(def.types), e), e = f.getEpoch() read when the wrapper is generated
    wrapperDone := .interp,     --   interp.go newCallFrame (dc95f3e): RLock; id, done := interp.runid(), interp.done;
    closureId := .epoch,        -- run.go getFunc: fr := f.clone(); newCallFrame(n.interp, fr, len(n.types), fr.getEpoch())
    closureDone := .interp,     --   if e != nil && e.cancelled { id = deadRunID }; RUnlock; &frame{anc, anc.root, id, epoch e, done}
    cloneKeepsId := true,       -- interp.go clone: id: f.runid()
    cloneKeepsDone := true,     --                  done: f.done   (not looked at by newCallFrame)
    entryId := .parent,         -- run.go (*Interpreter).run: newFrame(cf, len(n.types), cf.runid())       (c403bf5, F09)
    entryRootShared := true,    --   if cf == nil { f = interp.frame }
    guardPlain := true,         -- run.go runCfg: for exec := n.exec; exec != nil && f.runid() == n.interp.runid(); {
    guardDebug := true,         --               for m, exec := n, n.exec; f.runid() == n.interp.runid(); {
    stopBumps := true,          -- interp.go stop: atomic.AddUint64(&interp.id, 1)
    stopCloses := true,         --                 close(interp.done)
    stopRenews := true,         --                 interp.done = make(chan struct{})                       (ba001d8)
    execRefresh := true,        -- program.go Execute: defer interp.end(interp.begin()); begin: interp.frame.setrunid(interp.runid())
    execRefreshAtReturn := false, --                   end() refreshes nothing: the deferred refresh of 4a41b28 is gone (dc95f3e)
    execChecksCancel := false,  -- program.go Execute walks its whole run list whatever happened (the entries are stale)
    importRefresh := true,      -- src.go importSrc: defer interp.end(interp.begin()) before the entry points
    watcherStops := true,       -- case <-ctx.Done(): interp.stop()
    watcherCtxErr := true,      --                    return reflect.Value{}, ctx.Err()
    ctxFreshDone := false,      -- the three ...WithContext entry points no longer replace interp.done    (2db9fe7)
    ctxSetsCancelChan := false, -- (nor touch cancelChan)
    newSetsCancelChan := true,  -- interp.go New: i.cancelChan = !i.opt.fastChan                            (cc65000, F26)
    recv := { doneCase := true, byFlag := true, doneEnds := true },    -- variant chosen when generated: by a flag that is constant
    recv2 := { doneCase := true, byFlag := true, doneEnds := true },
    send := { doneCase := true, byFlag := true, doneEnds := true },
    range := { doneCase := true, byFlag := false, doneEnds := true },
    select := { doneCase := true, byFlag := false, doneEnds := true },
    recvStoresAfterCheck := true,   -- chosen, v, _ := reflect.Select(…); if chosen == 0 { return nil }; getFrame(f, l).data[i] = v
    closureRestoresSlot := false,   -- getFunc's wrapper does not write getFrame(f, l).data[i] back         (d26dd9e, F09-1)
    stopMarksEpochs := true,        -- stop: for e := range interp.running { e.cancelled = true }, before the bump   (dc95f3e)
    epochPlumbing := true,          -- begin / end, newFrame: f.epoch = anc's, clone: epoch: f's, wrapper: e = f.getEpoch(), getFunc: fr.getEpoch()
    newMakesDone := true,           -- New: done: make(chan struct{})                                        (2db9fe7)
    hostWrapperNoEpoch := true }    -- Execute's result and Symbols(): genHostFunctionWrapper (nil epoch)

/-- program.go Execute: root code and global variables run on the root frame, every init (and main,
    appended to p.init by Compile) in a new frame -/
def execRuns : List String := ["p.root, nil", "n, nil", "loop p.init: n, interp.frame"]

/-- fingerprints (extract/common FuncHash) of the small functions Model/RunId.lean was transcribed from -/
def sourceHashes : List (String × String) :=
  [("newFrame", "8d3a53ebf9cf8afa"),                         -- dc95f3e: f.epoch = anc's
   ("newCallFrame", "40f1e0d7f7a1dce0"),                     -- dc95f3e
   ("frame.runid", "b7fc6ada9f6f42f5"),
   ("frame.setrunid", "77219c18ca24e88d"),
   ("frame.clone", "288c927fcf00073e"),                      -- dc95f3e: epoch copied
   ("Interpreter.stop", "b5b2150d417ec13c"),                 -- dc95f3e: running epochs marked first
   ("Interpreter.begin", "326ee6ac1beb32eb"),
   ("Interpreter.end", "b1f6e88034b124db"),
   ("Interpreter.runid", "7284bb1c1cc48ab0"),
   ("Interpreter.EvalWithContext", "876c6e80fed18d2c"),      -- 2db9fe7: the per-call done channel is gone
   ("Interpreter.EvalPathWithContext", "47c0649be8256334"),  -- 2db9fe7
   ("Interpreter.ExecuteWithContext", "c69d60d7c666c1ce"),   -- 2db9fe7
   ("Interpreter.run", "313a9867b7b4d0f2"),                  -- c403bf5: cf.runid()
   ("rangeChan", "948ef0190bcb7722")]

/-- the record the extractor produces on the tree before the epoch repair (48cb9d4: after the eight repairs of round 2):
    the subject of the witnesses of F09-3 (Props/C09.lean), F10-1 and F10-3 (Props/C10.lean) -/
def round2Facts : RunIdFacts :=
  { facts with
    wrapperId := .root, wrapperDone := .root, closureId := .root, closureDone := .root,
    execRefreshAtReturn := true, ctxFreshDone := true,
    stopMarksEpochs := false, epochPlumbing := false, newMakesDone := false, hostWrapperNoEpoch := false }

/-- the record the extractor produces on the tree before the eight repairs of round 2 (32d4f06): the subject of the
    old-fact witnesses (F09, F26, F09-2 in Props/C09.lean, F10 in Props/C10.lean) -/
def oldFacts : RunIdFacts :=
  { round2Facts with
    wrapperId := .parent, wrapperDone := .inherit, closureId := .parent, closureDone := .inherit,
    entryId := .interp, stopRenews := false, execRefreshAtReturn := false, importRefresh := false,
    ctxSetsCancelChan := true, newSetsCancelChan := false,
    recvStoresAfterCheck := false, closureRestoresSlot := true }

/-- what the property demands of the calls of function values: a frame made by an operation of a frame of the
    cancelled evaluation belongs to that evaluation (it takes that frame's id), whoever made the function value — one
    of an earlier evaluation included. The specification column (`g=`) of the driver is the machine run with these
    facts; `Props.C09.ideal_full` proves the full statement for them. -/
def ideal : RunIdFacts :=
  { facts with wrapperId := .parent, closureId := .parent }

end YaegiVerif.Expected.C09
