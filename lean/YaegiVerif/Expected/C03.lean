import YaegiVerif.Model.Const
import YaegiVerif.Model.ConstDecl
/- What interp/typecheck.go, interp/cfg.go and interp/op.go say today, as read by hand. The extractor
   re-emits the same records into Generated/C03.lean on every run; the `*_tie` theorems compare them. -/
namespace YaegiVerif.Expected.C03
open YaegiVerif.Const

def reprFacts : ReprFacts :=
  { bitlen := [(.int, 64), (.int8, 8), (.int16, 16), (.int32, 32), (.int64, 64),
               (.uint, 64), (.uint8, 8), (.uint16, 16), (.uint32, 32), (.uint64, 64), (.uintptr, 64)],
    pre := [(.int, .int64Range), (.int8, .int64Range), (.int16, .int64Range), (.int32, .int64Range), (.int64, .int64Range),
            (.uint, .uint64Val), (.uint8, .uint64Val), (.uint16, .uint64Val), (.uint32, .uint64Val),
            (.uint64, .uint64Val), (.uintptr, .uint64Val)],
    cmp := .le,
    lo := .le,
    hi := .le }

/-- the signed arm as it was before the repair of F03 (`Int64Val` guard, then the final `BitLen` test): what the
    extractor emits for a source in which the repair is reverted -/
def reprFactsBefore : ReprFacts :=
  { reprFacts with
    pre := [(.int, .int64Val), (.int8, .int64Val), (.int16, .int64Val), (.int32, .int64Val), (.int64, .int64Val),
            (.uint, .uint64Val), (.uint8, .uint64Val), (.uint16, .uint64Val), (.uint32, .uint64Val),
            (.uint64, .uint64Val), (.uintptr, .uint64Val)] }

/-- interp/cfg.go `constOp` -/
def constOp : List (Act × String) :=
  [(.add, "addConst"), (.sub, "subConst"), (.mul, "mulConst"), (.quo, "quoConst"), (.rem, "remConst"),
   (.and, "andConst"), (.or, "orConst"), (.shl, "shlConst"), (.shr, "shrConst"), (.andNot, "andNotConst"),
   (.xor, "xorConst"), (.not, "notConst"), (.bitNot, "bitNotConst"), (.neg, "negConst"), (.pos, "posConst"),
   (.eq, "compareConst"), (.ne, "compareConst"), (.lt, "compareConst"), (.le, "compareConst"),
   (.gt, "compareConst"), (.ge, "compareConst")]

/-- the map before b3f92e0: comparisons have no folding function -/
def constOpBeforeR3 : List (Act × String) := constOp.take 15

/-- interp/op.go: what each folding function hands to go/constant, and the Go operator of its typed arms -/
def folds : List FoldFn :=
  [{ name := "addConst", entry := .binaryOp, tok := .add, toInt := false, bothConst := true,
     typed := [(.str, .add), (.fltExact, .add), (.uint, .add), (.sint, .add)] },
   { name := "subConst", entry := .binaryOp, tok := .sub, toInt := false, bothConst := true,
     typed := [(.fltExact, .sub), (.uint, .sub), (.sint, .sub)] },
   { name := "mulConst", entry := .binaryOp, tok := .mul, toInt := false, bothConst := true,
     typed := [(.fltExact, .mul), (.uint, .mul), (.sint, .mul)] },
   { name := "quoConst", entry := .binaryOp, tok := .byQuoSwitch, toInt := false, bothConst := true,
     typed := [(.fltExact, .quo), (.uint, .quo), (.sint, .quo)] },
   { name := "remConst", entry := .binaryOp, tok := .rem, toInt := true, bothConst := true,
     typed := [(.uint, .rem), (.sint, .rem)] },
   { name := "andConst", entry := .binaryOp, tok := .and, toInt := true, bothConst := true,
     typed := [(.uint, .and), (.sint, .and)] },
   { name := "orConst", entry := .binaryOp, tok := .or, toInt := true, bothConst := true,
     typed := [(.uint, .or), (.sint, .or)] },
   { name := "xorConst", entry := .binaryOp, tok := .xor, toInt := true, bothConst := true,
     typed := [(.uint, .xor), (.sint, .xor)] },
   { name := "andNotConst", entry := .binaryOp, tok := .andNot, toInt := true, bothConst := true,
     typed := [(.uint, .andNot), (.sint, .andNot)] },
   { name := "shlConst", entry := .shift, tok := .shl, toInt := false, bothConst := false,
     typed := [(.uint, .shl), (.sint, .shl)] },
   { name := "shrConst", entry := .shift, tok := .shr, toInt := false, bothConst := false,
     typed := [(.uint, .shr), (.sint, .shr)] },
   { name := "negConst", entry := .unaryOp, tok := .sub, toInt := false, bothConst := false,
     typed := [(.uint, .sub), (.sint, .sub), (.fltExact, .sub)] },
   { name := "posConst", entry := .unaryOp, tok := .add, toInt := false, bothConst := false,
     typed := [(.uint, .add), (.sint, .add), (.fltExact, .add)] },
   { name := "bitNotConst", entry := .unaryOp, tok := .xor, toInt := false, bothConst := false,
     typed := [(.uint, .xor), (.sint, .xor)] },
   { name := "notConst", entry := .unaryOp, tok := .not, toInt := false, bothConst := false,
     typed := [(.bool, .not)] },
   { name := "compareConst", entry := .compare, tok := .other, toInt := false, bothConst := false, typed := [] }]

/-- interp/op.go quoConst: integer quotient (QUO_ASSIGN) exactly when both operand constants are of kind Int
    (since the repair of F48; before: when the node type, copied from the context, was untyped and integer) -/
def quoSwitch : QuoSwitch :=
  { cond := "c0.Kind() == constant.Int && c1.Kind() == constant.Int", rule := .operandKinds,
    thenTok := .quoAssign, elseTok := .quo }

/-- interp/typecheck.go `constToken` -/
def constToken : List (Act × Tok) :=
  [(.add, .add), (.sub, .sub), (.mul, .mul), (.quo, .quo), (.rem, .rem), (.and, .and), (.or, .or), (.xor, .xor),
   (.andNot, .andNot), (.shl, .shl), (.shr, .shr), (.neg, .sub), (.pos, .add), (.bitNot, .xor), (.not, .not),
   (.eq, .eql), (.ne, .neq), (.lt, .lss), (.le, .leq), (.gt, .gtr), (.ge, .geq)]

/-- the checks around the folds as they stand after the repairs of the third round (b080dc4 … ce5712d) -/
def checkFacts : CheckFacts :=
  { constExprBin := true, constExprUn := true, overflowBin := true, overflowUn := true,
    intBitsMax := some 512, shiftCountMax := some 1074, shiftClamp := 512, quoIntExact := true,
    quoEarlyReturn := false, zeroForm := .anyConst, untypedStays := true, floatShiftCount := true,
    convTypedChecked := true, reprConstValue := true, boolConvChecked := true, foldLogical := true,
    cmpNotPushed := true, lenConstString := true, runeLitKeepsType := true, f32Direct := true,
    shiftBoolGuard := true, addSkipsUntyped := true, operandTypeWins := true, codepointChecked := true,
    lenAnyConstString := true, litBitsMax := some 512, shiftUntypedInt := true }

/-- the same before those repairs (what the extractor emits for a tree in which all of them are reverted) -/
def checkFactsBeforeR3 : CheckFacts :=
  { constExprBin := false, constExprUn := false, overflowBin := false, overflowUn := false,
    intBitsMax := none, shiftCountMax := none, shiftClamp := 512, quoIntExact := false,
    quoEarlyReturn := true, zeroForm := .untypedOnly, untypedStays := false, floatShiftCount := false,
    convTypedChecked := false, reprConstValue := false, boolConvChecked := false, foldLogical := false,
    cmpNotPushed := false, lenConstString := false, runeLitKeepsType := false, f32Direct := true,
    shiftBoolGuard := false, addSkipsUntyped := false, operandTypeWins := false, codepointChecked := false,
    lenAnyConstString := false, litBitsMax := none, shiftUntypedInt := false }

def evalFacts : EvalFacts :=
  { constOp := constOp, folds := folds, quo := quoSwitch, fixSkipsConst := true, constToken := constToken, chk := checkFacts }

/-- the folding functions before 149d328: the floating-point and complex arms compute with Go run-time arithmetic -/
def foldsBeforeR5 : List FoldFn :=
  folds.map fun g => { g with typed := g.typed.flatMap fun p => if p.1 == .fltExact then [(.cplx, p.2), (.flt, p.2)] else [p] }

/-- the facts before the repairs of the third round -/
def evalFactsBeforeR3 : EvalFacts :=
  { evalFacts with constOp := constOpBeforeR3, folds := foldsBeforeR5.take 15, constToken := [], chk := checkFactsBeforeR3 }

/-- the checks before the repairs of the fifth round (a1f1717 … 2988c87) -/
def checkFactsBeforeR5 : CheckFacts :=
  { checkFacts with shiftBoolGuard := false, addSkipsUntyped := false, operandTypeWins := false, codepointChecked := false,
                    lenAnyConstString := false, litBitsMax := none, shiftUntypedInt := false }

/-- the facts before 287aa9d (round 6): a constant shift of an untyped constant keeps the type of its left operand -/
def evalFactsBeforeR6 : EvalFacts := { evalFacts with chk := { checkFacts with shiftUntypedInt := false } }

/-- the facts before the repairs of the fifth round -/
def evalFactsBeforeR5 : EvalFacts := { evalFacts with folds := foldsBeforeR5, chk := checkFactsBeforeR5 }

/-- the facts before the repair of F48 (the quotient switch looks at the node type) -/
def evalFactsBeforeF48 : EvalFacts :=
  { evalFacts with quo := { cond := "n.typ.untyped && isInt(n.typ.rtype)", rule := .nodeType,
                            thenTok := .quoAssign, elseTok := .quo } }

/-- interp/gta.go, interp/cfg.go: `if childPos(n) == len(n.anc.child)-1 { sc.iota = 0 } else { sc.iota++ }`;
    interp/ast.go: an implicit spec duplicates type and expression of the previous spec -/
def declFacts : DeclFacts :=
  { gta := { incr := true, reset := true, fromScope := true },
    cfg := { incr := true, reset := true, fromScope := true },
    implicitPrev := true, implicitType := true }

def facts : Facts := { repr := reprFacts, eval := evalFacts }

/-- fingerprints (extract `FuncHash`) of the functions Model/Const*.lean were transcribed from
    (round 7, 2992617: convertUntyped and comparison changed for the untyped nil only — nil converts only to nil,
    `nil == nil` is refused — which no constant of the model is; refreshed after reading the diff) -/
def sourceHashes : List (String × String) :=
  [("representableConst", "2abe3a5d0e4e7f59"),
   ("typecheck.convertUntyped", "273f8dbef05b7961"),
   ("typecheck.representable", "a6193981455303bc"),
   ("typecheck.convertConst", "592472b25770db96"),
   ("typecheck.conversion", "19c297363251c31c"),
   ("typecheck.shift", "c067c5e1eb1cf0af"),
   ("typecheck.binaryExpr", "fd21ccf4b175d203"),
   ("typecheck.unaryExpr", "bd8f95c0aa36fc91"),
   ("typecheck.comparison", "76b5eb4775f94460"),
   ("typecheck.assignment", "b3fe6cb50a1a0a8c"),
   ("typecheck.assignExpr", "139b1b8b5a842d9c"),
   ("zeroConst", "5f34021706e6e18d"),
   ("typecheck.constExpr", "7b97ea14755df658"),
   ("typecheck.constOverflow", "bdddf47d3946a177"),
   ("compareConst", "6de87646444d446c"),
   ("typecheck.logicalExpr", "a24028bbffaf38ba"),
   ("constValue", "22b4b96731178a78"),
   ("isUntypedConst", "7053d9361ff74e30"),
   ("isConstString", "c65ecc9842dc1413"),
   ("setConstFloat", "70d91982d2c2feec"),
   ("addConst", "d762ec763d70355f"),
   ("subConst", "c44078420d8630df"),
   ("mulConst", "24b167e4e1cfa8fc"),
   ("quoConst", "2bef240fe2d94272"),
   ("remConst", "50f24c17fc2965ee"),
   ("andConst", "2eba4fc5353e77b7"),
   ("orConst", "5d6f0134042668e8"),
   ("xorConst", "1f134ac44405366f"),
   ("andNotConst", "9634c953443b56e7"),
   ("shlConst", "42f4b9a97d511ab4"),
   ("shrConst", "646ccc6f66928d80"),
   ("negConst", "ed551a188d24be05"),
   ("posConst", "16ee11687058bb9b"),
   ("bitNotConst", "86c85458b0a6615b"),
   ("notConst", "768c70fd2e84abf5"),
   ("itype.defaultType", "4806c44dfe2828d6"),
   ("scope.fixType", "4b4989a40cb13f43"),
   ("fixUntyped", "8ecf4a4503fdc65a"),
   ("isBoolAction", "87bd50a0e7605485"),
   ("lenConst", "3584bf9234f0180d"),
   ("ast.implicitRepetition", "efddcebc2553cc82")]

end YaegiVerif.Expected.C03
