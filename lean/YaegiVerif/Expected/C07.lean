import YaegiVerif.Model.Boundary
/- What interp/run.go says today, as read by hand: the ordered arms of callBin's per-argument switch, the
   receiver-offset rule, the variadic index, Call/CallSlice, the index expressions of the result stores and the shape of
   the reflect.MakeFunc wrappers. extract/cmd/c07 re-emits the same record into Generated/C07.lean on every run;
   `Props.C07.facts_tie` compares them. -/
namespace YaegiVerif.Expected.C07
open YaegiVerif.Boundary

/-- interp/run.go callBin, runCfg, genFunctionWrapper, getFunc -/
def facts : Facts :=
  { arms := [⟨.emptyIface, .genValue⟩,
      ⟨.ifaceSrc, .unwrapIface⟩,
      ⟨.funcSrc, .funcWrapper⟩,
      ⟨.arrayOrVariadic, .splitElemEmptyIface⟩,
      ⟨.ptrSrc, .splitElemValueT⟩,
      ⟨.valueT, .genValue⟩,
      ⟨.default, .ifaceWrapper⟩],
    outerArms := ["isBinCall(c, c.scope)", "isRegularCall(c)", "default"],
    recvGuardNonIface := true,
    recvGuardGetMethod := true,
    rcvrCond := (.or .variadicGt0 .numInGtArgs),
    variadicSub := 1,
    argTypeCmp := .ge,
    argTypeElem := true,
    argTypeSpreadArm := true,
    defTypeCmp := .ge,
    defTypeElem := false,
    callArms := [⟨.ellipsis, .callSlice⟩, ⟨.variadic, .callVariadic⟩, ⟨.always, .call⟩],
    fvArms := [⟨.ellipsis, .callSlice⟩, ⟨.variadic, .callVariadic⟩, ⟨.always, .call⟩],
    callArgArms := [⟨.spreadArg, .raw⟩, ⟨.ifaceSrc, .boxIface⟩, ⟨.ifaceBin, .ifaceWrap⟩, ⟨.funcSrc, .funcValue⟩, ⟨.default, .raw⟩],
    hostMethodBindsRecv := true,
    bindRecvCopies := true,
    cvGuardVariadic := true,
    cvCmp := .eq,
    cvSub := 1,
    cvThen := .callSlice,
    cvAppendZero := true,
    cvElse := .call,
    deferCall := .callVariadic,
    deferWrapBin := true,
    deferWrapCall := true,
    deferWrapKind := .callSlice,
    deferWrapVariadic := false,
    assignSrcIdx := .i,
    assignDstIdx := .i,
    returnDstIdx := (.add .base .i),
    returnBase := .zeroOrOwn,
    defaultDstIdx := (.add .base .i),
    defineXCell := .always,
    branchDstIdx := .base,
    branchStore := .both,
    nestedReadIdx := (.add .base .i),
    wrapFrameIsDefTypes := true,
    wrapFramePerCall := true,
    wrapRecvAtCreation := true,
    wrapRecvHeldAtCall := true,
    ifaceWrapRecvHeld := true,
    getFuncFramePerCall := true,
    wrapArgBase := .base,
    wrapRcvrShift := 1,
    wrapResLo := 0,
    wrapResHi := .base,
    wrapSkipShort := true,
    getFuncResLo := 0,
    getFuncResHi := .base }

/-- fingerprints (extract/common FuncHash) of the functions Model/Boundary.lean was transcribed from -/
def sourceHashes : List (String × String) :=
  [("callBin", "490f082e0fc1bf72"),
   ("genFunctionWrapper", "4feabaa50796f8ae"),
   ("getFunc", "b1cec79847c23ec5"),
   ("call", "4a0aae56534bcf37"),
   ("genInterfaceWrapper", "39c789f3e29ad824"),
   ("methodByName", "cf343e4f55a358c1"),
   ("getFrame", "48dc117bdbd1af33"),
   ("genFunctionWrapperFor", "7ae088f127151d29"),
   ("genHostFunctionWrapper", "fbf22c3d3d999031"),
   ("callVariadic", "a136ff7434f20d7e"),
   ("deferCallSlice", "8195ae3a302030b3"),
   ("runDeferred", "3744dc350d781dfc"),
   ("copyDeferArg", "d8586ba1ea695e54"),
   ("genInterfaceWrapperValue", "d62e22eba6a3bbbe"),
   ("bindRecv", "55f76640c46031d5"),
   ("getIndexBinMethod", "5ec1d14dc1fb9897"),
   ("getIndexBinElemMethod", "bcef8a389dc1e7f4"),
   ("getIndexBinPtrMethod", "603f0463868fd558"),
   ("genValueInterface", "1ef4b98ccbd7c706"),
   ("genValueInterfaceValue", "171a29501f555858"),
   ("valueInterfaceValue", "a7b9b257cb102bd6"),
   ("genFuncValue", "269e90121fb56e6d"),
   ("genValueAsFunctionWrapper", "6490b36d44a28c0a"),
   ("getConcreteValue", "3202c5a7310528d2"),
   ("getBinValue", "cd78607e9f2b0e04"),
   ("genValueArray", "7423f6a50d5d826f"),
   ("genValue", "831b100a10664633"),
   ("genValueRecv", "a3dad7fc975e9eb7"),
   ("Interpreter.Execute", "c568aa6d3c471274"),
   ("newCallFrame", "40f1e0d7f7a1dce0"),
   ("newFrame", "8d3a53ebf9cf8afa"),
   ("Interpreter.Symbols", "946c048ccf8efb14"),
   ("getWrapper", "1311018b7c7efb25"),
   ("Interpreter.Use", "4e42634dd7e03d36"),
   ("Interpreter.Globals", "f94935e512b7f300"),
   ("isEmptyInterface", "71e0dace05f37cee"),
   ("isInterfaceSrc", "cd64fda3180ec95c"),
   ("isFuncSrc", "f239fcc7b3dd6a07"),
   ("isPtrSrc", "002a2100f4db2a99"),
   ("isInterfaceBin", "940cf541865e2590"),
   ("isInterface", "b7328c2ff9fb7bf9"),
   ("wrappedType", "4b35da99ab131b6f"),
   ("isBinCall", "71eb84cb0c19ec10"),
   ("isRegularCall", "259f2c721da371cc"),
   ("variadicPos", "d7663b726c26e3e4"),
   ("childPos", "7ad4b844f77f7498")]

/-- Further reviewed versions of transcribed functions (none at present). The versions listed above were reviewed, function
    by function, against the previously reviewed ones (callBin fad6515f69157102, call f7d2679c6d3b791d, genFunctionWrapper
    2865f1c325015a31, genValueInterface ace589b21eb98d0d); every difference is one of
    * 8600fa9 (F07-2): callBin's `callFn` and the function-value branch of `call` get the arm `variadic >= 0 → callVariadic`
      (facts `callArms`, `fvArms`, `cv*`); runDeferred calls the record with callVariadic (`deferCall`);
    * eef6ac5 (F07-4): the defer arms of callBin / call wrap `val[0]` with deferCallSlice when the call has an ellipsis
      (`deferWrapBin`, `deferWrapCall`, `deferWrapKind`, `deferWrapVariadic`);
    * 3081633: genFunctionWrapper reads the receiver (`rcvr(f)`, unboxing, `Elem`/`Addr`, copy of a value receiver) when the
      wrapper is made and the MakeFunc literal only stores it (`wrapRecvAtCreation`);
    * 312e281: callBin's goStmt arm copies the function value (when addressable) and the arguments with copyDeferArg before
      `go callFn(fn, in)` — not transcribed (no aliasing in the model; goroutines are C08's subject);
    * 16a5ac7: genValueInterface boxes a COPY of an addressable value — the model's `vi` box holds a datum, never a variable;
    * 32d4f06 (reviewed against genFunctionWrapper d3025d79ab731dcf, genInterfaceWrapper c81bdaf729e4a071): the receiver code of
      genFunctionWrapper moves into the closure bindRecv; `late = n.recv.node == nil`; a late receiver is reached inside the
      MakeFunc literal (`case late: d[numRet].Set(bindRecv())`), every other one still outside (`if rcvr != nil && !late`);
      genInterfaceWrapper gives its method wrappers `&receiver{val: rv, index: …}` with `rv := copyDeferArg(valueInterfaceValue(v))`
      (facts `wrapRecvHeldAtCall`, `ifaceWrapRecvHeld`); genValueRecv (now fingerprinted) returns `n.recv.val` for such a record;
    * 4a41b28 + 1578873 (against getFunc e1777a5459c1a52e, Interpreter.Execute eaf1129b747c09aa): the frame of an invocation is
      `newCallFrame(anc, length)` = newFrame with the run id and the cancellation channel of the ROOT frame (interp/interp.go,
      fingerprinted with newFrame) instead of `newFrame(anc, length, anc.runid())`; Execute refreshes the root run id when it
      returns. Run ids and cancellation are not modelled (the frame is still allocated per call: `wrapFramePerCall`,
      `getFuncFramePerCall`);
    * d26dd9e: getFunc no longer restores the literal's frame slot after each call (`o := …` and the epilogue removed) — the
      model's closureCall never had that step; cc65000: Execute no longer sets interp.cancelChan;
    * final sync at the frozen HEAD 48cb9d4 (reviewed against callBin ba3c7c394daa2733, call 13deaf5e1d58559d, genInterfaceWrapper
      3467ccc00694c19f, getBinValue f0affea075ce67fd):
      57dd9e4 (F07-16) callBin's choice of argType becomes a switch whose first arm gives the argument followed by `...` the
      variadic parameter's own slice type (`argTypeSpreadArm`); in `call` the parameter type `arg` of that argument is the slice
      type as well; 5b28270 (F07-17) `call` passes only the spread slice raw (`spread := hasVariadicArgs && i == len(child)-1`
      replaces `hasVariadicArgs` in the three places; `callArgArms`); bbd3913 (F05-19) the body of genInterfaceWrapper moves,
      unchanged, into genInterfaceWrapperValue(n, typ, value) (fingerprinted; the receiver records are read there) and
      getBinValue wraps the value the interface holds; ab0ab0c (F07-15) new helper bindRecv, getIndexBinMethod /
      getIndexBinElemMethod call `.Method(m)` on `bindRecv(…)`, getIndexBinMethod selects a value-receiver method reached through
      a pointer on the pointee (`hostMethodBindsRecv`, `bindRecvCopies`; the three getIndexBin*Method functions are fingerprinted
      now); 2acc7e3 (F07-14) is in cfg.go (the type of the method value of a script pointer to a host value), not fingerprinted;
    * last re-sync at the frozen HEAD fb8122a (reviewed against genFunctionWrapper 033ce6ccd17871ac, getFunc 767f1bf470b0d0fd,
      Interpreter.Execute 19fb5462ea693d28, Interpreter.Symbols 38f5e077316d112e, newCallFrame 43aa5e7f13021a5b, newFrame
      da1db819d5067f56): dc95f3e — the body of genFunctionWrapper moves, with two additions, into genFunctionWrapperFor(n, host);
      genFunctionWrapper / genHostFunctionWrapper are the one-line delegations with host = false / true (checked by the extractor,
      all three fingerprinted); the additions: `var e *epoch; if !host { e = f.getEpoch() }` when the wrapper is generated, and
      the frame of an invocation is `newCallFrame(n.interp, f, len(def.types), e)` (getFunc: `newCallFrame(n.interp, fr,
      len(n.types), fr.getEpoch())`), still inside the reflect.MakeFunc literal; newCallFrame builds the frame itself (`length`
      cells, ancestor `anc`, the interpreter's current run id and cancellation channel read under one RLock, deadRunID when the
      epoch was cancelled); newFrame copies the ancestor's epoch; Execute brackets the evaluation with begin()/end() instead of
      setting / refreshing the root's run id and returns genHostFunctionWrapper(n); Symbols uses genHostFunctionWrapper;
      2db9fe7 — Execute no longer replaces interp.done. Epochs, run ids and cancellation are not modelled: the tied facts
      (frame of len(def.types) cells allocated per call, receiver binding, result slices) read as before;
    * round-5 re-sync at HEAD 52cb9ff (reviewed against callBin 91abce538f1eb63f, call 382b1d010889c322; `git diff green-r4..HEAD`):
      b1e4f7b (F07-3) callBin's receiver guard gains `c0.action == aGetMethod` (fact `recvGuardGetMethod`: no receiver offset for a
      variable holding a method value); 1b5ab85 `call` gives every result a fresh cell (`nf.data[i] = reflect.New(def.types[i]).Elem()`)
      and copies it to the destination after runCfg — what innerCall always did (fresh frame, results read from its first cells);
      nothing else changed in a fingerprinted function (7c18bb6 doCompositeBinStruct, 0a3a691 _return, cfg.go / ast.go repairs
      of F07-5/6/7/18 are outside the transcribed functions);
    * round-6 re-sync at HEAD 7171cc6 (callBin reviewed against b0eb89b1723622dd, `git diff 61b9210..HEAD -- interp/run.go`): 28d3d87
      (F04-23) the aReturn arm computes `b := 0; if len(n.anc.child) > 1 { b = n.findex }` instead of `b := childPos(n)` (fact
      `returnBase`): a call that is one of several operands of a return statement writes its own cell and the return statement
      assigns it; the other hunks of run.go (assignFromCall / assign, 8f0dcdc, 7f288e3) are outside the fingerprinted functions;
    * db2d0c1 (reviewed before, C02 F02-5): `call` skips a zero-valued argument only when its type differs from the
      parameter's; arguments of the parameter's type are always copied (what the model assumes for every argument);
    * 215471a / 2e388d6: runCfg's deferred loop calls runDeferred (own recover) with the frame lock released. -/
def alsoReviewed : List (String × String) :=
  []

/-- the fingerprints read from the source are, name by name and in order, reviewed ones -/
def hashesReviewed (gen : List (String × String)) : Bool :=
  gen.map Prod.fst == sourceHashes.map Prod.fst &&
  gen.all fun p => sourceHashes.contains p || alsoReviewed.contains p

end YaegiVerif.Expected.C07
