import YaegiVerif.Model.Boundary
/- What interp/run.go says today, as read by hand: the ordered arms of callBin's per-argument switch, the
   receiver-offset rule, the variadic index, Call/CallSlice, the index expressions of the result stores and the shape of
   the reflect.MakeFunc wrappers. extract/cmd/c07 re-emits the same record into Generated/C07.lean on every run;
   `Props.C07.facts_tie` compares them. -/
namespace YaegiVerif.Expected.C07
open YaegiVerif.Boundary

/-- interp/run.go callBin, runCfg, genFunctionWrapper, getFunc -/
def facts : Facts :=
  { arms := [⟨.emptyIface, .genValue⟩,
      ⟨.ifaceSrc, .unwrapIface⟩,
      ⟨.funcSrc, .funcWrapper⟩,
      ⟨.arrayOrVariadic, .splitElemEmptyIface⟩,
      ⟨.ptrSrc, .splitElemValueT⟩,
      ⟨.valueT, .genValue⟩,
      ⟨.default, .ifaceWrapper⟩],
    outerArms := ["isBinCall(c, c.scope)", "isRegularCall(c)", "default"],
    recvGuardNonIface := true,
    rcvrCond := (.or .variadicGt0 .numInGtArgs),
    variadicSub := 1,
    argTypeCmp := .ge,
    argTypeElem := true,
    defTypeCmp := .ge,
    defTypeElem := false,
    callOnEllipsis := .callSlice,
    callOtherwise := .call,
    deferCall := .call,
    assignSrcIdx := .i,
    assignDstIdx := .i,
    returnDstIdx := (.add .base .i),
    returnBaseIsChildPos := true,
    defaultDstIdx := (.add .base .i),
    nestedReadIdx := (.add .base .i),
    wrapFrameIsDefTypes := true,
    wrapFramePerCall := true,
    getFuncFramePerCall := true,
    wrapArgBase := .base,
    wrapRcvrShift := 1,
    wrapResLo := 0,
    wrapResHi := .base,
    wrapSkipShort := true,
    getFuncResLo := 0,
    getFuncResHi := .base }

/-- fingerprints (extract/common FuncHash) of the functions Model/Boundary.lean was transcribed from -/
def sourceHashes : List (String × String) :=
  [("callBin", "abb2f8bcc33a1b4f"),
   ("genFunctionWrapper", "2865f1c325015a31"),
   ("getFunc", "e1777a5459c1a52e"),
   ("call", "a144e4e9c42a5836"),
   ("genInterfaceWrapper", "c81bdaf729e4a071"),
   ("methodByName", "cf343e4f55a358c1"),
   ("getFrame", "48dc117bdbd1af33"),
   ("genValueInterface", "ace589b21eb98d0d"),
   ("genValueInterfaceValue", "171a29501f555858"),
   ("valueInterfaceValue", "a7b9b257cb102bd6"),
   ("genFuncValue", "269e90121fb56e6d"),
   ("genValueAsFunctionWrapper", "6490b36d44a28c0a"),
   ("getConcreteValue", "3202c5a7310528d2"),
   ("getBinValue", "f0affea075ce67fd"),
   ("genValueArray", "7423f6a50d5d826f"),
   ("genValue", "831b100a10664633"),
   ("Interpreter.Execute", "eaf1129b747c09aa"),
   ("Interpreter.Symbols", "38f5e077316d112e"),
   ("getWrapper", "1311018b7c7efb25"),
   ("Interpreter.Use", "4e42634dd7e03d36"),
   ("Interpreter.Globals", "f94935e512b7f300"),
   ("isEmptyInterface", "71e0dace05f37cee"),
   ("isInterfaceSrc", "cd64fda3180ec95c"),
   ("isFuncSrc", "f239fcc7b3dd6a07"),
   ("isPtrSrc", "002a2100f4db2a99"),
   ("isInterfaceBin", "940cf541865e2590"),
   ("isInterface", "b7328c2ff9fb7bf9"),
   ("wrappedType", "4b35da99ab131b6f"),
   ("isBinCall", "71eb84cb0c19ec10"),
   ("isRegularCall", "259f2c721da371cc"),
   ("variadicPos", "d7663b726c26e3e4"),
   ("childPos", "7ad4b844f77f7498")]

/-- Further reviewed versions of transcribed functions. `callBin` / `call` with `copyDeferArg(…)` around the arguments kept
    for a deferred call (repair of the defer-argument aliasing, C06 F06-1): the change is confined to the deferStmt arm,
    which the model does not transcribe (only Call-versus-CallSlice of runCfg's deferred loop is a fact). -/
def alsoReviewed : List (String × String) :=
  [("callBin", "fad6515f69157102"),
   ("call", "6d0b111cecb0ee9c"),
   -- db2d0c1 (C02 F02-5): the "skip a zero-valued argument" shortcut of call applies only when the types differ;
   -- arguments of the parameter's type are always copied (what the model assumes for every argument)
   ("call", "f7d2679c6d3b791d")]

/-- the fingerprints read from the source are, name by name and in order, reviewed ones -/
def hashesReviewed (gen : List (String × String)) : Bool :=
  gen.map Prod.fst == sourceHashes.map Prod.fst &&
  gen.all fun p => sourceHashes.contains p || alsoReviewed.contains p

end YaegiVerif.Expected.C07
