import YaegiVerif.Model.Extract
/-
  C18 — what the property demands of a wrapper file, written from the property text (not from
  extract.go): every exported, non-generic package-level object that can be bound is bound under its
  own name; variables by address; untyped constants as literals denoting exactly their value; every
  exported interface (one that is usable as a type) gets a wrapper struct with exactly its exported
  methods, every parameter named so that it can be forwarded (its own name when that is a usable
  one, else `a<i>` made distinct from every other name of the method), the last parameter `...T` and
  forwarded with `...` iff the method is variadic, results preserved (a result that is called like the
  receiver is renamed); the file imports what its text names.
-/
namespace YaegiVerif.Extract.Spec
open YaegiVerif.Extract

/-- the objects the wrapper must bind -/
def bindable (o : Obj) : Bool :=
  o.exported && match o.kind with
  | .const _ => true
  | .func g => !g
  | .var => true
  | .typ g => !g
  | .iface g _ methodSet _ => !g && methodSet   -- a constraint interface cannot be used as a type
  | .other => false

/-- the identifier an object is bound to: its own, except where the destination package is the
    standard-library wrapper package and provides a sandboxed replacement (os.Exit, log.Fatal, …) -/
def ident (provided : List String) (p : Pkg) (name : String) : Ident :=
  if p.importPath == p.name && provided.contains (p.name ++ name) then ⟨"", p.name ++ name⟩ else ⟨p.name, name⟩

/-- constants: typed ones (and untyped booleans) are bound by name, the other untyped ones by a
    literal denoting exactly the value -/
def exact : CNum → Num
  | .int n => .int n
  | .flt n d _ => .rat n d

def constForm (id : Ident) : Option CVal → Form
  | none => .value id
  | some (.int n) => .lit .INT (.int n)
  | some (.flt n d _) => .lit .FLOAT (.rat n d)
  | some (.str s) => .lit .STRING (.str s)
  | some (.bool _) => .value id
  | some (.cplx re im) => .lit .COMPLEX (.cplx (exact re) (exact im))

def valForm (provided : List String) (p : Pkg) (o : Obj) : Option Form :=
  if !bindable o then none else
  match o.kind with
  | .const u => some (constForm (ident provided p o.name) u)
  | .func _ => some (.value (ident provided p o.name))
  | .var => some (.addr (ident provided p o.name))
  | _ => none

def isType (o : Obj) : Bool :=
  bindable o && match o.kind with
  | .typ _ => true
  | .iface _ _ _ _ => true
  | _ => false

def isIface (o : Obj) : Bool :=
  bindable o && match o.kind with
  | .iface _ _ _ _ => true
  | _ => false

/-- can the name be kept: it names a value and is not the receiver's -/
def usable (n : String) : Bool := n != "" && n != "_" && n != "W"

/-- `base` followed by as few `_` as it takes to differ from every name in `taken` -/
def distinctFrom : Nat → List String → String → String
  | 0, _, s => s
  | f + 1, taken, s => if taken.contains s then distinctFrom f taken (s ++ "_") else s

def invent (taken : List String) (pre : String) (i : Nat) : String :=
  distinctFrom (taken.length + 1) taken (pre ++ toString i)

/-- names of the parameters: own name when usable, else an invented `a<i>`; `taken` = every name the
    method declares so far. Result: the names and the extended `taken`. -/
def paramNames : List String → Nat → List Param → List String × List String
  | taken, _, [] => ([], taken)
  | taken, i, p :: ps =>
    if usable p.name then
      ((paramNames taken (i + 1) ps).1 |>.cons p.name, (paramNames taken (i + 1) ps).2)
    else
      ((paramNames (invent taken "a" i :: taken) (i + 1) ps).1 |>.cons (invent taken "a" i),
       (paramNames (invent taken "a" i :: taken) (i + 1) ps).2)

/-- names of the results: kept (a result needs no name), except the receiver's -/
def resultNames : List String → Nat → List Param → List String
  | _, _, [] => []
  | taken, i, r :: rs =>
    if r.name == "W" then invent taken "r" i :: resultNames (invent taken "r" i :: taken) (i + 1) rs
    else r.name :: resultNames taken (i + 1) rs

/-- the printed type of a parameter: `...E` for the last parameter of a variadic method -/
def wparam (name : String) (p : Param) (last : Bool) : WParam :=
  match last, p.elem with
  | true, some e => { name := name, typ := e, variadic := true }
  | _, _ => { name := name, typ := p.typ, variadic := false }

def wparams (variadic : Bool) (n : Nat) : Nat → List Param → List String → List WParam
  | i, p :: ps, nm :: ns => wparam nm p (variadic && (i + 1 == n)) :: wparams variadic n (i + 1) ps ns
  | _, _, _ => []

def wargs (variadic : Bool) (n : Nat) : Nat → List String → List WArg
  | _, [] => []
  | i, nm :: ns => { name := nm, ellipsis := variadic && (i + 1 == n) } :: wargs variadic n (i + 1) ns

def wresults : List Param → List String → List WParam
  | r :: rs, nm :: ns => { name := nm, typ := r.typ, variadic := false } :: wresults rs ns
  | _, _ => []

/-- a nil String field answers "" (fmt prints wrappers) — only where `return ""` is a statement of the
    method: `String() string` -/
def stringer (m : Method) : Bool :=
  m.name == "String" && m.params.isEmpty && match m.results with
    | [r] => r.isString
    | _ => false

def wmethod (m : Method) : WMethod :=
  let taken := "W" :: (m.params ++ m.results).map (·.name)
  let pn := paramNames taken 0 m.params
  { name := m.name
    params := wparams m.variadic m.params.length 0 m.params pn.1
    results := wresults m.results (resultNames pn.2 0 m.results)
    args := wargs m.variadic m.params.length 0 pn.1
    ret := !m.results.isEmpty
    guard := stringer m }

/-- the wrapper type prefix is an identifier whatever the import path: letters and digits are kept,
    everything else becomes `_` -/
def prefixOf (importPath : String) : String :=
  String.ofList (("_" ++ importPath ++ "_").toList.map fun c =>
    if c.isAlphanum || c.toNat ≥ 128 then c else '_')

def wtypeOf (p : Pkg) (o : Obj) : WType :=
  { name := prefixOf p.importPath ++ o.name, iface := o.name,
    methods := ((methodsOf o.kind).filter (·.exported)).map wmethod }

/-- packages the printed signature names, other than the package itself (however the importer
    names it) -/
def methodDeps (p : Pkg) (m : Method) : List String :=
  ((m.params ++ m.results).flatMap (·.deps)).filter fun d => d != p.importPath && d != p.path

def tags (newest : Nat) (p : Pkg) : String :=
  let std := !p.importPath.toList.contains '.'
  let parts := (if std then ["go1." ++ toString p.minor] ++ (if p.minor < newest then ["!go1." ++ toString (p.minor + 1)] else []) else [])
    ++ (if p.importPath == "log/syslog" then ["!windows", "!nacl", "!plan9"] else [])
    ++ p.tags.filter (· != "")
  ",".intercalate parts

/-- does a binding name the package (so that the file has to import it) -/
def refersPkg (e : Entry) : Bool :=
  match e.form with
  | .value id => id.pkg != ""
  | .addr id => id.pkg != ""
  | .typ id => id.pkg != ""
  | _ => false

/-- the wrapper file the property demands -/
def wrapper (provided : List String) (newest : Nat) (p : Pkg) : File :=
  let vals := p.objs.filterMap fun o => (valForm provided p o).map fun f => (⟨o.name, f⟩ : Entry)
  let typs := (p.objs.filter isType).map fun o => (⟨o.name, .typ (ident provided p o.name)⟩ : Entry)
  let ifs := p.objs.filter isIface
  { dest := p.dest
    symKey := p.importPath ++ "/" ++ p.name
    tags := tags newest p
    imports := (ifs.flatMap fun o => ((methodsOf o.kind).filter (·.exported)).flatMap (methodDeps p))
      ++ (if vals.any (fun e => isLit e.form) then ["go/constant", "go/token"] else [])
      ++ (if (vals ++ typs).any refersPkg then [p.importPath] else [])   -- an unused import does not compile
      ++ ["reflect"]
    vals := vals
    typs := typs
    wraps := ifs.map fun o => ⟨"_" ++ o.name, .wrap (prefixOf p.importPath ++ o.name)⟩
    wtypes := ifs.map (wtypeOf p) }

end YaegiVerif.Extract.Spec
