import YaegiVerif.Model.Extract
/-
  C18 — what the property demands of a wrapper file, written from the property text (not from
  extract.go): every exported, non-generic package-level object that can be bound is bound under its
  own name; variables by address; untyped constants as literals denoting exactly their value; every
  exported interface (one that is usable as a type) gets a wrapper struct with exactly its exported
  methods, parameters named (`a<i>` when the interface leaves them unnamed), the last parameter
  `...T` and forwarded with `...` iff the method is variadic, results preserved; the file imports what
  its text names.
-/
namespace YaegiVerif.Extract.Spec
open YaegiVerif.Extract

/-- the objects the wrapper must bind -/
def bindable (o : Obj) : Bool :=
  o.exported && match o.kind with
  | .const _ => true
  | .func g => !g
  | .var => true
  | .typ g => !g
  | .iface g _ methodSet _ => !g && methodSet   -- a constraint interface cannot be used as a type
  | .other => false

/-- the identifier an object is bound to: its own, except where the destination package is the
    standard-library wrapper package and provides a sandboxed replacement (os.Exit, log.Fatal, …) -/
def ident (provided : List String) (p : Pkg) (name : String) : Ident :=
  if p.importPath == p.name && provided.contains (p.name ++ name) then ⟨"", p.name ++ name⟩ else ⟨p.name, name⟩

/-- constants: typed ones (and untyped booleans) are bound by name, the other untyped ones by a
    literal denoting exactly the value -/
def constForm (id : Ident) : Option CVal → Form
  | none => .value id
  | some (.int n) => .lit .INT (.int n)
  | some (.flt n d _) => .lit .FLOAT (.rat n d)
  | some (.str s) => .lit .STRING (.str s)
  | some (.bool _) => .value id
  | some .cplx => .lit .COMPLEX .cplx

def valForm (provided : List String) (p : Pkg) (o : Obj) : Option Form :=
  if !bindable o then none else
  match o.kind with
  | .const u => some (constForm (ident provided p o.name) u)
  | .func _ => some (.value (ident provided p o.name))
  | .var => some (.addr (ident provided p o.name))
  | _ => none

def isType (o : Obj) : Bool :=
  bindable o && match o.kind with
  | .typ _ => true
  | .iface _ _ _ _ => true
  | _ => false

def isIface (o : Obj) : Bool :=
  bindable o && match o.kind with
  | .iface _ _ _ _ => true
  | _ => false

def paramName (i : Nat) (p : Param) : String := if p.name == "" then "a" ++ toString i else p.name

/-- the printed type of a parameter: `...E` for the last parameter of a variadic method -/
def wparam (i : Nat) (p : Param) (last : Bool) : WParam :=
  match last, p.elem with
  | true, some e => { name := paramName i p, typ := e, variadic := true }
  | _, _ => { name := paramName i p, typ := p.typ, variadic := false }

def wparams (variadic : Bool) (n : Nat) : Nat → List Param → List WParam
  | _, [] => []
  | i, p :: ps => wparam i p (variadic && (i + 1 == n)) :: wparams variadic n (i + 1) ps

def wargs (variadic : Bool) (n : Nat) : Nat → List Param → List WArg
  | _, [] => []
  | i, p :: ps => { name := paramName i p, ellipsis := variadic && (i + 1 == n) } :: wargs variadic n (i + 1) ps

def wmethod (m : Method) : WMethod :=
  { name := m.name
    params := wparams m.variadic m.params.length 0 m.params
    results := m.results.map fun r => { name := r.name, typ := r.typ, variadic := false }
    args := wargs m.variadic m.params.length 0 m.params
    ret := !m.results.isEmpty
    guard := m.name == "String" }   -- a nil String field answers "" (fmt prints wrappers): accepted

def prefixOf (importPath : String) : String :=
  String.ofList (("_" ++ importPath ++ "_").toList.map fun c =>
    if c == '/' || c == '-' || c == '.' || c == '~' then '_' else c)

def wtypeOf (p : Pkg) (o : Obj) : WType :=
  { name := prefixOf p.importPath ++ o.name, iface := o.name,
    methods := ((methodsOf o.kind).filter (·.exported)).map wmethod }

/-- packages the printed signature names, other than the package itself (however the importer
    names it) -/
def methodDeps (p : Pkg) (m : Method) : List String :=
  ((m.params ++ m.results).flatMap (·.deps)).filter fun d => d != p.importPath && d != p.path

def tags (newest : Nat) (p : Pkg) : String :=
  let std := !p.importPath.toList.contains '.'
  let parts := (if std then ["go1." ++ toString p.minor] ++ (if p.minor < newest then ["!go1." ++ toString (p.minor + 1)] else []) else [])
    ++ (if p.importPath == "log/syslog" then ["!windows", "!nacl", "!plan9"] else [])
    ++ p.tags.filter (· != "")
  ",".intercalate parts

/-- does a binding name the package (so that the file has to import it) -/
def refersPkg (e : Entry) : Bool :=
  match e.form with
  | .value id => id.pkg != ""
  | .addr id => id.pkg != ""
  | .typ id => id.pkg != ""
  | _ => false

/-- the wrapper file the property demands -/
def wrapper (provided : List String) (newest : Nat) (p : Pkg) : File :=
  let vals := p.objs.filterMap fun o => (valForm provided p o).map fun f => (⟨o.name, f⟩ : Entry)
  let typs := (p.objs.filter isType).map fun o => (⟨o.name, .typ (ident provided p o.name)⟩ : Entry)
  let ifs := p.objs.filter isIface
  { dest := p.dest
    symKey := p.importPath ++ "/" ++ p.name
    tags := tags newest p
    imports := (ifs.flatMap fun o => ((methodsOf o.kind).filter (·.exported)).flatMap (methodDeps p))
      ++ (if vals.any (fun e => isLit e.form) then ["go/constant", "go/token"] else [])
      ++ (if (vals ++ typs).any refersPkg then [p.importPath] else [])   -- an unused import does not compile
      ++ ["reflect"]
    vals := vals
    typs := typs
    wraps := ifs.map fun o => ⟨"_" ++ o.name, .wrap (prefixOf p.importPath ++ o.name)⟩
    wtypes := ifs.map (wtypeOf p) }

end YaegiVerif.Extract.Spec
