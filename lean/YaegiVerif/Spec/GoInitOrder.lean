import YaegiVerif.Model.VarInit
/-
  C15 — executable reading of the Go specification, "Package initialization":

  * "a package-level variable is *ready for initialization* if it is not yet initialized and
    either has no initialization expression or its initialization expression has no dependencies
    on uninitialized variables";
  * "initialization proceeds by repeatedly initializing the next package-level variable that is
    earliest in declaration order and ready for initialization";
  * "a reference to a variable or function is an identifier denoting it; … a variable, function
    or method x depends on y if x's initialization expression or body refers to y or to a function
    or method that depends on y" (dependencies are transitive through function and method bodies);
  * "multiple variables on the left-hand side of a variable declaration initialized by a single
    (multi-valued) expression on the right-hand side are initialized together";
  * then "all init functions in the order they appear in the source", then `main`.
  Core Lean only. Validated against the compiled program on every correspondence case.
-/
namespace YaegiVerif.Spec.InitOrder
open YaegiVerif.VarInit

/-! ### graph layer -/

/-- split the remaining variables (in declaration order) at the earliest one that is ready -/
def splitReady (g : Deps) (done : List Nat) : List Nat → Option (List Nat × Nat × List Nat)
  | [] => none
  | x :: xs =>
    if ready g done x then some ([], x, xs)
    else match splitReady g done xs with
      | some (p, v, q) => some (x :: p, v, q)
      | none => none

/-- "repeatedly initialise the earliest variable in declaration order that is ready";
    nothing ready while variables remain = "initialization cycle" -/
def loopGo (g : Deps) : Nat → List Nat → List Nat → Res
  | _, [], done => .ok done
  | 0, _ :: _, _ => .fuel
  | fuel + 1, x :: xs, done =>
    match splitReady g done (x :: xs) with
    | none => .loop
    | some (p, v, q) => loopGo g fuel (p ++ q) (done ++ [v])

def orderGo (g : Deps) : Res := loopGo g g.length (List.range g.length) []

/-! ### package layer -/

/-- what is ordered by the toolchain: one node per declared variable (as in go/types and the compiler).
    `label`: what is logged when the node is reached — the initialisation expression's label; for
    `var a, b = f()` both variables carry the expression's dependencies and the expression is
    evaluated when the first of them is reached (the second is silent); a variable without
    initialisation expression is a silent node without dependencies.
    `spec`: index of the specification it comes from. -/
structure GoUnit where
  name : String
  ids : List Ident
  label : Option String
  spec : Nat
  deriving DecidableEq, Repr

def unitsOfSpec (k : Nat) (v : VarSpec) : List GoUnit :=
  match v.inits with
  | [] => v.names.map (fun n => ⟨n, [], none, k⟩)
  | [i] => match v.names with
    | [] => []
    | n :: ns => ⟨n, i.ids, some i.label, k⟩ :: ns.map (fun m => ⟨m, i.ids, none, k⟩)
  | _ => (v.names.zip v.inits).map (fun ni => ⟨ni.1, ni.2.ids, some ni.2.label, k⟩)

def unitsFrom : Nat → List VarSpec → List GoUnit
  | _, [] => []
  | k, v :: vs => unitsOfSpec k v ++ unitsFrom (k + 1) vs

def unitsOf (vars : List VarSpec) : List GoUnit := unitsFrom 0 vars

/-- a function literal logs nothing when it is evaluated (`Init.funcLit`) -/
def GoUnit.labels (u : GoUnit) : List String := u.label.toList.filter (· != "")

/-- "A reference to a variable or function is an identifier denoting it. A reference to a method m
    is a method value or method expression of the form t.m … A variable, function, or method x
    depends on a variable y if x's initialization expression or body (for functions and methods)
    contains a reference to y or to a function or method that depends on y."
    `Reach fol body ids x`: the expression whose identifiers are `ids` refers to `x`, or to a
    function or method (`fol g`: the identifier `g` denotes one) whose body (`body g.name`) does so,
    transitively. -/
inductive Reach (fol : Ident → Bool) (body : String → List Ident) : List Ident → Ident → Prop
  | direct {ids : List Ident} {x : Ident} : x ∈ ids → Reach fol body ids x
  | through {ids : List Ident} {g x : Ident} :
      g ∈ ids → fol g = true → Reach fol body (body g.name) x → Reach fol body ids x

/-- the identifier denotes a declared function or method of the package -/
def denotesFunc (funcs : List Func) (g : Ident) : Bool := g.pkgLevel && isFunc funcs g.name

/-- the specification's reference relation on a package with the functions `funcs`
    (declarative; `refIds` computes it: `mem_refIds_iff`) -/
abbrev Refers (funcs : List Func) : List Ident → Ident → Prop := Reach (denotesFunc funcs) (bodyOf funcs)

/-- functions and methods an identifier list refers to -/
def funcRefs (funcs : List Func) (ids : List Ident) : List String :=
  ids.filterMap (fun id => if id.pkgLevel && isFunc funcs id.name then some id.name else none)

/-- all functions reachable from `seen` through bodies (least fixed point; every round but the
    last adds a function, so `funcs.length + 1` rounds are enough: `closure_closed`) -/
def closure (funcs : List Func) : Nat → List String → List String
  | 0, seen => seen
  | k + 1, seen =>
    let next := (seen.flatMap (fun f => funcRefs funcs (bodyOf funcs f))).filter (fun f => !seen.contains f)
    match next.eraseDups with
    | [] => seen
    | nw => closure funcs k (seen ++ nw)

/-- "a reference to a variable or function is an identifier denoting it; x depends on y if x's
    initialization expression or body refers to y or to a function or method that depends on y":
    every identifier the expression refers to, itself or through the functions and methods it reaches -/
def refIds (funcs : List Func) (ids : List Ident) : List Ident :=
  ids ++ (closure funcs (funcs.length + 1) (funcRefs funcs ids).eraseDups).flatMap (bodyOf funcs)

/-- index of the node of a variable (the blank identifier denotes nothing) -/
def lookupUnit (units : List GoUnit) (name : String) : Option Nat :=
  if name = "_" then none else
  let i := units.findIdx (fun u => u.name == name)
  if i < units.length then some i else none

/-- the variables an initialisation expression depends on -/
def unitDeps (units : List GoUnit) (funcs : List Func) (ids : List Ident) : List Nat :=
  ((refIds funcs ids).filterMap (fun id => if id.pkgLevel then lookupUnit units id.name else none)).eraseDups

def goDepsOf (units : List GoUnit) (funcs : List Func) : Deps :=
  units.map (fun u => unitDeps units funcs u.ids)

def goDeps (p : Pkg) : Deps := goDepsOf (unitsOf p.vars) p.funcs

def unitLabels (units : List GoUnit) (order : List Nat) : List String :=
  order.flatMap (fun i => match units[i]? with | some u => u.labels | none => [])

/-- the whole program as the toolchain runs it: variables (one node each), `init` functions in
    source order, `main`; a dependency cycle is a compile-time error -/
def runGo (p : Pkg) : Trace :=
  match orderGo (goDeps p) with
  | .ok order => ⟨unitLabels (unitsOf p.vars) order ++ p.inits ++ p.main.toList, false⟩
  | _ => ⟨[], true⟩

/-! ### the same rules with one node per initialisation step

  "Multiple variables on the left-hand side of a variable declaration initialized by a single
   (multi-valued) expression on the right-hand side are initialized together: if any of the
   variables on the left-hand side is initialized, all those variables are initialized in the same
   step." Read literally, `var a, b = f()` is *one* node of the ordering; `var a, b = x, y` is two.
  `runGoS` applies the rules of the section above with these nodes: every specification is a node,
  after `a, b = x, y` has been taken apart (a specification without value, `var x, y T`, stays one
  silent node). This is what the interpreter implements. The toolchain (`runGo`) keeps one node per
  variable and only emits the multi-valued expression once; the two readings give different logs on
  some packages (`one_node_witness`, finding F15-8). -/

/-- the nodes: `a, b = x, y` becomes `a = x`, `b = y` -/
def stepsGo (vars : List VarSpec) : List VarSpec := vars.flatMap splitSpec

/-- the steps an initialisation expression depends on: those declaring a variable it refers to -/
def stepDeps (steps : List VarSpec) (funcs : List Func) (ids : List Ident) : List Nat :=
  ((refIds funcs ids).filterMap (fun id => if id.pkgLevel then declIdx steps id.name else none)).eraseDups

def goStepDeps (p : Pkg) : Deps :=
  (stepsGo p.vars).map (fun s => stepDeps (stepsGo p.vars) p.funcs s.ids)

def runGoS (p : Pkg) : Trace :=
  match orderGo (goStepDeps p) with
  | .ok order => ⟨labelsOf (stepsGo p.vars) order ++ p.inits ++ p.main.toList, false⟩
  | _ => ⟨[], true⟩

/-! ### where the interpreter and the toolchain can differ: a decidable class of the *input* -/

/-- **Domain of the comparison with the toolchain**: the two readings of the specification give the
    same log on this package. (A predicate of the package alone; nothing of the interpreter enters.
    Every package whose specifications declare one variable each is in it: `dom_of_single`.) -/
def dom (p : Pkg) : Bool := decide (runGoS p = runGo p)

/-- the specification declares exactly one variable, with at most one initialisation expression -/
def single (v : VarSpec) : Bool := v.names.length == 1 && v.inits.length ≤ 1

/-- class label of an input -/
def classify (p : Pkg) : String := if dom p then "in-domain" else "several-names-one-node"

/-! ### which declarations are init functions

  "Variables may also be initialized using functions named `init` declared in the package block,
   with no arguments and no result parameters: `func init() { … }`. Multiple such functions may be
   defined per package, even within a single source file. In the package block, the `init`
   identifier can be used only to declare `init` functions, yet the identifier itself is not
   declared. Thus `init` functions cannot be referred to from anywhere in a program."
  "… all `init` functions in the order they appear in the source, possibly in multiple files, as
   presented to the compiler."
  A method is not declared in the package block: a method named `init` is an ordinary method; so are
  functions named `Init`, `init_`, `initX`, fields and local variables named `init`. -/

/-- the declaration is an init function: a function declaration (no receiver) named `init` -/
def isInitFunc (f : FuncDecl) : Bool := f.name == "init" && f.recv == .none

/-- the init functions of a package, in the order in which they appear in the source (file by
    file), each declaration once -/
def initFuncsGo (files : List (List Decl)) : List FuncDecl := (declFuncs files.flatten).filter isInitFunc

/-- function names declared in the package block: every function that is not an init function -/
def declaredFuncsGo (ds : List Decl) : List String :=
  ((declFuncs ds).filter (fun f => f.recv == .none && f.name != "init")).map (·.name)

/-- the package the specification's rules of the section above apply to -/
def toPkgGo (s : SrcPkg) : Pkg :=
  ⟨declVars s.decls, (declFuncs s.decls).map FuncDecl.toFunc, (initFuncsGo s.files).map (·.label), s.main⟩

/-- variables, init functions in source order, `main` and what it calls (as the toolchain runs it) -/
def runSrcGo (s : SrcPkg) : Trace := (runGo (toPkgGo s)).andThen s.after

/-- the same with one node per initialisation step -/
def runSrcGoS (s : SrcPkg) : Trace := (runGoS (toPkgGo s)).andThen s.after

/-- class label of a package given as source: it depends on the declarations only, not on any fact
    read from the interpreter -/
def classifySrc (s : SrcPkg) : String := classify (toPkgGo s)

/-! ### several packages ("Program initialization")

  "Given the list of all packages, sorted by import path, in each step the first uninitialized
   package in the list for which all imported packages (if any) are already initialized is
   initialized." Only packages reachable from main take part; main comes last. -/

def insertSorted (x : String) : List String → List String
  | [] => [x]
  | y :: ys => if x < y then x :: y :: ys else y :: insertSorted x ys

def sortPaths (l : List String) : List String := l.foldr insertSorted []

/-- import paths reachable from `seen` -/
def reachPkgs (pr : Prog) : Nat → List String → List String
  | 0, seen => seen
  | k + 1, seen =>
    let next := (seen.flatMap pr.importsOf).filter (fun q => !seen.contains q)
    match next.eraseDups with
    | [] => seen
    | nw => reachPkgs pr k (seen ++ nw)

def ownGo (pr : Prog) (path : String) : Trace :=
  if path = "main" then runGo pr.main else
  match pr.find path with
  | some s => runGo s.pkg
  | none => ⟨[], false⟩

/-- the packages in initialisation order, and what the program logs -/
def progGo (pr : Prog) : List String × Trace :=
  let subs := sortPaths ((reachPkgs pr (pr.subs.length + 1) pr.mainImports.eraseDups))
  let all := subs ++ ["main"]
  let g : Deps := all.map (fun p => (pr.importsOf p).filterMap (fun q => let i := all.findIdx (· == q); if i < all.length then some i else none))
  match orderGo g with
  | .ok order =>
    let seq := order.filterMap (fun i => all[i]?)
    let ts := seq.map (ownGo pr)
    if ts.any Trace.err then (seq, ⟨[], true⟩) else (seq, ⟨ts.flatMap Trace.events, false⟩)
  | _ => ([], ⟨[], true⟩)

end YaegiVerif.Spec.InitOrder
