/-
  C01 — reference semantics of the core fragment, written from the Go specification:
  a fuel-indexed big-step semantics with break/continue/panic signals.

  Fragment: 64-bit `int` variables; expressions + - * & | ^ / % (run-time panic on a zero
  divisor), unary - and ^; conditions built from the six comparisons with !, && and ||
  (short-circuit); statements: assignment/definition, fmt.Println of one int, if/else,
  `for cond { }`, `for init; cond; post { }`, break, continue, labelled break / continue, switch (tag or conditions, default last,
  fallthrough), blocks; declared functions of int parameters returning one int, called in the form
  `x = f(args…)` (arguments copied, recursion allowed), `return e`.
  Output is the list of printed values; a run ends normally or with a run-time panic.
-/
namespace YaegiVerif.Core

abbrev Val := BitVec 64

inductive BinOp where | add | sub | mul | and | or | xor | quo | rem
  deriving Repr, DecidableEq
inductive CmpOp where | eq | ne | lt | le | gt | ge
  deriving Repr, DecidableEq

inductive Expr where
  | lit (v : Val)
  | var (x : Nat)
  | bin (op : BinOp) (a b : Expr)
  | neg (a : Expr)
  | cpl (a : Expr)            -- ^a
  deriving Repr

inductive BExpr where
  | cmp (op : CmpOp) (a b : Expr)
  | not (a : BExpr)
  | land (a b : BExpr)
  | lor (a b : BExpr)
  deriving Repr

mutual
  inductive Stmt where
    | skip
    | seq (a b : Stmt)
    | assign (x : Nat) (e : Expr)
    | print (e : Expr)
    | ite (c : BExpr) (t e : Stmt)
    | loop (c : BExpr) (body post : Stmt)     -- for ; c ; post { body }
    | brk
    | cont
    | brkL (n : Nat)                          -- break L, L labelling the n-th enclosing loop (0 = innermost)
    | contL (n : Nat)                         -- continue L
    | switch (cs : Clauses)                   -- switch { case c1: … ; case c2: … ; default: … }
    | ret (e : Expr)                          -- return e
    | call (x : Nat) (g : Nat) (args : List Expr)   -- x = f_g(args…)
  /-- clauses in source order; `switch tag { case v: }` is `case tag == v`, a (last) `default` is a
      clause whose condition is constant true; `fall` = the clause body ends in `fallthrough` -/
  inductive Clauses where
    | nil
    | cons (c : BExpr) (body : Stmt) (fall : Bool) (rest : Clauses)
end

/-- variables by index, and the output so far (most recent last) -/
structure St where
  vars : Nat → Val
  out : List Val

def St.set (s : St) (x : Nat) (v : Val) : St :=
  { s with vars := fun y => if y = x then v else s.vars y }
def St.emit (s : St) (v : Val) : St := { s with out := s.out ++ [v] }

/-- integer expressions; `none` = run-time panic (integer divide by zero) -/
def Expr.eval (s : St) : Expr → Option Val
  | .lit v => some v
  | .var x => some (s.vars x)
  | .neg a => (a.eval s).map (fun v => -v)
  | .cpl a => (a.eval s).map (fun v => ~~~v)
  | .bin op a b =>
    match a.eval s, b.eval s with
    | some x, some y =>
      (match op with
       | .add => some (x + y) | .sub => some (x - y) | .mul => some (x * y)
       | .and => some (x &&& y) | .or => some (x ||| y) | .xor => some (x ^^^ y)
       | .quo => if y = 0 then none else some (BitVec.sdiv x y)
       | .rem => if y = 0 then none else some (BitVec.srem x y))
    | _, _ => none

def CmpOp.eval (op : CmpOp) (x y : Val) : Bool :=
  match op with
  | .eq => x == y | .ne => x != y
  | .lt => BitVec.slt x y | .le => BitVec.sle x y
  | .gt => BitVec.slt y x | .ge => BitVec.sle y x

/-- conditions with Go's short-circuit evaluation; `none` = panic while evaluating an operand -/
def BExpr.eval (s : St) : BExpr → Option Bool
  | .cmp op a b =>
    match a.eval s, b.eval s with
    | some x, some y => some (op.eval x y)
    | _, _ => none
  | .not a => (a.eval s).map (!·)
  | .land a b =>
    match a.eval s with
    | some true => b.eval s
    | some false => some false
    | none => none
  | .lor a b =>
    match a.eval s with
    | some true => some true
    | some false => b.eval s
    | none => none

/-- how a statement ends -/
inductive Sig where | normal | brk | cont | panic | ret (v : Val) | brkL (n : Nat) | contL (n : Nat)
  deriving Repr, DecidableEq

/-- the declared functions: body of function `g` (its parameters are its variables 0 … n-1);
    all functions return one int -/
abbrev Funs := List Stmt

/-- the callee's fresh frame: parameters bound to the argument values, every other variable zero -/
def bindArgs (vals : List Val) : Nat → Val := fun i => (vals[i]?).getD 0

/-- body of function `g` -/
def lookupFn : Funs → Nat → Option Stmt
  | [], _ => none
  | b :: _, 0 => some b
  | _ :: bs, g + 1 => lookupFn bs g

/-- the callee starts in a fresh frame; the output stream is shared -/
def calleeSt (s : St) (vals : List Val) : St := { vars := bindArgs vals, out := s.out }

/-- what the caller `x = f(…)` does with the way the callee's body ended -/
def callResult (s : St) (x : Nat) : Option (Sig × St) → Option (Sig × St)
  | none => none
  | some (.ret v, s1) => some (.normal, { vars := (s.set x v).vars, out := s1.out })
  | some (.panic, s1) => some (.panic, s1)      -- the panic unwinds through the caller
  | some (_, s1) => some (.normal, { vars := (s.set x 0).vars, out := s1.out })   -- fell off the end: not valid Go

/-- what a loop does with the way its body ended -/
inductive LoopAct where
  | stop                       -- out of fuel
  | exit (r : Sig × St)        -- the loop statement ends with this signal
  | post (s : St)              -- go on with the post statement and the next iteration

def loopStep : Option (Sig × St) → LoopAct
  | none => .stop
  | some (.brk, s1) => .exit (.normal, s1)
  | some (.panic, s1) => .exit (.panic, s1)
  | some (.ret v, s1) => .exit (.ret v, s1)
  | some (.brkL 0, s1) => .exit (.normal, s1)            -- break L with L this loop
  | some (.brkL (n + 1), s1) => .exit (.brkL n, s1)      -- … an enclosing loop
  | some (.contL (n + 1), s1) => .exit (.contL n, s1)
  | some (.contL 0, s1) => .post s1                      -- continue L with L this loop
  | some (.cont, s1) => .post s1
  | some (.normal, s1) => .post s1

/-- left-to-right evaluation of call arguments; `none` = one of them panics -/
def evalArgs (s : St) : List Expr → Option (List Val)
  | [] => some []
  | e :: es =>
    match e.eval s, evalArgs s es with
    | some v, some vs => some (v :: vs)
    | _, _ => none

mutual
/-- big-step execution; `none` = fuel exhausted -/
def exec (fs : Funs) : Nat → Stmt → St → Option (Sig × St)
  | 0, _, _ => none
  | _ + 1, .skip, s => some (.normal, s)
  | f + 1, .seq a b, s =>
    match exec fs f a s with
    | some (.normal, s1) => exec fs f b s1
    | r => r
  | _ + 1, .assign x e, s =>
    match e.eval s with
    | some v => some (.normal, s.set x v)
    | none => some (.panic, s)
  | _ + 1, .print e, s =>
    match e.eval s with
    | some v => some (.normal, s.emit v)
    | none => some (.panic, s)
  | f + 1, .ite c t e, s =>
    match c.eval s with
    | some true => exec fs f t s
    | some false => exec fs f e s
    | none => some (.panic, s)
  | f + 1, .loop c body post, s =>
    match c.eval s with
    | none => some (.panic, s)
    | some false => some (.normal, s)
    | some true =>
      match loopStep (exec fs f body s) with
      | .stop => none
      | .exit r => some r
      | .post s1 =>                      -- normal end of the body, continue, or continue L with L this loop
        match exec fs f post s1 with
        | some (.normal, s2) => exec fs f (.loop c body post) s2
        | some (.panic, s2) => some (.panic, s2)
        | some (_, s2) => some (.panic, s2)   -- break/continue/return in a post statement: not valid Go
        | none => none
  | _ + 1, .brk, s => some (.brk, s)
  | _ + 1, .cont, s => some (.cont, s)
  | _ + 1, .brkL n, s => some (.brkL n, s)
  | _ + 1, .contL n, s => some (.contL n, s)
  | f + 1, .switch cs, s =>
    match execClauses fs f cs s with
    | some (.brk, s1) => some (.normal, s1)        -- `break` inside a switch leaves the switch
    | r => r
  | _ + 1, .ret e, s =>
    match e.eval s with
    | some v => some (.ret v, s)
    | none => some (.panic, s)
  | f + 1, .call x g args, s =>
    match evalArgs s args with
    | none => some (.panic, s)
    | some vals =>
      match lookupFn fs g with
      | none => none                            -- call of an undeclared function: not valid Go, no outcome
      | some body => callResult s x (exec fs f body (calleeSt s vals))

/-- clauses are tested in source order; the first true condition selects its body -/
def execClauses (fs : Funs) : Nat → Clauses → St → Option (Sig × St)
  | 0, _, _ => none
  | _ + 1, .nil, s => some (.normal, s)
  | f + 1, .cons c body fall rest, s =>
    match c.eval s with
    | none => some (.panic, s)
    | some false => execClauses fs f rest s
    | some true =>
      match exec fs f body s with
      | some (.normal, s1) => if fall then execFall fs f rest s1 else some (.normal, s1)
      | r => r

/-- after `fallthrough`: the next clause's body runs without its test -/
def execFall (fs : Funs) : Nat → Clauses → St → Option (Sig × St)
  | 0, _, _ => none
  | _ + 1, .nil, s => some (.normal, s)
  | f + 1, .cons _ body fall rest, s =>
    match exec fs f body s with
    | some (.normal, s1) => if fall then execFall fs f rest s1 else some (.normal, s1)
    | r => r
end

/-! ## case lists of a tagless switch: `case c, d, …:`

  "The switch expressions … are evaluated left-to-right and top-to-bottom; the first one that equals the switch
  expression triggers execution of the statements of the associated case": the conditions of a list are tested
  in source order, the clause is chosen at the first that is true, the others are not evaluated. -/

/-- is the clause `case c, ds…:` chosen? `none` = a condition panics before one is true -/
def evalCaseList (s : St) : BExpr → List BExpr → Option Bool
  | c, [] => c.eval s
  | c, d :: ds =>
    match c.eval s with
    | some true => some true
    | some false => evalCaseList s d ds
    | none => none

/-- the clause condition a case list stands for in `Clauses.cons`: `c || (d || …)` — by `caseList_eval` this is the
    list semantics above, so a tagless switch with case lists is a program of the fragment -/
def caseList : BExpr → List BExpr → BExpr
  | c, [] => c
  | c, d :: ds => .lor c (caseList d ds)

theorem caseList_eval (s : St) : ∀ (ds : List BExpr) (c : BExpr), (caseList c ds).eval s = evalCaseList s c ds := by
  intro ds
  induction ds with
  | nil => intro c; rfl
  | cons d ds ih =>
    intro c
    simp only [caseList, evalCaseList, BExpr.eval, ih d]

end YaegiVerif.Core
