import YaegiVerif.Model.Method
/-
  C05 — executable reading of the Go specification for selectors, method sets, interface
  satisfaction, type assertions and type switches, over the declaration sets of Model/Method.lean.

  * Selectors: "x.f denotes the field or method at the shallowest depth in T where there is such
    an f. If there is not exactly one f with shallowest depth, the selector expression is illegal."
    `occs` enumerates every f reachable through embedded fields with its depth; `select` takes the
    shallowest and requires it to be unique.
  * Method sets: the method set of `T` holds the methods with receiver `T`, that of `*T` those with
    receiver `T` or `*T`; promoted methods through an embedded `S` follow the same rule, through an
    embedded `*S` both method sets hold the methods with receiver `S` or `*S`
    (`recvOK`: value receiver, or pointer type, or the path crosses an embedded pointer).
  * Interface satisfaction: every method of the interface is in the method set, same signature.
  * Type switch / assertion: `nil` matches the nil interface value, a non-interface type matches
    when it is identical to the dynamic type, an interface type when the dynamic type implements it;
    clauses are tried in order, `default` last.
  Core Lean only.
-/
namespace YaegiVerif.Spec.Selector
open YaegiVerif.Method

/-- every method named `m` reachable through embedded fields (depth first, declaration order) -/
def moccF (D : Decls) : Nat → Nat → String → List MHit
  | 0, _, _ => []
  | fuel + 1, t, m =>
    (match getMethod (methsOf D t) m with
     | some x => [⟨t, [], x⟩]
     | none => []) ++
    allVia Field.isEmb (fun j => moccF D fuel j m) MHit.push (fieldsOf D t) 0

/-- every field named `x` reachable through embedded fields -/
def foccF (D : Decls) : Nat → Nat → String → List FHit
  | 0, _, _ => []
  | fuel + 1, t, x =>
    (match fieldIndex (fieldsOf D t) x 0 with
     | some (i, f) => [⟨t, [i], f⟩]
     | none => []) ++
    allVia Field.isEmb (fun j => foccF D fuel j x) FHit.push (fieldsOf D t) 0

def mocc (D : Decls) (t : Nat) (m : String) : List MHit := moccF D D.length t m
def focc (D : Decls) (t : Nat) (x : String) : List FHit := foccF D D.length t x

/-- every f with its depth -/
def occs (D : Decls) (t : Nat) (x : String) : List (Nat × Sel) :=
  (focc D t x).map (fun h => (h.depth, Sel.field h)) ++ (mocc D t x).map (fun h => (h.depth, Sel.method h))

def minDepth : List (Nat × α) → Option Nat
  | [] => none
  | o :: os =>
    match minDepth os with
    | none => some o.1
    | some d => some (min o.1 d)

/-- the f at the shallowest depth, if there is exactly one -/
def pickShallowest (os : List (Nat × Sel)) : Sel :=
  match minDepth os with
  | none => .undefined
  | some d =>
    match os.filter (fun o => o.1 == d) with
    | [o] => o.2
    | _ => .ambiguous

/-- the Go selector rule for `x.f`, `x` of struct type `t` or `*t` -/
def select (D : Decls) (t : Nat) (x : String) : Sel := pickShallowest (occs D t x)

/-- the index path crosses a field embedded by pointer -/
def viaPtr (D : Decls) : Nat → List Nat → Bool
  | _, [] => false
  | t, i :: rest =>
    match (fieldsOf D t)[i]? with
    | some f => f.kind == .embPtr || viaPtr D f.typ rest
    | none => false

/-- a dynamic (or operand) type: struct type `t` or pointer to it -/
structure DynT where
  t : Nat
  ptr : Bool
  deriving DecidableEq, Repr, Inhabited

/-- the method found is in the method set of the operand type -/
def recvOK (D : Decls) (d : DynT) (h : MHit) : Bool := d.ptr || !h.meth.ptr || viaPtr D d.t h.path

def dedup (l : List String) : List String := l.foldl (fun acc x => if acc.contains x then acc else acc ++ [x]) []

/-- every method name declared by a struct type of the set -/
def allNames (D : Decls) : List String :=
  dedup (D.flatMap (fun d => match d with | .strct _ _ ms => ms.map (·.name) | .iface _ _ _ => []))

/-- method set of `t` / `*t` -/
def methodSet (D : Decls) (d : DynT) : List Meth :=
  (allNames D).filterMap (fun m =>
    match select D d.t m with
    | .method h => if recvOK D d h then some h.meth else none
    | _ => none)

/-- methods of an interface type (own and embedded) -/
def ifaceMethodsF (D : Decls) : Nat → Nat → List Meth
  | 0, _ => []
  | fuel + 1, i =>
    let d := ifaceDecl D i
    d.1 ++ d.2.flatMap (fun e => ifaceMethodsF D fuel e)

def ifaceMethods (D : Decls) (i : Nat) : List Meth := ifaceMethodsF D D.length i

/-- the type implements the interface: every method is in the method set, with the same signature -/
def implements (D : Decls) (d : DynT) (ims : List Meth) : Bool :=
  ims.all (fun im => (methodSet D d).any (fun m => m.name == im.name && m.sig == im.sig))

/-- types as they occur in assertions and type-switch clauses -/
inductive TyRef where
  | named (t : Nat)          -- a declared struct or interface type
  | ptr (t : Nat)            -- pointer to a declared struct type
  | anon (ms : List Meth)    -- interface literal
  | nil
  | empty                    -- interface{}
  deriving DecidableEq, Repr, Inhabited

def tyIsIface (D : Decls) : TyRef → Bool
  | .named t => isIfaceT D t
  | .anon _ => true
  | .empty => true
  | _ => false

def tyMethods (D : Decls) : TyRef → List Meth
  | .named t => ifaceMethods D t
  | .anon ms => ms
  | _ => []

/-- does a clause type / asserted type match the dynamic type of the interface value -/
def matchG (D : Decls) (dyn : Option DynT) (ty : TyRef) : Bool :=
  match ty with
  | .nil => dyn.isNone
  | .ptr t => dyn == some ⟨t, true⟩
  | .empty => dyn.isSome
  | .anon ms => match dyn with | some d => implements D d ms | none => false
  | .named t =>
    if isIfaceT D t then (match dyn with | some d => implements D d (ifaceMethods D t) | none => false)
    else dyn == some ⟨t, false⟩

/-- static legality of asserting / switching an operand of interface type with methods `ims` to
    `ty`: a non-interface type must implement the operand's interface -/
def assertLegal (D : Decls) (ims : List Meth) (ty : TyRef) : Bool :=
  match ty with
  | .ptr t => implements D ⟨t, true⟩ ims
  | .named t => isIfaceT D t || implements D ⟨t, false⟩ ims
  | _ => true

/-- the type switch: first clause with a matching type, else `default` -/
def typeSwitchG (D : Decls) (dyn : Option DynT) (cs : List (List TyRef)) : Option Nat :=
  typeSwitch (matchG D dyn) cs

end YaegiVerif.Spec.Selector
