/-
  C13 — reference semantics of the environment functions: a finite map from names to values
  (what `os.Setenv` … `os.ExpandEnv` mean over an environment, Go documentation of package os),
  and a transcription of `os.Expand` (GOROOT/src/os/env.go). Core Lean only.

  The map is a total function `String → Option String`; this file knows nothing about how yaegi
  stores its environment.
-/
namespace YaegiVerif.Spec.OsEnv

/-! ### os.Expand -/

def isShellSpecialVar (c : Char) : Bool :=
  c == '*' || c == '#' || c == '$' || c == '@' || c == '!' || c == '?' || c == '-' || ('0' ≤ c && c ≤ '9')

def isAlphaNum (c : Char) : Bool :=
  c == '_' || ('0' ≤ c && c ≤ '9') || ('a' ≤ c && c ≤ 'z') || ('A' ≤ c && c ≤ 'Z')

/-- `for i := 1; i < len(s); i++ { if s[i] == '}' … }` of getShellName: position of the first `}` at index ≥ 1
    of `'{' :: rest`, counted in `rest` -/
def findClose : List Char → Option Nat
  | [] => none
  | c :: cs => if c == '}' then some 0 else (findClose cs).map (· + 1)

/-- `getShellName(s)` for non-empty `s`: the name and the number of bytes consumed -/
def getShellName : List Char → List Char × Nat
  | [] => ([], 0)     -- not reachable from `expand` (it only calls with `j+1 < len(s)`)
  | '{' :: rest =>
    -- (the special case `${*}` … `${9}` of the source returns what the scan returns: s[1:2], 3)
    match findClose rest with
    | some 0 => ([], 2)                -- "${}": bad syntax, eat it
    | some i => (rest.take i, i + 2)
    | none => ([], 1)                  -- "${" without a closing brace: eat "${"
  | c :: rest =>
    if isShellSpecialVar c then ([c], 1)
    else
      let name := (c :: rest).takeWhile isAlphaNum
      (name, name.length)

/-- the loop of `os.Expand`, on the not yet consumed suffix; `fuel` bounds the recursion by the length -/
def expandGo (mapping : List Char → List Char) : Nat → List Char → List Char
  | 0, s => s
  | fuel + 1, s =>
    match s with
    | [] => []
    | '$' :: rest =>
      if rest.isEmpty then ['$']
      else
        let (name, w) := getShellName rest
        let out :=
          if name.isEmpty && w > 0 then []          -- invalid syntax: eat the characters
          else if name.isEmpty then ['$']           -- `$` not followed by a name
          else mapping name
        out ++ expandGo mapping fuel (rest.drop w)
    | c :: rest => c :: expandGo mapping fuel rest

def expand (mapping : List Char → List Char) (s : List Char) : List Char := expandGo mapping (s.length + 1) s

/-! ### the map semantics -/

abbrev EnvMap := String → Option String

def EnvMap.empty : EnvMap := fun _ => none
def EnvMap.set (m : EnvMap) (k v : String) : EnvMap := fun x => if x = k then some v else m x
def EnvMap.unset (m : EnvMap) (k : String) : EnvMap := fun x => if x = k then none else m x
def EnvMap.getD (m : EnvMap) (k : String) : String := (m k).getD ""

/-- the seven operations -/
inductive Op where
  | setenv (k v : String)
  | unsetenv (k : String)
  | clearenv
  | getenv (k : String)
  | lookupEnv (k : String)
  | environ
  | expandEnv (s : String)
  deriving DecidableEq, Repr, Inhabited

def Op.fn : Op → String
  | .setenv .. => "Setenv" | .unsetenv _ => "Unsetenv" | .clearenv => "Clearenv" | .getenv _ => "Getenv"
  | .lookupEnv _ => "LookupEnv" | .environ => "Environ" | .expandEnv _ => "ExpandEnv"

/-- what an operation returns to the script -/
inductive Out where
  | unit                                  -- Clearenv
  | err (e : Option String)               -- Setenv, Unsetenv: nil or an error
  | str (s : String)                      -- Getenv, ExpandEnv
  | strOk (s : String) (ok : Bool)        -- LookupEnv
  | pairs (ps : List (String × String))   -- Environ, as (name, value) pairs: the script sees name ++ "=" ++ value
  deriving DecidableEq, Repr, Inhabited

/-- the state after an operation -/
def next (m : EnvMap) : Op → EnvMap
  | .setenv k v => m.set k v
  | .unsetenv k => m.unset k
  | .clearenv => EnvMap.empty
  | _ => m

def expandWith (m : EnvMap) (s : String) : String :=
  String.ofList (expand (fun n => (m.getD (String.ofList n)).toList) s.toList)

/-- is `o` a correct answer to `op` in state `m`? (`Environ` may list the pairs in any order) -/
def okOut (m : EnvMap) : Op → Out → Prop
  | .setenv _ _, o => o = .err none
  | .unsetenv _, o => o = .err none
  | .clearenv, o => o = .unit
  | .getenv k, o => o = .str (m.getD k)
  | .lookupEnv k, o => o = .strOk (m.getD k) (m k).isSome
  | .environ, o => ∃ ps, o = .pairs ps ∧ (ps.map (·.1)).Nodup ∧ ∀ k v, (k, v) ∈ ps ↔ m k = some v
  | .expandEnv s, o => o = .str (expandWith m s)

/-- a whole run: every answer is correct in the state reached so far -/
def okRun (m : EnvMap) : List Op → List Out → Prop
  | [], [] => True
  | op :: ops, o :: os => okOut m op o ∧ okRun (next m op) ops os
  | _, _ => False

def runMap (m : EnvMap) (ops : List Op) : EnvMap := ops.foldl next m

/-- `Options.Env` entries: name up to the first `=`, value after it; an entry without `=` has the empty value;
    later entries win -/
def splitEntry (e : List Char) : List Char × List Char :=
  (e.takeWhile (· != '='), (e.dropWhile (· != '=')).drop 1)

def ofEntries (es : List String) : EnvMap :=
  es.foldl (fun m e => let kv := splitEntry e.toList; m.set (String.ofList kv.1) (String.ofList kv.2)) EnvMap.empty

end YaegiVerif.Spec.OsEnv
