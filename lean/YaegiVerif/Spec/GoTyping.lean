import YaegiVerif.Model.Typecheck
/-
  C12 — the Go specification's typing rules on the fragment (reference side). Written from the
  language specification (sections Operators, Arithmetic operators, Comparison operators,
  Assignability, Conversions, Representability, Index expressions, Send statements, Calls, Return
  statements, If/For statements) and from go/types' reading of it where the specification leaves the
  order of untyped conversions implicit. Validated against go/types on every correspondence case.
  Core Lean only.
-/
namespace YaegiVerif.Typecheck.Spec
open YaegiVerif.Typecheck

/-- operand kinds each operator is defined on (Arithmetic operators, Logical operators, IncDec) -/
def definedOn : Op → Kind → Bool
  | .inc, k | .dec, k | .pos, k | .neg, k | .sub, k | .mul, k | .quo, k => k.isNumeric
  | .add, k => k.isNumeric || k == .string
  | .rem, k | .and, k | .or, k | .xor, k | .andnot, k | .bitnot, k => k.isInteger
  | .not, k | .land, k | .lor, k => k == .bool

/-- kind of the underlying type -/
def underKind : Ty → Option Kind
  | .s t => some t.under.kind
  | .ptr _ => some .ptr | .slice _ => some .slice | .array _ _ => some .array | .map _ _ => some .map
  | .chan _ _ => some .chan | .func _ _ => some .func | .struct _ _ _ => some .struct
  | .iface _ _ => some .interface
  | .untyped u => some u.defaultBasic.kind
  | .nil => none

def kindIsG (p : Kind → Bool) (t : Ty) : Bool :=
  match underKind t with
  | some k => p k
  | none => false

/-- types with a nil value -/
def nilable : Ty → Bool
  | .ptr _ | .slice _ | .map _ _ | .chan _ _ | .func _ _ | .iface _ _ => true
  | _ => false

/-- value range of an integer kind (int, uint, uintptr: 64 bits) -/
def inRange : Kind → Int → Bool
  | .int8, v => decide (-128 ≤ v) && decide (v < 128)
  | .int16, v => decide (-32768 ≤ v) && decide (v < 32768)
  | .int32, v => decide (-2147483648 ≤ v) && decide (v < 2147483648)
  | .int, v | .int64, v => decide (-9223372036854775808 ≤ v) && decide (v < 9223372036854775808)
  | .uint8, v => decide (0 ≤ v) && decide (v < 256)
  | .uint16, v => decide (0 ≤ v) && decide (v < 65536)
  | .uint32, v => decide (0 ≤ v) && decide (v < 4294967296)
  | .uint, v | .uint64, v | .uintptr, v => decide (0 ≤ v) && decide (v < 18446744073709551616)
  | _, _ => false

/-- Representability of a constant by a basic type -/
def representableG (c : CVal) (b : Basic) : Bool :=
  match c with
  | .int v | .float v false =>
    if b.kind.isInteger then inRange b.kind v else b.kind.isFloat || b.kind.isComplex
  | .float _ true => b.kind.isFloat || b.kind.isComplex
  | .str => b == .string

/-- an operand without a type of its own: an untyped constant, nil, or the untyped boolean value of a comparison -/
def untypedLike (x : Opnd) : Bool := x.ty.isUntyped || x.rv == .ubool

/-- implicit conversion of an untyped operand to the type `t` of the other operand / the destination;
    the result is the operand with its new type -/
def implicitG (x : Opnd) (t : Ty) : Res Opnd :=
  if x.rv == .ubool then
    (match t with
     | .s st => if st.under == .bool then .ok ⟨t, .none⟩ else .err
     | .iface _ m => if m.isEmpty then .ok ⟨x.ty, .none⟩ else .err
     | _ => .err)
  else match x.ty with
  | .nil => if nilable t then .ok ⟨t, x.rv⟩ else .err
  | .untyped u =>
    match t with
    | .s st =>
      (match x.rv with
       | .const c =>
         -- kinds must be compatible, then the value representable
         if (u == .string) != (st.under == .string) then .err
         else if representableG c st.under then .ok ⟨t, x.rv⟩ else .err
       | _ => if u == .bool && st.under == .bool then .ok ⟨t, x.rv⟩ else .err)
    | .iface _ m => if m.isEmpty then .ok ⟨defaultTypeY x.ty, x.rv⟩ else .err
    | _ => .err
  | _ => .ok x

/-- Assignability of a typed value of type `v` to `t` -/
def assignableTyG (v t : Ty) : Bool :=
  v == t ||
  (t.isIface && subset t.methods v.methods) ||
  match v, t with
  | .chan .both a, .chan _ b => a == b
  | _, _ => false

/-- Assignability of an operand (typed, untyped constant, untyped boolean, nil) -/
def assignableG (x : Opnd) (t : Ty) : Bool :=
  match x.ty with
  | .nil => nilable t
  | .untyped u =>
    match t with
    | .iface _ m => m.isEmpty
    | .s st =>
      (match x.rv with
       | .const c => (u == .string) == (st.under == .string) && representableG c st.under
       | _ => u == .bool && st.under == .bool)
    | _ => false
  | v =>
    if x.rv == .ubool then
      -- the untyped boolean value of a comparison
      (match t with
       | .s st => st.under == .bool
       | .iface _ m => m.isEmpty
       | _ => false)
    else assignableTyG v t

def bothConstantG (x y : Opnd) : Bool := x.isConst && y.isConst

/-- both operands typed after the implicit conversions; `abstain` when two untyped operands meet -/
def matchG (x y : Opnd) : Res (Opnd × Opnd) :=
  match untypedLike x, untypedLike y with
  | true, true =>
    if x.rv == .ubool && y.rv == .ubool then .ok (x, y)
    -- an untyped boolean value and the constant true / false: both untyped booleans (shared convention: the value of a
    -- comparison carries the type bool, the literal takes it)
    else if x.rv == .ubool && y.ty == .untyped .bool then .ok (x, ⟨x.ty, y.rv⟩)
    else if y.rv == .ubool && x.ty == .untyped .bool then .ok (⟨y.ty, x.rv⟩, y)
    else .abstain
  | true, false => do let x' ← implicitG x y.ty; .ok (x', y)
  | false, true => do let y' ← implicitG y x.ty; .ok (x, y')
  | false, false => .ok (x, y)

def isZeroConst (y : Opnd) : Bool :=
  match y.rv with
  | .const (.int v) => v == 0
  | .const (.float v f) => v == 0 && !f
  | .typed (some v) => v == 0
  | _ => false

/-- binary arithmetic and logical operators -/
def binG (op : BinOp) (_z : Option Ty) (x y : Opnd) : Res Opnd := do
  if bothConstantG x y then .abstain
  if x.ty.isNil || y.ty.isNil then .err
  let (x', y') ← matchG x y
  if x'.ty != y'.ty then .err
  match underKind x'.ty with
  | none => .err
  | some k =>
    if !definedOn op.op k then .err
    if (op == .quo || op == .rem) && k.isInteger && isZeroConst y' then .err
    .ok ⟨x'.ty, boolResultRv x y⟩

def comparableG : Ty → Bool
  | .slice _ | .map _ _ | .func _ _ => false
  | .untyped _ | .nil => false
  | _ => true

def orderedG (t : Ty) : Bool := kindIsG (fun k => k.isInteger || k.isFloat || k == .string) t

def cmpG (op : CmpOp) (x y : Opnd) : Res Opnd := do
  if bothConstantG x y then .abstain
  if x.ty.isNil && y.ty.isNil then .err
  -- nil has no type of its own: it needs a typed operand
  if (x.ty.isNil && untypedLike y) || (y.ty.isNil && untypedLike x) then .err
  let (x', y') ← matchG x y
  if !(assignableTyG x'.ty y'.ty || assignableTyG y'.ty x'.ty) then .err
  let ok := match op with
    | .eq | .ne =>
      if x.ty.isNil then nilable y.ty
      else if y.ty.isNil then nilable x.ty
      else comparableG x'.ty && comparableG y'.ty
    | _ => !x.ty.isNil && !y.ty.isNil && orderedG x'.ty && orderedG y'.ty
  if ok then .ok ⟨.s (.basic .bool), .ubool⟩ else .err

def shiftCheckG (x y : Opnd) : Res Unit := do
  if x.ty.isNil then .err
  if x.ty.isUntyped then
    -- an untyped shifted operand must be a constant representable by an integer; which integer type it takes
    -- then depends on the context of the shift: not described
    match x.rv with
    | .const (.int _) | .const (.float _ false) => .abstain
    | _ => .err
  if x.rv == .ubool then .err
  if !kindIsG Kind.isInteger x.ty then .err
  match y.ty with
  | .nil => .err
  | .untyped _ =>
    (match y.rv with
     | .const (.int v) | .const (.float v false) => if 0 ≤ v then .ok () else .err
     | _ => .err)
  | t =>
    if y.rv == .ubool then .err
    else if !kindIsG Kind.isInteger t then .err
    else match y.rv with
      | .typed (some v) => if v < 0 then .err else .ok ()
      | _ => .ok ()

def shiftG (_op : ShOp) (x y : Opnd) : Res Opnd := do
  if bothConstantG x y then .abstain
  shiftCheckG x y
  .ok ⟨x.ty, .none⟩

def unG (op : UnOp) (x : Opnd) : Res Opnd := do
  if x.isConst then .abstain
  match underKind x.ty with
  | none => .err
  | some k => if definedOn op.op k then .ok ⟨x.ty, boolResultRv x x⟩ else .err

def recvG (x : Opnd) : Res Opnd :=
  match x.ty with
  | .chan .send _ => .err
  | .chan _ t => .ok ⟨.s t, .none⟩
  | _ => .err

def byteLike (t : STy) : Bool := t.under == .uint8 || t.under == .int32

/-- Conversions of a non-constant value of type `v` to `t` -/
def convertibleTyG (v t : Ty) : Bool :=
  assignableTyG v t ||
  match v, t with
  | .s a, .s b =>
    a.under == b.under ||
    ((a.under.kind.isInteger || a.under.kind.isFloat) && (b.under.kind.isInteger || b.under.kind.isFloat)) ||
    (a.under.kind.isComplex && b.under.kind.isComplex) ||
    (a.under.kind.isInteger && b.under == .string)
  | .s a, .slice b => a.under == .string && byteLike b
  | .slice a, .s b => byteLike a && b.under == .string
  | .slice a, .array _ b => a == b
  | .ptr a, .ptr b => a.under == b.under
  | .struct _ f _, .struct _ g _ => f == g
  | _, _ => false

def convG (typ : Ty) (x : Opnd) : Res Opnd := do
  if typ.isUntyped then .err
  let ok ← (match x.ty with
    | .nil => pure (nilable typ)
    | .untyped u =>
      (match x.rv with
       | .const c =>
         (match typ with
          | .s st => pure (((u == .string) == (st.under == .string) && representableG c st.under) ||
                           ((u == .int || u == .rune) && st.under == .string))
          | .iface _ m => pure m.isEmpty
          | _ => pure (convertibleTyG (defaultTypeY x.ty) typ))
       | _ =>
         (match typ with
          | .s st => pure (u == .bool && st.under == .bool)
          | .iface _ m => pure m.isEmpty
          | _ => pure false))
    | v =>
      if x.rv == .ubool then
        (match typ with
         | .s st => pure (st.under == .bool)
         | .iface _ m => pure m.isEmpty
         | _ => pure false)
      else match x.rv with
        | .typed vo =>
          -- a typed constant: a constant conversion between numeric types (the value must be representable by T),
          -- otherwise the rules for non-constant values (integer to string, identical underlying types, …)
          (match typ with
           | .s st =>
             if st.under.kind.isNumeric then
               (if !kindIsG Kind.isNumeric v then pure false
                else match vo with
                  | some n => pure (representableG (.int n) st.under)
                  | none => pure (!(st.under.kind.isInteger && kindIsG Kind.isFloat v)))   -- a fractional value is truncated
             else pure (convertibleTyG v typ)
           | _ => pure (convertibleTyG v typ))
        | _ => pure (convertibleTyG v typ))
  if ok then .ok ⟨typ, convResultRv typ x⟩ else .err

def indexValueG (i : Opnd) (len : Option Nat) : Res Unit :=
  match i.ty with
  | .nil => .err
  | .untyped _ =>
    (match i.rv with
     | .const (.int v) | .const (.float v false) =>
       if v < 0 || !inRange .int v then .err
       else match len with
         | some n => if v ≥ n then .err else .ok ()
         | none => .ok ()
     | _ => .err)
  | t =>
    if i.rv == .ubool then .err
    else if !kindIsG Kind.isInteger t then .err
    else match i.rv, len with
      | .typed (some v), some n => if v < 0 || v ≥ n then .err else .ok ()
      | .typed (some v), none => if v < 0 then .err else .ok ()
      | _, _ => .ok ()

def indexG (a i : Opnd) : Res Opnd := do
  if a.rv == .ubool then .err
  match a.ty with
  | .s t => if t.under == .string then do indexValueG i none; .ok ⟨.s (.basic .uint8), .none⟩ else .err
  | .slice t => do indexValueG i none; .ok ⟨.s t, .none⟩
  | .array n t => do indexValueG i (some n); .ok ⟨.s t, .none⟩
  | .map k v => if assignableG i (.s k) then .ok ⟨.s v, .none⟩ else .err
  | .untyped _ => .abstain
  | _ => .err

def allAssignableG : List STy → List Opnd → Bool
  | [], [] => true
  | p :: ps, a :: as => assignableG a (.s p) && allAssignableG ps as
  | _, _ => false

def callG (params : List STy) (args : List Opnd) : Res Unit :=
  if allAssignableG params args then .ok () else .err

def callValueG (conv : Bool) (rets : List STy) : Res Opnd :=
  match rets with
  | [] => .err
  | [r] => .ok ⟨.s r, .none⟩
  | _ => if conv then .err      -- the operand of a conversion is a single-value context
         else .abstain          -- multi-value calls are only legal as the whole argument list / operand list

def assignG (_decl : Bool) (_sh : Shape) (t : Ty) (x : Opnd) : Res Ty :=
  if assignableG x t then .ok t else .err

def defineG (x : Opnd) : Res Ty :=
  match x.ty with
  | .nil => .err
  | t => .ok (defaultTypeY t)

def opassignG (op : BinOp) (t : Ty) (x : Opnd) : Res Unit :=
  match op with
  | .land | .lor => .abstain
  | _ => do
    if x.ty.isNil then .err
    let x' ← implicitG x t
    if x'.ty != t then .err
    match underKind t with
    | none => .err
    | some k =>
      if !definedOn op.op k then .err
      if (op == .quo || op == .rem) && k.isInteger && isZeroConst x' then .err
      .ok ()

def shassignG (_op : ShOp) (t : Ty) (x : Opnd) : Res Unit := shiftCheckG ⟨t, .none⟩ x

def incdecG (t : Ty) : Res Unit := if kindIsG Kind.isNumeric t then .ok () else .err

def sendG (c v : Opnd) : Res Unit :=
  match c.ty with
  | .chan .recv _ => .err
  | .chan _ t => if assignableG v (.s t) then .ok () else .err
  | _ => .err

/-- type assertion `x.(T)`: x is of interface type; a concrete T must implement that interface (method names:
    in the fragment all methods have the signature `func()` and value receivers, so `*N` has the methods of `N`);
    for an interface T the assertion is always well-typed -/
def assertG (typ : Ty) (x : Opnd) : Res Opnd :=
  if !x.ty.isIface then .err
  else if typ.isIface then .ok ⟨typ, .none⟩
  else if subset x.ty.methods typ.methods then .ok ⟨typ, .none⟩ else .err

def condG (c : Opnd) : Res Unit :=
  match c.ty with
  | .nil => .err
  | t => if kindIsG (· == .bool) t then .ok () else .err

def retG (results : List STy) (vals : List (Shape × Opnd)) : Res Unit :=
  if allAssignableG results (vals.map (·.2)) then .ok () else .err

/-- Composite literals, array and slice types: "each element has an associated integer index … an element without a key
    uses the previous element's index plus one (zero for the first)"; keys are non-negative constants, every index of an
    array literal is below the length (`bound`), no two elements have the same index -/
def arrayLitG (bound : Option Nat) : List LitElem → (index : Nat) → (vis : List Nat) → Res Unit
  | [], _, _ => .ok ()
  | e :: rest, index, vis =>
    let idx? : Option Nat := match e with
      | .keyed k => if k < 0 then none else some k.toNat
      | .pos => some index
    match idx? with
    | none => .err
    | some idx =>
      if (match bound with | some n => decide (idx ≥ n) | none => false) then .err
      else if vis.contains idx then .err
      else arrayLitG bound rest (idx + 1) (idx :: vis)

def rulesG : Rules :=
  { un := unG, recv := recvG, bin := binG, cmp := cmpG, shift := shiftG, conv := convG, assert := assertG, index := indexG,
    call := callG, callValue := callValueG, assign := assignG, define := defineG, opassign := opassignG,
    shassign := shassignG, incdec := incdecG, send := sendG, cond := condG, ret := retG }

end YaegiVerif.Typecheck.Spec
