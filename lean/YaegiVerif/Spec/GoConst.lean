import YaegiVerif.Model.Const
import YaegiVerif.Model.ConstEval
import YaegiVerif.Model.ConstDecl
/-
  C03 — the Go specification's side ("Constants", "Constant expressions", "Conversions", "Representability",
  "Iota", "Constant declarations"), written directly from the specification; the arithmetic on values is the
  same exact arithmetic (`ConstVal.lean`) that go/constant provides. Validated against go/types + go/constant on
  every correspondence run.

  A constant is a value with a type: an untyped kind or a basic type. Values are kept canonical for their type:
  `CV.int` for integer (and rune) types, `CV.flt` for floating-point types, `CV.bool`, `CV.str`.
-/
namespace YaegiVerif.Const.Spec
open YaegiVerif.Const

/-- Representability of an integer constant: min(T) ≤ x ≤ max(T). -/
def reprGo (k : IKind) (v : Int) : Bool := decide (k.minVal ≤ v) && decide (v ≤ k.maxVal)

structure GV where
  v : CV
  ty : Ty
  deriving DecidableEq, Repr, Inhabited

/-- implementation restriction used by the toolchain: untyped integer constants of more than 512 bits overflow -/
def maxUntypedBits : Nat := 512
/-- largest constant shift count the type checker accepts -/
def shiftBound : Int := 1023 - 1 + 52

def isIntTy : Ty → Bool
  | .u .int | .u .rune => true
  | .t (.i _) => true
  | _ => false
def isFloatTy : Ty → Bool
  | .u .float => true
  | .t .f32 | .t .f64 => true
  | _ => false
def isNumTy (t : Ty) : Bool := isIntTy t || isFloatTy t
def isStrTy : Ty → Bool | .u .str | .t .str => true | _ => false
def isBoolTy : Ty → Bool | .u .bool | .t .bool => true | _ => false

/-- a numeric constant value as an exact rational -/
def asQ : CV → Option Q
  | .int v => some (Q.ofInt v)
  | .flt q => some q
  | _ => none

/-- "x is representable by a value of type T": the converted (canonical, rounded) value, or none -/
def representGo (v : CV) (t : BT) : Option CV :=
  match t with
  | .i k => (match v.toInt with
             | .int x => if reprGo k x then some (.int x) else none
             | _ => none)
  | .f32 => (match asQ v with | some q => (round32 q).map CV.flt | none => none)
  | .f64 => (match asQ v with | some q => (round64 q).map CV.flt | none => none)
  | .bool => (match v with | .bool b => some (.bool b) | _ => none)
  | .str => (match v with | .str s => some (.str s) | _ => none)

/-- canonical value of an untyped kind -/
def toKind (v : CV) (k : UK) : Option CV :=
  match k with
  | .int | .rune => (match v.toInt with | .int x => some (.int x) | _ => none)
  | .float => (asQ v).map CV.flt
  | .bool => (match v with | .bool b => some (.bool b) | _ => none)
  | .str => (match v with | .str s => some (.str s) | _ => none)

def ukRank : UK → Nat | .int => 0 | .rune => 1 | .float => 2 | .bool => 10 | .str => 11

/-- operands of a binary operation are brought to one type ("if one operand is an untyped constant and the other
    is not, the constant is implicitly converted to the type of the other operand"; untyped operands take the
    later kind of integer, rune, floating-point) -/
def matchTypes (a b : GV) : Res (CV × CV × Ty) :=
  match a.ty, b.ty with
  | .u ka, .u kb =>
    if ukRank ka < 10 && ukRank kb < 10 then
      let k := if ukRank ka ≤ ukRank kb then kb else ka
      (match toKind a.v k, toKind b.v k with
       | some x, some y => .ok (x, y, .u k)
       | _, _ => .reject)
    else if ka == kb then .ok (a.v, b.v, .u ka) else .reject
  | .t ta, .u _ =>
    (match representGo b.v ta with
     | some y => if (isNumTy b.ty && isNumTy a.ty) || (isStrTy b.ty && isStrTy a.ty) || (isBoolTy b.ty && isBoolTy a.ty)
                 then .ok (a.v, y, .t ta) else .reject
     | none => .reject)
  | .u _, .t tb =>
    (match representGo a.v tb with
     | some x => if (isNumTy b.ty && isNumTy a.ty) || (isStrTy b.ty && isStrTy a.ty) || (isBoolTy b.ty && isBoolTy a.ty)
                 then .ok (x, b.v, .t tb) else .reject
     | none => .reject)
  | .t ta, .t tb => if ta == tb then .ok (a.v, b.v, .t ta) else .reject

/-- the result of an operation must be representable in the operand type (typed), or fit the implementation limit -/
def finish (v : CV) (t : Ty) : Res GV :=
  match t with
  | .t b => (match representGo v b with | some x => .ok ⟨x, t⟩ | none => .reject)
  | .u k =>
    (match v with
     | .int x => if bitLen x > maxUntypedBits then .reject else .ok ⟨v, t⟩
     | _ => (match toKind v k with | some x => .ok ⟨x, t⟩ | none => .reject))

def arithGo (a : Act) (x y : CV) (t : Ty) : Res GV :=
  if isIntTy t then
    (match x, y with
     | .int p, .int q =>
       (match a with
        | .add => finish (.int (p + q)) t
        | .sub => finish (.int (p - q)) t
        | .mul => finish (.int (p * q)) t
        | .quo => if q = 0 then .reject else finish (.int (p.tdiv q)) t
        | .rem => if q = 0 then .reject else finish (.int (p.tmod q)) t
        | .and => finish (.int (iand p q)) t
        | .or => finish (.int (ior p q)) t
        | .xor => finish (.int (ixor p q)) t
        | .andNot => finish (.int (iandNot p q)) t
        | _ => .reject)
     | _, _ => .reject)
  else if isFloatTy t then
    (match x, y with
     | .flt p, .flt q =>
       (match a with
        | .add => finish (.flt (p.add q)) t
        | .sub => finish (.flt (p.sub q)) t
        | .mul => finish (.flt (p.mul q)) t
        | .quo => if q.num = 0 then .reject else finish (.flt (p.div q)) t
        | _ => .reject)
     | _, _ => .reject)
  else if isStrTy t then
    (match a, x, y with
     | .add, .str p, .str q => .ok ⟨.str (p ++ q), t⟩
     | _, _, _ => .reject)
  else .reject

def cmpGo (a : Act) (x y : CV) : Res GV :=
  let ord (lt eq : Bool) : Res GV :=
    match a with
    | .eq => .ok ⟨.bool eq, .u .bool⟩
    | .ne => .ok ⟨.bool (!eq), .u .bool⟩
    | .lt => .ok ⟨.bool lt, .u .bool⟩
    | .le => .ok ⟨.bool (lt || eq), .u .bool⟩
    | .gt => .ok ⟨.bool (!(lt || eq)), .u .bool⟩
    | .ge => .ok ⟨.bool (!lt), .u .bool⟩
    | _ => .reject
  match x, y with
  | .int p, .int q => ord (decide (p < q)) (decide (p = q))
  | .flt p, .flt q => ord (p.lt q) (p == q)
  | .str p, .str q => ord (strLt p q) (p == q)
  | .bool p, .bool q => (match a with
      | .eq => .ok ⟨.bool (p == q), .u .bool⟩
      | .ne => .ok ⟨.bool (p != q), .u .bool⟩
      | _ => .reject)
  | _, _ => .reject
where
  strLt : List Nat → List Nat → Bool
    | [], [] => false
    | [], _ :: _ => true
    | _ :: _, [] => false
    | a :: as, b :: bs => if a < b then true else if a > b then false else strLt as bs

def unaryGo (a : Act) (x : GV) : Res GV :=
  match a with
  | .pos => if isNumTy x.ty then finish x.v x.ty else .reject    -- the result of every constant operation is checked
  | .neg =>
    (match x.v with
     | .int v => if isIntTy x.ty then finish (.int (-v)) x.ty else .reject
     | .flt q => if isFloatTy x.ty then finish (.flt q.neg) x.ty else .reject
     | _ => .reject)
  | .bitNot =>
    (match x.v, x.ty with
     | .int v, .u .int => finish (.int (inot v)) x.ty       -- the toolchain's limit applies: ^(1<<512 - 1) overflows
     | .int v, .u .rune => finish (.int (inot v)) x.ty
     | .int v, .t (.i k) => if k.signed then .ok ⟨.int (inot v), x.ty⟩ else .ok ⟨.int ((2 ^ k.bits : Int) - 1 - v), x.ty⟩
     | _, _ => .reject)
  | .not => (match x.v with | .bool b => if isBoolTy x.ty then .ok ⟨.bool (!b), x.ty⟩ else .reject | _ => .reject)
  | _ => .reject

/-- the count of a constant shift: "the right operand must have integer type or be an untyped constant
    representable by a value of type uint"; it must not be negative -/
def shiftCount (s : GV) : Option Int :=
  match s.ty with
  | .u _ => (match s.v.toInt with | .int c => if isNumTy s.ty && 0 ≤ c && c < 2 ^ 64 then some c else none | _ => none)
  | .t (.i _) => (match s.v with | .int c => if 0 ≤ c then some c else none | _ => none)
  -- the toolchain also accepts a typed floating-point constant count with an integral value (go/types checks
  -- the integer type of the count only when it is not constant)
  | .t .f32 | .t .f64 => (match s.v.toInt with | .int c => if 0 ≤ c then some c else none | _ => none)
  | _ => none

/-- the shifted operand: "if the left operand of a constant shift expression is an untyped constant, the result
    is an integer constant" (it must be representable as an integer); otherwise of integer type -/
def shiftLeft (x : GV) : Option (Int × Ty) :=
  match x.ty with
  | .u .int => (match x.v with | .int v => some (v, x.ty) | _ => none)
  | .u .rune => (match x.v with | .int v => some (v, x.ty) | _ => none)
  | .u .float => (match x.v.toInt with | .int v => some (v, .u .int) | _ => none)
  | .t (.i _) => (match x.v with | .int v => some (v, x.ty) | _ => none)
  | _ => none

def shiftGo (a : Act) (x s : GV) : Res GV :=
  match shiftCount s with
  | none => .reject
  | some c =>
    if c > shiftBound then .reject
    else
      match shiftLeft x with
      | none => .reject
      | some (v, t) =>
        (match a with
         | .shl => finish (.int (ishl v c.toNat)) t
         | .shr => finish (.int (ishr v c.toNat)) t
         | _ => .reject)

def convGo (t : BT) (x : GV) : Res GV :=
  match t with
  | .i _ | .f32 | .f64 =>
    if isNumTy x.ty then (match representGo x.v t with | some v => .ok ⟨v, .t t⟩ | none => .reject) else .reject
  | .str =>
    (match x.v with
     | .str s => .ok ⟨.str s, .t t⟩
     | .int v => if isIntTy x.ty then .ok ⟨.str (utf8 v), .t t⟩ else .reject
     | _ => .reject)
  | .bool => (match x.v with | .bool b => .ok ⟨.bool b, .t t⟩ | _ => .reject)

def isCmp (a : Act) : Bool := a == .eq || a == .ne || a == .lt || a == .le || a == .gt || a == .ge

/-- value and type of a constant expression -/
def evalGo (iota : Nat) : CExpr → Res GV
  | .int v => if bitLen v > maxUntypedBits then .reject else .ok ⟨.int v, .u .int⟩   -- the toolchain's limit applies to literals too
  | .rune v => .ok ⟨.int v, .u .rune⟩
  | .flt q => .ok ⟨.flt q, .u .float⟩
  | .bool b => .ok ⟨.bool b, .u .bool⟩
  | .str s => .ok ⟨.str s, .u .str⟩
  | .iota => .ok ⟨.int iota, .u .int⟩
  | .par x => evalGo iota x
  | .un a x => (evalGo iota x).bind fun v => unaryGo a v
  | .bin a x y =>
    (evalGo iota x).bind fun p => (evalGo iota y).bind fun q =>
      if a == .shl || a == .shr then shiftGo a p q
      else (matchTypes p q).bind fun (u, v, t) =>
        if isCmp a then
          (if (a == .eq || a == .ne) || isNumTy t || isStrTy t then cmpGo a u v else .reject)
        else if a == .land || a == .lor then
          (match u, v with
           | .bool b, .bool c => .ok ⟨.bool (if a == .land then b && c else b || c), t⟩
           | _, _ => .reject)
        else arithGo a u v t
  | .conv t x => (evalGo iota x).bind fun v => convGo t v
  | .len x => (evalGo iota x).bind fun v =>
      (match v.v with | .str s => .ok ⟨.int s.length, .t (.i .int)⟩ | _ => .reject)

/-- default type of an untyped constant -/
def defaultGo : Ty → BT
  | .u .int => .i .int | .u .rune => .i .int32 | .u .float => .f64 | .u .bool => .bool | .u .str => .str
  | .t b => b

/-- a constant used where a value of type `T` is needed (assignment, declaration with a type) -/
def assignGo (x : GV) (t : BT) : Res (CV × BT) :=
  match x.ty with
  | .t b => if b == t then .ok (x.v, t) else .reject
  | .u _ =>
    if (isNumTy x.ty && isNumTy (.t t)) || (isStrTy x.ty && t == .str) || (isBoolTy x.ty && t == .bool) then
      (match representGo x.v t with | some v => .ok (v, t) | none => .reject)
    else .reject

/-- the observable of `var c [T] = e` / `const c [T] = e` followed by a use of `c` as a value -/
def declGo (iota : Nat) (declT : Option BT) (e : CExpr) : Res (CV × BT) :=
  (evalGo iota e).bind fun x =>
    match declT with
    | some t => assignGo x t
    | none => assignGo x (defaultGo x.ty)

/-- "Within a parenthesized const declaration list the expression list may be omitted from any but the first
    ConstSpec. Such an empty list is equivalent to the textual substitution of the first preceding non-empty
    expression list and its type if any." -/
def resolveGo : Option (Option BT × CExpr) → List Spec → List (Option (Option BT × CExpr))
  | _, [] => []
  | prev, .explicit t e :: rest => some (t, e) :: resolveGo (some (t, e)) rest
  | prev, .implicit :: rest => prev :: resolveGo prev rest

/-- "Within a constant declaration, iota represents successive untyped integer constants. Its value is the index
    of the respective ConstSpec in that constant declaration, starting at zero." -/
def blockGoFrom : Nat → List (Option (Option BT × CExpr)) → List (Res (CV × BT))
  | _, [] => []
  | i, some (t, e) :: rest => declGo i t e :: blockGoFrom (i + 1) rest
  | i, none :: rest => .reject :: blockGoFrom (i + 1) rest

def blockGo (specs : List Spec) : List (Res (CV × BT)) := blockGoFrom 0 (resolveGo none specs)

end YaegiVerif.Const.Spec
