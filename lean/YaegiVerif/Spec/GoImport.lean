import YaegiVerif.Model.Src
/-
  C16 — reference semantics: how the Go toolchain resolves an import path in GOPATH mode
  (go/build `Context.Import`: `searchVendor` walking up from the importing directory, then
  `GOPATH/src/<path>`; `cmd/go` local imports), written from go1.23's sources and validated on every
  run against `go/build.Context.Import` and a hand-written Go resolver.

  Directories are given by their elements below `GOPATH/src` (`imp`), `gs` is the split form of
  `GOPATH/src` itself.
-/
namespace YaegiVerif.Src.Spec
open YaegiVerif.Src

def isDir (f : FS) (p : Path) : Bool := f.dirs.contains p

def isGoFile (name : String) : Bool := ".go".toList.reverse.isPrefixOf name.toList.reverse

/-- go/build `hasGoFiles` -/
def hasGo (f : FS) (d : Path) : Bool :=
  f.files.any fun p => p.dropLast == d && isGoFile (p.getLast?.getD "")

/-- the candidate `…/<first k elements of imp>/vendor/<P>` is taken iff `vendor` is a directory and
    `vendor/<P>` is a directory with Go files -/
def vendorHit (f : FS) (gs : Path) (imp P : List String) (k : Nat) : Bool :=
  let v := gs ++ imp.take k ++ ["vendor"]
  isDir f v && isDir f (v ++ P) && hasGo f (v ++ P)

/-- nearest enclosing vendor directory, from `imp.take k` upwards to `GOPATH/src` itself -/
def vendorSearch (f : FS) (gs : Path) (imp P : List String) : Nat → Option Path
  | 0 => if vendorHit f gs imp P 0 then some (gs ++ ["vendor"] ++ P) else none
  | k + 1 =>
    if vendorHit f gs imp P (k + 1) then some (gs ++ imp.take (k + 1) ++ ["vendor"] ++ P)
    else vendorSearch f gs imp P k

/-- resolution of the non-relative import path `P` seen from the directory `GOPATH/src/<imp>` -/
def resolve (f : FS) (gs : Path) (imp P : List String) : Option Path :=
  match vendorSearch f gs imp P imp.length with
  | some d => some d
  | none => if isDir f (gs ++ P) then some (gs ++ P) else none

/-- a relative import resolves against the importing file's directory -/
def resolveRel (importerDir rel : Path) : Path := join [importerDir, rel]

end YaegiVerif.Src.Spec
