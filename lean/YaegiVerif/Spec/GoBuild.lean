import YaegiVerif.Model.Build
/-
  C17 — reference semantics: what the Go toolchain does (go/build `matchFile`,
  `goodOSArchFile`, `shouldBuild`, `parseFileHeader`, `matchTag`; go/build/constraint
  `parsePlusBuildExpr`, `//go:build` expressions), written from go1.23's sources and
  validated on every run against `go/build.Context.MatchFile`.
-/
namespace YaegiVerif.Build.Spec
open YaegiVerif YaegiVerif.Build

/-- go/build syslist.go knownOS / knownArch (go1.23), sorted -/
def knownOS : List String :=
  ["aix","android","darwin","dragonfly","freebsd","hurd","illumos","ios","js","linux","nacl",
   "netbsd","openbsd","plan9","solaris","wasip1","windows","zos"]
def knownArch : List String :=
  ["386","amd64","amd64p32","arm","arm64","arm64be","armbe","loong64","mips","mips64",
   "mips64le","mips64p32","mips64p32le","mipsle","ppc","ppc64","ppc64le","riscv","riscv64","s390","s390x",
   "sparc","sparc64","wasm"]
def unixOS : List String :=
  ["aix","android","darwin","dragonfly","freebsd","hurd","illumos","ios","linux","netbsd","openbsd","solaris"]

/-- go/build matchTag on a rendered word -/
def matchWord (c : Ctx) (name : String) : Bool :=
  if c.cgo && name == "cgo" then true
  else if name == c.goos || name == c.goarch || name == c.compiler then true
  else if c.goos == "android" && name == "linux" then true
  else if c.goos == "illumos" && name == "solaris" then true
  else if c.goos == "ios" && name == "darwin" then true
  else if name == "unix" && unixOS.contains c.goos then true
  else
    let name := if name == "boringcrypto" then "goexperiment.boringcrypto" else name
    c.tags.contains name

/-- matchTag on the abstract tag: release tags are go1.1 … go1.minor -/
def matchTag (c : Ctx) (t : TagName) : Bool :=
  matchWord c t.render ||
  (match t with
   | .rel n => decide (1 ≤ n ∧ n ≤ c.minor)
   | .word _ => false)

def litOk (c : Ctx) (l : Lit) : Bool := (matchTag c l.name) != l.neg
def optOk (c : Ctx) (o : Opt) : Bool := o.all (litOk c)
/-- a `// +build` line: OR of options; a line without options is the word `ignore` -/
def lineOk (c : Ctx) (ln : PlusLine) : Bool :=
  match ln with
  | [] => matchTag c (.word "ignore")
  | _ => ln.any (optOk c)
def linesOk (c : Ctx) (lns : List PlusLine) : Bool := lns.all (lineOk c)

/-! ### file names -/

/-- goodOSArchFile on the elements of the name cut at its first dot. `true` = good -/
def goodOSArch (c : Ctx) (elems : List String) : Bool :=
  match elems.tail with
  | [] => true
  | tl =>
    let l := "" :: tl
    let l := if l.getLast? == some "test" then l.dropLast else l
    match l.reverse with
    | [] => true
    | [y] => if knownOS.contains y || knownArch.contains y then matchWord c y else true
    | y :: x :: _ =>
      if knownOS.contains x && knownArch.contains y then matchWord c y && matchWord c x
      else if knownOS.contains y || knownArch.contains y then matchWord c y
      else true

/-- is the file part of the package when loaded (`skipTest`: importing, test files excluded);
    `isTest` = the base name ends in `_test` -/
def selectedElems (c : Ctx) (isTest : Bool) (elems : List String) (skipTest : Bool) : Bool :=
  !(skipTest && isTest) && goodOSArch c elems

/-! ### raw layer: what MatchFile does with the name and header text -/

/-- matchFile's name part for a name that ends in `.go`. true = selected. -/
def nameOkRaw (c : Ctx) (name : List Char) (skipTest : Bool) : Bool :=
  if Str.hasPrefix ['_'] name || Str.hasPrefix ['.'] name then false
  else if !(Str.hasSuffix ".go".toList name) then false
  else
    -- goodOSArchFile cuts the name at the FIRST dot
    let stem := (Str.splitOn '.' name).headD []
    let elems := (Str.splitOn '_' stem).map Str.s
    let base := name.take (name.length - 3)
    selectedElems c (Str.hasSuffix "_test".toList base) elems skipTest

/-- evaluate one word of a +build clause (constraint.parsePlusBuildExpr) -/
def plusLitRaw (c : Ctx) (lit : List Char) : Bool :=
  if Str.hasPrefix "!!".toList lit || lit == ['!'] then matchWord c "ignore"
  else
    let (neg, w) := match lit with | '!' :: r => (true, r) | _ => (false, lit)
    let v := if isValidTag w then
        (matchWord c (Str.s w) ||
          -- release tags
          (match Build.classify w with
           | some (.rel n) => decide (1 ≤ n ∧ n ≤ c.minor)
           | _ => false))
      else matchWord c "ignore"
    if neg then !v else v

def plusExprRaw (c : Ctx) (text : List Char) : Bool :=
  let clauses := Str.fields text
  if clauses.isEmpty then matchWord c "ignore"
  else clauses.any fun cl => (Str.splitOn ',' cl).all (plusLitRaw c)

/-- constraint.splitPlusBuild on a `//` comment's text (what follows `//`) -/
def splitPlusBuild (text : List Char) : Option (List Char) :=
  let line := Str.trim text
  if !(Str.hasPrefix "+build".toList line) then none
  else
    let rest := line.drop 6
    let rest2 := Str.trim rest
    if rest2.length == rest.length && !rest.isEmpty then none
    else some rest2

/-- toolchain evaluation of a `//go:build` expression: matchTag on every word -/
def evalGoExpr (c : Ctx) : BExpr → Bool
  | .tag s => matchWord c s ||
      (match Build.classify s.toList with
       | some (.rel n) => decide (1 ≤ n ∧ n ≤ c.minor)
       | _ => false)
  | .not e => !(evalGoExpr c e)
  | .and a b => evalGoExpr c a && evalGoExpr c b
  | .or a b => evalGoExpr c a || evalGoExpr c b

/-- structured layer: the same over abstract tag names -/
def evalG (c : Ctx) : GExpr → Bool
  | .tag t => matchTag c t
  | .not e => !(evalG c e)
  | .and a b => evalG c a && evalG c b
  | .or a b => evalG c a || evalG c b

inductive Sel where | yes | no | err
  deriving Repr, DecidableEq

/-- shouldBuild on the structured header: comment groups (each followed by a blank line, the last
    one iff `lastBlank`).  A group is a run of comments on consecutive lines. -/
def shouldBuildRaw (c : Ctx) (groups : List (List Comment)) (lastBlank : Bool) : Sel :=
  -- number the groups; a // comment counts for +build iff a blank line follows its group (or a later one)
  -- and no block comment was seen up to and including that later group.
  let n := groups.length
  let idx := List.range n
  let hasBlock (i : Nat) : Bool := (groups.take (i+1)).any fun g => g.any fun cm => !cm.line
  let blankAfter (j : Nat) : Bool := j + 1 < n || lastBlank
  let counted (i : Nat) : Bool := (idx.drop i).any fun j => blankAfter j && !hasBlock j
  let allComments := groups.flatten
  let gobuilds := allComments.filterMap fun cm => if cm.line then splitGoBuild cm.text else none
  match gobuilds with
  | _ :: _ :: _ => .err
  | [e] => (match parseGoBuild e with
      | some x => if evalGoExpr c x then .yes else .no
      | none => .err)
  | [] =>
    let oks := (groups.zip idx).all fun (g, i) =>
      if counted i then g.all fun cm =>
        if cm.line then (match splitPlusBuild cm.text with
          | some e => plusExprRaw c e
          | none => true) else true
      else true
    if oks then .yes else .no

end YaegiVerif.Build.Spec
