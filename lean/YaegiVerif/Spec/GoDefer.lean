import YaegiVerif.Model.Unwind
/-
  C06 — the Go specification of defer / panic / recover for the same mini-language
  (The Go Programming Language Specification: "Defer statements", "Handling panics", "Run-time panics").

    * `defer f(x)`: the function value and the arguments are evaluated when the defer statement
      executes; the call itself runs when the surrounding function returns or panics.
    * deferred calls run in reverse order of their defer statements (LIFO), each exactly once,
      whether the function returns normally or panics.
    * a panic raised while running deferred calls (including by a deferred call) replaces the
      current one; the remaining deferred calls still run.
    * `recover()` returns the current panic value and stops the panicking sequence only when it is
      called directly by a deferred function that the panicking sequence is running; otherwise nil.
    * after a recovery the function that was panicking returns normally to its caller with the
      current values of its named results (which deferred closures may have assigned).
    * a panic nobody recovers terminates the program (for an interpreter: is reported by Eval).
    * the value returned by `recover()` (and reported to the embedder) IS the value passed to `panic`:
      type assertions and comparisons on it behave as on the original.
    * the built-in `panic` may be deferred like any function; a function literal stored in a variable,
      a field or a slice and then deferred is a deferred function like one written at the defer statement.

  Core Lean only. Types (`Code`, `Val`, `Event`, `Sig`, `Entry`, `World`, `Outcome`) are shared with the model.
-/
namespace YaegiVerif.Unwind.Spec
open YaegiVerif.Unwind

/-- activation record of the specification: the stack of deferred calls (top first) and the named result -/
structure Act where
  defers : List Entry
  res : Int
  deriving DecidableEq, Repr, Inhabited

/-- `callFn body arg ctx outer world`: `ctx` is the panic value that a `recover()` written directly in
    this body may stop (`some v` exactly when this is a deferred call run by a panicking sequence with
    current value v); `outer` is the named result of the lexically enclosing function (for literals).
    Returns: signal, what is left of ctx (none once recovered), outer, own result, world. -/
abbrev CallFn := Code → Int → Option Val → Int → World → Sig × Option Val × Int × Int × World

def evalArg (a : Arg) (param : Int) (act : Act) : Int :=
  match a with
  | .lit n => n
  | .param => param
  | .res => act.res

/-- a defer statement pushes the callee with its argument evaluated now -/
def push (c : Callee) (n : Int) (act : Act) : Act := { act with defers := ⟨c, .val n⟩ :: act.defers }

def execBody (callFn : CallFn) :
    Code → Int → Option Val → Int → Act → World → Sig × Option Val × Int × Act × World
  | .done, _, ctx, outer, act, w => (.normal, ctx, outer, act, w)
  | .print s k, a, ctx, outer, act, w => execBody callFn k a ctx outer act (w.emit (.print s))
  | .printArg k, a, ctx, outer, act, w => execBody callFn k a ctx outer act (w.emit (.arg a))
  | .call f x showRes k, a, ctx, outer, act, w =>
    -- an ordinary call is not run by a panicking sequence: nothing to recover there; for a literal
    -- the enclosing function's named result is this function's
    match callFn f (evalArg x a act) none act.res w with
    | (sig, _, res', r, w') =>
      match sig with
      | .normal => execBody callFn k a ctx outer { act with res := res' } (if showRes then w'.emit (.ret r) else w')
      | .panic v => (.panic v, ctx, outer, { act with res := res' }, w')
      | .fuel => (.fuel, ctx, outer, { act with res := res' }, w')
  | .defer f x k, a, ctx, outer, act, w => execBody callFn k a ctx outer (push (.src f) (evalArg x a act) act) w
  -- a function literal held in a variable is an ordinary function value: when deferred it is a deferred function
  | .deferVar f x k, a, ctx, outer, act, w => execBody callFn k a ctx outer (push (.held f) (evalArg x a act) act) w
  | .deferBin s x k, a, ctx, outer, act, w => execBody callFn k a ctx outer (push (.bin s) (evalArg x a act) act) w
  -- `defer f(xs...)`: xs is the list of variadic arguments, as in an ordinary call
  | .deferBinSpread s ns k, a, ctx, outer, act, w => execBody callFn k a ctx outer (push (.bins s ns true) 0 act) w
  | .deferDel t k, a, ctx, outer, act, w => execBody callFn k a ctx outer (push (.del t) 0 act) w
  -- `defer panic(v)`: the builtin is a function like any other — v is evaluated now, the panic is raised when
  -- the deferred calls run
  | .deferPanic v k, a, ctx, outer, act, w => execBody callFn k a ctx outer (push (.pan v) 0 act) w
  | .probe t k, a, ctx, outer, act, w =>
    execBody callFn k a ctx outer act (w.emit (.probe t (!w.deleted.contains t)))
  | .panic v _, _, ctx, outer, act, w => (.panic v, ctx, outer, act, w)
  | .recover showIt k, a, ctx, outer, act, w =>
    -- called directly by this function: returns ctx and stops that panic
    execBody callFn k a none outer act (if showIt then w.emit (.recd ctx) else w)
  | .recoverIs v k, a, ctx, outer, act, w =>
    -- the value recover() returns is the value the panic was raised with: same dynamic type, equal to it
    execBody callFn k a none outer act (w.emit (.recIs (decide (ctx = some v))))
  | .repanic k, a, ctx, outer, act, w =>
    -- recover() stops the current panic; the function then panics again with the same value
    match ctx with
    | some v => (.panic v, none, outer, act, w)
    | none => execBody callFn k a none outer act w
  | .setRes n k, a, ctx, outer, act, w => execBody callFn k a ctx outer { act with res := n } w
  | .setOuter n k, a, ctx, _, act, w => execBody callFn k a ctx n act w

/-- run the deferred calls, top of stack first; `cur` is the current panic of this function, if any -/
def runDefers (callFn : CallFn) : List Entry → Option Val → Int → World → Sig × Option Val × Int × World
  | [], cur, res, w => (.normal, cur, res, w)
  | e :: es, cur, res, w =>
    let n := e.arg.get res
    match e.callee with
    | .bin s => runDefers callFn es cur res (w.emit (.bin s n))
    | .bins s ns sp => runDefers callFn es cur res (w.emit (.bins s ns sp))
    | .del t => runDefers callFn es cur res { w with deleted := t :: w.deleted }
    | .pan v => runDefers callFn es (some v) res w           -- the new panic replaces the current one
    | .src c =>
      match callFn c n cur res w with
      | (sig, cur', res', _, w') =>
        match sig with
        | .normal => runDefers callFn es cur' res' w'      -- cur' = none if it recovered
        | .panic q => runDefers callFn es (some q) res' w'  -- the new panic replaces the current one
        | .fuel => (.fuel, cur', res', w')
    | .held c =>
      match callFn c n cur res w with
      | (sig, cur', res', _, w') =>
        match sig with
        | .normal => runDefers callFn es cur' res' w'
        | .panic q => runDefers callFn es (some q) res' w'
        | .fuel => (.fuel, cur', res', w')

/-- how the function ends once its deferred calls have run: still panicking, or returning normally -/
def finish (sig : Sig) (cur : Option Val) : Sig :=
  match sig with
  | .fuel => .fuel
  | _ => match cur with
    | some v => .panic v
    | none => .normal

def execFn : Nat → CallFn
  | 0, _, _, ctx, outer, w => (.fuel, ctx, outer, 0, w)
  | n + 1, code, a, ctx, outer, w =>
    match execBody (execFn n) code a ctx outer ⟨[], 0⟩ w with
    | (sig, ctx', outer', act, w') =>
      match sig with
      | .fuel => (.fuel, ctx', outer', act.res, w')
      | _ =>
        -- on return and on panic alike: run every deferred call, last pushed first
        match runDefers (execFn n) act.defers (pendingOf sig) act.res w' with
        | (sig', cur, res', w'') => (finish sig' cur, ctx', outer', res', w'')

/-- the whole program `top(0)` under an embedder that reports an unrecovered panic as an error value -/
def run (fuel : Nat) (top : Code) : Outcome :=
  match execFn fuel top 0 none 0 World.init with
  | (sig, _, _, _, w) =>
    match sig with
    | .normal => ⟨w.out, .ok, true⟩
    | .panic v => ⟨w.out, .panicErr (some v), true⟩
    | .fuel => ⟨w.out, if w.hung then .hang else .fuel, !w.hung⟩   -- (the specification never sets `hung`)

end YaegiVerif.Unwind.Spec
