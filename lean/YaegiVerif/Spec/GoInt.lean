import YaegiVerif.Model.Ops
/-
  C02 — Go's integer semantics, written from the language specification in terms of the *mathematical*
  value of the operands (no 64-bit detour):

  * "Integer overflow": for unsigned integers `+ - * <<` are computed modulo 2^n; for signed integers
    they may overflow and the result is defined by the two's-complement representation (wrap-around).
  * "Integer operators": `q = x / y` truncated towards zero, `x % y` with `x = q*y + r`, `|r| < |y|`;
    if the dividend is the most negative value and the divisor is −1, `q = x` (wrap) and `r = 0`;
    division by zero panics.
  * Shifts: "as though the left operand is shifted n times by 1"; `x << 1 = x*2`, `x >> 1 = x/2`
    truncated towards negative infinity (arithmetic shift for signed, logical for unsigned); no upper
    limit on the count; a negative (signed) count panics at run time.
  * `&  |  ^  &^` bitwise on the two's-complement representation; `^x = m ^ x` with m all ones.
  * Comparisons compare the mathematical values.
  * Conversions between integer types: sign-extend or zero-extend to infinite precision according to the
    *source* type, then truncate to the target size.

  Core Lean only.
-/
namespace YaegiVerif.Spec.GoInt
open YaegiVerif.Ops

/-- mathematical value of the bit pattern `x` read at signedness `s` -/
def value (s : Bool) {w : Nat} (x : BitVec w) : Int := if s then x.toInt else (x.toNat : Int)

/-- the value of kind width `w` whose representation is `v` modulo 2^w -/
def wrap (w : Nat) (v : Int) : BitVec w := BitVec.ofInt w v

inductive BinOp | add | sub | mul | quo | rem | and | or | xor | andNot
  deriving DecidableEq, Repr
inductive CmpOp | eql | neq | lss | leq | gtr | geq
  deriving DecidableEq, Repr
inductive UnOp | neg | pos | bitNot
  deriving DecidableEq, Repr

/-- arithmetic and bitwise binary operators on operands of one kind (s, w) -/
def binary (op : BinOp) (s : Bool) {w : Nat} (x y : BitVec w) : Outcome (BitVec w) :=
  match op with
  | .add => .val (wrap w (value s x + value s y))
  | .sub => .val (wrap w (value s x - value s y))
  | .mul => .val (wrap w (value s x * value s y))
  | .quo => if value s y = 0 then .panicDiv else .val (wrap w ((value s x).tdiv (value s y)))
  | .rem => if value s y = 0 then .panicDiv else .val (wrap w ((value s x).tmod (value s y)))
  | .and => .val (x &&& y)
  | .or => .val (x ||| y)
  | .xor => .val (x ^^^ y)
  | .andNot => .val (x &&& ~~~y)

/-- shifts: the count is an integer of its own kind (cs, cw) -/
def shl (s : Bool) {w : Nat} (x : BitVec w) (cs : Bool) {cw : Nat} (c : BitVec cw) : Outcome (BitVec w) :=
  if value cs c < 0 then .panicShift else .val (wrap w (value s x * 2 ^ (value cs c).toNat))

def shr (s : Bool) {w : Nat} (x : BitVec w) (cs : Bool) {cw : Nat} (c : BitVec cw) : Outcome (BitVec w) :=
  if value cs c < 0 then .panicShift else .val (wrap w (value s x / 2 ^ (value cs c).toNat))

/-- executable forms used by the driver (the count may be as large as 2^64 − 1, and 2^(2^64) cannot be built);
    `Props.C02.shl_exec_eq` / `shr_exec_eq` prove them equal to `shl` / `shr` -/
def shlExec (s : Bool) {w : Nat} (x : BitVec w) (cs : Bool) {cw : Nat} (c : BitVec cw) : Outcome (BitVec w) :=
  if value cs c < 0 then .panicShift
  else if (w : Int) ≤ value cs c then .val 0#w
  else .val (wrap w (value s x * 2 ^ (value cs c).toNat))

def shrExec (s : Bool) {w : Nat} (x : BitVec w) (cs : Bool) {cw : Nat} (c : BitVec cw) : Outcome (BitVec w) :=
  if value cs c < 0 then .panicShift
  else if (w : Int) ≤ value cs c then .val (if value s x < 0 then BitVec.allOnes w else 0#w)
  else .val (wrap w (value s x / 2 ^ (value cs c).toNat))

def compare (op : CmpOp) (s : Bool) {w : Nat} (x y : BitVec w) : Bool :=
  match op with
  | .eql => decide (value s x = value s y)
  | .neq => decide (value s x ≠ value s y)
  | .lss => decide (value s x < value s y)
  | .leq => decide (value s x ≤ value s y)
  | .gtr => decide (value s x > value s y)
  | .geq => decide (value s x ≥ value s y)

def unary (op : UnOp) (s : Bool) {w : Nat} (x : BitVec w) : BitVec w :=
  match op with
  | .neg => wrap w (- value s x)
  | .pos => x
  | .bitNot => wrap w (- value s x - 1)       -- ^x = -x - 1 in two's complement (signed), 2^w - 1 - x (unsigned)

/-- `x++` / `x--` -/
def incr (s : Bool) {w : Nat} (x : BitVec w) : BitVec w := wrap w (value s x + 1)
def decr (s : Bool) {w : Nat} (x : BitVec w) : BitVec w := wrap w (value s x - 1)

/-- conversion `T(x)` from kind (s, w) to a kind of width w' -/
def convert (s : Bool) {w : Nat} (x : BitVec w) (w' : Nat) : BitVec w' := wrap w' (value s x)

/-- conversion `string(x)` of an integer x of kind (s, w), as a code point: "Converting a signed or unsigned integer
    value to a string type yields a string containing the UTF-8 representation of the integer. Values outside the
    range of valid Unicode code points are converted to "\uFFFD"." -/
def intToString (s : Bool) {w : Nat} (x : BitVec w) : Int :=
  if validRune (value s x) then value s x else 0xFFFD

end YaegiVerif.Spec.GoInt
