import YaegiVerif.Model.Share
/-
  C04 — the Go specification's value semantics on the store of Model/Share.lean.

  Read from the specification:
    * arrays and structs are values: assignment, passing, returning, ranging and `:=` copy the whole tree;
      slices, maps and pointers are references (the header / reference is copied, the referent is shared);
    * Assignment statements: "The assignment proceeds in two phases. First, the operands of index
      expressions and pointer indirections on the left and the expressions on the right are all evaluated
      in the usual order. Second, the assignments are carried out in left-to-right order."
    * Short variable declarations: same evaluation; a variable already declared in the same scope is
      assigned, the others are new variables;
    * For statements with range clause: "The range expression x is evaluated once"; ranging over an
      array iterates over a copy, over a slice over the live elements (length fixed at the start);
      over a pointer to an array over the elements of the pointee (no copy); every iteration has its own copy
      of the iteration variables (Go 1.22);
    * Appending: operands are evaluated (to values) before the elements are stored; the backing array is
      re-used when the capacity suffices; the capacity of a new backing array is the runtime's choice
      (parameter `Growth`, shared with the model);
    * copy: works on overlapping slices (memmove);
    * Index expressions on maps: a missing key yields the zero value, also in the comma-ok form;
    * Calls: parameters are new variables initialised with the argument values;
    * Function literals are closures: they share the variables they refer to; a variable declared in a
      loop body is a new variable on every iteration.
  Core Lean only.
-/
namespace YaegiVerif.Share.Spec
open YaegiVerif.Share

/-- value of a pure expression (a copy of the value tree for arrays and structs) -/
def evalR (st : St) : RExp → Except Err (Val × St)
  | .lit v => .ok (v, st)
  | .load l => do
    let loc ← resolve st l
    let v ← st.read loc
    .ok (v, st)
  | .add a k => do
    let (v, st1) ← evalR st a
    match v with
    | .int n => .ok (.int (n + k), st1)
    | _ => .error "ill:type"
  | .addr l => do
    let loc ← resolve st l
    .ok (.ptr loc, st)
  | .mkslice elems => .ok (allocSlice st elems.toList)
  | .make zero len cap =>
    let (c, st1) := st.alloc (.arr (Vals.ofList (List.replicate (max len cap) zero)))
    .ok (.slice ⟨c, []⟩ 0 len (max len cap), st1)
  | .mkmap entries =>
    let (c, st1) := st.alloc (.arr entries)
    .ok (.map c, st1)
  | .new v =>
    let (c, st1) := st.alloc v
    .ok (.ptr ⟨c, []⟩, st1)
  | .slice l lo hi max => do
    let loc ← resolve st l
    let v ← st.read loc
    let r ← sliceOf st loc v lo hi max
    .ok (r, st)
  | .lookup m k zero => do
    let loc ← resolve st m
    let mv ← st.read loc
    let key ← keyVal st k
    let r ← mapLookup st mv key
    .ok (r.getD zero, st)
  | .len l => do
    let loc ← resolve st l
    let v ← st.read loc
    match v with
    | .arr vs => .ok (.int vs.length, st)
    | .map ref => do
      let c ← st.read ⟨ref, []⟩
      .ok (.int (entriesOf c).length, st)
    | .nil => .ok (.int 0, st)
    | sv => do
      let n ← sliceLen sv
      .ok (.int n, st)
  | .cap l => do
    let loc ← resolve st l
    let v ← st.read loc
    match v with
    | .arr vs => .ok (.int vs.length, st)
    | sv => do
      let n ← sliceCap sv
      .ok (.int n, st)
  | .idcall a => evalR st a

def evalAll (st : St) : List RExp → Except Err (List Val × St)
  | [] => .ok ([], st)
  | r :: rs => do
    let (v, st1) ← evalR st r
    let (vs, st2) ← evalAll st1 rs
    .ok (v :: vs, st2)

/-- a new variable -/
def declare (st : St) (x : Name) (v : Val) : St :=
  let (c, st1) := st.alloc v
  st1.bind x ⟨c, []⟩

def assign (st : St) (l : LExp) (r : RExp) : Except Err St := do
  let d ← resolve st l
  let (v, st1) ← evalR st r
  st1.write d v

def opassign (st : St) (l : LExp) (k : Int) : Except Err St := do
  let d ← resolve st l
  let v ← st.read d
  match v with
  | .int n => st.write d (.int (n + k))
  | _ => .error "ill:type"

def define (st : St) (x : Name) (r : RExp) : Except Err St := do
  let (v, st1) ← evalR st r
  .ok (declare st1 x v)

/-- phase one: all operands; phase two: the stores, left to right -/
def multi (st : St) (ls : List LExp) (rs : List RExp) : Except Err St := do
  let ds ← resolveAll st ls
  let (vs, st1) ← evalAll st rs
  writeAll st1 ds vs

def declareAll (st : St) : List Name → List Bool → List Val → Except Err St
  | x :: xs, rd :: rds, v :: vs =>
    if rd then do
      let l ← st.var x
      let st1 ← st.write l v
      declareAll st1 xs rds vs
    else declareAll (declare st x v) xs rds vs
  | _, _, _ => .ok st

def multidef (st : St) (xs : List Name) (rd : List Bool) (rs : List RExp) : Except Err St := do
  let (vs, st1) ← evalAll st rs
  declareAll st1 xs rd vs

def store (st : St) (isDef : Bool) (l : LExp) (v : Val) : Except Err St :=
  if isDef then
    match l with
    | .var x => .ok (declare st x v)
    | _ => .error "ill:define"
  else do
    let d ← resolve st l
    st.write d v

def append (G : Growth) (st : St) (isDef : Bool) (l : LExp) (s : RExp) (args : List RExp)
    (zero : Val) (esz : Nat) (noscan : Bool) : Except Err St := do
  let (sv, st1) ← evalR st s
  let (vals, st2) ← evalAll st1 args
  let (r, st3) ← appendVals G st2 sv vals zero esz noscan
  store st3 isDef l r

def appendSlice (G : Growth) (st : St) (isDef : Bool) (l : LExp) (s t : RExp)
    (zero : Val) (esz : Nat) (noscan : Bool) : Except Err St := do
  let (sv, st1) ← evalR st s
  let (tv, st2) ← evalR st1 t
  let vals ← sliceElems st2 tv
  let (r, st3) ← appendVals G st2 sv vals zero esz noscan
  store st3 isDef l r

def copy (st : St) (d s : RExp) : Except Err St := do
  let (dv, st1) ← evalR st d
  let (sv, st2) ← evalR st1 s
  copyVals st2 dv sv

def mapSet (st : St) (m : LExp) (k : IExp) (r : RExp) : Except Err St := do
  let loc ← resolve st m
  let mv ← st.read loc
  let key ← keyVal st k
  let (v, st1) ← evalR st r
  mapStore st1 mv key v

def mapDel (st : St) (m : LExp) (k : IExp) : Except Err St := do
  let loc ← resolve st m
  let mv ← st.read loc
  let key ← keyVal st k
  mapRemove st mv key

/-- a new variable, or an assignment to the existing one -/
def setOrDeclare (st : St) (decl : Bool) (x : Name) (v : Val) : Except Err St :=
  if decl then .ok (declare st x v)
  else do
    let l ← st.var x
    st.write l v

/-- `x, ok = m[k]` / `x, ok := m[k]`: the zero value when the key is missing; in the `:=` form a variable
    already declared in the scope (rdx / rdok) is assigned, the others are new variables at each execution -/
def lookup2 (st : St) (isDef : Bool) (x ok : Name) (m : LExp) (k : IExp) (zero : Val) (rdx rdok : Bool) : Except Err St := do
  let loc ← resolve st m
  let mv ← st.read loc
  let key ← keyVal st k
  let r ← mapLookup st mv key
  let st1 ← setOrDeclare st (isDef && !rdx) x (r.getD zero)
  setOrDeclare st1 (isDef && !rdok) ok (boolVal r.isSome)

/-- `l = T{…}` / `x := T{…}` with expression operands: all operands of the right-hand side are evaluated (in the state
    BEFORE the statement) and the value is built, then it is assigned — whether or not an operand reads the destination -/
def complit (st : St) (isDef : Bool) (l : LExp) (zero : Val) (elems : List (Path × RExp)) : Except Err St :=
  if isDef then
    match l with
    | .var x => do
      let (vs, st1) ← evalAll st (elems.map (·.2))
      let v ← buildLit zero (elems.map (·.1)) vs
      .ok (declare st1 x v)
    | _ => .error "ill:define"
  else do
    let d ← resolve st l
    let (vs, st1) ← evalAll st (elems.map (·.2))
    let v ← buildLit zero (elems.map (·.1)) vs
    st1.write d v

/-- `l = <-c` / `x := <-c` with the value of `r` in the channel: an assignment / declaration of the received value
    (Receive operator: "The value of the receive operation <-ch is the value received from the channel") -/
def recv (st : St) (isDef : Bool) (l : LExp) (r : RExp) : Except Err St :=
  if isDef then
    match l with
    | .var x => define st x r
    | _ => .error "ill:define"
  else assign st l r

/-- `x, ok = e.(T)` / `x, ok := e.(T)` (Type assertions: "the value of ok is true if the assertion holds. Otherwise
    it is false and the value of v is the zero value for type T"); the interface holds a copy of the value -/
def assert2 (st : St) (isDef : Bool) (x ok : Name) (r : RExp) (succ : Bool) (zero : Val) (rdx rdok : Bool) : Except Err St := do
  let (v, st0) ← (if succ then evalR st r else .ok (zero, st))
  let st1 ← setOrDeclare st0 (isDef && !rdx) x v
  setOrDeclare st1 (isDef && !rdok) ok (boolVal succ)

/-- `l = mut(arg)`: the parameter is a new variable holding a copy of the argument -/
def callMut (st : St) (isDef : Bool) (l : LExp) (sel : LExp) (k : Int) (arg : RExp) : Except Err St := do
  let (v, st1) ← evalR st arg
  let (c, st2) := st1.alloc v
  let (res, st3) ← runMutBody st2 ⟨c, []⟩ sel k
  store st3 isDef l res

/-- `l = f(&p)` with `func f(q *T) (r T) { … }`: the named result is a new variable of the callee, initialised to the zero
    value; its value is assigned to the destination when the call returns (Calls; Return statements) -/
def callNamed (st : St) (isDef : Bool) (l p : LExp) (sel1 : LExp) (k : Int) (sel2 sel3 : LExp) (zero : Val) : Except Err St := do
  let pl ← resolve st p
  let (c, st0) := st.alloc zero
  let (res, st1) ← runNamedBody st0 ⟨c, []⟩ pl sel1 k sel2 sel3
  store st1 isDef l res

/-- `l1, l2 = sw()` with `func sw() (a, b T) { a, b = v1, v2; return b, a }`: the operands of a return statement are
    evaluated before the results are assigned: the call yields (v2, v1) -/
def retSwap (st : St) (isDef : Bool) (l1 l2 : LExp) (v1 v2 : Val) : Except Err St :=
  if isDef then
    match l1, l2 with
    | .var x, .var y => .ok (declare (declare st x v2) y v1)
    | _, _ => .error "ill:define"
  else do
    let ds ← resolveAll st [l1, l2]
    writeAll st ds [v2, v1]

def sop (G : Growth) (st : St) : SOp → Except Err St
  | .assign l r => assign st l r
  | .opassign l k => opassign st l k
  | .define x r => define st x r
  | .multi ls rs => multi st ls rs
  | .multidef xs rd _ rs => multidef st xs rd rs
  | .append isDef l s args zero esz noscan => append G st isDef l s args zero esz noscan
  | .appendSlice isDef l s t zero esz noscan => appendSlice G st isDef l s t zero esz noscan
  | .copy d s => copy st d s
  | .mapSet m k r => mapSet st m k r
  | .mapDel m k => mapDel st m k
  | .lookup2 isDef x ok m k zero rdx rdok => lookup2 st isDef x ok m k zero rdx rdok
  | .complit isDef l _ zero elems => complit st isDef l zero elems
  | .recv isDef l r => recv st isDef l r
  | .assert2 isDef x ok r succ zero rdx rdok => assert2 st isDef x ok r succ zero rdx rdok
  | .callMut isDef l sel k arg => callMut st isDef l sel k arg
  | .callNamed isDef l p sel1 k sel2 sel3 zero => callNamed st isDef l p sel1 k sel2 sel3 zero
  | .retSwap isDef l1 l2 v1 v2 => retSwap st isDef l1 l2 v1 v2
  | .show xs => .ok { st with out := st.out ++ [showLine st xs] }

def sops (G : Growth) (st : St) : List SOp → St × Option Err
  | [] => (st, none)
  | o :: os => match sop G st o with
    | .ok st1 => sops G st1 os
    | .error e => (st, some e)

/-- the range expression is evaluated once: an array is copied, a slice shares its elements, of a pointer to
    an array the pointer is evaluated once and the elements of the pointee are read when reached -/
def rangeSrc (st : St) (l : LExp) : Except Err RangeSrc := do
  let loc ← resolve st l
  let v ← st.read loc
  match v with
  | .arr vs => .ok (.snapshot vs.toList)
  | .slice b off len _ => .ok (.live b off len)
  | .nilslice => .ok (.snapshot [])
  | .ptr t => do
    let a ← st.read t
    match a with
    | .arr vs => .ok (.live t 0 vs.length)
    | _ => .error "ill:type"
  | .nil => .error "nilderef"
  | _ => .error "ill:type"

def range (G : Growth) (st : St) (l : LExp) (i v : Name) (body : List SOp) : St × Option Err :=
  match rangeSrc st l with
  | .error e => (st, some e)
  | .ok src => rangeLoop (fun _ => sops G) st src i v body 0 (rangeLen src)

/-- one new variable per iteration, each captured by its own closure -/
def captureVars (st : St) (x : Name) : List Val → List Loc → List Loc × St
  | [], acc => (acc.reverse, st)
  | e :: es, acc =>
    let (c, st1) := st.alloc e
    captureVars (st1.bind x ⟨c, []⟩) x es (⟨c, []⟩ :: acc)

def capture (st : St) (l : LExp) (x : Name) (sel : LExp) (k : Int) (calls : List Nat) : Except Err St := do
  let src ← rangeSrc st l
  let elems ← (match src with
    | .snapshot es => .ok es
    | .live b off n => readElems st b off n)
  let (cells, st1) := captureVars st x elems []
  let (lines, st2) ← callClosures st1 x cells sel k calls []
  .ok { st2 with out := st2.out ++ [joinWith " " lines] }

def op (G : Growth) (st : St) : Op → St × Option Err
  | .s o => liftE st (sop G st o)
  | .range l i v body => range G st l i v body
  | .capture l x sel k calls => liftE st (capture st l x sel k calls)

def runGo (G : Growth) (st : St) (ops : List Op) : St × Option Err := runFrom (op G) st ops

end YaegiVerif.Share.Spec
