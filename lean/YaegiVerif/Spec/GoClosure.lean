import YaegiVerif.Spec.GoCore
/-
  C01 — reference semantics of the *closure fragment*, written from the Go specification
  ("Declarations and scope", "Function literals", "For statements with for clause", Go 1.22):
  variables are LOCATIONS of a store, an environment maps the names in scope to locations,
  a function literal is a closure (parameters, body, the environment at the point of creation),
  and a closure shares the variables it refers to with its surroundings.

  Fragment: 64-bit `int` values and function values; integer expressions and conditions as in the
  core fragment, variables referred to by NAME; statements
    x := e    x = e                                  (e an int expression, or a variable of any type)
    x := func(p…) int { body; return r }   x = func…   (function literal)
    x := f(a…)    x = f(a…)                          (call of a function-valued variable)
    { … }   if c { … } else { … }   for c { … }
    for x := e; c; y = e' { … }                      (Go 1.22: every iteration has its own x)
    for x := range e { … }                           (range over an int: e evaluated once, a new x per iteration)
    fmt.Println(e)   return e   break   continue
  A block is a scope: names declared inside are gone afterwards; an inner declaration shadows an
  outer one. `x := …` declares a NEW variable every time it is executed.
  Output is the list of printed values; a run ends normally, with a run-time panic (integer divide
  by zero), or `stuck` (not a valid Go program: unbound name, calling an int, … — the Go compiler
  rejects those; the semantics is total so that it can be compared on every input).
-/
namespace YaegiVerif.Clos
open YaegiVerif.Core (Val BinOp CmpOp)

/-- ways a run can end abnormally -/
inductive Fail where | panic | stuck
  deriving DecidableEq, Repr

/-- integer expressions over variable references of type `α` (names in the source, frame addresses
    in resolved code) -/
inductive XExpr (α : Type) where
  | lit (v : Val)
  | var (a : α)
  | bin (op : BinOp) (l r : XExpr α)
  | neg (e : XExpr α)
  | cpl (e : XExpr α)

inductive XCond (α : Type) where
  | cmp (op : CmpOp) (a b : XExpr α)
  | not (c : XCond α)
  | land (a b : XCond α)
  | lor (a b : XCond α)

def binEval (op : BinOp) (x y : Val) : Except Fail Val :=
  match op with
  | .add => .ok (x + y) | .sub => .ok (x - y) | .mul => .ok (x * y)
  | .and => .ok (x &&& y) | .or => .ok (x ||| y) | .xor => .ok (x ^^^ y)
  | .quo => if y = 0 then .error .panic else .ok (BitVec.sdiv x y)
  | .rem => if y = 0 then .error .panic else .ok (BitVec.srem x y)

/-- integer expressions, operands left to right; `look a = none`: the variable is unbound or does not
    hold an int -/
def XExpr.eval {α : Type} (look : α → Option Val) : XExpr α → Except Fail Val
  | .lit v => .ok v
  | .var a => match look a with
    | some v => .ok v
    | none => .error .stuck
  | .neg e => match e.eval look with
    | .ok v => .ok (-v)
    | .error f => .error f
  | .cpl e => match e.eval look with
    | .ok v => .ok (~~~v)
    | .error f => .error f
  | .bin op l r => match l.eval look with
    | .error f => .error f
    | .ok x => match r.eval look with
      | .error f => .error f
      | .ok y => binEval op x y

/-- conditions with short-circuit evaluation -/
def XCond.eval {α : Type} (look : α → Option Val) : XCond α → Except Fail Bool
  | .cmp op a b => match a.eval look with
    | .error f => .error f
    | .ok x => match b.eval look with
      | .error f => .error f
      | .ok y => .ok (op.eval x y)
  | .not c => match c.eval look with
    | .ok v => .ok (!v)
    | .error f => .error f
  | .land a b => match a.eval look with
    | .ok true => b.eval look
    | .ok false => .ok false
    | .error f => .error f
  | .lor a b => match a.eval look with
    | .ok true => .ok true
    | .ok false => b.eval look
    | .error f => .error f

/-- every variable reference satisfies `p` -/
def XExpr.all {α : Type} (p : α → Bool) : XExpr α → Bool
  | .lit _ => true
  | .var a => p a
  | .bin _ l r => l.all p && r.all p
  | .neg e => e.all p
  | .cpl e => e.all p

def XCond.all {α : Type} (p : α → Bool) : XCond α → Bool
  | .cmp _ a b => a.all p && b.all p
  | .not c => c.all p
  | .land a b => a.all p && b.all p
  | .lor a b => a.all p && b.all p

def allExprs {α : Type} (p : α → Bool) : List (XExpr α) → Bool
  | [] => true
  | e :: es => e.all p && allExprs p es

/-! ## source programs -/

inductive Stmt where
  | skip
  | seq (a b : Stmt)
  /-- `x := e` (`d = true`) or `x = e` -/
  | set (d : Bool) (x : Nat) (e : XExpr Nat)
  /-- `x := func(ps…) int { body; return res }` or `x = func…` -/
  | setFn (d : Bool) (x : Nat) (ps : List Nat) (body : Stmt) (res : XExpr Nat)
  /-- `x := f(args…)` or `x = f(args…)` -/
  | setCall (d : Bool) (x : Nat) (f : Nat) (args : List (XExpr Nat))
  | block (s : Stmt)
  /-- `if c { t } else { e }`: both branches are blocks -/
  | ite (c : XCond Nat) (t e : Stmt)
  /-- `for c { body }` -/
  | while (c : XCond Nat) (body : Stmt)
  /-- `for x := init; c; py = pe { body }` -/
  | forc (x : Nat) (init : XExpr Nat) (c : XCond Nat) (py : Nat) (pe : XExpr Nat) (body : Stmt)
  /-- `for x := range n { body }`, `n` an int -/
  | rng (x : Nat) (n : XExpr Nat) (body : Stmt)
  | print (e : XExpr Nat)
  | ret (e : XExpr Nat)
  | brk
  | cont

/-- environment: the names in scope with their locations, innermost declaration first -/
abbrev Env := List (Nat × Nat)

def Env.find : Env → Nat → Option Nat
  | [], _ => none
  | (y, l) :: ρ, x => if x = y then some l else Env.find ρ x

/-- values: ints and closures (parameters, body, result expression, environment at creation) -/
inductive SVal where
  | int (v : Val)
  | fn (ps : List Nat) (body : Stmt) (res : XExpr Nat) (env : Env)

/-- the store (location = index; allocation appends) and the output so far -/
structure SSt where
  store : List SVal
  out : List Val

def SSt.push (st : SSt) (v : SVal) : SSt := { st with store := st.store ++ [v] }
def SSt.write (st : SSt) (l : Nat) (v : SVal) : SSt := { st with store := st.store.set l v }
def SSt.emit (st : SSt) (v : Val) : SSt := { st with out := st.out ++ [v] }

def intOfS : Option SVal → Option Val
  | some (.int v) => some v
  | _ => none

/-- the value of variable `x` -/
def valS (ρ : Env) (st : SSt) (x : Nat) : Option SVal :=
  match ρ.find x with
  | some l => st.store[l]?
  | none => none

/-- the int in variable `x` -/
def lookS (ρ : Env) (st : SSt) (x : Nat) : Option Val := intOfS (valS ρ st x)

/-- a right-hand side / argument / returned expression: a plain variable yields its value whatever
    its type, anything else is an integer expression -/
def rhsS (ρ : Env) (st : SSt) : XExpr Nat → Except Fail SVal
  | .var x => match valS ρ st x with
    | some v => .ok v
    | none => .error .stuck
  | e => match e.eval (lookS ρ st) with
    | .ok v => .ok (.int v)
    | .error f => .error f

def argsS (ρ : Env) (st : SSt) : List (XExpr Nat) → Except Fail (List SVal)
  | [] => .ok []
  | e :: es => match rhsS ρ st e with
    | .error f => .error f
    | .ok v => match argsS ρ st es with
      | .error f => .error f
      | .ok vs => .ok (v :: vs)

/-- how a statement ends (when it does not fail) -/
inductive Sig (V : Type) where
  | normal | brk | cont
  | ret (v : V)

/-- result of a fuel-bounded run: out of fuel, failed (with the output so far), or finished -/
inductive Res (α : Type) where
  | fuel
  | fail (f : Fail) (out : List Val)
  | ok (a : α)

def Res.bind {α β : Type} : Res α → (α → Res β) → Res β
  | .fuel, _ => .fuel
  | .fail f o, _ => .fail f o
  | .ok a, k => k a

/-! plumbing shared by the big-step evaluators (`E` = what a statement may extend: the environment) -/
section plumbing
variable {V E S : Type}

/-- sequencing: go on only after a normal end -/
def onNormal (k : E → S → Res (Sig V × E × S)) : Sig V × E × S → Res (Sig V × E × S)
  | (.normal, e, s) => k e s
  | r => .ok r

/-- leaving a block: the declarations made inside are gone -/
def leave (e0 : E) : Sig V × E × S → Res (Sig V × E × S)
  | (sig, _, s) => .ok (sig, e0, s)

/-- what a loop does with the way its body ended: `break` ends the loop, `return` unwinds, otherwise
    (normal end, `continue`) go on with `again`; `r` = what leaving the body does to `E` -/
def loopK (r : E → E) (again : E → S → Res (Sig V × E × S)) : Sig V × E × S → Res (Sig V × E × S)
  | (.brk, e, s) => .ok (.normal, r e, s)
  | (.ret v, e, s) => .ok (.ret v, r e, s)
  | (_, e, s) => again e s
end plumbing

/-- `x := v` declares a new variable (a fresh location) in the current scope; `x = v` stores into
    the location of the innermost `x` in scope -/
def storeS (d : Bool) (x : Nat) (v : SVal) (ρ : Env) (st : SSt) : Res (Sig SVal × Env × SSt) :=
  if d then .ok (.normal, (x, st.store.length) :: ρ, st.push v)
  else match ρ.find x with
    | some l => .ok (.normal, ρ, st.write l v)
    | none => .fail .stuck st.out

/-- parameters are new variables initialised with the argument values -/
def bindParamsS : List Nat → List SVal → Env → SSt → Env × SSt
  | p :: ps, v :: vs, ρ, st => bindParamsS ps vs ((p, st.store.length) :: ρ) (st.push v)
  | _, _, ρ, st => (ρ, st)

/-- the value a function body yields: `return e` inside the body, or the final `return res` (evaluated
    in the environment at the end of the body); break/continue cannot leave a function -/
def bodyResultS (res : XExpr Nat) : Sig SVal × Env × SSt → Res (SVal × SSt)
  | (.ret v, _, st) => .ok (v, st)
  | (.normal, ρ, st) => match rhsS ρ st res with
    | .ok v => .ok (v, st)
    | .error f => .fail f st.out
  | (_, _, st) => .fail .stuck st.out

/-- the callee: a function value and as many arguments as parameters -/
def calleeS (ρ : Env) (st : SSt) (f : Nat) (n : Nat) : Option (List Nat × Stmt × XExpr Nat × Env) :=
  match valS ρ st f with
  | some (.fn ps body res env) => if ps.length = n then some (ps, body, res, env) else none
  | _ => none

mutual
/-- big-step execution; `.fuel` = out of fuel -/
def execS : Nat → Stmt → Env → SSt → Res (Sig SVal × Env × SSt)
  | 0, _, _, _ => .fuel
  | _ + 1, .skip, ρ, st => .ok (.normal, ρ, st)
  | f + 1, .seq a b, ρ, st => (execS f a ρ st).bind (onNormal (execS f b))
  | _ + 1, .set d x e, ρ, st =>
    match rhsS ρ st e with
    | .ok v => storeS d x v ρ st
    | .error fl => .fail fl st.out
  | _ + 1, .setFn d x ps body res, ρ, st => storeS d x (.fn ps body res ρ) ρ st
  | f + 1, .setCall d x g args, ρ, st =>
    match argsS ρ st args with
    | .error fl => .fail fl st.out
    | .ok vs =>
      match calleeS ρ st g vs.length with
      | none => .fail .stuck st.out
      | some (ps, body, res, env) =>
        -- the body runs in the closure's environment extended with the parameters
        ((execS f body (bindParamsS ps vs env st).1 (bindParamsS ps vs env st).2).bind (bodyResultS res)).bind
          (fun r => storeS d x r.1 ρ r.2)
  | f + 1, .block s, ρ, st => (execS f s ρ st).bind (leave ρ)
  | f + 1, .ite c t e, ρ, st =>
    match c.eval (lookS ρ st) with
    | .error fl => .fail fl st.out
    | .ok true => (execS f t ρ st).bind (leave ρ)
    | .ok false => (execS f e ρ st).bind (leave ρ)
  | f + 1, .while c body, ρ, st =>
    match c.eval (lookS ρ st) with
    | .error fl => .fail fl st.out
    | .ok false => .ok (.normal, ρ, st)
    | .ok true => (execS f body ρ st).bind (loopK (fun _ => ρ) (fun _ st1 => execS f (.while c body) ρ st1))
  | f + 1, .forc x init c py pe body, ρ, st =>
    match init.eval (lookS ρ st) with
    | .error fl => .fail fl st.out
    | .ok v =>
      -- the init statement declares the variable of the first iteration
      forS f x c py pe body ρ st.store.length (st.push (.int v))
  | f + 1, .rng x n body, ρ, st =>
    -- "the range expression is evaluated once before beginning the loop"
    match n.eval (lookS ρ st) with
    | .error fl => .fail fl st.out
    | .ok N => rngS f x body ρ N 0 st
  | _ + 1, .print e, ρ, st =>
    match e.eval (lookS ρ st) with
    | .ok v => .ok (.normal, ρ, st.emit v)
    | .error fl => .fail fl st.out
  | _ + 1, .ret e, ρ, st =>
    match rhsS ρ st e with
    | .ok v => .ok (.ret v, ρ, st)
    | .error fl => .fail fl st.out
  | _ + 1, .brk, ρ, st => .ok (.brk, ρ, st)
  | _ + 1, .cont, ρ, st => .ok (.cont, ρ, st)

/-- the iterations of `for x := …; c; py = pe { body }`; `l` is the location of THIS iteration's `x`,
    `ρ` the environment outside the statement -/
def forS : Nat → (x : Nat) → XCond Nat → (py : Nat) → XExpr Nat → Stmt → Env → (l : Nat) → SSt →
    Res (Sig SVal × Env × SSt)
  | 0, _, _, _, _, _, _, _, _ => .fuel
  | f + 1, x, c, py, pe, body, ρ, l, st =>
    match c.eval (lookS ((x, l) :: ρ) st) with
    | .error fl => .fail fl st.out
    | .ok false => .ok (.normal, ρ, st)
    | .ok true =>
      (execS f body ((x, l) :: ρ) st).bind (loopK (fun _ => ρ) (fun _ st1 =>
        -- Go 1.22: the next iteration's variable is declared before the post statement and
        -- initialised with the value of this iteration's variable at that moment
        match st1.store[l]? with
        | none => .fail .stuck st1.out
        | some v =>
          let l' := st1.store.length
          let st2 := st1.push v
          match pe.eval (lookS ((x, l') :: ρ) st2) with
          | .error fl => .fail fl st2.out
          | .ok w =>
            (storeS false py (.int w) ((x, l') :: ρ) st2).bind
              (fun r => forS f x c py pe body ρ l' r.2.2)))

/-- the iterations of `for x := range N`: the values 0 … N-1, each in a variable of its own
    (an assignment to `x` in the body does not change the sequence) -/
def rngS : Nat → (x : Nat) → Stmt → Env → (N i : Val) → SSt → Res (Sig SVal × Env × SSt)
  | 0, _, _, _, _, _, _ => .fuel
  | f + 1, x, body, ρ, N, i, st =>
    if BitVec.slt i N then
      (execS f body ((x, st.store.length) :: ρ) (st.push (.int i))).bind
        (loopK (fun _ => ρ) (fun _ st1 => rngS f x body ρ N (i + 1) st1))
    else .ok (.normal, ρ, st)
end

/-- what the property compares: the printed values and the way the run ended -/
inductive End where | normal | panic | stuck
  deriving DecidableEq, Repr

structure Outcome where
  out : List Val
  fin : End
  deriving DecidableEq

def Fail.toEnd : Fail → End
  | .panic => .panic
  | .stuck => .stuck

/-- a whole program: the body of `main`, started with nothing in scope and an empty store -/
def runS (fuel : Nat) (p : Stmt) : Option Outcome :=
  match execS fuel p [] ⟨[], []⟩ with
  | .fuel => none
  | .fail f out => some ⟨out, f.toEnd⟩
  | .ok (_, _, st) => some ⟨st.out, .normal⟩

/-! ## well-scoped programs: every name is declared before use in an enclosing scope
    (what the Go compiler checks; decidable) -/

/-- the names in scope after a statement (`vs` before it) -/
def Stmt.declared : Stmt → List Nat → List Nat
  | .seq a b, vs => b.declared (a.declared vs)
  | .set true x _, vs => x :: vs
  | .setFn true x _ _ _, vs => x :: vs
  | .setCall true x _ _, vs => x :: vs
  | _, vs => vs

def Stmt.wellScoped : List Nat → Stmt → Bool
  | _, .skip => true
  | vs, .seq a b => a.wellScoped vs && b.wellScoped (a.declared vs)
  | vs, .set d x e => e.all (vs.contains ·) && (d || vs.contains x)
  | vs, .setFn d x ps body res =>
    body.wellScoped (ps.reverse ++ vs) && res.all ((body.declared (ps.reverse ++ vs)).contains ·) &&
      (d || vs.contains x)
  | vs, .setCall d x f args => allExprs (vs.contains ·) args && vs.contains f && (d || vs.contains x)
  | vs, .block s => s.wellScoped vs
  | vs, .ite c t e => c.all (vs.contains ·) && t.wellScoped vs && e.wellScoped vs
  | vs, .while c body => c.all (vs.contains ·) && body.wellScoped vs
  | vs, .forc x init c py pe body =>
    init.all (vs.contains ·) && c.all ((x :: vs).contains ·) && (x :: vs).contains py &&
      pe.all ((x :: vs).contains ·) && body.wellScoped (x :: vs)
  | vs, .rng x n body => n.all (vs.contains ·) && body.wellScoped (x :: vs)
  | vs, .print e => e.all (vs.contains ·)
  | vs, .ret e => e.all (vs.contains ·)
  | _, .brk => true
  | _, .cont => true

end YaegiVerif.Clos
