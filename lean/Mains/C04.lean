import YaegiVerif.Common.Loop
import YaegiVerif.Driver.C04
def main : IO Unit := YaegiVerif.runLoop "C04" YaegiVerif.Driver.C04.handle
