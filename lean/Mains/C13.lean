import YaegiVerif.Common.Loop
import YaegiVerif.Driver.C13
def main : IO Unit := YaegiVerif.runLoop "C13" YaegiVerif.Driver.C13.handle
