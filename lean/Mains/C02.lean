import YaegiVerif.Common.Loop
import YaegiVerif.Driver.C02
def main : IO Unit := YaegiVerif.runLoop "C02" YaegiVerif.Driver.C02.handle
