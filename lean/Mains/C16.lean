import YaegiVerif.Common.Loop
import YaegiVerif.Driver.C16
def main : IO Unit := YaegiVerif.runLoop "C16" YaegiVerif.Driver.C16.handle
