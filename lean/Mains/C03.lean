import YaegiVerif.Common.Loop
import YaegiVerif.Driver.C03
def main : IO Unit := YaegiVerif.runLoop "C03" YaegiVerif.Driver.C03.handle
