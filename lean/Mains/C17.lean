import YaegiVerif.Common.Loop
import YaegiVerif.Driver.C17
def main : IO Unit := YaegiVerif.runLoop "C17" YaegiVerif.Driver.C17.handle
