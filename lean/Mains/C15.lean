import YaegiVerif.Common.Loop
import YaegiVerif.Driver.C15
def main : IO Unit := YaegiVerif.runLoop "C15" YaegiVerif.Driver.C15.handle
