import YaegiVerif.Common.Loop
import YaegiVerif.Driver.C06
def main : IO Unit := YaegiVerif.runLoop "C06" YaegiVerif.Driver.C06.handle
