import YaegiVerif.Common.Loop
import YaegiVerif.Driver.C08
def main : IO Unit := YaegiVerif.runLoop "C08" YaegiVerif.Driver.C08.handle
