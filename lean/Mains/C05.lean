import YaegiVerif.Common.Loop
import YaegiVerif.Driver.C05
def main : IO Unit := YaegiVerif.runLoop "C05" YaegiVerif.Driver.C05.handle
