import YaegiVerif.Common.Loop
import YaegiVerif.Driver.C18
def main : IO Unit := YaegiVerif.runLoop "C18" YaegiVerif.Driver.C18.handle
