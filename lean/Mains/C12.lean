import YaegiVerif.Common.Loop
import YaegiVerif.Driver.C12
def main : IO Unit := YaegiVerif.runLoop "C12" YaegiVerif.Driver.C12.handle
