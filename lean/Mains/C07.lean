import YaegiVerif.Common.Loop
import YaegiVerif.Driver.C07
def main : IO Unit := YaegiVerif.runLoop "C07" YaegiVerif.Driver.C07.handle
