import YaegiVerif.Common.Loop
import YaegiVerif.Driver.C14
def main : IO Unit := YaegiVerif.runLoop "C14" YaegiVerif.Driver.C14.handle
