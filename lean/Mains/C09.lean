import YaegiVerif.Common.Loop
import YaegiVerif.Driver.C09
def main : IO Unit := YaegiVerif.runLoop "C09" YaegiVerif.Driver.C09.handle
