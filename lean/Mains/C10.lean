import YaegiVerif.Common.Loop
import YaegiVerif.Driver.C10
def main : IO Unit := YaegiVerif.runLoop "C10" YaegiVerif.Driver.C10.handle
