import YaegiVerif.Common.Loop
import YaegiVerif.Driver.C19
def main : IO Unit := YaegiVerif.runLoop "C19" YaegiVerif.Driver.C19.handle
