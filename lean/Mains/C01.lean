import YaegiVerif.Common.Loop
import YaegiVerif.Driver.C01
def main : IO Unit := YaegiVerif.runLoop "C01" YaegiVerif.Driver.C01.handleAll
