import YaegiVerif.Common.Loop
import YaegiVerif.Driver.C11
def main : IO Unit := YaegiVerif.runLoop "C11" YaegiVerif.Driver.C11.handle
