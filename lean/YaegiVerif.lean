-- Root of the library: everything that must build in `setup`.
import YaegiVerif.Common.Sexp
import YaegiVerif.Common.Str
import YaegiVerif.Common.Audit
import YaegiVerif.Props.C17
