#!/usr/bin/env python3
"""tools/suitecheck.py: run the repository's test suite as the baseline does (go test -json ./... in /repo)
and report every test of BASELINE.json's stable_pass list that does not pass now."""
import json, subprocess, sys, os
env = dict(os.environ, GOFLAGS="-mod=mod", GOPROXY="off", GOSUMDB="off", GOTOOLCHAIN="local")
base = json.load(open("/root/.vp/BASELINE.json"))
p = subprocess.run(["go", "test", "-json", "-vet=off", "-count=1", "-timeout", "25m", "./..."], cwd=os.environ.get("SUITE_REPO", "/repo"), env=env,
                   capture_output=True, text=True)
res = {}
for line in p.stdout.splitlines():
    try:
        e = json.loads(line)
    except Exception:
        continue
    if e.get("Action") in ("pass", "fail", "skip") and e.get("Test"):
        res[e["Package"] + "::" + e["Test"]] = e["Action"]
missing = [t for t in base["stable_pass"] if res.get(t) != "pass"]
print(f"stable_pass {len(base['stable_pass'])}, passing now {sum(1 for t in base['stable_pass'] if res.get(t)=='pass')}, not passing {len(missing)}")
for t in missing[:40]:
    print("  NOT PASSING:", t, res.get(t))
sys.exit(1 if missing else 0)
