#!/bin/sh
# tools/seedtest.sh <Cxx> <patch.diff> [tier]: run a check against a scratch worktree of /repo's HEAD with the patch applied.
ID=$1; PATCH=$2; TIER=${3:-quick}
WT=/tmp/wt-seedtest-$ID-$$
git -C /repo worktree add -q "$WT" HEAD || exit 3
# untracked hook files of properties still under construction
cp -n /repo/interp/verif_c*.go "$WT/interp/" 2>/dev/null
if ! git -C "$WT" apply "$PATCH"; then echo "patch does not apply"; git -C /repo worktree remove --force "$WT"; exit 3; fi
(cd "$WT" && GOFLAGS=-mod=mod GOPROXY=off GOSUMDB=off GOTOOLCHAIN=local go build ./... ) || echo "BUILD FAILED"
VERIF_REPO="$WT" /verif/check "$ID" "$TIER" 2>&1 | grep -v "^KNOWN-FINDING" | cut -c1-300
git -C /repo worktree remove --force "$WT"
