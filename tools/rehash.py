#!/usr/bin/env python3
"""tools/rehash.py: /repo's history was rewritten once (a verif-tagged hook file had been swept into the fix: commit ebd86cd;
it was split into b080dc4 (the fix) and eb2c25f (the hook commit), which renumbered the 24 later commits). This script rewrites
the old short hashes to the new ones in every text file of /verif (idempotent)."""
import os, re, sys
MAP = {"ebd86cd": "b080dc4"}
for l in """4bcc5b4 6f2f5cf
5e2cd1c 31bf1d3
7402c20 e6c1f4a
7973ebe 3f5ccd5
b425d98 eeab028
d04f498 b3f92e0
3d1d9b9 a2a892e
04c8232 ce5712d
177a151 212dc2e
6ab146a a5a844f
d7bee1f 4f3a0f4
868fedf 2acc7e3
5c3ec57 ab0ab0c
0b75d2f 57dd9e4
449969c 5b28270
43e97a5 f4dfaf4
ccca582 bbd3913
231dea3 716c992
1c8103f 26ad67e
9284c57 bb375fd
2fe0a18 daee744
e6767ff 5b9f6b2
2d7bcd6 e4c80e1
4adaaf3 48cb9d4""".splitlines():
    a, b = l.split(); MAP[a] = b
pat = re.compile(r"\b(" + "|".join(MAP) + r")\b")
n = 0
for root, dirs, files in os.walk("/verif"):
    dirs[:] = [d for d in dirs if d not in (".git", ".lake", "bin", "Generated", "replays")]
    for f in files:
        if f == "rehash.py" or not f.endswith((".json", ".md", ".lean", ".go", ".txt", ".py", ".sh", ".diff")):
            continue
        p = os.path.join(root, f)
        if "/fixes/" in p and f.endswith(".diff"):
            continue
        try:
            s = open(p, encoding="utf-8").read()
        except Exception:
            continue
        t = pat.sub(lambda m: MAP[m.group(1)], s)
        if t != s:
            open(p, "w", encoding="utf-8").write(t); n += 1
print(n, "files rewritten")
