#!/bin/sh
# Build the framework from files on disk only (offline): extractor, regenerated facts,
# the whole Lean library (all theorems) and the driver executable, every harness binary.
set -e
cd "$(dirname "$0")/.."
export GOFLAGS=-mod=mod GOPROXY=off GOSUMDB=off GOTOOLCHAIN=local CGO_ENABLED=0
mkdir -p bin evidence replays lean/YaegiVerif/Generated
(cd extract && for d in cmd/*/; do n=$(basename "$d"); N=$(echo "$n" | tr a-z A-Z); go build -o ../bin/extract-$N "./cmd/$n"; ../bin/extract-$N /repo ../lean/YaegiVerif/Generated; done)
(cd lean && lake build && for m in Mains/C*.lean; do n=$(basename "$m" .lean); if ! grep -q unimplemented "YaegiVerif/Driver/$n.lean"; then lake build "driver-$n"; fi; done)
cp /repo/go.sum harness/go.sum 2>/dev/null || true
(cd harness && for d in cmd/*/; do n=$(basename "$d"); go build -tags verif -o ../bin/harness-$(echo "$n" | tr a-z A-Z) "./cmd/$n"; done)
echo setup done
