#!/bin/sh
# Build the framework from files on disk only (offline), for every property listed in tools/ready.json:
# extractor + regenerated facts, the Lean theorem module and the driver executable, the harness binary.
set -e
cd "$(dirname "$0")/.."
export GOFLAGS=-mod=mod GOPROXY=off GOSUMDB=off GOTOOLCHAIN=local CGO_ENABLED=0
mkdir -p bin evidence replays lean/YaegiVerif/Generated
cp /repo/go.sum harness/go.sum 2>/dev/null || true
IDS=$(python3 -c "import json;print(' '.join(json.load(open('tools/ready.json'))))")
(cd lean && lake build YaegiVerif.Common.Audit YaegiVerif.Common.Loop)
for ID in $IDS; do
  id=$(echo "$ID" | tr A-Z a-z)
  if [ -d "extract/cmd/$id" ]; then
    (cd extract && go build -o "../bin/extract-$ID" "./cmd/$id")
    VERIF_TIER=quick "./bin/extract-$ID" /repo lean/YaegiVerif/Generated
  fi
  (cd lean && lake build "driver-$ID" "YaegiVerif.Props.$ID")
  if [ -d "harness/cmd/$id" ]; then
    (cd harness && go build -tags verif -o "../bin/harness-$ID" "./cmd/$id")
  fi
done
echo setup done
