#!/bin/sh
# Build the framework from files on disk only (offline): extractor, regenerated facts,
# the whole Lean library (all theorems) and the driver executable, every harness binary.
set -e
cd "$(dirname "$0")/.."
export GOFLAGS=-mod=mod GOPROXY=off GOSUMDB=off GOTOOLCHAIN=local CGO_ENABLED=0
mkdir -p bin evidence replays lean/YaegiVerif/Generated
(cd extract && go build -o ../bin/extract .)
./bin/extract /repo lean/YaegiVerif/Generated
(cd lean && lake build driver && lake build)
cp /repo/go.sum harness/go.sum 2>/dev/null || true
(cd harness && for d in cmd/*/; do n=$(basename "$d"); go build -tags verif -o ../bin/harness-$(echo "$n" | tr a-z A-Z) "./cmd/$n"; done)
echo setup done
