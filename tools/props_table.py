#!/usr/bin/env python3
"""tools/props_table.py: markdown table per property from props/*.json, evidence/*.json and KNOWN_FINDINGS.json
(obligations audited, cases of the last run, findings open / fixed). Used for DESIGN.md §12.9."""
import json, glob, os, collections
kf = json.load(open("/verif/KNOWN_FINDINGS.json"))["findings"]
op = collections.Counter(e["property"] for e in kf if e["status"] == "finding")
fx = collections.Counter(e["property"] for e in kf if e["status"] == "fixed")
print("| id | title | obligations (all discharged) | last run: tier, cases (distinct non-trivial) | findings open / fixed | seeded changes |")
print("|---|---|---|---|---|---|")
titles = {json.loads(l)["id"]: json.loads(l)["title"] for l in open("/verif/properties.jsonl")}
for i in range(1, 20):
    pid = f"C{i:02d}"
    ev = json.load(open(f"/verif/evidence/{pid}.json"))
    cov = ev["coverage"]
    seeds = sorted(os.path.basename(os.path.dirname(p)) for p in glob.glob(f"/verif/seeded/{pid}*/meta.json"))
    print(f"| {pid} | {titles[pid]} | {cov.get('discharged')}/{cov.get('obligations')} | {ev['tier']}, {cov.get('evaluations')} ({cov.get('distinct_nontrivial')}) | {op[pid]} / {fx[pid]} | {len(seeds)} |")
