#!/usr/bin/env python3
"""tools/repairs_table.py: markdown table of the `fix:` commits of /repo (in order) with the findings each one repaired
(from KNOWN_FINDINGS.json, status fixed). Used for DESIGN.md Appendix E."""
import json, subprocess, collections
log = subprocess.run(["git", "-C", "/repo", "log", "--reverse", "--format=%h %s"], capture_output=True, text=True).stdout.splitlines()
fixes = [(l.split(" ", 1)[0], l.split(" ", 1)[1]) for l in log if l.split(" ", 1)[1].startswith("fix:")]
kf = json.load(open("/verif/KNOWN_FINDINGS.json"))["findings"]
by = collections.defaultdict(list)
for e in kf:
    if e.get("status") == "fixed" and e.get("commit"):
        by[e["commit"][:7]].append(f"{e['property']} {e['id']}")
print("| # | commit | subject | findings recorded as fixed by it |")
print("|---|---|---|---|")
for i, (h, s) in enumerate(fixes, 1):
    print(f"| {i} | {h} | {s[5:]} | {', '.join(sorted(by.get(h[:7], []))) or '—'} |")
unknown = [c for c in by if c not in {h[:7] for h, _ in fixes}]
if unknown:
    print("\ncommits named by fixed findings but not found among the fix: commits:", unknown)
print(f"\n{len(fixes)} fix: commits; {sum(len(v) for v in by.values())} findings recorded as fixed; "
      f"{sum(1 for e in kf if e.get('status') == 'finding')} findings open.")
