#!/usr/bin/env python3
"""./check <Cxx> <quick|thorough> [--replay file]

One run of a property check (DESIGN.md section 2.1):
  1. extract  : regenerate lean/YaegiVerif/Generated/*.lean from /repo's working tree
  2. prove    : lake build of the property's theorem module, axiom audit, source grep
                (thorough: leanchecker re-check of the compiled module)
  3. correspond: rebuild the Go harness against /repo (-tags verif) and run it against the
                compiled Lean driver and the reference oracle
  4. verdict  : VIOLATION lines / KNOWN-FINDING lines / exit status, evidence/<id>.json
"""
import fcntl
import json
import os
import re
import subprocess
import sys
import time

VERIF = os.environ.get("VERIF_DIR", "/verif")
REPO = os.environ.get("VERIF_REPO", "/repo")
LEAN = os.path.join(VERIF, "lean")
ALLOWED_AXIOMS = {"propext", "Classical.choice", "Quot.sound"}
FORBIDDEN = re.compile(r"\bsorry\b|\badmit\b|^\s*axiom\s|native_decide|bv_decide|implemented_by|\bunsafe\s|maxHeartbeats\s+0")

GOENV = dict(os.environ, VERIF_REPO=REPO, GOFLAGS="-mod=mod", GOPROXY="off", GOSUMDB="off", GOTOOLCHAIN="local",
             CGO_ENABLED=os.environ.get("CGO_ENABLED", "0"), VERIF_DIR=VERIF)


def sh(cmd, cwd=None, env=None, timeout=None):
    p = subprocess.run(cmd, cwd=cwd, env=env, stdout=subprocess.PIPE, stderr=subprocess.STDOUT,
                       text=True, timeout=timeout)
    return p.returncode, p.stdout


def load_prop(pid):
    with open(os.path.join(VERIF, "props", pid + ".json")) as f:
        return json.load(f)


def strip_comments(src):
    # remove /- … -/ (nested) and -- … comments, and string literals, before grepping
    out, i, depth, n = [], 0, 0, len(src)
    while i < n:
        if src.startswith("/-", i):
            depth += 1
            i += 2
        elif depth and src.startswith("-/", i):
            depth -= 1
            i += 2
        elif depth:
            if src[i] == "\n":
                out.append("\n")
            i += 1
        elif src.startswith("--", i):
            while i < n and src[i] != "\n":
                i += 1
        elif src[i] == '"':
            i += 1
            while i < n and src[i] != '"':
                i += 2 if src[i] == "\\" else 1
            i += 1
            out.append('""')
        else:
            out.append(src[i])
            i += 1
    return "".join(out)


def lean_deps(module, seen):
    """transitive YaegiVerif.* imports of a module (source files)."""
    if module in seen:
        return
    path = os.path.join(LEAN, module.replace(".", "/") + ".lean")
    if not os.path.exists(path):
        return
    seen[module] = path
    with open(path) as f:
        for line in f:
            m = re.match(r"\s*import\s+(YaegiVerif\.[\w.]+)", line)
            if m:
                lean_deps(m.group(1), seen)


def failing_theorems(path_rel, output):
    """map `error: file:line:col` lines of lake output to the enclosing theorem names."""
    names = []
    cache = {}
    for m in re.finditer(r"error: (\S+?\.lean):(\d+):(\d+)", output):
        f, line = m.group(1), int(m.group(2))
        fp = f if os.path.isabs(f) else os.path.join(LEAN, f)
        if fp not in cache:
            try:
                cache[fp] = open(fp).read().split("\n")
            except OSError:
                cache[fp] = []
        lines = cache[fp]
        name = None
        for k in range(min(line, len(lines)) - 1, -1, -1):
            mm = re.match(r"\s*(?:private\s+|protected\s+)?(?:theorem|lemma|def|example|instance)\s+([\w.']+)?", lines[k])
            if mm:
                name = (mm.group(1) or "example") + f" ({os.path.relpath(fp, LEAN)}:{line})"
                break
        names.append(name or f"{os.path.relpath(fp, LEAN)}:{line}")
    # de-duplicate, keep order
    seen, out = set(), []
    for n in names:
        if n not in seen:
            seen.add(n)
            out.append(n)
    return out


def main():
    if len(sys.argv) < 3:
        print(__doc__)
        return 2
    pid, tier = sys.argv[1], sys.argv[2]
    replay = None
    if "--replay" in sys.argv:
        replay = sys.argv[sys.argv.index("--replay") + 1]
    if tier not in ("quick", "thorough"):
        tier = os.environ.get("VERIF_TIER", "quick")
    seed = int(os.environ.get("VERIF_SEED", "1") or "1")
    prop = load_prop(pid)
    GOENV["VERIF_TIER"] = tier
    t0 = time.time()
    os.makedirs(os.path.join(VERIF, "evidence"), exist_ok=True)
    os.makedirs(os.path.join(VERIF, "replays"), exist_ok=True)
    os.makedirs(os.path.join(VERIF, "bin"), exist_ok=True)
    log = []

    broken = []      # broken proof obligations / ties / correspondences (strings)
    errors = []      # machinery errors that are not attributable to the repository
    theorems = []    # (name, axioms)
    obligations = discharged = 0
    props_module = prop.get("props_module", "YaegiVerif.Props." + pid)
    checker_cmd = f"cd {LEAN} && lake build {props_module} && lake env lean Audit/{pid}.lean"

    # the Go build cache grows by hundreds of MB per reference batch: trim it before the disk fills up
    try:
        st = os.statvfs(os.path.expanduser("~"))
        if st.f_bavail * st.f_frsize < 40 * (1 << 30):
            sh(["go", "clean", "-cache"], env=GOENV, timeout=3600)
    except Exception:  # noqa
        pass

    # ---- 1+2: extract and prove, serialised by a lock (shared lake build directory)
    with open(os.path.join(VERIF, ".lock"), "w") as lock:
        fcntl.flock(lock, fcntl.LOCK_EX)
        gen_dir = os.path.join(LEAN, "YaegiVerif", "Generated")
        xdir = os.path.join(VERIF, "extract", "cmd", pid.lower())
        if os.path.isdir(xdir):
            xbin = os.path.join(VERIF, "bin", "extract-" + pid)
            rc, out = sh(["go", "build", "-o", xbin, "./cmd/" + pid.lower()], cwd=os.path.join(VERIF, "extract"), env=GOENV)
            if rc != 0:
                errors.append("extractor does not build: " + out[-2000:])
            else:
                rc, out = sh([xbin, REPO, gen_dir], env=GOENV, timeout=1800)
                log.append(out)
                if rc != 0:
                    broken.append("fact extraction failed on the current source: " + out[-1500:])
        # the driver (model + spec + generated facts; no proofs)
        rc, out = sh(["lake", "build", "driver-" + pid], cwd=LEAN)
        driver_ok = rc == 0
        if rc != 0:
            broken.append("the executable model no longer builds with the regenerated facts: " +
                          "; ".join(failing_theorems("", out)[:5]))
            log.append(out[-4000:])
        # the property theorems
        rc, out = sh(["lake", "build", props_module], cwd=LEAN)
        proof_out = out
        build_ok = rc == 0
        if not build_ok:
            ft = failing_theorems("", out)
            broken.extend("theorem " + n for n in ft[:20])
            if not ft:
                broken.append("lake build " + props_module + " failed: " + out[-1500:])
            log.append(out[-6000:])
        # audit (only meaningful when the module built)
        if build_ok:
            rc, out = sh(["lake", "env", "lean", f"Audit/{pid}.lean"], cwd=LEAN)
            for m in re.finditer(r"THEOREM (\S+) AXIOMS ?(.*)", out):
                name = m.group(1)
                last = name.split(".")[-1]
                if re.match(r"(eq_\d+|eq_def|match_\d+|proof_\d+|congr_simp|sizeOf_spec|injEq|inj|noConfusion.*|ofNat_ctorIdx|ctorIdx.*|brecOn.*|below(_\d+)?|rec(On)?(_\d+)?|casesOn.*)$", last):
                    continue
                axs = [a.strip() for a in m.group(2).split(",") if a.strip()]
                theorems.append((name, axs))
            if rc != 0 or not theorems:
                broken.append("axiom audit failed: " + out[-1500:])
            obligations = len(theorems)
            for name, axs in theorems:
                bad = [a for a in axs if a not in ALLOWED_AXIOMS]
                if bad:
                    broken.append(f"theorem {name} depends on non-standard axioms {bad}")
                else:
                    discharged += 1
        else:
            # count the theorems stated in the module source as obligations, none discharged
            src = open(os.path.join(LEAN, props_module.replace(".", "/") + ".lean")).read()
            obligations = max(1, len(re.findall(r"^\s*theorem\s", src, re.M)))
            discharged = 0
        # forbidden constructs in every Lean source the property depends on
        deps = {}
        lean_deps(props_module, deps)
        for mod, path in deps.items():
            if "/Generated/" in path:
                src = open(path).read()
            else:
                src = open(path).read()
            for ln, line in enumerate(strip_comments(src).split("\n"), 1):
                if FORBIDDEN.search(line):
                    broken.append(f"forbidden construct in {os.path.relpath(path, LEAN)}:{ln}: {line.strip()[:80]}")
        if tier == "thorough" and build_ok:
            rc, out = sh(["lake", "env", "leanchecker", props_module], cwd=LEAN, timeout=3600)
            checker_cmd += f" && lake env leanchecker {props_module}"
            if rc != 0:
                broken.append("leanchecker rejected " + props_module + ": " + out[-1500:])
        fcntl.flock(lock, fcntl.LOCK_UN)

    # ---- 3: correspondence
    res = None
    hbin = os.path.join(VERIF, "bin", "harness-" + pid)
    resfile = os.path.join(VERIF, "evidence", f".{pid}.{os.getpid()}.result.json")
    if prop.get("harness"):
        sh(["cp", os.path.join(REPO, "go.sum"), os.path.join(VERIF, "harness", "go.sum")])
        modargs = []
        if os.path.realpath(REPO) != "/repo":
            # scratch copy of the repository (mutant runs): same module, different replace target
            alt = os.path.join(VERIF, "bin", f"alt-{os.getpid()}.mod")
            txt = open(os.path.join(VERIF, "harness", "go.mod")).read().replace("=> /repo", "=> " + os.path.realpath(REPO))
            open(alt, "w").write(txt)
            sh(["cp", os.path.join(REPO, "go.sum"), alt[:-4] + ".sum"])
            modargs = ["-modfile=" + alt]
            hbin += f"-alt{os.getpid()}"
        rc, out = sh(["go", "build"] + modargs + ["-tags", "verif", "-o", hbin, "./cmd/" + prop["harness"]],
                     cwd=os.path.join(VERIF, "harness"), env=GOENV)
        if modargs:
            for f in (alt, alt[:-4] + ".sum"):
                if os.path.exists(f):
                    os.remove(f)
        if rc != 0:
            broken.append("correspondence harness no longer builds against the repository: " + out[-1500:])
        elif not driver_ok:
            pass
        else:
            cmd = [hbin, "-tier", tier, "-seed", str(seed), "-out", resfile]
            if replay:
                cmd += ["-replay", replay]
            try:
                rc, out = sh(cmd, cwd=VERIF, env=GOENV, timeout=prop.get("timeout_s", {}).get(tier, 7200))
            except subprocess.TimeoutExpired:
                rc, out = 124, "harness timed out"
            log.append(out[-4000:])
            try:
                res = json.load(open(resfile))
            except Exception as e:  # noqa
                broken.append(f"correspondence run produced no result (exit {rc}): {out[-1500:]}")
            finally:
                if os.path.exists(resfile):
                    os.remove(resfile)
                if modargs and os.path.exists(hbin):
                    os.remove(hbin)

    # ---- 4: verdict
    violations = []   # (replay_path, suffix)
    known_lines = []
    stamp = f"{pid}-{tier}-seed{seed}"
    unlisted, corr_broken, spec_bad = [], [], []
    if res is not None:
        for e in res.get("errors") or []:
            errors.append("harness: " + e)
        findings_listed = {}
        try:
            kf = json.load(open(os.path.join(VERIF, "KNOWN_FINDINGS.json")))["findings"]
        except Exception:
            kf = []
        for f in kf:
            if f.get("property") == pid:
                findings_listed[f["id"]] = f
        listed_classes = {}
        for f in findings_listed.values():
            if f.get("status") == "finding":
                for c in f.get("classes", [f["id"]]):
                    listed_classes[c] = f["id"]
        for d in res.get("disagreements", []):
            if d["kind"] == "impl-vs-ref":
                if d.get("finding") and d["finding"] in listed_classes:
                    continue
                unlisted.append(d)
            elif d["kind"] == "impl-vs-model":
                corr_broken.append(d)
            elif d["kind"] == "spec-vs-ref":
                spec_bad.append(d)
        # counts beyond the 50 kept verbatim
        for k, v in (res.get("distribution") or {}).items():
            if k == "disagree:spec-vs-ref" and v and not spec_bad:
                spec_bad.append({"note": f"{v} cases"})
        for kr in res.get("known", []):
            if kr["status"] == "finding":
                if kr["still_fails"]:
                    known_lines.append(f"KNOWN-FINDING: property={pid} {kr['id']} {kr['what']}")
                else:
                    log.append(f"note: listed finding {kr['id']} no longer reproduces ({kr.get('detail','')})")
            elif kr["status"] == "fixed" and kr["still_fails"]:
                unlisted.append({"kind": "impl-vs-ref", "input": kr.get("detail"), "note": f"fixed finding {kr['id']} fails again",
                                 "finding": kr["id"]})
    def write_replay_early(name, payload):
        p = os.path.join(VERIF, "replays", name)
        with open(p, "w") as f:
            json.dump(payload, f, indent=1)
        return p

    if spec_bad:
        errors.append(f"reference model disagrees with the reference oracle on {len(spec_bad)} recorded case(s): "
                      + json.dumps(spec_bad[0])[:600])
    if corr_broken:
        broken.append(f"correspondence model-vs-implementation: {len(corr_broken)} recorded disagreement(s), first: "
                      + json.dumps(corr_broken[0])[:600])

    def write_replay(name, payload):
        p = os.path.join(VERIF, "replays", name)
        with open(p, "w") as f:
            json.dump(payload, f, indent=1)
        return p

    # ---- load-sensitivity guard: a disagreement in which one side ended by a TIMEOUT of the harness is replayed alone
    # before it is reported; it is dropped only if the replay runs to the end and shows no disagreement at all
    # (a hang or a slow cancellation reproduces on the replay and is reported). Anything else is reported as found.
    unreproduced = []
    if unlisted and not replay and prop.get("harness") and os.path.realpath(REPO) == "/repo" and os.path.exists(hbin):
        kept = []
        for d in unlisted:
            txt = (json.dumps(d.get("impl")) + json.dumps(d.get("ref")) + json.dumps(d.get("note"))).lower()
            if ("timeout" not in txt and not os.environ.get("VERIF_TEST_FORCE_CONFIRM")) or d.get("input") is None or len(unreproduced) >= 20:
                kept.append(d)
                continue
            rp = write_replay_early(f"{stamp}-confirm.json", {"property": pid, "class": d.get("finding") or "in-domain",
                                                               "input": d.get("input")})
            cres = os.path.join(VERIF, "evidence", f".{pid}.{os.getpid()}.confirm.json")
            ok = False
            try:
                crc, cout = sh([hbin, "-tier", tier, "-seed", str(seed), "-out", cres, "-replay", rp], cwd=VERIF, env=GOENV,
                               timeout=1800)
                cr = json.load(open(cres))
                again = [x for x in cr.get("disagreements", []) if x["kind"] in ("impl-vs-ref", "impl-vs-model")]
                ok = crc == 0 and not again and not (cr.get("errors") or []) and cr.get("evaluations", 0) > 0
            except Exception:
                ok = False
            finally:
                for f in (cres, rp):
                    if os.path.exists(f):
                        os.remove(f)
            if os.environ.get("VERIF_TEST_FORCE_CONFIRM"):
                print(f"confirm replay: reproduced={not ok}", file=sys.stderr)
            if ok:
                unreproduced.append({"input": d.get("input"), "impl": d.get("impl"), "ref": d.get("ref")})
                log.append("note: a disagreement with a harness timeout did not reproduce when replayed alone; not reported")
            else:
                kept.append(d)
        unlisted = kept

    if unlisted:
        # group by class so that each distinct unlisted class is reported once
        seen = set()
        for d in unlisted:
            key = d.get("finding") or "in-domain"
            if key in seen:
                continue
            seen.add(key)
            p = write_replay(f"{stamp}-{len(seen)}.json", {"property": pid, "what": "the implementation differs from the reference on this input",
                                                           "class": key, "input": d.get("input"), "impl": d.get("impl"), "ref": d.get("ref"),
                                                           "note": d.get("note"), "broken_obligations": broken})
            violations.append((p, ""))
    elif broken:
        p = write_replay(f"{stamp}-obligation.json", {"property": pid, "what": "a proof obligation or the model/implementation correspondence no longer checks; no input was found on which the implementation differs from the reference",
                                                       "broken_obligations": broken,
                                                       "model_vs_impl": corr_broken[:5]})
        violations.append((p, " no-failing-input-found"))

    # ---- evidence
    cov = {
        "obligations": obligations,
        "discharged": discharged,
        "checker_cmd": checker_cmd,
        "trusted_base": prop.get("trusted_base", []),
        "theorems": [{"name": n, "axioms": a} for n, a in theorems],
        "broken": broken,
    }
    if res is not None:
        cov.update({
            "evaluations": res.get("evaluations", 0),
            "distinct_nontrivial": res.get("distinct_nontrivial", 0),
            "rule": res.get("rule", "") or prop.get("rule", ""),
            "samples": res.get("samples", []),
            "distribution": res.get("distribution", {}),
            "traces_validated_against_impl": res.get("evaluations", 0),
            "known_findings_replayed": res.get("known", []),
            "unlisted_disagreements": len(unlisted),
            "timeouts_not_reproduced_on_replay": unreproduced[:5],
        })
        if res.get("extra"):
            cov["extra"] = res["extra"]
    else:
        cov.update({"samples": [{"obligation": n, "axioms": a} for n, a in theorems[:5]]})
    ev = {
        "property_id": pid,
        "tier": tier,
        "seed": seed,
        "level": prop.get("level", "proof"),
        "coverage": cov,
        "assumptions": prop.get("assumptions", []),
        "wall_s": round(time.time() - t0, 2),
        "violations": len(violations),
    }
    if not replay:
        # runs against a scratch copy of the repository (mutant runs) do not overwrite the evidence of the real tree
        evname = pid + ".json" if os.path.realpath(REPO) == "/repo" else f".alt-{pid}.json"
        with open(os.path.join(VERIF, "evidence", evname), "w") as f:
            json.dump(ev, f, indent=1)

    for line in known_lines:
        print(line)
    if errors:
        for e in errors:
            print("ERROR: " + e[:2000])
    for p, suffix in violations:
        print(f"VIOLATION property={pid} replay={p}{suffix}")
    print(f"{pid} {tier}: obligations {discharged}/{obligations}, "
          f"cases {cov.get('evaluations', 0)} ({cov.get('distinct_nontrivial', 0)} distinct non-trivial), "
          f"known findings {len(known_lines)}, violations {len(violations)}, {ev['wall_s']} s")
    if violations:
        if os.environ.get("VERIF_VERBOSE"):
            print("\n".join(log))
        return 1
    if errors:
        return 2
    return 0


if __name__ == "__main__":
    sys.exit(main())
