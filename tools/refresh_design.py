#!/usr/bin/env python3
"""tools/refresh_design.py: regenerate the two generated parts of DESIGN.md — the per-property state table
(between the PROPS_TABLE markers, from tools/props_table.py) and Appendix E (from tools/repairs_table.py)."""
import subprocess, re
p = "/verif/DESIGN.md"
s = open(p).read()
props = subprocess.run(["python3", "/verif/tools/props_table.py"], capture_output=True, text=True).stdout
# props_table prints the property table first; keep only table lines whose first cell is an id or the header
lines = [l for l in props.splitlines() if re.match(r"\| (id|---|C\d\d) ", l) or l.startswith("|---")]
table = "\n".join(lines)
b, e = "<!-- PROPS_TABLE_BEGIN -->", "<!-- PROPS_TABLE_END -->"
assert b in s and e in s
s = s[: s.index(b) + len(b)] + "\n" + table + "\n" + s[s.index(e):]
rep = subprocess.run(["python3", "/verif/tools/repairs_table.py"], capture_output=True, text=True).stdout
h = "## Appendix E — every `fix:` commit"
i = s.index(h)
head_end = s.index("\n", i) + 1
s = s[:head_end] + "\n" + rep
open(p, "w").write(s)
print("DESIGN.md refreshed:", len(lines) - 2, "properties;", rep.strip().splitlines()[-1])
