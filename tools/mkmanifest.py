#!/usr/bin/env python3
"""Regenerate MANIFEST.json from props/*.json (one file per claimed property) and tools/not_applicable.json."""
import glob, json, os
V = os.path.dirname(os.path.dirname(os.path.abspath(__file__)))
checks, claimed = [], set()
ready = set(json.load(open(os.path.join(V, "tools", "ready.json"))))
for p in sorted(glob.glob(os.path.join(V, "props", "C*.json"))):
    c = json.load(open(p))
    if c["property_id"] not in ready:
        continue
    pid = c["property_id"]
    claimed.add(pid)
    checks.append({
        "property_id": pid,
        "quick_cmd": f"./check {pid} quick",
        "thorough_cmd": f"./check {pid} thorough",
        "evidence_file": f"/verif/evidence/{pid}.json",
        "replay_cmd_template": f"./check {pid} quick --replay {{path}}",
        "engine": "lean+harness",
        "level_claimed": {"category": c.get("level", "proof"), "text": c["level_text"], "design_ref": c.get("design_ref", "DESIGN.md section 4")},
        "level_note": c["level_note"],
        "technique": c["technique"],
    })
na_reasons = json.load(open(os.path.join(V, "tools", "not_applicable.json")))
props = [json.loads(l)["id"] for l in open(os.path.join(V, "properties.jsonl")) if l.strip()]
na = [{"property_id": p, "reason": na_reasons.get(p, "no check is registered for this property in this commit (machinery not built yet); nothing is claimed")}
      for p in props if p not in claimed]
m = {
    "version": 1,
    "setup_cmd": "sh tools/setup.sh",
    "hooks": {
        "guard": "verif",
        "enable": "go build -tags verif (the harness module replaces github.com/traefik/yaegi by /repo)",
        "baseline_off_cmd": "cd /repo && go test -mod=mod -json -vet=off -count=1 -timeout 25m ./...",
        "source_commits": json.load(open(os.path.join(V, "tools", "hook_commits.json"))),
        "add_only": True,
    },
    "engines": [
        {"name": "lean", "path": "/verif/lean", "serves_properties": sorted(claimed), "kind_free_text": "Lean 4 library: executable models, Go-spec models, property theorems, axiom audit, compiled line-protocol driver"},
        {"name": "extract", "path": "/verif/extract", "serves_properties": sorted(claimed), "kind_free_text": "Go fact extractor: regenerates lean/YaegiVerif/Generated/*.lean from /repo on every run"},
        {"name": "harness", "path": "/verif/harness", "serves_properties": sorted(claimed), "kind_free_text": "Go correspondence harness (built with -tags verif against /repo): implementation vs Lean model vs reference oracle"},
    ],
    "checks": checks,
    "not_applicable": na,
    "notes": "Every check: extract facts -> lake build of Props.<id> + axiom audit -> correspondence run -> verdict (DESIGN.md section 2). Known findings: KNOWN_FINDINGS.json.",
}
json.dump(m, open(os.path.join(V, "MANIFEST.json"), "w"), indent=1)
print("MANIFEST.json:", len(checks), "checks,", len(na), "not applicable")
