// extract-C05: facts about method and field resolution read from the source text:
//
//   - cfg.go, pre-order case of `switchStmt` / `typeSwitch`: whether the default clause is swapped with
//     the last clause; post-order `case switchStmt`: how the clauses are chained (to the next clause
//     of the list, or to the next clause with a test and at last to the default clause);
//   - run.go `genFunctionWrapper`: what each arm of the receiver binding does with the receiver
//     slot of the new frame (`dest.Set(x)` or `d[numRet] = x`);
//   - type.go `lookupField`: whether the loop over the fields skips fields that are not embedded, and
//     which embedded field wins (first hit depth first / shortest path); the same for `lookupMethod2`;
//     cfg.go `matchSelectorMethod`: whether several methods at the depth found are an ambiguous selector;
//   - value.go `genValueInterface`: whether an addressable value is copied before it is wrapped;
//   - type.go `methodSet.contains`: whether only the presence of the name is tested;
//   - cfg.go `case selectorExpr`: the two conditions comparing `methodDepth` with the length of the
//     field path;
//   - fingerprints of the functions (and of the selector case) that Model/Method.lean and
//     Model/MethodRun.lean transcribe by hand.
//
// A construct that is no longer recognised is reported in `unrecognised`, which the expectation
// requires to be empty.
package main

import (
	"bytes"
	"crypto/sha256"
	"fmt"
	"go/ast"
	"go/printer"
	"go/token"
	"sort"
	"strings"

	"verif/extract/common"
)

func text(n ast.Node) string {
	var b bytes.Buffer
	if err := (&printer.Config{Mode: printer.RawFormat}).Fprint(&b, token.NewFileSet(), n); err != nil {
		return "?"
	}
	return strings.Join(strings.Fields(b.String()), " ")
}

func caseHas(cc *ast.CaseClause, name string) bool {
	for _, e := range cc.List {
		if id, ok := e.(*ast.Ident); ok && id.Name == name {
			return true
		}
	}
	return false
}

func contains(n ast.Node, sub string) bool { return strings.Contains(text(n), sub) }

func main() {
	common.Main("C05", func(repo string) (string, error) {
		var unrec []string
		fsT, ft, err := common.ParseFile(repo, "interp/type.go")
		if err != nil {
			return "", err
		}
		fsC, fc, err := common.ParseFile(repo, "interp/cfg.go")
		if err != nil {
			return "", err
		}
		fsR, fr, err := common.ParseFile(repo, "interp/run.go")
		if err != nil {
			return "", err
		}
		fsK, fk, err := common.ParseFile(repo, "interp/typecheck.go")
		if err != nil {
			return "", err
		}
		fsV, fv, err := common.ParseFile(repo, "interp/value.go")
		if err != nil {
			return "", err
		}

		// 1. the clauses of a switch with a tag / a type switch
		//    (a) pre-order case: is the default clause swapped with the last clause
		//    (b) post-order `case switchStmt` (reached from `case typeSwitch` by fallthrough): how the
		//        clauses are chained
		defaultSwap := false
		clauseChain := "unknown"
		preHash, postHash := "unrecognised: pre-order case not found", "unrecognised: post-order case not found"
		foundPre, foundPost := false, false
		var selectorCase *ast.CaseClause
		ast.Inspect(fc, func(n ast.Node) bool {
			cc, ok := n.(*ast.CaseClause)
			if !ok {
				return true
			}
			if caseHas(cc, "typeSwitch") && caseHas(cc, "switchStmt") && contains(cc, "sc.pushBloc()") && !foundPre {
				foundPre = true
				preHash = fmt.Sprintf("%x", sha256.Sum256([]byte(text(cc))))[:16]
				for _, st := range cc.Body {
					ast.Inspect(st, func(m ast.Node) bool {
						as, ok := m.(*ast.AssignStmt)
						if !ok {
							return true
						}
						if as.Tok == token.ASSIGN && len(as.Lhs) == 2 && len(as.Rhs) == 2 &&
							text(as.Lhs[0]) == "c[i]" && text(as.Lhs[1]) == "c[l]" && text(as.Rhs[0]) == "c[l]" && text(as.Rhs[1]) == "c[i]" {
							defaultSwap = true
							return true
						}
						switch text(as) {
						case "sc = sc.pushBloc()", "sc.loop = n", "c := n.lastChild().child", "i, l := getDefault(n), len(c)-1":
						default:
							unrec = append(unrec, "switch, pre-order: "+text(as))
						}
						return true
					})
				}
			}
			if len(cc.List) == 1 && caseHas(cc, "switchStmt") && contains(cc, "sbn.start") && contains(cc, "setFNext") && !foundPost {
				foundPost = true
				postHash = fmt.Sprintf("%x", sha256.Sum256([]byte(text(cc))))[:16]
				var fnexts []string
				start, init := "", ""
				ast.Inspect(cc, func(m ast.Node) bool {
					switch x := m.(type) {
					case *ast.CallExpr:
						if id, ok := x.Fun.(*ast.Ident); ok && id.Name == "setFNext" {
							fnexts = append(fnexts, text(x))
						}
					case *ast.AssignStmt:
						if len(x.Lhs) == 1 && text(x.Lhs[0]) == "sbn.start" {
							start = text(x)
						}
					case *ast.IfStmt:
						if x.Init != nil && text(x.Init) == "i := getDefault(n)" {
							init = text(x.Cond) + " => " + text(x.Body)
						}
					}
					return true
				})
				all := strings.Join(fnexts, "; ")
				switch {
				case all == "setFNext(c, nextTest)" && start == "sbn.start = nextTest" && init == "i >= 0 => { nextTest = clauses[i] }" &&
					contains(cc, "nextTest := n") && contains(cc, "for i := l - 1; i >= 0; i-- {") &&
					contains(cc, "if len(c.child) > 1 { setFNext(c, nextTest) nextTest = c.start }"):
					clauseChain = "nextTest"
				case all == "setFNext(clauses[i], n); setFNext(c, clauses[i+1].start); setFNext(c, clauses[i+1])" &&
					start == "sbn.start = clauses[0].start" && init == "":
					clauseChain = "nextClause"
				default:
					unrec = append(unrec, "switch, post-order: "+all+" | "+start+" | "+init)
				}
			}
			if caseHas(cc, "selectorExpr") && len(cc.List) == 1 && contains(cc, "lookupField") && contains(cc, "methodDepth") {
				selectorCase = cc
			}
			return true
		})
		if !foundPre {
			unrec = append(unrec, "cfg.go: pre-order case of switchStmt / typeSwitch not found")
		}
		if !foundPost {
			unrec = append(unrec, "cfg.go: post-order case switchStmt (clause chaining) not found")
		}

		// 2. lookupField: the loop over the fields (embedded only?) and which field wins;
		//    lookupMethod2: which embedded field wins; matchSelectorMethod: the methodCount test
		pickOf := func(fd *ast.FuncDecl, what, rangeX, init, condFirst, condBest, assignBest string) (string, *ast.RangeStmt) {
			pick := "unknown"
			var loop *ast.RangeStmt
			ast.Inspect(fd, func(n ast.Node) bool {
				rs, ok := n.(*ast.RangeStmt)
				if !ok || text(rs.X) != rangeX || loop != nil {
					return true
				}
				loop = rs
				ast.Inspect(rs.Body, func(m ast.Node) bool {
					is, ok := m.(*ast.IfStmt)
					if !ok || is.Init == nil || text(is.Init) != init {
						return true
					}
					body := text(is.Body)
					switch {
					case text(is.Cond) == condFirst && strings.Contains(body, "return "):
						pick = "firstDfs"
					case text(is.Cond) == condBest && body == "{ "+assignBest+" }":
						pick = "shallowest"
					default:
						unrec = append(unrec, what+": "+text(is.Cond)+" => "+body)
					}
					return false
				})
				return false
			})
			if loop == nil {
				unrec = append(unrec, what+": loop over "+rangeX+" not found")
			}
			return pick, loop
		}
		embedOnly := false
		fieldPick := "unknown"
		if fd := common.FindFunc(ft, "itype", "lookupField"); fd == nil {
			unrec = append(unrec, "type.go: lookupField not found")
		} else {
			var loop *ast.RangeStmt
			fieldPick, loop = pickOf(fd, "type.go lookupField", "typ.field", "index2 := lookup(f.typ)",
				"len(index2) > 0", "len(index2) > 0 && (index == nil || len(index2) < len(index)-1)", "index = append([]int{i}, index2...)")
			if loop != nil && len(loop.Body.List) > 0 {
				switch first := text(loop.Body.List[0]); {
				case first == "if !f.embed { continue }":
					embedOnly = true
				case strings.Contains(text(loop.Body), ".embed"):
					unrec = append(unrec, "type.go lookupField: test of f.embed: "+first)
				}
			}
			if fieldPick == "shallowest" && !contains(fd, "return index }") {
				unrec = append(unrec, "type.go lookupField: the selected index is not returned")
			}
		}
		methodPick := "unknown"
		if fd := common.FindFunc(ft, "itype", "lookupMethod2"); fd == nil {
			unrec = append(unrec, "type.go: lookupMethod2 not found")
		} else {
			var loop *ast.RangeStmt
			methodPick, loop = pickOf(fd, "type.go lookupMethod2", "t.field", "n, index2 := f.typ.lookupMethod2(name, seen)",
				"n != nil", "n != nil && (m == nil || len(index2) < len(index)-1)", "m, index = n, append([]int{i}, index2...)")
			if loop != nil && text(loop.Body) != "{ if f.embed { "+text(loop.Body.List[0].(*ast.IfStmt).Body.List[0])+" } }" {
				unrec = append(unrec, "type.go lookupMethod2: loop body: "+text(loop.Body))
			}
			if methodPick == "shallowest" && !contains(fd, "if m != nil { return m, index }") {
				unrec = append(unrec, "type.go lookupMethod2: the selected method is not returned")
			}
		}
		ambCheck := false
		if fd := common.FindFunc(fc, "", "matchSelectorMethod"); fd == nil {
			unrec = append(unrec, "cfg.go: matchSelectorMethod not found")
		} else {
			ast.Inspect(fd, func(n ast.Node) bool {
				is, ok := n.(*ast.IfStmt)
				if !ok || is.Init == nil || text(is.Init) != "m, lind := n.typ.lookupMethod(name)" {
					return true
				}
				if len(is.Body.List) > 0 {
					if c, ok := is.Body.List[0].(*ast.IfStmt); ok && strings.Contains(text(c.Cond), "methodCount") {
						if text(c.Cond) == "n.typ.methodCount(name, len(lind)) > 1" && text(c.Body) == `{ return n.cfgErrorf("ambiguous selector: %s", name) }` {
							ambCheck = true
						} else {
							unrec = append(unrec, "cfg.go matchSelectorMethod: "+text(c.Cond)+" => "+text(c.Body))
						}
					}
				}
				return false
			})
		}

		// 3. contains
		namesOnly := false
		if fd := common.FindFunc(ft, "methodSet", "contains"); fd == nil {
			unrec = append(unrec, "type.go: methodSet.contains not found")
		} else {
			var ifs []*ast.IfStmt
			ast.Inspect(fd, func(n ast.Node) bool {
				if is, ok := n.(*ast.IfStmt); ok {
					ifs = append(ifs, is)
				}
				return true
			})
			if len(ifs) == 1 && ifs[0].Init != nil && text(ifs[0].Init) == "_, ok := m[k]" && text(ifs[0].Cond) == "!ok" {
				namesOnly = true
			} else if len(ifs) == 0 {
				unrec = append(unrec, "type.go contains: no test found")
			}
		}

		// 4. selector case
		methodWins, ambiguous := "unrecognised", "unrecognised"
		selHash := "unrecognised: selector case not found"
		if selectorCase != nil {
			selHash = fmt.Sprintf("%x", sha256.Sum256([]byte(text(selectorCase))))[:16]
			// the statements following `d := n.typ.methodDepth(n.child[1].ident)` in the branch of lookupField
			done := false
			ast.Inspect(selectorCase, func(n ast.Node) bool {
				bs, ok := n.(*ast.BlockStmt)
				if !ok || done {
					return true
				}
				for i, st := range bs.List {
					as, ok := st.(*ast.AssignStmt)
					if ok && text(as) == "d := n.typ.methodDepth(n.child[1].ident)" && i+2 < len(bs.List) {
						if a, ok := bs.List[i+1].(*ast.IfStmt); ok {
							methodWins = text(a.Cond) + " => " + text(a.Body)
						}
						if b, ok := bs.List[i+2].(*ast.IfStmt); ok {
							ambiguous = text(b.Cond)
						}
						done = true
						break
					}
				}
				return true
			})
		} else {
			unrec = append(unrec, "cfg.go: case selectorExpr with lookupField/methodDepth not found")
		}

		depthMinus := 0
		fieldAmb := false
		switch {
		case methodWins == "d >= 0 && d < len(ti) => { goto tryMethods }" && ambiguous == "d == len(ti)":
			depthMinus = 0
		case methodWins == "d >= 0 && d < len(ti)-1 => { goto tryMethods }" && ambiguous == "d == len(ti)-1":
			depthMinus = 1
		case methodWins == "d >= 0 && d < len(ti)-1 => { goto tryMethods }" &&
			ambiguous == "d == len(ti)-1 || n.typ.fieldCount(n.child[1].ident, len(ti)-1) > 1":
			// since f4dfaf4: another field of that name at the depth of the field found is ambiguous too
			depthMinus, fieldAmb = 1, true
		default:
			unrec = append(unrec, "cfg.go case selectorExpr: depth comparisons: "+methodWins+" | "+ambiguous)
		}
		if selectorCase != nil {
			// the branch of lookupBinField repeats the two comparisons on `lind`
			t := text(selectorCase)
			k := ""
			if depthMinus == 1 {
				k = "-1"
			}
			if !strings.Contains(t, "d < len(lind)"+k+" {") || !strings.Contains(t, "d == len(lind)"+k+" {") {
				unrec = append(unrec, "cfg.go case selectorExpr: the comparisons on lind differ from those on ti")
			}
		}

		// 4b. cfg.go post-order `case typeSwitch`: are the clause types checked with typeAssertionExpr;
		//     type.go implements: is the receiver kind tested (needsPtrFor); typecheck.go typeAssertionExpr:
		//     which methods are rejected for their pointer receiver
		tswitchChecked := false
		tsHash := "unrecognised: post-order case typeSwitch not found"
		ast.Inspect(fc, func(n ast.Node) bool {
			cc, ok := n.(*ast.CaseClause)
			if !ok || len(cc.List) != 1 || !caseHas(cc, "typeSwitch") || !contains(cc, "usedCase") {
				return true
			}
			tsHash = fmt.Sprintf("%x", sha256.Sum256([]byte(text(cc))))[:16]
			switch {
			case contains(cc, "if !t.typ.isNil() { if err = check.typeAssertionExpr(guard, t.typ); err != nil { return } }") &&
				contains(cc, "guard := n.child[1].lastChild().child[0]"):
				tswitchChecked = true
			case contains(cc, "typeAssertionExpr"):
				unrec = append(unrec, "cfg.go case typeSwitch: use of typeAssertionExpr not recognised")
			}
			return false
		})
		implPtr := false
		if fd := common.FindFunc(ft, "itype", "implements"); fd != nil {
			switch {
			case contains(fd, "return t.methods().contains(it.methods()) && !t.needsPtrFor(it)"):
				implPtr = true
			case contains(fd, "return t.methods().contains(it.methods()) }"):
			default:
				unrec = append(unrec, "type.go implements: last return not recognised")
			}
		}
		assertPtrOwnOnly := false
		assertPtrNeedsPtr := false
		if fd := common.FindFunc(fk, "typecheck", "typeAssertionExpr"); fd == nil {
			unrec = append(unrec, "typecheck.go: typeAssertionExpr not found")
		} else {
			const tail = "tm.recv != nil && tm.recv.TypeOf().Kind() == reflect.Ptr && typ.TypeOf().Kind() != reflect.Ptr"
			switch {
			case contains(fd, "if _, index := typ.lookupMethod(name); len(index) == 0 && "+tail+" {"):
				assertPtrOwnOnly = true
			case contains(fd, "if _, index := typ.lookupMethod(name); typ.TypeOf().Kind() != reflect.Ptr && (len(index) == 0 && tm.recv != nil && tm.recv.TypeOf().Kind() == reflect.Ptr || !isBin(typ) && typ.needsPtrForMethod(name)) {"):
				// since 6b1f98f: also a promoted pointer-receiver method that does not cross an embedded pointer
				assertPtrOwnOnly, assertPtrNeedsPtr = true, true
			case contains(fd, "if "+tail+" {"):
			default:
				unrec = append(unrec, "typecheck.go typeAssertionExpr: pointer-receiver test not recognised")
			}
		}

		// 4c. run.go `_case`, type-switch branch: since 9f81224 every clause form goes through one helper,
		//     matchCase(f, v, typ) (unwrap to the dynamic type; identity for concrete clause types; method
		//     set + needsPtrFor for interface clause types; the nil type matches a nil interface only);
		//     before, three matchers compared type identifiers / representation types (implementsInterface)
		caseUsesMatchCase := false
		caseHelper := "implementsInterface"
		if fd := common.FindFunc(fr, "", "_case"); fd == nil {
			unrec = append(unrec, "run.go: _case not found")
		} else {
			mc := common.FindFunc(fr, "", "matchCase")
			switch {
			case mc != nil && contains(fd.Body, "if _, ok := matchCase(f, v, typ); ok { return tnext }") &&
				contains(fd.Body, "val, ok := matchCase(f, v, typ)") && !contains(fd.Body, "implementsInterface") &&
				contains(mc.Body, "if typ.cat == nilT || !val.IsValid() { return reflect.Value{}, typ.cat == nilT && !val.IsValid() }") &&
				contains(mc.Body, "if dtyp != nil { return val, dtyp.id() == typ.id() } return val, val.Type() == ft") &&
				contains(mc.Body, "case !dtyp.methods().contains(typ.methods()) || dtyp.needsPtrFor(typ): return reflect.Value{}, false") &&
				contains(mc.Body, "case dtyp == nil: if !valueTOf(val.Type()).methods().contains(typ.methods()) { return reflect.Value{}, false }") &&
				contains(mc.Body, "if dnode != nil && dnode.typ.cat != nilT && !isInterface(dnode.typ) { dtyp = dnode.typ }"):
				caseUsesMatchCase = true
				caseHelper = "matchCase"
			case mc == nil && contains(fd.Body, "implementsInterface(v, typ)") && contains(fd.Body, "if v.typ.id() == typ.id() { return tnext }"):
				// the three matchers of the old code
			default:
				unrec = append(unrec, "run.go _case: the matcher of the type-switch clauses is not recognised")
			}
		}

		// 5. genFunctionWrapper: the receiver binding. Three shapes are recognised:
		//    since 32d4f06: the switch stands in the closure `bindRecv := func() reflect.Value {…}` (arms
		//    `return copyDeferArg(x)` copy, `return x` x itself); `late = n.recv.node == nil`; outside the
		//    reflect.MakeFunc callback `if rcvr != nil && !late { recv = bindRecv() }`; the callback does
		//    `case late: d[numRet].Set(bindRecv())` and `default: d[numRet].Set(recv)`;
		//    3081633 … 32d4f06^: the switch stands outside the callback and assigns `recv`
		//    (`recv = copyDeferArg(x)` copy, `recv = x` x itself), the callback does `d[numRet].Set(recv)`
		//    (copy) or `d[numRet] = recv`; before: the switch stands in the callback and writes the slot
		//    (`dest.Set(x)` copy, `d[numRet] = x` x itself).
		bind := map[string]string{"ptrToVal": "unknown", "valToPtr": "unknown", "same": "unknown", "call": "unknown", "lateCall": "slot"}
		atCreation, lateNilNode := false, false
		recvHash := "unrecognised: receiver binding not found"
		fdGW := common.FindFunc(fr, "", "genFunctionWrapperFor") // since dc95f3e genFunctionWrapper and genHostFunctionWrapper delegate to it
		if fdGW == nil {
			fdGW = common.FindFunc(fr, "", "genFunctionWrapper")
		} else if g := common.FindFunc(fr, "", "genFunctionWrapper"); g == nil || !contains(g.Body, "return genFunctionWrapperFor(n, false)") {
			unrec = append(unrec, "run.go: genFunctionWrapper does not delegate to genFunctionWrapperFor(n, false)")
		}
		if fd := fdGW; fd == nil {
			unrec = append(unrec, "run.go: genFunctionWrapper not found")
		} else {
			// the callback: the function literal passed to reflect.MakeFunc; the closure bindRecv
			var callback, binder *ast.FuncLit
			ast.Inspect(fd, func(n ast.Node) bool {
				switch x := n.(type) {
				case *ast.CallExpr:
					if text(x.Fun) == "reflect.MakeFunc" && len(x.Args) == 2 {
						if fl, ok := x.Args[1].(*ast.FuncLit); ok && callback == nil {
							callback = fl
						}
					}
				case *ast.AssignStmt:
					if len(x.Lhs) == 1 && len(x.Rhs) == 1 && text(x.Lhs[0]) == "bindRecv" && x.Tok == token.DEFINE {
						if fl, ok := x.Rhs[0].(*ast.FuncLit); ok && binder == nil {
							binder = fl
						}
					}
				}
				return true
			})
			inside := func(n ast.Node, fl *ast.FuncLit) bool { return fl != nil && n.Pos() >= fl.Pos() && n.End() <= fl.End() }
			found := false
			shape := 0
			ast.Inspect(fd, func(n ast.Node) bool {
				sw, ok := n.(*ast.SwitchStmt)
				if !ok || sw.Tag != nil || found {
					return true
				}
				isIt := false
				for _, st := range sw.Body.List {
					if cc := st.(*ast.CaseClause); len(cc.List) == 1 && text(cc.List[0]) == "sk == reflect.Ptr && dk != reflect.Ptr" {
						isIt = true
					}
				}
				if !isIt {
					return true
				}
				found = true
				switch {
				case inside(sw, binder) && !inside(binder, callback):
					shape = 3
				case inside(sw, callback):
					shape = 1
				default:
					shape = 2
				}
				recvHash = fmt.Sprintf("%x", sha256.Sum256([]byte(text(sw))))[:16]
				for _, st := range sw.Body.List {
					cc := st.(*ast.CaseClause)
					arm, operand := "", ""
					switch {
					case len(cc.List) == 0:
						arm, operand = "same", "src"
					case len(cc.List) == 1 && text(cc.List[0]) == "sk == reflect.Ptr && dk != reflect.Ptr":
						arm, operand = "ptrToVal", "src.Elem()"
					case len(cc.List) == 1 && text(cc.List[0]) == "sk != reflect.Ptr && dk == reflect.Ptr":
						arm, operand = "valToPtr", "src.Addr()"
					default:
						unrec = append(unrec, "receiver binding: arm "+text(cc))
						continue
					}
					body := ""
					for _, b := range cc.Body {
						body += text(b) + ";"
					}
					set := map[int]string{1: "dest.Set(" + operand + ");", 2: "recv = copyDeferArg(" + operand + ");", 3: "return copyDeferArg(" + operand + ");"}
					slot := map[int]string{1: "d[numRet] = " + operand + ";", 2: "recv = " + operand + ";", 3: "return " + operand + ";"}
					switch body {
					case set[shape]:
						bind[arm] = "set"
					case slot[shape]:
						bind[arm] = "slot"
					default:
						unrec = append(unrec, "receiver binding, arm "+arm+": "+body)
					}
				}
				return true
			})
			slotStmt := func(where ast.Node, what, operand string) string {
				switch {
				case contains(where, "d[numRet].Set("+operand+")") && !contains(where, "d[numRet] = "+operand):
					return "set"
				case contains(where, "d[numRet] = "+operand) && !contains(where, "d[numRet].Set("+operand+")"):
					return "slot"
				}
				unrec = append(unrec, "run.go genFunctionWrapper: the callback does not fill d[numRet] from "+operand+" as expected ("+what+")")
				return "unknown"
			}
			switch {
			case !found:
				unrec = append(unrec, "run.go genFunctionWrapper: switch on sk / dk not found")
			case callback == nil:
				unrec = append(unrec, "run.go genFunctionWrapper: reflect.MakeFunc callback not found")
			case shape == 1:
				bind["call"] = "slot"
				if !contains(fd, "src, dest := rcvr(f), d[numRet]") || !contains(fd, "sk, dk := src.Kind(), dest.Kind()") {
					unrec = append(unrec, "run.go genFunctionWrapper: src / dest / sk / dk are not bound as expected")
				}
			case shape == 2:
				atCreation = true
				if !contains(fd, "src := rcvr(f)") || !contains(fd, "sk, dk := src.Kind(), def.types[numRet].Kind()") {
					unrec = append(unrec, "run.go genFunctionWrapper: src / sk / dk are not bound as expected")
				}
				bind["call"] = slotStmt(callback, "recv", "recv")
			default:
				if !contains(binder, "src := rcvr(f)") || !contains(binder, "sk, dk := src.Kind(), def.types[numRet].Kind()") {
					unrec = append(unrec, "run.go genFunctionWrapper: src / sk / dk are not bound as expected")
				}
				// which receivers are read when the wrapper is made
				early := ""
				ast.Inspect(fd, func(n ast.Node) bool {
					is, ok := n.(*ast.IfStmt)
					if ok && !inside(is, callback) && text(is.Body) == "{ recv = bindRecv() }" {
						early = text(is.Cond)
					}
					return true
				})
				lateDef := contains(fd, "late := false") && contains(fd, "rcvr = genValueRecv(n) late = n.recv.node == nil")
				switch {
				case early == "rcvr != nil && !late" && lateDef:
					atCreation, lateNilNode = true, true
				case early == "rcvr != nil":
					atCreation = true
				default:
					unrec = append(unrec, "run.go genFunctionWrapper: early binding: "+early)
				}
				// the callback: `switch { case rcvr == nil: … case late: … default: … }`
				okShape := false
				ast.Inspect(callback, func(n ast.Node) bool {
					sw, ok := n.(*ast.SwitchStmt)
					if !ok || sw.Tag != nil || okShape {
						return true
					}
					for _, st := range sw.Body.List {
						cc := st.(*ast.CaseClause)
						switch {
						case len(cc.List) == 1 && text(cc.List[0]) == "late":
							okShape = true
							bind["lateCall"] = slotStmt(cc, "late", "bindRecv()")
						case len(cc.List) == 0 && contains(cc, "recv"):
							bind["call"] = slotStmt(cc, "default", "recv")
						}
					}
					return true
				})
				if lateNilNode && !okShape {
					unrec = append(unrec, "run.go genFunctionWrapper: the callback has no `case late`")
				}
				if bind["call"] == "unknown" {
					bind["call"] = slotStmt(callback, "recv", "recv")
				}
			}
		}

		// 5b. genInterfaceWrapper: the receiver its method wrappers get
		ifaceWrapHeld := false
		fdW := common.FindFunc(fr, "", "genInterfaceWrapperValue") // since bbd3913 the body of genInterfaceWrapper lives here
		if fdW == nil {
			fdW = common.FindFunc(fr, "", "genInterfaceWrapper")
		}
		assertHostHeld := false
		if fd := common.FindFunc(fr, "", "typeAssert"); fd != nil {
			switch {
			case contains(fd, "held := func(*frame) reflect.Value { return val.value }") && contains(fd, "value0(f).Set(genInterfaceWrapperValue(val.node, rtype, held)(f))"):
				assertHostHeld = true
			case contains(fd, "value0(f).Set(genInterfaceWrapper(val.node, rtype)(f))"):
			default:
				unrec = append(unrec, "run.go typeAssert: the wrapper of an assertion to a host interface is not built as expected")
			}
		}
		if fd := fdW; fd == nil {
			unrec = append(unrec, "run.go: genInterfaceWrapper not found")
		} else {
			var recvs []string
			ast.Inspect(fd, func(n ast.Node) bool {
				as, ok := n.(*ast.AssignStmt)
				if ok && len(as.Lhs) == 1 && text(as.Lhs[0]) == "nod.recv" {
					recvs = append(recvs, text(as.Rhs[0]))
				}
				return true
			})
			all := strings.Join(recvs, " | ")
			switch {
			case all == "&receiver{val: rv, index: i2} | &receiver{val: rv, index: indexes[i]}" && contains(fd, "rv := copyDeferArg(valueInterfaceValue(v))"):
				ifaceWrapHeld = true
			case all == "&receiver{n, v, i2} | &receiver{n, v, indexes[i]}":
			default:
				unrec = append(unrec, "run.go genInterfaceWrapper: receivers of the method wrappers: "+all)
			}
		}

		// 5c. use.go getWrapper: does it decide with methods() of the type (own and promoted methods);
		//     stdlib/wrapper-composed.go: which host interfaces have composed wrappers, with which methods
		wrapperUsesMethodSet := false
		var hU string
		if fsU, fu, err := common.ParseFile(repo, "interp/use.go"); err != nil {
			unrec = append(unrec, "interp/use.go: "+err.Error())
		} else {
			hU = common.HashTable(fsU, fu, [][2]string{{"", "getWrapper"}})
			if fd := common.FindFunc(fu, "", "getWrapper"); fd == nil {
				unrec = append(unrec, "use.go: getWrapper not found")
			} else {
				switch {
				case contains(fd.Body, "lm := n.typ.methods()") && contains(fd.Body, "if _, ok := lm[rt.Field(i).Name[1:]]; !ok { match = false break }") &&
					contains(fd.Body, "for _, rt := range n.interp.mapTypes[w] {") && contains(fd.Body, "if match { return rt }"):
					wrapperUsesMethodSet = true
				case contains(fd.Body, "getMethod(rt.Field(i).Name[1:]) == nil"):
					// own methods only
				default:
					unrec = append(unrec, "use.go getWrapper: the test of the wrapper methods is not recognised: "+text(fd.Body))
				}
			}
		}
		composed := "[]"
		if _, fw, err := common.ParseFile(repo, "stdlib/wrapper-composed.go"); err != nil {
			unrec = append(unrec, "stdlib/wrapper-composed.go: "+err.Error())
		} else {
			// struct types: the names of their W… fields
			fields := map[string][]string{}
			for _, d := range fw.Decls {
				gd, ok := d.(*ast.GenDecl)
				if !ok {
					continue
				}
				for _, sp := range gd.Specs {
					ts, ok := sp.(*ast.TypeSpec)
					if !ok {
						continue
					}
					st, ok := ts.Type.(*ast.StructType)
					if !ok {
						continue
					}
					for _, f := range st.Fields.List {
						for _, nm := range f.Names {
							if strings.HasPrefix(nm.Name, "W") {
								fields[ts.Name.Name] = append(fields[ts.Name.Name], nm.Name[1:])
							}
						}
					}
				}
			}
			// init: MapTypes[reflect.ValueOf((*_io_Reader)(nil))] = []reflect.Type{ reflect.ValueOf((*_ioReaderWriteTo)(nil)).Type().Elem(), … }
			var entries []string
			if fd := common.FindFunc(fw, "", "init"); fd == nil {
				unrec = append(unrec, "stdlib/wrapper-composed.go: init not found")
			} else {
				for _, st := range fd.Body.List {
					as, ok := st.(*ast.AssignStmt)
					if !ok || len(as.Lhs) != 1 || len(as.Rhs) != 1 {
						unrec = append(unrec, "wrapper-composed.go init: "+text(st))
						continue
					}
					l, r := text(as.Lhs[0]), as.Rhs[0]
					const pre, post = "MapTypes[reflect.ValueOf((*", ")(nil))]"
					cl, ok := r.(*ast.CompositeLit)
					if !strings.HasPrefix(l, pre) || !strings.HasSuffix(l, post) || !ok {
						unrec = append(unrec, "wrapper-composed.go init: "+text(st))
						continue
					}
					base := strings.TrimSuffix(strings.TrimPrefix(l, pre), post)
					var lists []string
					for _, e := range cl.Elts {
						et := text(e)
						const p2, s2 = "reflect.ValueOf((*", ")(nil)).Type().Elem()"
						if !strings.HasPrefix(et, p2) || !strings.HasSuffix(et, s2) {
							unrec = append(unrec, "wrapper-composed.go init: "+et)
							continue
						}
						name := strings.TrimSuffix(strings.TrimPrefix(et, p2), s2)
						if len(fields[name]) == 0 {
							unrec = append(unrec, "wrapper-composed.go: struct "+name+" not found")
						}
						lists = append(lists, common.LeanStrList(fields[name]))
					}
					entries = append(entries, "("+common.LeanStr(base)+", ["+strings.Join(lists, ", ")+"])")
				}
			}
			sort.Strings(entries)
			composed = "[" + strings.Join(entries, ",\n   ") + "]"
		}

		// 6. genValueInterface: is an addressable value copied before it is wrapped
		ifaceCopies := false
		if fd := common.FindFunc(fv, "", "genValueInterface"); fd == nil {
			unrec = append(unrec, "value.go: genValueInterface not found")
		} else {
			ast.Inspect(fd, func(n ast.Node) bool {
				is, ok := n.(*ast.IfStmt)
				if ok && strings.Contains(text(is.Cond), "CanAddr") {
					if text(is.Cond) == "v.IsValid() && v.CanAddr()" && text(is.Body) == "{ c := reflect.New(v.Type()).Elem() c.Set(v) v = c }" {
						ifaceCopies = true
					} else {
						unrec = append(unrec, "value.go genValueInterface: "+text(is.Cond)+" => "+text(is.Body))
					}
				}
				return true
			})
		}

		hT := common.HashTable(fsT, ft, [][2]string{{"itype", "lookupField"}, {"itype", "fieldIndex"}, {"itype", "lookupMethod"}, {"itype", "lookupMethod2"},
			{"itype", "getMethod"}, {"itype", "methodDepth"}, {"itype", "methodCount"}, {"itype", "fieldCount"}, {"itype", "needsPtrFor"}, {"itype", "needsPtrForMethod"}, {"itype", "methods"}, {"methodSet", "contains"}, {"itype", "implements"}, {"", "lookupFieldOrMethod"}})
		hC := common.HashTable(fsC, fc, [][2]string{{"", "matchSelectorMethod"}, {"", "getDefault"}})
		hR := common.HashTable(fsR, fr, [][2]string{{"", "typeAssert"}, {"", "_case"}, {"", caseHelper}, {"", "canAssertTypes"},
			{"", "getMethod"}, {"", "getMethodByName"}, {"", "lookupMethodValue"}, {"", "stripReceiverFromArgs"}, {"", "genFunctionWrapper"}, {"", "genFunctionWrapperFor"}, {"", "genHostFunctionWrapper"}, {"", "genInterfaceWrapper"}, {"", "genInterfaceWrapperValue"}, {"", "copyDeferArg"}})
		hK := common.HashTable(fsK, fk, [][2]string{{"typecheck", "typeAssertionExpr"}})
		hV := common.HashTable(fsV, fv, [][2]string{{"", "genDestValue"}, {"", "genValueInterface"}, {"", "genValueRecv"}})
		return fmt.Sprintf(`import YaegiVerif.Model.Method
namespace YaegiVerif.Generated.C05
open YaegiVerif.Method
/-- choices read from interp/cfg.go, interp/type.go and interp/run.go -/
def facts : Facts :=
  { defaultSwap := %v,
    clauseChain := .%s,
    methodPick := .%s,
    methodAmbiguityCheck := %v,
    fieldLoopEmbedOnly := %v,
    fieldPick := .%s,
    containsNamesOnly := %v,
    methodWinsCond := %s,
    ambiguousCond := %s,
    fieldDepthMinus := %d,
    fieldAmbiguityCheck := %v,
    implementsChecksRecv := %v,
    assertPtrOwnOnly := %v,
    assertPtrNeedsPtr := %v,
    tswitchCasesChecked := %v,
    caseUsesMatchCase := %v,
    assertHostWrapsHeld := %v,
    wrapperUsesMethodSet := %v,
    recvBind := { atCreation := %v, ptrToVal := .%s, valToPtr := .%s, same := .%s, call := .%s,
                  lateNilNode := %v, lateCall := .%s, ifaceWrapHeld := %v },
    ifaceCopies := %v }
/-- stdlib/wrapper-composed.go: the host interfaces (by the name of their plain wrapper) that have
    composed wrappers, with the methods of each composed wrapper -/
def composedWrappers : List (String × List (List String)) :=
  %s
/-- constructs the extractor no longer recognises -/
def unrecognised : List String := %s
/-- fingerprints of the transcribed functions, of three cases of cfg.go and of the receiver binding -/
def sourceHashes : List (String × String) :=
  %s ++
  %s ++
  %s ++
  %s ++
  %s ++
  %s ++
  [("cfg.go case selectorExpr", %s),
   ("cfg.go pre-order case switchStmt, typeSwitch", %s),
   ("cfg.go post-order case switchStmt", %s),
   ("cfg.go post-order case typeSwitch", %s),
   ("genFunctionWrapper receiver binding", %s)]
end YaegiVerif.Generated.C05
`, defaultSwap, clauseChain, methodPick, ambCheck, embedOnly, fieldPick, namesOnly, common.LeanStr(methodWins), common.LeanStr(ambiguous), depthMinus, fieldAmb, implPtr, assertPtrOwnOnly, assertPtrNeedsPtr, tswitchChecked, caseUsesMatchCase, assertHostHeld, wrapperUsesMethodSet,
			atCreation, bind["ptrToVal"], bind["valToPtr"], bind["same"], bind["call"], lateNilNode, bind["lateCall"], ifaceWrapHeld, ifaceCopies, composed,
			common.LeanStrList(unrec), hT, hC, hR, hK, hV, hU, common.LeanStr(selHash), common.LeanStr(preHash), common.LeanStr(postHash), common.LeanStr(tsHash), common.LeanStr(recvHash)), nil
	})
}
