// extract-C05: facts about method and field resolution read from the source text:
//
//   - cfg.go, pre-order case of `switchStmt` / `typeSwitch`: whether the default clause is swapped with
//     the last clause; post-order `case switchStmt`: how the clauses are chained (to the next clause
//     of the list, or to the next clause with a test and at last to the default clause);
//   - run.go `genFunctionWrapper`: what each arm of the receiver binding does with the receiver
//     slot of the new frame (`dest.Set(x)` or `d[numRet] = x`);
//   - type.go `lookupField`: whether the loop over the fields tests `f.embed`;
//   - type.go `methodSet.contains`: whether only the presence of the name is tested;
//   - cfg.go `case selectorExpr`: the two conditions comparing `methodDepth` with the length of the
//     field path;
//   - fingerprints of the functions (and of the selector case) that Model/Method.lean and
//     Model/MethodRun.lean transcribe by hand.
//
// A construct that is no longer recognised is reported in `unrecognised`, which the expectation
// requires to be empty.
package main

import (
	"bytes"
	"crypto/sha256"
	"fmt"
	"go/ast"
	"go/printer"
	"go/token"
	"strings"

	"verif/extract/common"
)

func text(n ast.Node) string {
	var b bytes.Buffer
	if err := (&printer.Config{Mode: printer.RawFormat}).Fprint(&b, token.NewFileSet(), n); err != nil {
		return "?"
	}
	return strings.Join(strings.Fields(b.String()), " ")
}

func caseHas(cc *ast.CaseClause, name string) bool {
	for _, e := range cc.List {
		if id, ok := e.(*ast.Ident); ok && id.Name == name {
			return true
		}
	}
	return false
}

func contains(n ast.Node, sub string) bool { return strings.Contains(text(n), sub) }

func main() {
	common.Main("C05", func(repo string) (string, error) {
		var unrec []string
		fsT, ft, err := common.ParseFile(repo, "interp/type.go")
		if err != nil {
			return "", err
		}
		fsC, fc, err := common.ParseFile(repo, "interp/cfg.go")
		if err != nil {
			return "", err
		}
		fsR, fr, err := common.ParseFile(repo, "interp/run.go")
		if err != nil {
			return "", err
		}
		fsK, fk, err := common.ParseFile(repo, "interp/typecheck.go")
		if err != nil {
			return "", err
		}
		fsV, fv, err := common.ParseFile(repo, "interp/value.go")
		if err != nil {
			return "", err
		}

		// 1. the clauses of a switch with a tag / a type switch
		//    (a) pre-order case: is the default clause swapped with the last clause
		//    (b) post-order `case switchStmt` (reached from `case typeSwitch` by fallthrough): how the
		//        clauses are chained
		defaultSwap := false
		clauseChain := "unknown"
		preHash, postHash := "unrecognised: pre-order case not found", "unrecognised: post-order case not found"
		foundPre, foundPost := false, false
		var selectorCase *ast.CaseClause
		ast.Inspect(fc, func(n ast.Node) bool {
			cc, ok := n.(*ast.CaseClause)
			if !ok {
				return true
			}
			if caseHas(cc, "typeSwitch") && caseHas(cc, "switchStmt") && contains(cc, "sc.pushBloc()") && !foundPre {
				foundPre = true
				preHash = fmt.Sprintf("%x", sha256.Sum256([]byte(text(cc))))[:16]
				for _, st := range cc.Body {
					ast.Inspect(st, func(m ast.Node) bool {
						as, ok := m.(*ast.AssignStmt)
						if !ok {
							return true
						}
						if as.Tok == token.ASSIGN && len(as.Lhs) == 2 && len(as.Rhs) == 2 &&
							text(as.Lhs[0]) == "c[i]" && text(as.Lhs[1]) == "c[l]" && text(as.Rhs[0]) == "c[l]" && text(as.Rhs[1]) == "c[i]" {
							defaultSwap = true
							return true
						}
						switch text(as) {
						case "sc = sc.pushBloc()", "sc.loop = n", "c := n.lastChild().child", "i, l := getDefault(n), len(c)-1":
						default:
							unrec = append(unrec, "switch, pre-order: "+text(as))
						}
						return true
					})
				}
			}
			if len(cc.List) == 1 && caseHas(cc, "switchStmt") && contains(cc, "sbn.start") && contains(cc, "setFNext") && !foundPost {
				foundPost = true
				postHash = fmt.Sprintf("%x", sha256.Sum256([]byte(text(cc))))[:16]
				var fnexts []string
				start, init := "", ""
				ast.Inspect(cc, func(m ast.Node) bool {
					switch x := m.(type) {
					case *ast.CallExpr:
						if id, ok := x.Fun.(*ast.Ident); ok && id.Name == "setFNext" {
							fnexts = append(fnexts, text(x))
						}
					case *ast.AssignStmt:
						if len(x.Lhs) == 1 && text(x.Lhs[0]) == "sbn.start" {
							start = text(x)
						}
					case *ast.IfStmt:
						if x.Init != nil && text(x.Init) == "i := getDefault(n)" {
							init = text(x.Cond) + " => " + text(x.Body)
						}
					}
					return true
				})
				all := strings.Join(fnexts, "; ")
				switch {
				case all == "setFNext(c, nextTest)" && start == "sbn.start = nextTest" && init == "i >= 0 => { nextTest = clauses[i] }" &&
					contains(cc, "nextTest := n") && contains(cc, "for i := l - 1; i >= 0; i-- {") &&
					contains(cc, "if len(c.child) > 1 { setFNext(c, nextTest) nextTest = c.start }"):
					clauseChain = "nextTest"
				case all == "setFNext(clauses[i], n); setFNext(c, clauses[i+1].start); setFNext(c, clauses[i+1])" &&
					start == "sbn.start = clauses[0].start" && init == "":
					clauseChain = "nextClause"
				default:
					unrec = append(unrec, "switch, post-order: "+all+" | "+start+" | "+init)
				}
			}
			if caseHas(cc, "selectorExpr") && len(cc.List) == 1 && contains(cc, "lookupField") && contains(cc, "methodDepth") {
				selectorCase = cc
			}
			return true
		})
		if !foundPre {
			unrec = append(unrec, "cfg.go: pre-order case of switchStmt / typeSwitch not found")
		}
		if !foundPost {
			unrec = append(unrec, "cfg.go: post-order case switchStmt (clause chaining) not found")
		}

		// 2. lookupField loop
		embedOnly := false
		if fd := common.FindFunc(ft, "itype", "lookupField"); fd == nil {
			unrec = append(unrec, "type.go: lookupField not found")
		} else {
			seen := false
			ast.Inspect(fd, func(n ast.Node) bool {
				rs, ok := n.(*ast.RangeStmt)
				if ok && text(rs.X) == "typ.field" {
					seen = true
					if contains(rs.Body, ".embed") {
						embedOnly = true
					}
				}
				return true
			})
			if !seen {
				unrec = append(unrec, "type.go lookupField: loop over typ.field not found")
			}
		}

		// 3. contains
		namesOnly := false
		if fd := common.FindFunc(ft, "methodSet", "contains"); fd == nil {
			unrec = append(unrec, "type.go: methodSet.contains not found")
		} else {
			var ifs []*ast.IfStmt
			ast.Inspect(fd, func(n ast.Node) bool {
				if is, ok := n.(*ast.IfStmt); ok {
					ifs = append(ifs, is)
				}
				return true
			})
			if len(ifs) == 1 && ifs[0].Init != nil && text(ifs[0].Init) == "_, ok := m[k]" && text(ifs[0].Cond) == "!ok" {
				namesOnly = true
			} else if len(ifs) == 0 {
				unrec = append(unrec, "type.go contains: no test found")
			}
		}

		// 4. selector case
		methodWins, ambiguous := "unrecognised", "unrecognised"
		selHash := "unrecognised: selector case not found"
		if selectorCase != nil {
			selHash = fmt.Sprintf("%x", sha256.Sum256([]byte(text(selectorCase))))[:16]
			// the statements following `d := n.typ.methodDepth(n.child[1].ident)` in the branch of lookupField
			done := false
			ast.Inspect(selectorCase, func(n ast.Node) bool {
				bs, ok := n.(*ast.BlockStmt)
				if !ok || done {
					return true
				}
				for i, st := range bs.List {
					as, ok := st.(*ast.AssignStmt)
					if ok && text(as) == "d := n.typ.methodDepth(n.child[1].ident)" && i+2 < len(bs.List) {
						if a, ok := bs.List[i+1].(*ast.IfStmt); ok {
							methodWins = text(a.Cond) + " => " + text(a.Body)
						}
						if b, ok := bs.List[i+2].(*ast.IfStmt); ok {
							ambiguous = text(b.Cond)
						}
						done = true
						break
					}
				}
				return true
			})
		} else {
			unrec = append(unrec, "cfg.go: case selectorExpr with lookupField/methodDepth not found")
		}

		// 5. genFunctionWrapper: the receiver binding
		bind := map[string]string{"ptrToVal": "unknown", "valToPtr": "unknown", "same": "unknown"}
		recvHash := "unrecognised: receiver binding not found"
		if fd := common.FindFunc(fr, "", "genFunctionWrapper"); fd == nil {
			unrec = append(unrec, "run.go: genFunctionWrapper not found")
		} else {
			found := false
			ast.Inspect(fd, func(n ast.Node) bool {
				sw, ok := n.(*ast.SwitchStmt)
				if !ok || sw.Tag != nil || found {
					return true
				}
				isIt := false
				for _, st := range sw.Body.List {
					if cc := st.(*ast.CaseClause); len(cc.List) == 1 && text(cc.List[0]) == "sk == reflect.Ptr && dk != reflect.Ptr" {
						isIt = true
					}
				}
				if !isIt {
					return true
				}
				found = true
				recvHash = fmt.Sprintf("%x", sha256.Sum256([]byte(text(sw))))[:16]
				for _, st := range sw.Body.List {
					cc := st.(*ast.CaseClause)
					arm, operand := "", ""
					switch {
					case len(cc.List) == 0:
						arm, operand = "same", "src"
					case len(cc.List) == 1 && text(cc.List[0]) == "sk == reflect.Ptr && dk != reflect.Ptr":
						arm, operand = "ptrToVal", "src.Elem()"
					case len(cc.List) == 1 && text(cc.List[0]) == "sk != reflect.Ptr && dk == reflect.Ptr":
						arm, operand = "valToPtr", "src.Addr()"
					default:
						unrec = append(unrec, "receiver binding: arm "+text(cc))
						continue
					}
					body := ""
					for _, b := range cc.Body {
						body += text(b) + ";"
					}
					switch body {
					case "dest.Set(" + operand + ");":
						bind[arm] = "set"
					case "d[numRet] = " + operand + ";":
						bind[arm] = "slot"
					default:
						unrec = append(unrec, "receiver binding, arm "+arm+": "+body)
					}
				}
				return true
			})
			if !found {
				unrec = append(unrec, "run.go genFunctionWrapper: switch on sk / dk not found")
			} else if !contains(fd, "src, dest := rcvr(f), d[numRet]") || !contains(fd, "sk, dk := src.Kind(), dest.Kind()") {
				unrec = append(unrec, "run.go genFunctionWrapper: src / dest / sk / dk are not bound as expected")
			}
		}

		hT := common.HashTable(fsT, ft, [][2]string{{"itype", "lookupField"}, {"itype", "fieldIndex"}, {"itype", "lookupMethod"}, {"itype", "lookupMethod2"},
			{"itype", "getMethod"}, {"itype", "methodDepth"}, {"itype", "methods"}, {"methodSet", "contains"}, {"itype", "implements"}, {"", "lookupFieldOrMethod"}})
		hC := common.HashTable(fsC, fc, [][2]string{{"", "matchSelectorMethod"}, {"", "getDefault"}})
		hR := common.HashTable(fsR, fr, [][2]string{{"", "typeAssert"}, {"", "_case"}, {"", "implementsInterface"}, {"", "canAssertTypes"},
			{"", "getMethod"}, {"", "getMethodByName"}, {"", "lookupMethodValue"}, {"", "stripReceiverFromArgs"}, {"", "genFunctionWrapper"}})
		hK := common.HashTable(fsK, fk, [][2]string{{"typecheck", "typeAssertionExpr"}})
		hV := common.HashTable(fsV, fv, [][2]string{{"", "genDestValue"}, {"", "genValueInterface"}, {"", "genValueRecv"}})
		return fmt.Sprintf(`import YaegiVerif.Model.Method
namespace YaegiVerif.Generated.C05
open YaegiVerif.Method
/-- choices read from interp/cfg.go, interp/type.go and interp/run.go -/
def facts : Facts :=
  { defaultSwap := %v,
    clauseChain := .%s,
    fieldLoopEmbedOnly := %v,
    containsNamesOnly := %v,
    methodWinsCond := %s,
    ambiguousCond := %s,
    recvBind := { ptrToVal := .%s, valToPtr := .%s, same := .%s } }
/-- constructs the extractor no longer recognises -/
def unrecognised : List String := %s
/-- fingerprints of the transcribed functions, of three cases of cfg.go and of the receiver binding -/
def sourceHashes : List (String × String) :=
  %s ++
  %s ++
  %s ++
  %s ++
  %s ++
  [("cfg.go case selectorExpr", %s),
   ("cfg.go pre-order case switchStmt, typeSwitch", %s),
   ("cfg.go post-order case switchStmt", %s),
   ("genFunctionWrapper receiver binding", %s)]
end YaegiVerif.Generated.C05
`, defaultSwap, clauseChain, embedOnly, namesOnly, common.LeanStr(methodWins), common.LeanStr(ambiguous), bind["ptrToVal"], bind["valToPtr"], bind["same"],
			common.LeanStrList(unrec), hT, hC, hR, hK, hV, common.LeanStr(selHash), common.LeanStr(preHash), common.LeanStr(postHash), common.LeanStr(recvHash)), nil
	})
}
