// extract-C05: facts about method and field resolution read from the source text:
//
//   - cfg.go, pre-order `case switchStmt, switchIfStmt, typeSwitch`: how the default clause is moved
//     to the last position (swap with the last clause);
//   - type.go `lookupField`: whether the loop over the fields tests `f.embed`;
//   - type.go `methodSet.contains`: whether only the presence of the name is tested;
//   - cfg.go `case selectorExpr`: the two conditions comparing `methodDepth` with the length of the
//     field path;
//   - fingerprints of the functions (and of the selector case) that Model/Method.lean and
//     Model/MethodRun.lean transcribe by hand.
//
// A construct that is no longer recognised is reported in `unrecognised`, which the expectation
// requires to be empty.
package main

import (
	"bytes"
	"crypto/sha256"
	"fmt"
	"go/ast"
	"go/printer"
	"go/token"
	"strings"

	"verif/extract/common"
)

func text(n ast.Node) string {
	var b bytes.Buffer
	if err := (&printer.Config{Mode: printer.RawFormat}).Fprint(&b, token.NewFileSet(), n); err != nil {
		return "?"
	}
	return strings.Join(strings.Fields(b.String()), " ")
}

func caseHas(cc *ast.CaseClause, name string) bool {
	for _, e := range cc.List {
		if id, ok := e.(*ast.Ident); ok && id.Name == name {
			return true
		}
	}
	return false
}

func contains(n ast.Node, sub string) bool { return strings.Contains(text(n), sub) }

func main() {
	common.Main("C05", func(repo string) (string, error) {
		var unrec []string
		fsT, ft, err := common.ParseFile(repo, "interp/type.go")
		if err != nil {
			return "", err
		}
		fsC, fc, err := common.ParseFile(repo, "interp/cfg.go")
		if err != nil {
			return "", err
		}
		fsR, fr, err := common.ParseFile(repo, "interp/run.go")
		if err != nil {
			return "", err
		}
		fsK, fk, err := common.ParseFile(repo, "interp/typecheck.go")
		if err != nil {
			return "", err
		}
		fsV, fv, err := common.ParseFile(repo, "interp/value.go")
		if err != nil {
			return "", err
		}

		// 1. default clause
		defaultSwap := false
		foundSwitchCase := false
		var selectorCase *ast.CaseClause
		ast.Inspect(fc, func(n ast.Node) bool {
			cc, ok := n.(*ast.CaseClause)
			if !ok {
				return true
			}
			if caseHas(cc, "typeSwitch") && caseHas(cc, "switchStmt") && contains(cc, "getDefault") {
				foundSwitchCase = true
				for _, st := range cc.Body {
					ast.Inspect(st, func(m ast.Node) bool {
						as, ok := m.(*ast.AssignStmt)
						if ok && as.Tok == token.ASSIGN && len(as.Lhs) == 2 && len(as.Rhs) == 2 {
							if text(as.Lhs[0]) == "c[i]" && text(as.Lhs[1]) == "c[l]" && text(as.Rhs[0]) == "c[l]" && text(as.Rhs[1]) == "c[i]" {
								defaultSwap = true
							} else {
								unrec = append(unrec, "default clause: "+text(as))
							}
						}
						return true
					})
				}
				if !defaultSwap && len(unrec) == 0 {
					unrec = append(unrec, "default clause: no swap found: "+text(cc))
				}
			}
			if caseHas(cc, "selectorExpr") && len(cc.List) == 1 && contains(cc, "lookupField") && contains(cc, "methodDepth") {
				selectorCase = cc
			}
			return true
		})
		if !foundSwitchCase {
			unrec = append(unrec, "cfg.go: case switchStmt, switchIfStmt, typeSwitch with getDefault not found")
		}

		// 2. lookupField loop
		embedOnly := false
		if fd := common.FindFunc(ft, "itype", "lookupField"); fd == nil {
			unrec = append(unrec, "type.go: lookupField not found")
		} else {
			seen := false
			ast.Inspect(fd, func(n ast.Node) bool {
				rs, ok := n.(*ast.RangeStmt)
				if ok && text(rs.X) == "typ.field" {
					seen = true
					if contains(rs.Body, ".embed") {
						embedOnly = true
					}
				}
				return true
			})
			if !seen {
				unrec = append(unrec, "type.go lookupField: loop over typ.field not found")
			}
		}

		// 3. contains
		namesOnly := false
		if fd := common.FindFunc(ft, "methodSet", "contains"); fd == nil {
			unrec = append(unrec, "type.go: methodSet.contains not found")
		} else {
			var ifs []*ast.IfStmt
			ast.Inspect(fd, func(n ast.Node) bool {
				if is, ok := n.(*ast.IfStmt); ok {
					ifs = append(ifs, is)
				}
				return true
			})
			if len(ifs) == 1 && ifs[0].Init != nil && text(ifs[0].Init) == "_, ok := m[k]" && text(ifs[0].Cond) == "!ok" {
				namesOnly = true
			} else if len(ifs) == 0 {
				unrec = append(unrec, "type.go contains: no test found")
			}
		}

		// 4. selector case
		methodWins, ambiguous := "unrecognised", "unrecognised"
		selHash := "unrecognised: selector case not found"
		if selectorCase != nil {
			selHash = fmt.Sprintf("%x", sha256.Sum256([]byte(text(selectorCase))))[:16]
			// the statements following `d := n.typ.methodDepth(n.child[1].ident)` in the branch of lookupField
			done := false
			ast.Inspect(selectorCase, func(n ast.Node) bool {
				bs, ok := n.(*ast.BlockStmt)
				if !ok || done {
					return true
				}
				for i, st := range bs.List {
					as, ok := st.(*ast.AssignStmt)
					if ok && text(as) == "d := n.typ.methodDepth(n.child[1].ident)" && i+2 < len(bs.List) {
						if a, ok := bs.List[i+1].(*ast.IfStmt); ok {
							methodWins = text(a.Cond) + " => " + text(a.Body)
						}
						if b, ok := bs.List[i+2].(*ast.IfStmt); ok {
							ambiguous = text(b.Cond)
						}
						done = true
						break
					}
				}
				return true
			})
		} else {
			unrec = append(unrec, "cfg.go: case selectorExpr with lookupField/methodDepth not found")
		}

		hT := common.HashTable(fsT, ft, [][2]string{{"itype", "lookupField"}, {"itype", "fieldIndex"}, {"itype", "lookupMethod"}, {"itype", "lookupMethod2"},
			{"itype", "getMethod"}, {"itype", "methodDepth"}, {"itype", "methods"}, {"methodSet", "contains"}, {"itype", "implements"}, {"", "lookupFieldOrMethod"}})
		hC := common.HashTable(fsC, fc, [][2]string{{"", "matchSelectorMethod"}, {"", "getDefault"}})
		hR := common.HashTable(fsR, fr, [][2]string{{"", "typeAssert"}, {"", "_case"}, {"", "implementsInterface"}, {"", "canAssertTypes"},
			{"", "getMethod"}, {"", "getMethodByName"}, {"", "lookupMethodValue"}, {"", "stripReceiverFromArgs"}})
		hK := common.HashTable(fsK, fk, [][2]string{{"typecheck", "typeAssertionExpr"}})
		hV := common.HashTable(fsV, fv, [][2]string{{"", "genDestValue"}, {"", "genValueInterface"}, {"", "genValueRecv"}})
		return fmt.Sprintf(`import YaegiVerif.Model.Method
namespace YaegiVerif.Generated.C05
open YaegiVerif.Method
/-- choices read from interp/cfg.go and interp/type.go -/
def facts : Facts :=
  { defaultSwap := %v,
    fieldLoopEmbedOnly := %v,
    containsNamesOnly := %v,
    methodWinsCond := %s,
    ambiguousCond := %s }
/-- constructs the extractor no longer recognises -/
def unrecognised : List String := %s
/-- fingerprints of the transcribed functions and of the selector case of cfg.go -/
def sourceHashes : List (String × String) :=
  %s ++
  %s ++
  %s ++
  %s ++
  %s ++
  [("cfg.go case selectorExpr", %s)]
end YaegiVerif.Generated.C05
`, defaultSwap, embedOnly, namesOnly, common.LeanStr(methodWins), common.LeanStr(ambiguous), common.LeanStrList(unrec), hT, hC, hR, hK, hV, common.LeanStr(selHash)), nil
	})
}
