// extract-C19: the structure of the debugger branch of runCfg and of (*Debugger).exec, read from
// the source text, and fingerprints of the functions Model/Debug.lean transcribes.
//
//	loopOrder    the statements of the body of `for m, exec := n, n.exec; …` in interp/run.go runCfg:
//	             dbg.exec (if dbg.exec(m, f) { break }), step-hook (verifStep), exec (exec = exec(f)),
//	             nil-break (if exec == nil { break }), m-nil (if m == nil { m = originalExecNode(n, exec); continue }),
//	             switch (the re-derivation switch)
//	probeOrder   the cases of that switch: tnext (isExecNode(m.tnext, exec) → m = m.tnext), fnext, original (default)
//	execCmp      what isExecNode compares after returning false on nil operands: "closure-identity"
//	             (execID(n.exec) == execID(exec), execID being the word of the func value) or "code-pointer"
//	             (reflect.ValueOf(n.exec).Pointer() == reflect.ValueOf(exec).Pointer(), the code shared by all
//	             the closures of one generator)
//	acceptsForward  isExecNode also accepts `n.debug != nil && n.debug.forward != nil &&
//	             execID(n.debug.forward) == execID(exec)`
//	origCmp      the test of the callback of originalExecNode: "isExecNode" (isExecNode(wn, exec)) or
//	             "code-pointer" (reflect.ValueOf(wn.exec).Pointer() == execAddr)
//	backEdge     what setExec installs on a successor that is being generated (a back edge):
//	             "forward-recorded" (setForwardExec: the forwarding closure is stored in n.exec and in
//	             n.debug.forward) or "forward-unrecorded" (a forwarding closure stored in n.exec only)
//	caseOrder    the cases of the switch of (*Debugger).exec: terminate, break, run, out, over
//	overCmp/outCmp  the operator of `g.fDepth OP g.fStep` under which execution continues
//	noPosSkips   `if n != nil && n.pos == token.NoPos { return false }` precedes the switch
//	depthOps     the ++/-- on fDepth in enterCall / exitCall
//	breakCond    the condition of the break case of (*Debugger).exec: "marked" (n.shouldBreak()) or
//	             "marked-entering-line" (n.shouldBreak() && (n.debug.breakOnCall || dbg.entersLine(f.debug.prev, n)),
//	             entersLine being: prev == nil || prev == n, or the lines of prev and n differ)
//	prevUpdate   (*Debugger).exec begins with `if m := f.debug.node; m != nil && m.isStep() { f.debug.prev = m }`
//	placement    the line-breakpoint branch of SetBreakpoints: "reachable-steps" (every node with n.isStep() that is
//	             in cfgNodes(root) and on a requested line is marked) or "first-candidate" (the first node in walk
//	             order with a position, an action and getExec(n) != nil)
//	             (kinds are given by the names they print as: `kinds` table of interp/ast.go)
//	stepKinds    the kinds for which (*node).isStep is true whatever the action (a position being required), when
//	             the rest of its body is `return n.action != aNop || n.start == n && len(n.child) == 0`
//	debugDataKept  (*node).setProgram (called on every node by Debug) keeps the debug data a node already has
//	             (`if n.debug == nil { n.debug = new(nodeDebugData) }; n.debug.program = p`): the forwarding closures that
//	             setForwardExec recorded while compiling (function literals) are still there when the session runs
//	cfgKinds     the kinds whose entry points cfgNodes visits besides root.start: funcType (the body of the
//	             enclosing function: n.anc.child[3].start when there are 4 children), constDecl/varDecl (n.start and
//	             the start of every child); the walk follows tnext and fnext (and the clauses of a select)
//
// A construct that is no longer recognised yields "unrecognised: …", which cannot equal the
// hand-written expectation.
package main

import (
	"bytes"
	"fmt"
	"go/ast"
	"go/printer"
	"go/token"
	"strings"

	"verif/extract/common"
)

func src(n ast.Node) string {
	var b bytes.Buffer
	if err := (&printer.Config{Mode: printer.RawFormat}).Fprint(&b, token.NewFileSet(), n); err != nil {
		return "?"
	}
	return strings.Join(strings.Fields(b.String()), " ")
}

func isBreakBody(b *ast.BlockStmt) bool {
	if len(b.List) != 1 {
		return false
	}
	br, ok := b.List[0].(*ast.BranchStmt)
	return ok && br.Tok == token.BREAK && br.Label == nil
}

// debugLoop finds `for m, exec := n, n.exec; …; {` in runCfg.
func debugLoop(fd *ast.FuncDecl) *ast.ForStmt {
	var loop *ast.ForStmt
	ast.Inspect(fd.Body, func(n ast.Node) bool {
		if _, ok := n.(*ast.FuncLit); ok {
			return false
		}
		if f, ok := n.(*ast.ForStmt); ok && f.Init != nil && src(f.Init) == "m, exec := n, n.exec" {
			loop = f
			return false
		}
		return true
	})
	return loop
}

func loopFacts(fd *ast.FuncDecl) (order, probes []string) {
	if fd == nil {
		return []string{"unrecognised: runCfg not found"}, []string{"unrecognised"}
	}
	loop := debugLoop(fd)
	if loop == nil {
		return []string{"unrecognised: debugger loop not found"}, []string{"unrecognised"}
	}
	if c := src(loop.Cond); c != "f.runid() == n.interp.runid()" {
		order = append(order, "unrecognised: loop condition "+c)
	}
	for _, st := range loop.Body.List {
		switch x := st.(type) {
		case *ast.IfStmt:
			c := src(x.Cond)
			switch {
			case x.Init == nil && c == "dbg.exec(m, f)" && isBreakBody(x.Body) && x.Else == nil:
				order = append(order, "dbg.exec")
			case x.Init == nil && c == "exec == nil" && isBreakBody(x.Body) && x.Else == nil:
				order = append(order, "nil-break")
			case x.Init == nil && c == "m == nil" && x.Else == nil && src(x.Body) == "{ m = originalExecNode(n, exec) continue }":
				order = append(order, "m-nil")
			default:
				order = append(order, "unrecognised: if "+c+" "+src(x.Body))
			}
		case *ast.ExprStmt:
			if src(x) == "verifStep(n, f)" {
				order = append(order, "step-hook")
			} else {
				order = append(order, "unrecognised: "+src(x))
			}
		case *ast.AssignStmt:
			if src(x) == "exec = exec(f)" {
				order = append(order, "exec")
			} else {
				order = append(order, "unrecognised: "+src(x))
			}
		case *ast.SwitchStmt:
			order = append(order, "switch")
			if x.Init != nil || x.Tag != nil {
				probes = append(probes, "unrecognised: switch header")
			}
			for _, cc := range x.Body.List {
				cl := cc.(*ast.CaseClause)
				body := ""
				for _, s := range cl.Body {
					body += src(s) + ";"
				}
				switch {
				case len(cl.List) == 1 && src(cl.List[0]) == "isExecNode(m.tnext, exec)" && body == "m = m.tnext;":
					probes = append(probes, "tnext")
				case len(cl.List) == 1 && src(cl.List[0]) == "isExecNode(m.fnext, exec)" && body == "m = m.fnext;":
					probes = append(probes, "fnext")
				case cl.List == nil && body == "m = originalExecNode(m, exec);":
					probes = append(probes, "original")
				default:
					probes = append(probes, "unrecognised: case "+body)
				}
			}
		default:
			order = append(order, "unrecognised: "+src(st))
		}
	}
	return order, probes
}

const nilGuard = "if n == nil || n.exec == nil || exec == nil { return false }"

// execCmp recognises the body of isExecNode (and of execID).
func execCmp(file *ast.File) (cmp string, forward bool) {
	fd := common.FindFunc(file, "", "isExecNode")
	if fd == nil || fd.Body == nil {
		return "unrecognised: isExecNode not found", false
	}
	if src(fd.Type) != "func(n *node, exec bltn) bool" {
		return "unrecognised: signature " + src(fd.Type), false
	}
	var sts []string
	for _, st := range fd.Body.List {
		sts = append(sts, src(st))
	}
	if len(sts) == 0 || sts[0] != nilGuard {
		return "unrecognised: no nil guard", false
	}
	rest := strings.Join(sts[1:], "; ")
	const byID = "execID(n.exec) == execID(exec)"
	const fwd = "n.debug != nil && n.debug.forward != nil && execID(n.debug.forward) == execID(exec)"
	switch rest {
	case "a1 := reflect.ValueOf(n.exec).Pointer(); a2 := reflect.ValueOf(exec).Pointer(); return a1 == a2":
		return "code-pointer", false
	case "return " + byID, "return " + byID + " || " + fwd:
		id := common.FindFunc(file, "", "execID")
		if id == nil || src(id.Type) != "func(exec bltn) unsafe.Pointer" || src(id.Body) != "{ return *(*unsafe.Pointer)(unsafe.Pointer(&exec)) }" {
			return "unrecognised: execID", false
		}
		return "closure-identity", rest != "return "+byID
	}
	return "unrecognised: " + rest, false
}

// origCmp recognises the test under which the callback of originalExecNode records a node.
func origCmp(fd *ast.FuncDecl) string {
	if fd == nil || fd.Body == nil {
		return "unrecognised: originalExecNode not found"
	}
	var found []string
	ast.Inspect(fd.Body, func(n ast.Node) bool {
		is, ok := n.(*ast.IfStmt)
		if ok && is.Init == nil && is.Else == nil && src(is.Body) == "{ originalNode = wn return false }" {
			found = append(found, src(is.Cond))
		}
		return true
	})
	if len(found) != 1 {
		return fmt.Sprintf("unrecognised: %d recording tests", len(found))
	}
	switch found[0] {
	case "isExecNode(wn, exec)":
		return "isExecNode"
	case "reflect.ValueOf(wn.exec).Pointer() == execAddr":
		if strings.Contains(src(fd.Body), "execAddr := reflect.ValueOf(exec).Pointer()") {
			return "code-pointer"
		}
	}
	return "unrecognised: " + found[0]
}

// backEdge recognises what setExec does with a successor that is being generated.
func backEdge(file *ast.File) string {
	fd := common.FindFunc(file, "", "setExec")
	if fd == nil || fd.Body == nil {
		return "unrecognised: setExec not found"
	}
	kinds := map[string]bool{}
	count := 0
	ast.Inspect(fd.Body, func(n ast.Node) bool {
		is, ok := n.(*ast.IfStmt)
		if !ok || is.Init != nil {
			return true
		}
		for _, x := range []string{"tnext", "fnext"} {
			if src(is.Cond) != "seen[n."+x+"]" {
				continue
			}
			count++
			switch src(is.Body) {
			case "{ setForwardExec(n." + x + ") }":
				kinds["forward-recorded"] = true
			case "{ m := n." + x + " n." + x + ".exec = func(f *frame) bltn { return m.exec(f) } }":
				kinds["forward-unrecorded"] = true
			default:
				kinds["unrecognised: "+src(is.Body)] = true
			}
			if is.Else == nil || src(is.Else) != "{ set(n."+x+") }" {
				kinds["unrecognised: else "+x] = true
			}
		}
		return true
	})
	if count != 2 || len(kinds) != 1 {
		return fmt.Sprintf("unrecognised: %d back-edge tests, %d kinds", count, len(kinds))
	}
	for k := range kinds {
		if k == "forward-recorded" {
			fw := common.FindFunc(file, "", "setForwardExec")
			want := "{ n.exec = func(f *frame) bltn { return n.exec(f) } if n.debug == nil { n.debug = new(nodeDebugData) } n.debug.forward = n.exec }"
			if fw == nil || src(fw.Type) != "func(n *node)" || src(fw.Body) != want {
				return "unrecognised: setForwardExec"
			}
		}
		return k
	}
	return "unrecognised"
}

func dbgExecFacts(fd *ast.FuncDecl) (cases []string, over, out string, noPos bool) {
	over, out = "unrecognised", "unrecognised"
	if fd == nil || fd.Body == nil {
		return []string{"unrecognised: (*Debugger).exec not found"}, over, out, false
	}
	seenSwitch := false
	for _, st := range fd.Body.List {
		switch x := st.(type) {
		case *ast.IfStmt:
			if !seenSwitch && src(x) == "if n != nil && n.pos == token.NoPos { return false }" {
				noPos = true
			}
		case *ast.SwitchStmt:
			if seenSwitch {
				cases = append(cases, "unrecognised: second switch")
				continue
			}
			seenSwitch = true
			if x.Init != nil || x.Tag != nil {
				cases = append(cases, "unrecognised: switch header")
			}
			for _, cc := range x.Body.List {
				cl := cc.(*ast.CaseClause)
				cond := ""
				if len(cl.List) == 1 {
					cond = src(cl.List[0])
				}
				body := ""
				for _, s := range cl.Body {
					body += src(s) + ";"
				}
				stepBody := func(name string) (string, bool) {
					// if g.fDepth OP g.fStep { return false }
					if len(cl.Body) != 1 {
						return "", false
					}
					is, ok := cl.Body[0].(*ast.IfStmt)
					if !ok || is.Init != nil || is.Else != nil || src(is.Body) != "{ return false }" {
						return "", false
					}
					be, ok := is.Cond.(*ast.BinaryExpr)
					if !ok || src(be.X) != "g.fDepth" || src(be.Y) != "g.fStep" {
						return "", false
					}
					return be.Op.String(), true
				}
				switch cond {
				case "g.mode == DebugTerminate":
					if body == "dbg.cancel();return true;" {
						cases = append(cases, "terminate")
					} else {
						cases = append(cases, "unrecognised: terminate body "+body)
					}
				case "n.shouldBreak()", "n.shouldBreak() && (n.debug.breakOnCall || dbg.entersLine(f.debug.prev, n))":
					if body == "e.reason = DebugBreak;" {
						cases = append(cases, "break")
					} else {
						cases = append(cases, "unrecognised: break body "+body)
					}
				case "g.mode == debugRun":
					if body == "return false;" {
						cases = append(cases, "run")
					} else {
						cases = append(cases, "unrecognised: run body "+body)
					}
				case "g.mode == DebugStepOut":
					if op, ok := stepBody("out"); ok {
						cases, out = append(cases, "out"), op
					} else {
						cases = append(cases, "unrecognised: out body "+body)
					}
				case "g.mode == DebugStepOver":
					if op, ok := stepBody("over"); ok {
						cases, over = append(cases, "over"), op
					} else {
						cases = append(cases, "unrecognised: over body "+body)
					}
				default:
					cases = append(cases, "unrecognised: case "+cond)
				}
			}
		}
	}
	if !seenSwitch {
		cases = append(cases, "unrecognised: no switch")
	}
	return cases, over, out, noPos
}

// breakCond recognises the condition of the break case and the statement that records the previous step.
func breakCond(file *ast.File) (cond string, prevUpdate bool) {
	fd := common.FindFunc(file, "Debugger", "exec")
	if fd == nil || fd.Body == nil {
		return "unrecognised: exec not found", false
	}
	if len(fd.Body.List) > 0 {
		prevUpdate = src(fd.Body.List[0]) == "if m := f.debug.node; m != nil && m.isStep() { f.debug.prev = m }"
	}
	cond = "unrecognised: no break case"
	ast.Inspect(fd.Body, func(n ast.Node) bool {
		cl, ok := n.(*ast.CaseClause)
		if !ok || len(cl.List) != 1 || !strings.HasPrefix(src(cl.List[0]), "n.shouldBreak()") {
			return true
		}
		switch src(cl.List[0]) {
		case "n.shouldBreak()":
			cond = "marked"
		case "n.shouldBreak() && (n.debug.breakOnCall || dbg.entersLine(f.debug.prev, n))":
			el := common.FindFunc(file, "Debugger", "entersLine")
			want := "{ if prev == nil || prev == n { return true } return dbg.interp.fset.Position(prev.pos).Line != dbg.interp.fset.Position(n.pos).Line }"
			if el != nil && src(el.Type) == "func(prev, n *node) bool" && src(el.Body) == want {
				cond = "marked-entering-line"
			} else {
				cond = "unrecognised: entersLine"
			}
		default:
			cond = "unrecognised: " + src(cl.List[0])
		}
		return true
	})
	return cond, prevUpdate
}

// placement recognises the line-breakpoint branch of SetBreakpoints.
func placement(file *ast.File) string {
	fd := common.FindFunc(file, "Debugger", "SetBreakpoints")
	if fd == nil || fd.Body == nil {
		return "unrecognised: SetBreakpoints not found"
	}
	res := "unrecognised: no line branch"
	ast.Inspect(fd.Body, func(n ast.Node) bool {
		is, ok := n.(*ast.IfStmt)
		if !ok || is.Init != nil || !strings.HasPrefix(src(is.Cond), "len(setup.lines) > 0 &&") {
			return true
		}
		body := src(is.Body)
		switch src(is.Cond) {
		case "len(setup.lines) > 0 && n.isStep()":
			want := "{ n.setBreakOnLine(false) if !executes[n] { return true } pos := dbg.interp.fset.Position(n.pos) if i, ok := setup.lines[pos.Line]; ok { if !results[i].Valid { results[i].Valid = true results[i].Position = pos } n.setBreakOnLine(true) } }"
			if body == want && strings.Contains(src(fd.Body), "if len(setup.lines) > 0 { executes = cfgNodes(root) }") {
				res = "reachable-steps"
			} else {
				res = "unrecognised: body of the isStep branch"
			}
		case "len(setup.lines) > 0 && n.pos.IsValid() && n.action != aNop && getExec(n) != nil":
			want := "{ n.setBreakOnLine(false) pos := dbg.interp.fset.Position(n.pos) if i, ok := setup.lines[pos.Line]; ok && !results[i].Valid { results[i].Valid = true results[i].Position = pos n.setBreakOnLine(true) return true } }"
			if body == want {
				res = "first-candidate"
			} else {
				res = "unrecognised: body of the getExec branch"
			}
		default:
			res = "unrecognised: " + src(is.Cond)
		}
		return false
	})
	return res
}

// kindNames reads `var kinds = [...]string{ident: "name", …}` of interp/ast.go: the name (*node).kind prints
// as, which is what the graph dump carries.
func kindNames(file *ast.File) map[string]string {
	out := map[string]string{}
	ast.Inspect(file, func(n ast.Node) bool {
		vs, ok := n.(*ast.ValueSpec)
		if !ok || len(vs.Names) != 1 || vs.Names[0].Name != "kinds" || len(vs.Values) != 1 {
			return true
		}
		if cl, ok := vs.Values[0].(*ast.CompositeLit); ok {
			for _, e := range cl.Elts {
				if kv, ok := e.(*ast.KeyValueExpr); ok {
					if lit, ok := kv.Value.(*ast.BasicLit); ok {
						out[src(kv.Key)] = strings.Trim(lit.Value, "\"")
					}
				}
			}
		}
		return false
	})
	return out
}

// printed maps kind identifiers to their printed names ("unrecognised: …" entries are kept).
func printed(names map[string]string, ids []string) []string {
	var out []string
	for _, id := range ids {
		switch {
		case strings.HasPrefix(id, "unrecognised") || id == "absent":
			out = append(out, id)
		case names[id] == "":
			out = append(out, "unrecognised: kind "+id)
		default:
			out = append(out, names[id])
		}
	}
	return out
}

// debugDataKept recognises (*node).setProgram.
func debugDataKept(file *ast.File) bool {
	fd := common.FindFunc(file, "node", "setProgram")
	return fd != nil && fd.Body != nil && src(fd.Type) == "func(p *Program)" &&
		src(fd.Body) == "{ if n.debug == nil { n.debug = new(nodeDebugData) } n.debug.program = p }"
}

func identList(es []ast.Expr) []string {
	var out []string
	for _, e := range es {
		out = append(out, src(e))
	}
	return out
}

// stepKinds recognises (*node).isStep.
func stepKinds(file *ast.File) []string {
	fd := common.FindFunc(file, "node", "isStep")
	if fd == nil || fd.Body == nil {
		return []string{"absent"}
	}
	b := fd.Body.List
	if len(b) != 3 || src(b[0]) != "if !n.pos.IsValid() { return false }" ||
		src(b[2]) != "return n.action != aNop || n.start == n && len(n.child) == 0" {
		return []string{"unrecognised: " + src(fd.Body)}
	}
	sw, ok := b[1].(*ast.SwitchStmt)
	if !ok || sw.Init != nil || src(sw.Tag) != "n.kind" || len(sw.Body.List) != 1 {
		return []string{"unrecognised: switch"}
	}
	cl := sw.Body.List[0].(*ast.CaseClause)
	if len(cl.Body) != 1 || src(cl.Body[0]) != "return true" {
		return []string{"unrecognised: case body"}
	}
	return identList(cl.List)
}

// cfgKinds recognises cfgNodes.
func cfgKinds(file *ast.File) []string {
	fd := common.FindFunc(file, "", "cfgNodes")
	if fd == nil || fd.Body == nil {
		return []string{"absent"}
	}
	body := src(fd.Body)
	for _, want := range []string{
		"for ; n != nil && !seen[n]; n = n.tnext { seen[n] = true visit(n.fnext)",
		"visit(root.start) return seen }",
	} {
		if !strings.Contains(body, want) {
			return []string{"unrecognised: " + want}
		}
	}
	var out []string
	bad := ""
	ast.Inspect(fd.Body, func(n ast.Node) bool {
		sw, ok := n.(*ast.SwitchStmt)
		if !ok || sw.Tag == nil || src(sw.Tag) != "n.kind" {
			return true
		}
		for _, c := range sw.Body.List {
			cl := c.(*ast.CaseClause)
			kinds := strings.Join(identList(cl.List), ",")
			var sts []string
			for _, st := range cl.Body {
				sts = append(sts, src(st))
			}
			bodyS := strings.Join(sts, "; ")
			switch {
			case kinds == "funcType" && bodyS == "if len(n.anc.child) == 4 { visit(n.anc.child[3].start) }":
			case kinds == "constDecl,varDecl" && bodyS == "visit(n.start); for _, c := range n.child { visit(c.start) }":
			default:
				bad = "unrecognised: case " + kinds + ": " + bodyS
			}
			out = append(out, identList(cl.List)...)
		}
		return false
	})
	if bad != "" {
		return []string{bad}
	}
	return out
}

func depthOps(f *ast.File) []string {
	var out []string
	for _, name := range []string{"enterCall", "exitCall"} {
		fd := common.FindFunc(f, "Debugger", name)
		if fd == nil || fd.Body == nil {
			out = append(out, "unrecognised: "+name)
			continue
		}
		ast.Inspect(fd.Body, func(n ast.Node) bool {
			if id, ok := n.(*ast.IncDecStmt); ok && strings.HasSuffix(src(id.X), ".fDepth") {
				out = append(out, name+":"+src(id.X)+id.Tok.String())
			}
			if as, ok := n.(*ast.AssignStmt); ok {
				for _, l := range as.Lhs {
					if strings.HasSuffix(src(l), ".fDepth") {
						out = append(out, "unrecognised: "+name+": "+src(as))
					}
				}
			}
			return true
		})
	}
	return out
}

func main() {
	common.Main("C19", func(repo string) (string, error) {
		fsetR, run, err := common.ParseFile(repo, "interp/run.go")
		if err != nil {
			return "", err
		}
		fsetD, dbg, err := common.ParseFile(repo, "interp/debugger.go")
		if err != nil {
			return "", err
		}
		fsetI, itp, err := common.ParseFile(repo, "interp/interp.go")
		if err != nil {
			return "", err
		}
		fsetC, cfg, err := common.ParseFile(repo, "interp/cfg.go")
		if err != nil {
			return "", err
		}
		order, probes := loopFacts(common.FindFunc(run, "", "runCfg"))
		cmp, fwd := execCmp(run)
		bc, pu := breakCond(dbg)
		_, astF, err := common.ParseFile(repo, "interp/ast.go")
		if err != nil {
			return "", err
		}
		kn := kindNames(astF)
		cases, over, out, noPos := dbgExecFacts(common.FindFunc(dbg, "Debugger", "exec"))
		b := func(v bool) string {
			if v {
				return "true"
			}
			return "false"
		}
		return fmt.Sprintf(`import YaegiVerif.Model.Debug
namespace YaegiVerif.Generated.C19
open YaegiVerif.Debug
/-- interp/run.go runCfg (debugger loop), isExecNode; interp/debugger.go (*Debugger).exec, enterCall, exitCall -/
def facts : DebugLoopFacts :=
  { loopOrder := %s,
    probeOrder := %s,
    execCmp := %s,
    acceptsForward := %s,
    origCmp := %s,
    backEdge := %s,
    caseOrder := %s,
    overCmp := %s,
    outCmp := %s,
    noPosSkips := %s,
    depthOps := %s,
    breakCond := %s,
    prevUpdate := %s,
    placement := %s,
    stepKinds := %s,
    cfgKinds := %s,
    debugDataKept := %s }
/-- fingerprints of the functions that Model/Debug.lean transcribes -/
def sourceHashes : List (String × String) :=
  %s ++
  %s ++
  %s ++
  %s
end YaegiVerif.Generated.C19
`, common.LeanStrList(order), common.LeanStrList(probes), common.LeanStr(cmp), b(fwd),
			common.LeanStr(origCmp(common.FindFunc(run, "", "originalExecNode"))), common.LeanStr(backEdge(cfg)),
			common.LeanStrList(cases), common.LeanStr(over), common.LeanStr(out), b(noPos), common.LeanStrList(depthOps(dbg)),
			common.LeanStr(bc), b(pu), common.LeanStr(placement(dbg)), common.LeanStrList(printed(kn, stepKinds(dbg))), common.LeanStrList(printed(kn, cfgKinds(dbg))), b(debugDataKept(itp)),
			common.HashTable(fsetR, run, [][2]string{{"", "runCfg"}, {"", "isExecNode"}, {"", "execID"}, {"", "originalExecNode"}}),
			common.HashTable(fsetD, dbg, [][2]string{{"Debugger", "exec"}, {"Debugger", "enterCall"}, {"Debugger", "exitCall"},
				{"Debugger", "SetBreakpoints"}, {"debugRoutine", "setMode"}, {"Debugger", "Continue"}, {"Debugger", "Step"},
				{"Debugger", "Terminate"}, {"Interpreter", "Debug"}, {"Debugger", "entersLine"}, {"", "cfgNodes"}, {"node", "isStep"}}),
			common.HashTable(fsetI, itp, [][2]string{{"node", "shouldBreak"}, {"node", "setBreakOnLine"}, {"node", "setBreakOnCall"}, {"node", "Walk"}, {"node", "setProgram"}}),
			common.HashTable(fsetC, cfg, [][2]string{{"", "setExec"}, {"", "setForwardExec"}, {"", "getExec"}})), nil
	})
}
