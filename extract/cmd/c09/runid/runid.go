// Package runid extracts the RunIdFacts record (lean/YaegiVerif/Model/RunId.lean) from the
// working tree of the repository. It is shared by extract-C09 and extract-C10.
//
// Every fact is a *choice made in the source text*: which id expression each newFrame call site
// passes, the loop conditions of runCfg, the statements of stop, the root-id refresh of Execute,
// the ctx.Done() arm of the three ...WithContext watchers, and, per blocking channel generator,
// whether f.done is one of the reflect.Select cases, whether the done case ends the frame, and
// whether the variant is chosen by n.interp.cancelChan. A shape that is not recognised yields a
// value that cannot equal the hand-written expectation (IdSrc.other / false plus a note).
package runid

import (
	"bytes"
	"fmt"
	"go/ast"
	"go/printer"
	"go/token"
	"strings"

	"verif/extract/common"
)

type blockFact struct{ doneCase, byFlag, doneEnds bool }

type facts struct {
	callID, wrapperID, closureID, entryID         string
	cloneKeepsID, cloneKeepsDone, entryRootShared bool
	guardPlain, guardDebug                        bool
	stopBumps, stopCloses                         bool
	execRefresh, execChecksCancel                 bool
	watcherStops, watcherCtxErr                   bool
	ctxSetsCancelChan                             bool
	blk                                           map[string]blockFact
	execRuns                                      []string // arguments of the interp.run calls of Execute, in order ("loop:" prefix inside `for … range p.init`)
	notes                                         []string
}

func src(n ast.Node) string {
	var b bytes.Buffer
	_ = (&printer.Config{Mode: printer.RawFormat}).Fprint(&b, token.NewFileSet(), n)
	return strings.Join(strings.Fields(b.String()), " ")
}

// newFrameCalls returns every call of newFrame inside a node.
func newFrameCalls(n ast.Node) []*ast.CallExpr {
	var out []*ast.CallExpr
	ast.Inspect(n, func(m ast.Node) bool {
		if c, ok := m.(*ast.CallExpr); ok {
			if id, ok := c.Fun.(*ast.Ident); ok && id.Name == "newFrame" {
				out = append(out, c)
			}
		}
		return true
	})
	return out
}

// classify the id argument of newFrame(anc, len, id).
func idSrc(c *ast.CallExpr) string {
	if len(c.Args) != 3 {
		return "other"
	}
	anc, id := src(c.Args[0]), src(c.Args[2])
	switch {
	case id == anc+".runid()":
		return "parent"
	case id == "interp.runid()" || id == "n.interp.runid()":
		return "interp"
	}
	return "other"
}

func (f *facts) note(format string, a ...interface{}) {
	f.notes = append(f.notes, "unrecognised: "+fmt.Sprintf(format, a...))
}

func (f *facts) oneSite(file *ast.File, recv, name string) string {
	fd := common.FindFunc(file, recv, name)
	if fd == nil {
		f.note("func %s not found", name)
		return "other"
	}
	cs := newFrameCalls(fd)
	if len(cs) != 1 {
		f.note("%s has %d newFrame calls", name, len(cs))
		return "other"
	}
	s := idSrc(cs[0])
	if s == "other" {
		f.note("%s: newFrame id argument %q", name, src(cs[0]))
	}
	return s
}

func contains(n ast.Node, text string) bool {
	found := false
	ast.Inspect(n, func(m ast.Node) bool {
		if m == nil || found {
			return false
		}
		switch m.(type) {
		case ast.Expr, ast.Stmt:
			if src(m) == text {
				found = true
			}
		}
		return !found
	})
	return found
}

// conjuncts splits a && b && c.
func conjuncts(e ast.Expr) []ast.Expr {
	if b, ok := e.(*ast.BinaryExpr); ok && b.Op == token.LAND {
		return append(conjuncts(b.X), conjuncts(b.Y)...)
	}
	if p, ok := e.(*ast.ParenExpr); ok {
		return conjuncts(p.X)
	}
	return []ast.Expr{e}
}

func hasGuard(fs *ast.ForStmt) bool {
	if fs.Cond == nil {
		return false
	}
	for _, c := range conjuncts(fs.Cond) {
		s := src(c)
		if s == "f.runid() == n.interp.runid()" || s == "n.interp.runid() == f.runid()" {
			return true
		}
	}
	return false
}

func (f *facts) blockFact(file *ast.File, name string) blockFact {
	var bf blockFact
	fd := common.FindFunc(file, "", name)
	if fd == nil {
		f.note("func %s not found", name)
		return bf
	}
	// byFlag: an if statement on n.interp.cancelChan at the top level of the generator
	var flagTrue []ast.Node // regions executed when cancelChan is true (nil = whole function)
	for i, st := range fd.Body.List {
		is, ok := st.(*ast.IfStmt)
		if !ok {
			continue
		}
		switch src(is.Cond) {
		case "n.interp.cancelChan":
			bf.byFlag = true
			flagTrue = append(flagTrue, is.Body)
		case "!n.interp.cancelChan":
			bf.byFlag = true
			if is.Else != nil {
				flagTrue = append(flagTrue, is.Else)
			}
			// when the body ends with return, the rest of the function is the flag-true region
			if n := len(is.Body.List); n > 0 {
				if _, ok := is.Body.List[n-1].(*ast.ReturnStmt); ok {
					for _, rest := range fd.Body.List[i+1:] {
						flagTrue = append(flagTrue, rest)
					}
				}
			}
		}
	}
	if !bf.byFlag {
		if contains(fd, "n.interp.cancelChan") {
			f.note("%s: cancelChan used in an unrecognised way", name)
		}
		flagTrue = []ast.Node{fd.Body}
	}
	// every reflect.Select in the flag-true region lists f.done, and its done case returns nil;
	// no bare Recv/Send in that region
	selects, good, ends, bare := 0, 0, 0, 0
	for _, region := range flagTrue {
		ast.Inspect(region, func(m ast.Node) bool {
			fl, ok := m.(*ast.FuncLit)
			if !ok {
				return true
			}
			// one exec closure
			doneVar := ""
			casesDone := "" // index expression under which f.done is stored in a cases slice
			ast.Inspect(fl.Body, func(k ast.Node) bool {
				as, ok := k.(*ast.AssignStmt)
				if !ok || len(as.Lhs) != 1 || len(as.Rhs) != 1 {
					return true
				}
				if src(as.Rhs[0]) == "f.done" {
					if id, ok := as.Lhs[0].(*ast.Ident); ok {
						doneVar = id.Name
					}
					if ix, ok := as.Lhs[0].(*ast.IndexExpr); ok {
						casesDone = src(ix.X) + "|" + src(ix.Index)
					}
				}
				return true
			})
			ast.Inspect(fl.Body, func(k ast.Node) bool {
				if c, ok := k.(*ast.CallExpr); ok {
					if sel, ok := c.Fun.(*ast.SelectorExpr); ok && (sel.Sel.Name == "Recv" || sel.Sel.Name == "Send") && len(c.Args) <= 1 {
						bare++
					}
				}
				as, ok := k.(*ast.AssignStmt)
				if !ok || len(as.Rhs) != 1 {
					return true
				}
				c, ok := as.Rhs[0].(*ast.CallExpr)
				if !ok || src(c.Fun) != "reflect.Select" || len(c.Args) != 1 {
					return true
				}
				selects++
				chosen := src(as.Lhs[0])
				want := "" // the comparison that identifies the done case
				if cl, ok := c.Args[0].(*ast.CompositeLit); ok {
					for i, el := range cl.Elts {
						if id, ok := el.(*ast.Ident); ok && doneVar != "" && id.Name == doneVar {
							want = fmt.Sprintf("%s == %d", chosen, i)
						}
					}
				} else if id, ok := c.Args[0].(*ast.Ident); ok && casesDone != "" && strings.HasPrefix(casesDone, id.Name+"|") {
					want = chosen + " == " + strings.TrimPrefix(casesDone, id.Name+"|")
				}
				if want == "" {
					return true
				}
				good++
				// `if <want> { return nil }` in the same closure
				ast.Inspect(fl.Body, func(q ast.Node) bool {
					is, ok := q.(*ast.IfStmt)
					if ok && src(is.Cond) == want && len(is.Body.List) == 1 && src(is.Body.List[0]) == "return nil" {
						ends++
					}
					return true
				})
				return true
			})
			return false
		})
	}
	// a reflect.Select call that is not an assignment (results ignored) would not be counted above: count all
	all := 0
	for _, region := range flagTrue {
		ast.Inspect(region, func(m ast.Node) bool {
			if c, ok := m.(*ast.CallExpr); ok && src(c.Fun) == "reflect.Select" {
				all++
			}
			return true
		})
	}
	bf.doneCase = all > 0 && all == selects && good == selects && bare == 0
	bf.doneEnds = selects > 0 && ends == selects
	return bf
}

// watcher inspects one ...WithContext function.
func (f *facts) watcher(file *ast.File, name string) (stops, ctxErr, sets bool) {
	fd := common.FindFunc(file, "Interpreter", name)
	if fd == nil {
		f.note("func %s not found", name)
		return
	}
	sets = contains(fd, "interp.cancelChan = !interp.opt.fastChan") && contains(fd, "interp.done = make(chan struct{})")
	ast.Inspect(fd, func(m ast.Node) bool {
		cc, ok := m.(*ast.CommClause)
		if !ok || cc.Comm == nil || src(cc.Comm) != "<-ctx.Done()" {
			return true
		}
		if len(cc.Body) == 2 && src(cc.Body[0]) == "interp.stop()" {
			stops = true
			if r, ok := cc.Body[1].(*ast.ReturnStmt); ok && len(r.Results) == 2 && src(r.Results[1]) == "ctx.Err()" {
				ctxErr = true
			}
		}
		return true
	})
	return
}

func extract(repo string) (*facts, string, error) {
	f := &facts{blk: map[string]blockFact{}}
	fsetR, run, err := common.ParseFile(repo, "interp/run.go")
	if err != nil {
		return nil, "", err
	}
	fsetI, ip, err := common.ParseFile(repo, "interp/interp.go")
	if err != nil {
		return nil, "", err
	}
	fsetP, prog, err := common.ParseFile(repo, "interp/program.go")
	if err != nil {
		return nil, "", err
	}
	f.callID = f.oneSite(run, "", "call")
	f.wrapperID = f.oneSite(run, "", "genFunctionWrapper")
	f.entryID = f.oneSite(run, "Interpreter", "run")
	// getFunc: newFrame(fr, …, fr.runid()) with fr := f.clone()
	f.closureID = f.oneSite(run, "", "getFunc")
	if gf := common.FindFunc(run, "", "getFunc"); gf != nil {
		cs := newFrameCalls(gf)
		if len(cs) == 1 && len(cs[0].Args) == 3 && !contains(gf, src(cs[0].Args[0])+" := f.clone()") {
			f.closureID = "other"
			f.note("getFunc: the ancestor of the closure frame is not f.clone()")
		}
	}
	if cl := common.FindFunc(ip, "frame", "clone"); cl != nil {
		ast.Inspect(cl, func(m ast.Node) bool {
			if kv, ok := m.(*ast.KeyValueExpr); ok && src(kv.Key) == "id" && src(kv.Value) == "f.runid()" {
				f.cloneKeepsID = true
			}
			if kv, ok := m.(*ast.KeyValueExpr); ok && src(kv.Key) == "done" && src(kv.Value) == "f.done" {
				f.cloneKeepsDone = true
			}
			return true
		})
	} else {
		f.note("frame.clone not found")
	}
	if r := common.FindFunc(run, "Interpreter", "run"); r != nil {
		ast.Inspect(r, func(m ast.Node) bool {
			if is, ok := m.(*ast.IfStmt); ok && src(is.Cond) == "cf == nil" && len(is.Body.List) == 1 && src(is.Body.List[0]) == "f = interp.frame" {
				f.entryRootShared = true
			}
			return true
		})
	}
	// runCfg: the loops that run exec(f)
	if rc := common.FindFunc(run, "", "runCfg"); rc != nil {
		var loops []*ast.ForStmt
		ast.Inspect(rc, func(m ast.Node) bool {
			if fs, ok := m.(*ast.ForStmt); ok && contains(fs.Body, "exec = exec(f)") {
				loops = append(loops, fs)
			}
			return true
		})
		if len(loops) == 2 {
			f.guardPlain, f.guardDebug = hasGuard(loops[0]), hasGuard(loops[1])
		} else {
			f.note("runCfg has %d execution loops", len(loops))
		}
	} else {
		f.note("runCfg not found")
	}
	// stop
	if st := common.FindFunc(ip, "Interpreter", "stop"); st != nil {
		for _, s := range st.Body.List {
			switch src(s) {
			case "atomic.AddUint64(&interp.id, 1)":
				f.stopBumps = true
			case "close(interp.done)":
				f.stopCloses = true
			}
		}
	} else {
		f.note("stop not found")
	}
	if rid := common.FindFunc(ip, "Interpreter", "runid"); rid == nil || !contains(rid, "return atomic.LoadUint64(&interp.id)") {
		f.note("Interpreter.runid does not load interp.id")
		f.stopBumps = false
	}
	// Execute: refresh before the first interp.run, nothing that looks at a cancellation afterwards
	if ex := common.FindFunc(prog, "Interpreter", "Execute"); ex != nil {
		seenRun := false
		for _, s := range ex.Body.List {
			t := src(s)
			if es, ok := s.(*ast.ExprStmt); ok {
				if c, ok := es.X.(*ast.CallExpr); ok && src(c.Fun) == "interp.run" && len(c.Args) == 2 {
					f.execRuns = append(f.execRuns, src(c.Args[0])+", "+src(c.Args[1]))
				}
			}
			if rs, ok := s.(*ast.RangeStmt); ok {
				for _, q := range rs.Body.List {
					if es, ok := q.(*ast.ExprStmt); ok {
						if c, ok := es.X.(*ast.CallExpr); ok && src(c.Fun) == "interp.run" && len(c.Args) == 2 {
							f.execRuns = append(f.execRuns, "loop "+src(rs.X)+": "+src(c.Args[0])+", "+src(c.Args[1]))
						}
					}
				}
			}
			if strings.HasPrefix(t, "interp.run(") {
				seenRun = true
			}
			if t == "interp.frame.setrunid(interp.runid())" {
				if !seenRun {
					f.execRefresh = true
				}
				continue
			}
			if seenRun {
				ast.Inspect(s, func(m ast.Node) bool {
					switch x := m.(type) {
					case *ast.SelectorExpr:
						if x.Sel.Name == "runid" || x.Sel.Name == "done" || x.Sel.Name == "id" {
							f.execChecksCancel = true
						}
					case *ast.Ident:
						if x.Name == "ctx" {
							f.execChecksCancel = true
						}
					}
					return true
				})
			}
		}
	} else {
		f.note("Execute not found")
	}
	s1, e1, c1 := f.watcher(ip, "EvalWithContext")
	s2, e2, c2 := f.watcher(ip, "EvalPathWithContext")
	s3, e3, c3 := f.watcher(prog, "ExecuteWithContext")
	f.watcherStops, f.watcherCtxErr, f.ctxSetsCancelChan = s1 && s2 && s3, e1 && e2 && e3, c1 && c2 && c3
	for _, k := range [][2]string{{"recv", "recv"}, {"recv2", "recv2"}, {"send", "send"}, {"range", "rangeChan"}, {"select", "_select"}} {
		f.blk[k[0]] = f.blockFact(run, k[1])
	}
	hashes := "[" + strings.Join([]string{
		strings.Trim(common.HashTable(fsetI, ip, [][2]string{{"", "newFrame"}, {"frame", "runid"}, {"frame", "setrunid"}, {"frame", "clone"},
			{"Interpreter", "stop"}, {"Interpreter", "runid"}, {"Interpreter", "EvalWithContext"}, {"Interpreter", "EvalPathWithContext"}}), "[]"),
		strings.Trim(common.HashTable(fsetP, prog, [][2]string{{"Interpreter", "ExecuteWithContext"}}), "[]"),
		strings.Trim(common.HashTable(fsetR, run, [][2]string{{"Interpreter", "run"}, {"", "rangeChan"}}), "[]"),
	}, ",\n   ") + "]"
	return f, hashes, nil
}

func b(v bool) string {
	if v {
		return "true"
	}
	return "false"
}

// Lean renders Generated/<id>.lean.
func Lean(id, repo string) (string, error) {
	f, hashes, err := extract(repo)
	if err != nil {
		return "", err
	}
	bf := func(k string) string {
		x := f.blk[k]
		return fmt.Sprintf("{ doneCase := %s, byFlag := %s, doneEnds := %s }", b(x.doneCase), b(x.byFlag), b(x.doneEnds))
	}
	return fmt.Sprintf(`import YaegiVerif.Model.RunId
namespace YaegiVerif.Generated.%s
open YaegiVerif.RunId
/-- interp/run.go (call, genFunctionWrapper, getFunc, Interpreter.run, runCfg, recv, recv2, send, rangeChan, _select),
    interp/interp.go (clone, stop, runid, EvalWithContext, EvalPathWithContext), interp/program.go (Execute, ExecuteWithContext) -/
def facts : RunIdFacts :=
  { callId := .%s, wrapperId := .%s, closureId := .%s, cloneKeepsId := %s, cloneKeepsDone := %s,
    entryId := .%s, entryRootShared := %s,
    guardPlain := %s, guardDebug := %s,
    stopBumps := %s, stopCloses := %s,
    execRefresh := %s, execChecksCancel := %s,
    watcherStops := %s, watcherCtxErr := %s, ctxSetsCancelChan := %s,
    recv := %s,
    recv2 := %s,
    send := %s,
    range := %s,
    select := %s }
/-- program.go Execute: the run list (arguments of its interp.run calls, in order) -/
def execRuns : List String := %s
/-- what the extractor could not recognise (must be empty) -/
def notes : List String := %s
/-- fingerprints of the small functions that Model/RunId.lean transcribes -/
def sourceHashes : List (String × String) :=
  %s
end YaegiVerif.Generated.%s
`, id, f.callID, f.wrapperID, f.closureID, b(f.cloneKeepsID), b(f.cloneKeepsDone), f.entryID, b(f.entryRootShared),
		b(f.guardPlain), b(f.guardDebug), b(f.stopBumps), b(f.stopCloses), b(f.execRefresh), b(f.execChecksCancel),
		b(f.watcherStops), b(f.watcherCtxErr), b(f.ctxSetsCancelChan),
		bf("recv"), bf("recv2"), bf("send"), bf("range"), bf("select"),
		common.LeanStrList(f.execRuns), common.LeanStrList(f.notes), hashes, id), nil
}
