// Package runid extracts the RunIdFacts record (lean/YaegiVerif/Model/RunId.lean) from the
// working tree of the repository. It is shared by extract-C09 and extract-C10.
//
// Every fact is a *choice made in the source text*: which id expression each newFrame call site
// passes (for the sites that call newCallFrame: what that function passes, and which done channel
// it gives the frame), the loop conditions of runCfg, the statements of stop (bump, close, renew),
// the root-id refresh of Execute and its deferred second one, the refresh of importSrc, where
// cancelChan is set (New or the ...WithContext entry points), the ctx.Done() arm of the three
// ...WithContext watchers, per blocking channel generator whether f.done is one of the
// reflect.Select cases, whether the done case ends the frame and whether the variant is chosen by
// n.interp.cancelChan, whether recv stores the received value only after the test of the chosen
// case, and whether the wrapper made by getFunc writes the literal's frame slot back. A shape that is not recognised yields a
// value that cannot equal the hand-written expectation (IdSrc.other / false plus a note).
package runid

import (
	"bytes"
	"fmt"
	"go/ast"
	"go/printer"
	"go/token"
	"strings"

	"verif/extract/common"
)

type blockFact struct{ doneCase, byFlag, doneEnds bool }

type facts struct {
	callID, wrapperID, closureID, entryID         string
	wrapperDone, closureDone                      string
	cloneKeepsID, cloneKeepsDone, entryRootShared bool
	guardPlain, guardDebug                        bool
	stopBumps, stopCloses, stopRenews             bool
	execRefresh, execRefreshAtReturn              bool
	execChecksCancel, importRefresh               bool
	watcherStops, watcherCtxErr                   bool
	ctxFreshDone, ctxSetsCancelChan               bool
	newSetsCancelChan                             bool
	recvStoresAfterCheck, closureRestoresSlot     bool
	stopMarksEpochs, epochPlumbing, newMakesDone  bool
	hostWrapperNoEpoch                            bool
	blk                                           map[string]blockFact
	execRuns                                      []string // arguments of the interp.run calls of Execute, in order ("loop:" prefix inside `for … range p.init`)
	notes                                         []string
}

func src(n ast.Node) string {
	var b bytes.Buffer
	_ = (&printer.Config{Mode: printer.RawFormat}).Fprint(&b, token.NewFileSet(), n)
	return strings.Join(strings.Fields(b.String()), " ")
}

// newFrameCalls returns every call of newFrame or newCallFrame inside a node.
func newFrameCalls(n ast.Node) []*ast.CallExpr {
	var out []*ast.CallExpr
	ast.Inspect(n, func(m ast.Node) bool {
		if c, ok := m.(*ast.CallExpr); ok {
			if id, ok := c.Fun.(*ast.Ident); ok && (id.Name == "newFrame" || id.Name == "newCallFrame") {
				out = append(out, c)
			}
		}
		return true
	})
	return out
}

// callFrame describes newCallFrame(anc, length): which id its newFrame call passes (relative to anc) and which
// done channel the frame gets. Both are "other" when the function is missing or has an unrecognised shape.
type callFrame struct{ id, done string }

func (f *facts) callFrameOf(ip *ast.File) callFrame {
	cf := callFrame{"other", "other"}
	fd := common.FindFunc(ip, "", "newCallFrame")
	if fd == nil {
		return cf
	}
	if e, ok := f.epochCallFrame(fd); ok {
		return e
	}
	if fd.Type.Params == nil || len(fd.Type.Params.List) == 0 || len(fd.Type.Params.List[0].Names) == 0 {
		f.note("newCallFrame: parameters")
		return cf
	}
	anc := fd.Type.Params.List[0].Names[0].Name
	rootIsAncRoot := contains(fd, "root := "+anc+".root")
	var calls []*ast.CallExpr
	ast.Inspect(fd, func(m ast.Node) bool {
		if c, ok := m.(*ast.CallExpr); ok {
			if id, ok := c.Fun.(*ast.Ident); ok && id.Name == "newFrame" {
				calls = append(calls, c)
			}
		}
		return true
	})
	if len(calls) != 1 || len(calls[0].Args) != 3 || src(calls[0].Args[0]) != anc {
		f.note("newCallFrame: %d newFrame calls, or the ancestor is not the parameter", len(calls))
		return cf
	}
	// the frame returned is the one newFrame made: `return newFrame(…)`, or a variable that is returned
	direct := false
	ast.Inspect(fd, func(m ast.Node) bool {
		if r, ok := m.(*ast.ReturnStmt); ok && len(r.Results) == 1 && r.Results[0] == ast.Expr(calls[0]) {
			direct = true
		}
		return true
	})
	res := ""
	ast.Inspect(fd, func(m ast.Node) bool {
		if as, ok := m.(*ast.AssignStmt); ok && len(as.Lhs) == 1 && len(as.Rhs) == 1 && as.Rhs[0] == ast.Expr(calls[0]) {
			res = src(as.Lhs[0])
		}
		return true
	})
	switch id := src(calls[0].Args[2]); {
	case id == anc+".runid()":
		cf.id = "parent"
	case id == "root.runid()" && rootIsAncRoot, id == anc+".root.runid()":
		cf.id = "root"
	default:
		f.note("newCallFrame: id argument %q", id)
	}
	// the done channel: assignments to <res>.done
	var dones []string
	ast.Inspect(fd, func(m ast.Node) bool {
		if as, ok := m.(*ast.AssignStmt); ok && len(as.Lhs) == 1 && len(as.Rhs) == 1 && res != "" && src(as.Lhs[0]) == res+".done" {
			dones = append(dones, src(as.Rhs[0]))
		}
		return true
	})
	switch {
	case len(dones) == 0:
		cf.done = "inherit"
	case len(dones) == 1 && ((dones[0] == "root.done" && rootIsAncRoot) || dones[0] == anc+".root.done"):
		cf.done = "root"
	case len(dones) == 1 && dones[0] == anc+".done":
		cf.done = "inherit"
	default:
		f.note("newCallFrame: done channel %v", dones)
	}
	if direct {
		cf.done = "inherit"
	} else if res == "" || !contains(fd, "return "+res) {
		cf = callFrame{"other", "other"}
		f.note("newCallFrame does not return the frame it made")
	}
	return cf
}

// epochCallFrame recognises newCallFrame(interp, anc, length, e) of dc95f3e: under ONE interp.mutex.RLock it reads
// `id, done := interp.runid(), interp.done`, replaces id by deadRunID `if e != nil && e.cancelled`, and returns a frame
// literal with that id, that channel as done case, epoch e, ancestor anc and anc's root. ok = false: not this shape.
func (f *facts) epochCallFrame(fd *ast.FuncDecl) (callFrame, bool) {
	var names []string
	for _, fl := range fd.Type.Params.List {
		for _, n := range fl.Names {
			names = append(names, n.Name)
		}
	}
	if len(names) != 4 {
		return callFrame{}, false
	}
	ip, anc, e := names[0], names[1], names[3]
	cf := callFrame{"other", "other"}
	lock, read, dead, unlock := -1, -1, -1, -1
	for i, st := range fd.Body.List {
		switch t := src(st); {
		case t == ip+".mutex.RLock()":
			lock = i
		case t == "id, done := "+ip+".runid(), "+ip+".done":
			read = i
		case t == ip+".mutex.RUnlock()":
			unlock = i
		}
		if is, ok := st.(*ast.IfStmt); ok && src(is.Cond) == e+" != nil && "+e+".cancelled" && len(is.Body.List) == 1 && src(is.Body.List[0]) == "id = deadRunID" && is.Else == nil {
			dead = i
		}
	}
	if !(lock >= 0 && lock < read && read < dead && dead < unlock) {
		f.note("newCallFrame: id, done and the epoch are not read under one RLock (%d %d %d %d)", lock, read, dead, unlock)
		return cf, true
	}
	// the frame literal
	okLit := false
	ast.Inspect(fd, func(m ast.Node) bool {
		r, ok := m.(*ast.ReturnStmt)
		if !ok || len(r.Results) != 1 {
			return true
		}
		u, ok := r.Results[0].(*ast.UnaryExpr)
		if !ok {
			return true
		}
		cl, ok := u.X.(*ast.CompositeLit)
		if !ok || src(cl.Type) != "frame" {
			return true
		}
		kv := map[string]string{}
		for _, el := range cl.Elts {
			if k, ok := el.(*ast.KeyValueExpr); ok {
				kv[src(k.Key)] = src(k.Value)
			}
		}
		okLit = kv["id"] == "id" && kv["anc"] == anc && kv["root"] == anc+".root" && kv["epoch"] == "unsafe.Pointer("+e+")" &&
			kv["done"] == "reflect.SelectCase{Dir: reflect.SelectRecv, Chan: reflect.ValueOf(done)}"
		return true
	})
	if !okLit {
		f.note("newCallFrame: the frame literal is not {anc, anc.root, id, epoch e, done}")
		return cf, true
	}
	return callFrame{"epoch", "interp"}, true
}

// classify the id argument of newFrame(anc, len, id); a call of newCallFrame(anc, len) is resolved by oneSite.
func idSrc(c *ast.CallExpr) string {
	if len(c.Args) != 3 {
		return "other"
	}
	anc, id := src(c.Args[0]), src(c.Args[2])
	switch {
	case id == anc+".runid()":
		return "parent"
	case id == "interp.runid()" || id == "n.interp.runid()":
		return "interp"
	}
	return "other"
}

func (f *facts) note(format string, a ...interface{}) {
	f.notes = append(f.notes, "unrecognised: "+fmt.Sprintf(format, a...))
}

// oneSite: the id and the done channel of the one frame a function makes, through newFrame (the done channel is
// the ancestor's) or through newCallFrame (as that function says).
func (f *facts) oneSite(file *ast.File, recv, name string, cf callFrame) (id, done string) {
	fd := common.FindFunc(file, recv, name)
	if fd == nil {
		f.note("func %s not found", name)
		return "other", "other"
	}
	cs := newFrameCalls(fd)
	if len(cs) != 1 {
		f.note("%s has %d newFrame/newCallFrame calls", name, len(cs))
		return "other", "other"
	}
	if fn := cs[0].Fun.(*ast.Ident).Name; fn == "newCallFrame" {
		if (len(cs[0].Args) != 2 && len(cs[0].Args) != 4) || cf.id == "other" || cf.done == "other" {
			f.note("%s: %s", name, src(cs[0]))
			return "other", "other"
		}
		return cf.id, cf.done
	}
	s := idSrc(cs[0])
	if s == "other" {
		f.note("%s: newFrame id argument %q", name, src(cs[0]))
	}
	return s, "inherit"
}

func contains(n ast.Node, text string) bool {
	found := false
	ast.Inspect(n, func(m ast.Node) bool {
		if m == nil || found {
			return false
		}
		switch m.(type) {
		case ast.Expr, ast.Stmt:
			if src(m) == text {
				found = true
			}
		}
		return !found
	})
	return found
}

// conjuncts splits a && b && c.
func conjuncts(e ast.Expr) []ast.Expr {
	if b, ok := e.(*ast.BinaryExpr); ok && b.Op == token.LAND {
		return append(conjuncts(b.X), conjuncts(b.Y)...)
	}
	if p, ok := e.(*ast.ParenExpr); ok {
		return conjuncts(p.X)
	}
	return []ast.Expr{e}
}

func hasGuard(fs *ast.ForStmt) bool {
	if fs.Cond == nil {
		return false
	}
	for _, c := range conjuncts(fs.Cond) {
		s := src(c)
		if s == "f.runid() == n.interp.runid()" || s == "n.interp.runid() == f.runid()" {
			return true
		}
	}
	return false
}

func (f *facts) blockFact(file *ast.File, name string) blockFact {
	var bf blockFact
	fd := common.FindFunc(file, "", name)
	if fd == nil {
		f.note("func %s not found", name)
		return bf
	}
	// byFlag: an if statement on n.interp.cancelChan at the top level of the generator
	var flagTrue []ast.Node // regions executed when cancelChan is true (nil = whole function)
	for i, st := range fd.Body.List {
		is, ok := st.(*ast.IfStmt)
		if !ok {
			continue
		}
		switch src(is.Cond) {
		case "n.interp.cancelChan":
			bf.byFlag = true
			flagTrue = append(flagTrue, is.Body)
		case "!n.interp.cancelChan":
			bf.byFlag = true
			if is.Else != nil {
				flagTrue = append(flagTrue, is.Else)
			}
			// when the body ends with return, the rest of the function is the flag-true region
			if n := len(is.Body.List); n > 0 {
				if _, ok := is.Body.List[n-1].(*ast.ReturnStmt); ok {
					for _, rest := range fd.Body.List[i+1:] {
						flagTrue = append(flagTrue, rest)
					}
				}
			}
		}
	}
	if !bf.byFlag {
		if contains(fd, "n.interp.cancelChan") {
			f.note("%s: cancelChan used in an unrecognised way", name)
		}
		flagTrue = []ast.Node{fd.Body}
	}
	// every reflect.Select in the flag-true region lists f.done, and its done case returns nil;
	// no bare Recv/Send in that region
	selects, good, ends, bare := 0, 0, 0, 0
	for _, region := range flagTrue {
		ast.Inspect(region, func(m ast.Node) bool {
			fl, ok := m.(*ast.FuncLit)
			if !ok {
				return true
			}
			// one exec closure
			doneVar := ""
			casesDone := "" // index expression under which f.done is stored in a cases slice
			ast.Inspect(fl.Body, func(k ast.Node) bool {
				as, ok := k.(*ast.AssignStmt)
				if !ok || len(as.Lhs) != 1 || len(as.Rhs) != 1 {
					return true
				}
				if src(as.Rhs[0]) == "f.done" {
					if id, ok := as.Lhs[0].(*ast.Ident); ok {
						doneVar = id.Name
					}
					if ix, ok := as.Lhs[0].(*ast.IndexExpr); ok {
						casesDone = src(ix.X) + "|" + src(ix.Index)
					}
				}
				return true
			})
			ast.Inspect(fl.Body, func(k ast.Node) bool {
				if c, ok := k.(*ast.CallExpr); ok {
					if sel, ok := c.Fun.(*ast.SelectorExpr); ok && (sel.Sel.Name == "Recv" || sel.Sel.Name == "Send") && len(c.Args) <= 1 {
						bare++
					}
				}
				as, ok := k.(*ast.AssignStmt)
				if !ok || len(as.Rhs) != 1 {
					return true
				}
				c, ok := as.Rhs[0].(*ast.CallExpr)
				if !ok || src(c.Fun) != "reflect.Select" || len(c.Args) != 1 {
					return true
				}
				selects++
				chosen := src(as.Lhs[0])
				want := "" // the comparison that identifies the done case
				if cl, ok := c.Args[0].(*ast.CompositeLit); ok {
					for i, el := range cl.Elts {
						if id, ok := el.(*ast.Ident); ok && doneVar != "" && id.Name == doneVar {
							want = fmt.Sprintf("%s == %d", chosen, i)
						}
					}
				} else if id, ok := c.Args[0].(*ast.Ident); ok && casesDone != "" && strings.HasPrefix(casesDone, id.Name+"|") {
					want = chosen + " == " + strings.TrimPrefix(casesDone, id.Name+"|")
				}
				if want == "" {
					return true
				}
				good++
				// `if <want> { return nil }` in the same closure
				ast.Inspect(fl.Body, func(q ast.Node) bool {
					is, ok := q.(*ast.IfStmt)
					if ok && src(is.Cond) == want && len(is.Body.List) == 1 && src(is.Body.List[0]) == "return nil" {
						ends++
					}
					return true
				})
				return true
			})
			return false
		})
	}
	// a reflect.Select call that is not an assignment (results ignored) would not be counted above: count all
	all := 0
	for _, region := range flagTrue {
		ast.Inspect(region, func(m ast.Node) bool {
			if c, ok := m.(*ast.CallExpr); ok && src(c.Fun) == "reflect.Select" {
				all++
			}
			return true
		})
	}
	bf.doneCase = all > 0 && all == selects && good == selects && bare == 0
	bf.doneEnds = selects > 0 && ends == selects
	return bf
}

// watcher inspects one ...WithContext function.
func (f *facts) watcher(file *ast.File, name string) (stops, ctxErr, sets, fresh bool) {
	fd := common.FindFunc(file, "Interpreter", name)
	if fd == nil {
		f.note("func %s not found", name)
		return
	}
	sets = contains(fd, "interp.cancelChan = !interp.opt.fastChan")
	fresh = contains(fd, "interp.done = make(chan struct{})")
	ast.Inspect(fd, func(m ast.Node) bool {
		cc, ok := m.(*ast.CommClause)
		if !ok || cc.Comm == nil || src(cc.Comm) != "<-ctx.Done()" {
			return true
		}
		if len(cc.Body) == 2 && src(cc.Body[0]) == "interp.stop()" {
			stops = true
			if r, ok := cc.Body[1].(*ast.ReturnStmt); ok && len(r.Results) == 2 && src(r.Results[1]) == "ctx.Err()" {
				ctxErr = true
			}
		}
		return true
	})
	return
}

func extract(repo string) (*facts, string, error) {
	f := &facts{blk: map[string]blockFact{}}
	fsetR, run, err := common.ParseFile(repo, "interp/run.go")
	if err != nil {
		return nil, "", err
	}
	fsetI, ip, err := common.ParseFile(repo, "interp/interp.go")
	if err != nil {
		return nil, "", err
	}
	fsetP, prog, err := common.ParseFile(repo, "interp/program.go")
	if err != nil {
		return nil, "", err
	}
	cfr := f.callFrameOf(ip)
	var d string
	if f.callID, d = f.oneSite(run, "", "call", cfr); d != "inherit" {
		f.callID = "other"
		f.note("call: the frame does not inherit the done channel of its ancestor")
	}
	wrapperFn := "genFunctionWrapper"
	if common.FindFunc(run, "", "genFunctionWrapperFor") != nil {
		wrapperFn = "genFunctionWrapperFor"
	}
	f.wrapperID, f.wrapperDone = f.oneSite(run, "", wrapperFn, cfr)
	if f.entryID, d = f.oneSite(run, "Interpreter", "run", cfr); d != "inherit" {
		f.entryID = "other"
		f.note("Interpreter.run: the frame is not made by newFrame")
	}
	// getFunc: newCallFrame(fr, …) / newFrame(fr, …, fr.runid()) with fr := f.clone()
	f.closureID, f.closureDone = f.oneSite(run, "", "getFunc", cfr)
	if gf := common.FindFunc(run, "", "getFunc"); gf != nil {
		cs := newFrameCalls(gf)
		ancArg := 0
		if len(cs) == 1 && len(cs[0].Args) == 4 {
			ancArg = 1
		}
		if len(cs) == 1 && len(cs[0].Args) >= 2 && !contains(gf, src(cs[0].Args[ancArg])+" := f.clone()") {
			f.closureID = "other"
			f.note("getFunc: the ancestor of the closure frame is not f.clone()")
		}
		// the wrapper's epilogue: does it write the literal's slot of the enclosing frame back?
		ast.Inspect(gf, func(m ast.Node) bool {
			c, ok := m.(*ast.CallExpr)
			if !ok || src(c.Fun) != "reflect.MakeFunc" || len(c.Args) != 2 {
				return true
			}
			ast.Inspect(c.Args[1], func(k ast.Node) bool {
				if as, ok := k.(*ast.AssignStmt); ok {
					for _, l := range as.Lhs {
						if strings.HasPrefix(src(l), "getFrame(f, l).data[") {
							f.closureRestoresSlot = true
						}
					}
				}
				return true
			})
			return true
		})
	}
	// newFrame itself: the frame inherits the ancestor's done channel and root
	if nf := common.FindFunc(ip, "", "newFrame"); nf == nil || !contains(nf, "f.done = anc.done") || !contains(nf, "f.root = anc.root") {
		f.note("newFrame does not copy anc.done / anc.root")
	}
	if cl := common.FindFunc(ip, "frame", "clone"); cl != nil {
		ast.Inspect(cl, func(m ast.Node) bool {
			if kv, ok := m.(*ast.KeyValueExpr); ok && src(kv.Key) == "id" && src(kv.Value) == "f.runid()" {
				f.cloneKeepsID = true
			}
			if kv, ok := m.(*ast.KeyValueExpr); ok && src(kv.Key) == "done" && src(kv.Value) == "f.done" {
				f.cloneKeepsDone = true
			}
			return true
		})
	} else {
		f.note("frame.clone not found")
	}
	if r := common.FindFunc(run, "Interpreter", "run"); r != nil {
		ast.Inspect(r, func(m ast.Node) bool {
			if is, ok := m.(*ast.IfStmt); ok && src(is.Cond) == "cf == nil" && len(is.Body.List) == 1 && src(is.Body.List[0]) == "f = interp.frame" {
				f.entryRootShared = true
			}
			return true
		})
	}
	// runCfg: the loops that run exec(f)
	if rc := common.FindFunc(run, "", "runCfg"); rc != nil {
		var loops []*ast.ForStmt
		ast.Inspect(rc, func(m ast.Node) bool {
			if fs, ok := m.(*ast.ForStmt); ok && contains(fs.Body, "exec = exec(f)") {
				loops = append(loops, fs)
			}
			return true
		})
		if len(loops) == 2 {
			f.guardPlain, f.guardDebug = hasGuard(loops[0]), hasGuard(loops[1])
		} else {
			f.note("runCfg has %d execution loops", len(loops))
		}
	} else {
		f.note("runCfg not found")
	}
	// stop
	if st := common.FindFunc(ip, "Interpreter", "stop"); st != nil {
		for _, s := range st.Body.List {
			switch src(s) {
			case "atomic.AddUint64(&interp.id, 1)":
				f.stopBumps = true
			case "close(interp.done)":
				f.stopCloses = true
			case "for e := range interp.running { e.cancelled = true }":
				// every evaluation in progress is marked, before the id moves on (all under the mutex)
				f.stopMarksEpochs = !f.stopBumps
				if f.stopBumps {
					f.note("stop marks the running epochs after the bump")
				}
			case "interp.done = make(chan struct{})":
				// a fresh channel for the evaluations that follow, installed after the close
				f.stopRenews = f.stopCloses
				if !f.stopCloses {
					f.note("stop replaces interp.done before closing it")
				}
			}
		}
	} else {
		f.note("stop not found")
	}
	if rid := common.FindFunc(ip, "Interpreter", "runid"); rid == nil || !contains(rid, "return atomic.LoadUint64(&interp.id)") {
		f.note("Interpreter.runid does not load interp.id")
		f.stopBumps = false
	}
	// begin / end: begin makes a new epoch, registers it as running, refreshes the root id and stores the epoch in the
	// root frame, all under the interpreter's mutex; end only unregisters the epoch
	beginOK := false
	if bg, en := common.FindFunc(ip, "Interpreter", "begin"), common.FindFunc(ip, "Interpreter", "end"); bg != nil && en != nil {
		want := []string{"e := new(epoch)", "interp.mutex.Lock()", "interp.running[e] = struct{}{}", "interp.frame.setrunid(interp.runid())", "interp.frame.setEpoch(e)", "interp.mutex.Unlock()", "return e"}
		got := []string{}
		for _, st := range bg.Body.List {
			got = append(got, src(st))
		}
		wantEnd := []string{"interp.mutex.Lock()", "delete(interp.running, e)", "interp.mutex.Unlock()"}
		gotEnd := []string{}
		for _, st := range en.Body.List {
			gotEnd = append(gotEnd, src(st))
		}
		beginOK = strings.Join(got, ";") == strings.Join(want, ";") && strings.Join(gotEnd, ";") == strings.Join(wantEnd, ";")
		if !beginOK {
			f.note("begin / end have an unrecognised shape")
		}
	}
	// Execute: refresh before the first interp.run, nothing that looks at a cancellation afterwards
	if ex := common.FindFunc(prog, "Interpreter", "Execute"); ex != nil {
		seenRun := false
		for _, s := range ex.Body.List {
			t := src(s)
			if es, ok := s.(*ast.ExprStmt); ok {
				if c, ok := es.X.(*ast.CallExpr); ok && src(c.Fun) == "interp.run" && len(c.Args) == 2 {
					f.execRuns = append(f.execRuns, src(c.Args[0])+", "+src(c.Args[1]))
				}
			}
			if rs, ok := s.(*ast.RangeStmt); ok {
				for _, q := range rs.Body.List {
					if es, ok := q.(*ast.ExprStmt); ok {
						if c, ok := es.X.(*ast.CallExpr); ok && src(c.Fun) == "interp.run" && len(c.Args) == 2 {
							f.execRuns = append(f.execRuns, "loop "+src(rs.X)+": "+src(c.Args[0])+", "+src(c.Args[1]))
						}
					}
				}
			}
			if strings.HasPrefix(t, "interp.run(") {
				seenRun = true
			}
			if t == "interp.frame.setrunid(interp.runid())" {
				if !seenRun {
					f.execRefresh = true
				}
				continue
			}
			if t == "defer func() { interp.frame.setrunid(interp.runid()) }()" {
				f.execRefreshAtReturn = true
				continue
			}
			if t == "defer interp.end(interp.begin())" {
				// begin() runs now (it refreshes the root id, see beginOK), end() when Execute returns (it refreshes nothing)
				if !seenRun && beginOK {
					f.execRefresh = true
				}
				continue
			}
			if seenRun {
				ast.Inspect(s, func(m ast.Node) bool {
					switch x := m.(type) {
					case *ast.SelectorExpr:
						if x.Sel.Name == "runid" || x.Sel.Name == "done" || x.Sel.Name == "id" {
							f.execChecksCancel = true
						}
					case *ast.Ident:
						if x.Name == "ctx" {
							f.execChecksCancel = true
						}
					}
					return true
				})
			}
		}
	} else {
		f.note("Execute not found")
	}
	s1, e1, c1, d1 := f.watcher(ip, "EvalWithContext")
	s2, e2, c2, d2 := f.watcher(ip, "EvalPathWithContext")
	s3, e3, c3, d3 := f.watcher(prog, "ExecuteWithContext")
	f.watcherStops, f.watcherCtxErr, f.ctxSetsCancelChan, f.ctxFreshDone = s1 && s2 && s3, e1 && e2 && e3, c1 && c2 && c3, d1 && d2 && d3
	if (c1 || c2 || c3) && !(c1 && c2 && c3) {
		f.note("only some of the ...WithContext entry points set cancelChan")
	}
	// New: cancelChan is set once, unconditionally, when the interpreter is created
	if nw := common.FindFunc(ip, "", "New"); nw != nil {
		for _, s := range nw.Body.List {
			if src(s) == "i.cancelChan = !i.opt.fastChan" {
				f.newSetsCancelChan = true
			}
		}
	} else {
		f.note("New not found")
	}
	// New: the cancellation channel exists from the creation of the interpreter (2db9fe7)
	if nw := common.FindFunc(ip, "", "New"); nw != nil {
		ast.Inspect(nw, func(m ast.Node) bool {
			if kv, ok := m.(*ast.KeyValueExpr); ok && src(kv.Key) == "done" && src(kv.Value) == "make(chan struct{})" {
				f.newMakesDone = true
			}
			return true
		})
	}
	// epochs reach the function values: newFrame and clone copy the epoch of their frame, the wrapper of
	// genFunctionWrapper reads the epoch of its frame when it is GENERATED (outside the MakeFunc literal), the closure of
	// getFunc passes the epoch of its cloned frame
	{
		ok := beginOK
		if nf := common.FindFunc(ip, "", "newFrame"); nf == nil || !contains(nf, "f.epoch = unsafe.Pointer(anc.getEpoch())") {
			ok = false
		}
		if cl := common.FindFunc(ip, "frame", "clone"); cl == nil || !contains(cl, "unsafe.Pointer(f.getEpoch())") {
			ok = false
		}
		wf := common.FindFunc(run, "", "genFunctionWrapperFor")
		if wf == nil {
			wf = common.FindFunc(run, "", "genFunctionWrapper")
		}
		readOutside, hostNil := false, false
		if wf != nil {
			ast.Inspect(wf, func(m ast.Node) bool {
				if c, ok := m.(*ast.CallExpr); ok && src(c.Fun) == "reflect.MakeFunc" {
					return false // not inside the wrapper itself
				}
				if is, ok := m.(*ast.IfStmt); ok && src(is.Cond) == "!host" && len(is.Body.List) == 1 && src(is.Body.List[0]) == "e = f.getEpoch()" {
					readOutside, hostNil = true, true
				}
				if as, ok := m.(*ast.AssignStmt); ok && (src(as) == "e := f.getEpoch()" || src(as) == "e = f.getEpoch()") {
					readOutside = true
				}
				return true
			})
			if !contains(wf, "newCallFrame(n.interp, f, len(def.types), e)") {
				readOutside = false
			}
		}
		if gf := common.FindFunc(run, "", "getFunc"); gf == nil || !contains(gf, "newCallFrame(n.interp, fr, len(n.types), fr.getEpoch())") {
			ok = false
		}
		f.epochPlumbing = ok && readOutside
		// the functions the host takes from the global frame belong to no epoch
		hw := common.FindFunc(run, "", "genHostFunctionWrapper")
		ex := common.FindFunc(prog, "Interpreter", "Execute")
		f.hostWrapperNoEpoch = hostNil && hw != nil && contains(hw, "return genFunctionWrapperFor(n, true)") && ex != nil && contains(ex, "res = genHostFunctionWrapper(n)(interp.frame)")
		if fsetU, usef, err := common.ParseFile(repo, "interp/use.go"); err == nil {
			_ = fsetU
			if sy := common.FindFunc(usef, "Interpreter", "Symbols"); sy == nil || !contains(sy, "syms[n] = genHostFunctionWrapper(s.node)(interp.frame)") {
				f.hostWrapperNoEpoch = false
			}
		}
	}
	// importSrc: the root id is refreshed before the entry points of the imported package run
	if fsetS, srcf, err := common.ParseFile(repo, "interp/src.go"); err == nil {
		_ = fsetS
		if is := common.FindFunc(srcf, "Interpreter", "importSrc"); is != nil {
			seenRun := false
			for _, s := range is.Body.List {
				if contains(s, "interp.run(n, nil)") || contains(s, "interp.run(n, interp.frame)") {
					seenRun = true
				}
				if (src(s) == "interp.frame.setrunid(interp.runid())" || (src(s) == "defer interp.end(interp.begin())" && beginOK)) && !seenRun {
					f.importRefresh = true
				}
			}
			if !seenRun {
				f.note("importSrc: no interp.run call found")
			}
		} else {
			f.note("importSrc not found")
		}
	} else {
		f.note("interp/src.go: %v", err)
	}
	// recv: in the cancellable variants the value received is stored after the test of the chosen case
	f.recvStoresAfterCheck = recvStoresAfterCheck(run)
	for _, k := range [][2]string{{"recv", "recv"}, {"recv2", "recv2"}, {"send", "send"}, {"range", "rangeChan"}, {"select", "_select"}} {
		f.blk[k[0]] = f.blockFact(run, k[1])
	}
	hashes := "[" + strings.Join([]string{
		strings.Trim(common.HashTable(fsetI, ip, [][2]string{{"", "newFrame"}, {"", "newCallFrame"}, {"frame", "runid"}, {"frame", "setrunid"}, {"frame", "clone"},
			{"Interpreter", "stop"}, {"Interpreter", "begin"}, {"Interpreter", "end"}, {"Interpreter", "runid"}, {"Interpreter", "EvalWithContext"}, {"Interpreter", "EvalPathWithContext"}}), "[]"),
		strings.Trim(common.HashTable(fsetP, prog, [][2]string{{"Interpreter", "ExecuteWithContext"}}), "[]"),
		strings.Trim(common.HashTable(fsetR, run, [][2]string{{"Interpreter", "run"}, {"", "rangeChan"}}), "[]"),
	}, ",\n   ") + "]"
	return f, hashes, nil
}

// recvStoresAfterCheck: every reflect.Select of recv binds its results to plain variables, and the closure that
// contains it stores the received value into the frame only after `if chosen == 0 { return nil }`.
func recvStoresAfterCheck(run *ast.File) bool {
	fd := common.FindFunc(run, "", "recv")
	if fd == nil {
		return false
	}
	n, good := 0, 0
	ast.Inspect(fd, func(m ast.Node) bool {
		fl, ok := m.(*ast.FuncLit)
		if !ok {
			return true
		}
		for i, st := range fl.Body.List {
			as, ok := st.(*ast.AssignStmt)
			if !ok || len(as.Rhs) != 1 {
				continue
			}
			c, ok := as.Rhs[0].(*ast.CallExpr)
			if !ok || src(c.Fun) != "reflect.Select" {
				continue
			}
			n++
			if len(as.Lhs) != 3 {
				continue
			}
			plain := true
			for _, l := range as.Lhs {
				if _, ok := l.(*ast.Ident); !ok {
					plain = false
				}
			}
			if !plain {
				continue
			}
			chosen, v := src(as.Lhs[0]), src(as.Lhs[1])
			checked, stored := false, false
			for _, later := range fl.Body.List[i+1:] {
				if is, ok := later.(*ast.IfStmt); ok && src(is.Cond) == chosen+" == 0" && len(is.Body.List) == 1 && src(is.Body.List[0]) == "return nil" {
					checked = true
				}
				if src(later) == "getFrame(f, l).data[i] = "+v {
					stored = checked
				}
			}
			if checked && stored {
				good++
			}
		}
		return true
	})
	return n > 0 && n == good
}

func b(v bool) string {
	if v {
		return "true"
	}
	return "false"
}

// Lean renders Generated/<id>.lean.
func Lean(id, repo string) (string, error) {
	f, hashes, err := extract(repo)
	if err != nil {
		return "", err
	}
	bf := func(k string) string {
		x := f.blk[k]
		return fmt.Sprintf("{ doneCase := %s, byFlag := %s, doneEnds := %s }", b(x.doneCase), b(x.byFlag), b(x.doneEnds))
	}
	return fmt.Sprintf(`import YaegiVerif.Model.RunId
namespace YaegiVerif.Generated.%s
open YaegiVerif.RunId
/-- interp/run.go (call, genFunctionWrapper, getFunc, Interpreter.run, runCfg, recv, recv2, send, rangeChan, _select),
    interp/interp.go (newFrame, newCallFrame, clone, stop, runid, New, EvalWithContext, EvalPathWithContext),
    interp/program.go (Execute, ExecuteWithContext), interp/src.go (importSrc) -/
def facts : RunIdFacts :=
  { callId := .%s, wrapperId := .%s, wrapperDone := .%s, closureId := .%s, closureDone := .%s,
    cloneKeepsId := %s, cloneKeepsDone := %s,
    entryId := .%s, entryRootShared := %s,
    guardPlain := %s, guardDebug := %s,
    stopBumps := %s, stopCloses := %s, stopRenews := %s,
    execRefresh := %s, execRefreshAtReturn := %s, execChecksCancel := %s, importRefresh := %s,
    watcherStops := %s, watcherCtxErr := %s, ctxFreshDone := %s, ctxSetsCancelChan := %s, newSetsCancelChan := %s,
    recv := %s,
    recv2 := %s,
    send := %s,
    range := %s,
    select := %s,
    recvStoresAfterCheck := %s, closureRestoresSlot := %s,
    stopMarksEpochs := %s, epochPlumbing := %s, newMakesDone := %s, hostWrapperNoEpoch := %s }
/-- program.go Execute: the run list (arguments of its interp.run calls, in order) -/
def execRuns : List String := %s
/-- what the extractor could not recognise (must be empty) -/
def notes : List String := %s
/-- fingerprints of the small functions that Model/RunId.lean transcribes -/
def sourceHashes : List (String × String) :=
  %s
end YaegiVerif.Generated.%s
`, id, f.callID, f.wrapperID, f.wrapperDone, f.closureID, f.closureDone, b(f.cloneKeepsID), b(f.cloneKeepsDone), f.entryID, b(f.entryRootShared),
		b(f.guardPlain), b(f.guardDebug), b(f.stopBumps), b(f.stopCloses), b(f.stopRenews),
		b(f.execRefresh), b(f.execRefreshAtReturn), b(f.execChecksCancel), b(f.importRefresh),
		b(f.watcherStops), b(f.watcherCtxErr), b(f.ctxFreshDone), b(f.ctxSetsCancelChan), b(f.newSetsCancelChan),
		bf("recv"), bf("recv2"), bf("send"), bf("range"), bf("select"), b(f.recvStoresAfterCheck), b(f.closureRestoresSlot),
		b(f.stopMarksEpochs), b(f.epochPlumbing), b(f.newMakesDone), b(f.hostWrapperNoEpoch),
		common.LeanStrList(f.execRuns), common.LeanStrList(f.notes), hashes, id), nil
}
