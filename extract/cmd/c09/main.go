// extract-C09: the RunIdFacts record (which id every newFrame site passes, the runCfg guards, stop,
// the root-id refresh of Execute, the ctx.Done() arm of the watchers, the blocking channel generators)
// and the fingerprints of the small functions Model/RunId.lean transcribes.
package main

import (
	"verif/extract/cmd/c09/runid"
	"verif/extract/common"
)

func main() {
	common.Main("C09", func(repo string) (string, error) { return runid.Lean("C09", repo) })
}
