// extract-C09: the RunIdFacts record (which id and which done channel every frame-making site takes — through
// newFrame or newCallFrame (its reads of id, done and epoch under one lock) —, the runCfg guards, stop (epochs marked,
// bump, close, renew), begin / end and the epoch plumbing, the root-id refresh of Execute and of importSrc (through begin), where cancelChan is set, the ctx.Done() arm of the watchers, the blocking channel generators,
// the store-after-check shape of recv, the epilogue of getFunc's wrapper) and the fingerprints of the small
// functions Model/RunId.lean transcribes.
package main

import (
	"verif/extract/cmd/c09/runid"
	"verif/extract/common"
)

func main() {
	common.Main("C09", func(repo string) (string, error) { return runid.Lean("C09", repo) })
}
