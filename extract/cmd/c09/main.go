// extract-C09: the RunIdFacts record (which id and which done channel every frame-making site takes — through
// newFrame or newCallFrame —, the runCfg guards, stop (bump, close, renew), the two root-id refreshes of Execute and
// the one of importSrc, where cancelChan is set, the ctx.Done() arm of the watchers, the blocking channel generators,
// the store-after-check shape of recv, the epilogue of getFunc's wrapper) and the fingerprints of the small
// functions Model/RunId.lean transcribes.
package main

import (
	"verif/extract/cmd/c09/runid"
	"verif/extract/common"
)

func main() {
	common.Main("C09", func(repo string) (string, error) { return runid.Lean("C09", repo) })
}
