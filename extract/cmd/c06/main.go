// extract-C06: the choices interp/run.go and interp/program.go make about unwinding
// (lean/YaegiVerif/Model/Unwind.lean `UnwindFacts`):
//
//	prepend{Call,CallBin,Builtin}  the shape of the assignment to f.deferred at the three registration sites
//	argsByRef{Call,Bin,Builtin}    what the three sites keep of an argument: `val[i+1] = v(f)` (the frame slot
//	                               itself: by reference) or `val[i+1] = copyDeferArg(v(f))` with copyDeferArg
//	                               ending in `c := reflect.New(v.Type()).Elem(); c.Set(v); return c` (a copy)
//	spread{Call,Bin}               the defer branches of call / callBin replace the callee by deferCallSlice(val[0]) when the
//	                               deferred call is written with an ellipsis (and deferCallSlice calls fn.CallSlice(args))
//	exitSteps / ifSteps            the statements of the function literal deferred by runCfg, in order
//	deferredProtected              the loop over f.deferred calls `runDeferred(f, val)` and runDeferred is
//	                               `defer func() { if r := recover(); r != nil { f.recovered = r } }(); val[0].Call(val[1:])`
//	                               or the same with `callVariadic(val[0], val[1:])`, callVariadic being v.Call(in) except for the
//	                               nil slice handed to a variadic function called without variadic arguments
//	                               (false: the loop body is `val[0].Call(val[1:])`)
//	recoverReadsAnc / recoverClears  _recover: which field is read, and that it is set to nil afterwards
//	panicBoxed                     _panic: `panic(value(f))` (the reflect.Value: true) or `panic(x.Interface())` (false)
//	panicDeferrable                _panic is generated through genBuiltinDeferWrapper (false: it assigns n.exec itself)
//	closureAncIsClone / closureLocksDefiner  getFunc: `fr := f.clone()` + `newFrame(fr, …)` or `newCallFrame(fr, …)` (newCallFrame
//	                               keeping the ancestor it is given); `f.mutex.Lock()` inside the wrapper
//	executeRecovers / executeCarriesValue  Execute: deferred recover() building Panic{Value: r}
//
// Anything that is not recognised is emitted as a value that cannot equal the expectation.
package main

import (
	"bytes"
	"crypto/sha256"
	"fmt"
	"go/ast"
	"go/printer"
	"go/token"
	"strings"

	"verif/extract/common"
)

func str(n ast.Node) string {
	var b bytes.Buffer
	_ = (&printer.Config{Mode: printer.RawFormat}).Fprint(&b, token.NewFileSet(), n)
	return strings.Join(strings.Fields(b.String()), " ")
}

// notes collects what could not be recognised; the tie theorem `extraction_complete` requires it to be empty.
var notes []string

// unrec records an unrecognised construct and returns the value the executable model falls back to.
func unrec(what string) string {
	notes = append(notes, what)
	return "false"
}

// deferredAssignments returns, for one function, the right-hand sides of all `f.deferred = …` statements.
func deferredAssignments(fd *ast.FuncDecl) []string {
	var out []string
	if fd == nil {
		return out
	}
	ast.Inspect(fd, func(n ast.Node) bool {
		as, ok := n.(*ast.AssignStmt)
		if !ok || len(as.Lhs) != 1 || len(as.Rhs) != 1 {
			return true
		}
		if str(as.Lhs[0]) == "f.deferred" {
			out = append(out, str(as.Rhs[0]))
		}
		return true
	})
	return out
}

// prependFact: "true" if the only registration is the prepend form, "false" if it is the append form;
// otherwise a term that does not type-check as Bool and therefore breaks the build of the tie.
func prependFact(fd *ast.FuncDecl, what string) string {
	rhs := deferredAssignments(fd)
	if len(rhs) != 1 {
		return unrec(fmt.Sprintf("%s has %d assignments to f.deferred", what, len(rhs)))
	}
	switch rhs[0] {
	case "append([][]reflect.Value{val}, f.deferred...)":
		return "true"
	case "append(f.deferred, val)":
		return "false"
	}
	return unrec(what + " registers with " + rhs[0])
}

// loopBodies: how each recognised loop over f.deferred calls an entry ("call": val[0].Call(val[1:]) in place,
// "runDeferred": through the helper).
var loopBodies []string

// helperProtects: runDeferred(f *frame, val []reflect.Value) is exactly
// `defer func() { if r := recover(); r != nil { f.recovered = r } }(); val[0].Call(val[1:])`.
func helperProtects(fd *ast.FuncDecl) bool {
	if fd == nil || fd.Body == nil || len(fd.Body.List) != 2 {
		return false
	}
	if ps := fd.Type.Params; ps == nil || len(ps.List) != 2 || len(ps.List[0].Names) != 1 || len(ps.List[1].Names) != 1 ||
		ps.List[0].Names[0].Name != "f" || str(ps.List[0].Type) != "*frame" ||
		ps.List[1].Names[0].Name != "val" || str(ps.List[1].Type) != "[]reflect.Value" {
		return false
	}
	ds, ok := fd.Body.List[0].(*ast.DeferStmt)
	if !ok || len(ds.Call.Args) != 0 {
		return false
	}
	fl, ok := ds.Call.Fun.(*ast.FuncLit)
	if !ok || len(fl.Body.List) != 1 {
		return false
	}
	ifs, ok := fl.Body.List[0].(*ast.IfStmt)
	if !ok || ifs.Else != nil || ifs.Init == nil || str(ifs.Init) != "r := recover()" || str(ifs.Cond) != "r != nil" ||
		len(ifs.Body.List) != 1 || str(ifs.Body.List[0]) != "f.recovered = r" {
		return false
	}
	switch str(fd.Body.List[1]) {
	case "val[0].Call(val[1:])":
		return true
	case "callVariadic(val[0], val[1:])":
		return callVariadicIsCall
	}
	return false
}

// callVariadicIsCall: callVariadic(v, in) is exactly
// `if t := v.Type(); t.IsVariadic() && len(in) == t.NumIn()-1 { return v.CallSlice(append(in, reflect.Zero(t.In(len(in))))) }; return v.Call(in)`
// — v.Call(in), except that a variadic function called without variadic arguments gets a nil slice. Set in main.
var callVariadicIsCall bool

func callVariadicShape(fd *ast.FuncDecl) bool {
	if fd == nil || fd.Body == nil || len(fd.Body.List) != 2 {
		return false
	}
	if ps := fd.Type.Params; ps == nil || len(ps.List) != 2 || len(ps.List[0].Names) != 1 || len(ps.List[1].Names) != 1 ||
		ps.List[0].Names[0].Name != "v" || str(ps.List[0].Type) != "reflect.Value" ||
		ps.List[1].Names[0].Name != "in" || str(ps.List[1].Type) != "[]reflect.Value" {
		return false
	}
	ifs, ok := fd.Body.List[0].(*ast.IfStmt)
	if !ok || ifs.Else != nil || ifs.Init == nil || str(ifs.Init) != "t := v.Type()" ||
		str(ifs.Cond) != "t.IsVariadic() && len(in) == t.NumIn()-1" || len(ifs.Body.List) != 1 ||
		str(ifs.Body.List[0]) != "return v.CallSlice(append(in, reflect.Zero(t.In(len(in)))))" {
		return false
	}
	return str(fd.Body.List[1]) == "return v.Call(in)"
}

// callFrameKeepsAnc: newCallFrame(…, anc *frame, …) builds its frame with `&frame{anc: anc, …}` (since dc95f3e; before:
// `f := newFrame(anc, length, …)`), never assigns anc or f.anc, and returns that frame — the ancestor of the per-call frame
// is the frame it is given (run id, epoch and cancellation channel come from the interpreter). Set in main.
var callFrameKeepsAnc bool

func callFrameShape(fd *ast.FuncDecl) bool {
	if fd == nil || fd.Body == nil || len(fd.Body.List) == 0 || fd.Type.Params == nil {
		return false
	}
	// the position of the parameter `anc *frame` (1 in newCallFrame(interp, anc, length, e), 0 in the older
	// newCallFrame(anc, length)) is what the call sites are read with
	callFrameAncArg = -1
	pos := 0
	for _, fl := range fd.Type.Params.List {
		for _, nm := range fl.Names {
			if nm.Name == "anc" && str(fl.Type) == "*frame" {
				callFrameAncArg = pos
			}
			pos++
		}
	}
	callFrameArgs = pos
	if callFrameAncArg < 0 {
		return false
	}
	made, bad := 0, false
	ast.Inspect(fd, func(m ast.Node) bool {
		switch x := m.(type) {
		case *ast.AssignStmt:
			if len(x.Lhs) == 1 && len(x.Rhs) == 1 {
				lhs := str(x.Lhs[0])
				if c, ok := x.Rhs[0].(*ast.CallExpr); ok && lhs == "f" && str(c.Fun) == "newFrame" && len(c.Args) == 3 &&
					str(c.Args[0]) == "anc" && str(c.Args[1]) == "length" {
					made++
				} else if lhs == "f" || lhs == "f.anc" || lhs == "anc" {
					bad = true
				}
			}
		case *ast.CompositeLit:
			// `&frame{anc: anc, …}`: the frame is built in place
			if str(x.Type) == "frame" {
				ok := false
				for _, e := range x.Elts {
					if kv, isKV := e.(*ast.KeyValueExpr); isKV && str(kv.Key) == "anc" {
						ok = str(kv.Value) == "anc"
					}
				}
				if ok {
					made++
				} else {
					bad = true
				}
			}
		}
		return true
	})
	if made != 1 || bad {
		return false
	}
	last := fd.Body.List[len(fd.Body.List)-1]
	rs, ok := last.(*ast.ReturnStmt)
	if !ok || len(rs.Results) != 1 {
		return false
	}
	r := str(rs.Results[0])
	return r == "f" || strings.HasPrefix(r, "&frame{")
}

// position of `anc` among the parameters of newCallFrame and their number (set by callFrameShape)
var callFrameAncArg, callFrameArgs int

// deferCallSliceShape: deferCallSlice(fn) ends in
// `return reflect.MakeFunc(reflect.FuncOf(in, out, false), func(args []reflect.Value) []reflect.Value { return fn.CallSlice(args) })`.
func deferCallSliceShape(fd *ast.FuncDecl) bool {
	if fd == nil || fd.Body == nil || len(fd.Body.List) == 0 {
		return false
	}
	if ps := fd.Type.Params; ps == nil || len(ps.List) != 1 || len(ps.List[0].Names) != 1 || ps.List[0].Names[0].Name != "fn" {
		return false
	}
	return str(fd.Body.List[len(fd.Body.List)-1]) ==
		"return reflect.MakeFunc(reflect.FuncOf(in, out, false), func(args []reflect.Value) []reflect.Value { return fn.CallSlice(args) })"
}

// spreadFact: "true" when the defer branch `site` replaces the callee by deferCallSlice(val[0]) under the condition
// `cond` (the deferred call is written with an ellipsis) and deferCallSlice has the recognised shape; "false" when
// the branch never mentions deferCallSlice.
func spreadFact(site ast.Node, what, cond string, shape bool) string {
	if site == nil {
		return unrec(what + ": the defer branch was not found")
	}
	found, mentions := "", false
	ast.Inspect(site, func(m ast.Node) bool {
		switch x := m.(type) {
		case *ast.Ident:
			if x.Name == "deferCallSlice" {
				mentions = true
			}
		case *ast.IfStmt:
			if x.Init == nil && x.Else == nil && len(x.Body.List) == 1 && str(x.Body.List[0]) == "val[0] = deferCallSlice(val[0])" {
				found = str(x.Cond)
			}
		}
		return true
	})
	switch {
	case !mentions:
		return "false"
	case found == cond && shape:
		return "true"
	case found == cond:
		return unrec(what + " uses deferCallSlice, whose shape was not recognised")
	}
	return unrec(what + " uses deferCallSlice in an unrecognised way (condition `" + found + "`)")
}

// stepOf classifies one statement of runCfg's deferred function.
func stepOf(s ast.Stmt) string {
	switch t := str(s); {
	case t == "f.mutex.Lock()":
		return ".lock"
	case t == "f.mutex.Unlock()":
		return ".unlock"
	case t == "f.recovered = recover()":
		return ".assignRecovered"
	case t == "panic(f.recovered)":
		return ".repanic"
	}
	switch x := s.(type) {
	case *ast.RangeStmt:
		if str(x.X) == "f.deferred" && x.Value != nil && len(x.Body.List) == 1 {
			switch str(x.Body.List[0]) {
			case str(x.Value) + "[0].Call(" + str(x.Value) + "[1:])":
				loopBodies = append(loopBodies, "call")
				return ".runDeferred"
			case "runDeferred(f, " + str(x.Value) + ")":
				loopBodies = append(loopBodies, "runDeferred")
				return ".runDeferred"
			}
		}
	case *ast.IfStmt:
		if x.Init == nil && x.Else == nil && str(x.Cond) == "f.recovered != nil" {
			return ".ifRecovered"
		}
	}
	return ".unrecognised"
}

// logging statements inside the `if f.recovered != nil` (they only write to stderr)
func isLogStmt(s ast.Stmt) bool {
	t := str(s)
	if strings.HasPrefix(t, "oNode := originalExecNode(") || strings.HasPrefix(t, "errorer, ok := f.recovered.(error)") {
		return true
	}
	if x, ok := s.(*ast.IfStmt); ok {
		c := str(x.Cond)
		if c == "oNode == nil" {
			return true
		}
		if strings.Contains(c, "errAbortHandler") && len(x.Body.List) == 1 && strings.HasPrefix(str(x.Body.List[0]), "fmt.Fprintln(n.interp.stderr,") {
			return true
		}
	}
	return false
}

// blockHash fingerprints one statement / clause (comments and layout removed).
func blockHash(n ast.Node) string {
	if n == nil {
		return "unrecognised: block not found"
	}
	return fmt.Sprintf("%x", sha256.Sum256([]byte(str(n))))[:16]
}

// deferBranchOfCall: the `if n.anc.kind == deferStmt { … }` statement of call().
func deferBranchOfCall(fd *ast.FuncDecl) ast.Node {
	var out ast.Node
	if fd == nil {
		return nil
	}
	ast.Inspect(fd, func(n ast.Node) bool {
		if ifs, ok := n.(*ast.IfStmt); ok && out == nil && str(ifs.Cond) == "n.anc.kind == deferStmt" {
			out = ifs
			return false
		}
		return true
	})
	return out
}

// deferClauseOfCallBin: the `case n.anc.kind == deferStmt:` clause of callBin().
func deferClauseOfCallBin(fd *ast.FuncDecl) ast.Node {
	var out ast.Node
	if fd == nil {
		return nil
	}
	ast.Inspect(fd, func(n ast.Node) bool {
		if cc, ok := n.(*ast.CaseClause); ok && out == nil && len(cc.List) == 1 && str(cc.List[0]) == "n.anc.kind == deferStmt" {
			out = cc
			return false
		}
		return true
	})
	return out
}

// firstDefer: the first defer statement at the top level of a function body.
func firstDefer(fd *ast.FuncDecl) ast.Node {
	if fd == nil {
		return nil
	}
	for _, s := range fd.Body.List {
		if ds, ok := s.(*ast.DeferStmt); ok {
			return ds
		}
	}
	return nil
}

// helperCopies: copyDeferArg exists and ends in `c := reflect.New(v.Type()).Elem(); c.Set(v); return c`
// (the value handed back is a fresh one). "" when there is no such function.
func helperCopies(fd *ast.FuncDecl) string {
	if fd == nil {
		return ""
	}
	if fd.Type.Params == nil || len(fd.Type.Params.List) != 1 || len(fd.Type.Params.List[0].Names) != 1 ||
		fd.Type.Params.List[0].Names[0].Name != "v" {
		return "unrecognised"
	}
	l := fd.Body.List
	if n := len(l); n >= 3 && str(l[n-3]) == "c := reflect.New(v.Type()).Elem()" && str(l[n-2]) == "c.Set(v)" && str(l[n-1]) == "return c" {
		return "copies"
	}
	return "unrecognised"
}

// argsByRefFact: "true" when the defer branch `site` stores the argument value `raw` itself, "false" when it
// stores copyDeferArg(raw) and copyDeferArg makes a copy. Anything else is recorded as unrecognised and
// the executable model falls back to "by reference".
func argsByRefFact(site ast.Node, what, raw, copies string) string {
	bad := func(msg string) string {
		notes = append(notes, msg)
		return "true"
	}
	if site == nil {
		return bad(what + ": the defer branch was not found")
	}
	fact := ""
	ast.Inspect(site, func(m ast.Node) bool {
		as, ok := m.(*ast.AssignStmt)
		if !ok || len(as.Lhs) != 1 || len(as.Rhs) != 1 || str(as.Lhs[0]) != "val[i+1]" {
			return true
		}
		switch rhs := str(as.Rhs[0]); {
		case fact != "":
			fact = bad(what + " stores deferred arguments more than once")
		case rhs == raw:
			fact = "true"
		case rhs == "copyDeferArg("+raw+")" && copies == "copies":
			fact = "false"
		case rhs == "copyDeferArg("+raw+")":
			fact = bad(what + " stores copyDeferArg(…) but copyDeferArg was not recognised as making a copy")
		default:
			fact = bad(what + " stores a deferred argument as " + rhs)
		}
		return true
	})
	if fact == "" {
		return bad(what + ": the store of deferred arguments was not found")
	}
	return fact
}

func stepList(xs []string) string { return "[" + strings.Join(xs, ", ") + "]" }

func main() {
	common.Main("C06", func(repo string) (string, error) {
		fsetRun, run, err := common.ParseFile(repo, "interp/run.go")
		if err != nil {
			return "", err
		}
		fsetProg, prog, err := common.ParseFile(repo, "interp/program.go")
		if err != nil {
			return "", err
		}
		fsetInterp, interpFile, err := common.ParseFile(repo, "interp/interp.go")
		if err != nil {
			return "", err
		}
		hashes := "[" + strings.Join([]string{
			strings.Trim(common.HashTable(fsetRun, run, [][2]string{{"", "_recover"}, {"", "_panic"},
				{"", "genBuiltinDeferWrapper"}, {"", "genFunctionWrapper"}, {"", "copyDeferArg"}, {"", "runDeferred"}, {"", "callVariadic"}, {"", "deferCallSlice"}, {"", "getFunc"}}), "[]"),
			strings.Trim(common.HashTable(fsetProg, prog, [][2]string{{"Interpreter", "Execute"}}), "[]"),
			strings.Trim(common.HashTable(fsetInterp, interpFile, [][2]string{{"", "newFrame"}, {"", "newCallFrame"}, {"frame", "clone"}}), "[]"),
			fmt.Sprintf("(%s, %s)", common.LeanStr("runCfg: deferred function"), common.LeanStr(blockHash(firstDefer(common.FindFunc(run, "", "runCfg"))))),
			fmt.Sprintf("(%s, %s)", common.LeanStr("call: defer branch"), common.LeanStr(blockHash(deferBranchOfCall(common.FindFunc(run, "", "call"))))),
			fmt.Sprintf("(%s, %s)", common.LeanStr("callBin: defer clause"), common.LeanStr(blockHash(deferClauseOfCallBin(common.FindFunc(run, "", "callBin"))))),
		}, ",\n   ") + "]"

		// --- registration sites
		pCall := prependFact(common.FindFunc(run, "", "call"), "call")
		pBin := prependFact(common.FindFunc(run, "", "callBin"), "callBin")
		pBuiltin := prependFact(common.FindFunc(run, "", "genBuiltinDeferWrapper"), "genBuiltinDeferWrapper")

		callFrameKeepsAnc = callFrameShape(common.FindFunc(interpFile, "", "newCallFrame"))

		// --- deferred calls written with an ellipsis
		callVariadicIsCall = callVariadicShape(common.FindFunc(run, "", "callVariadic"))
		sliceShape := deferCallSliceShape(common.FindFunc(run, "", "deferCallSlice"))
		spreadCall := spreadFact(deferBranchOfCall(common.FindFunc(run, "", "call")), "call", "hasVariadicArgs", sliceShape)
		spreadBin := spreadFact(deferClauseOfCallBin(common.FindFunc(run, "", "callBin")), "callBin", "n.action == aCallSlice", sliceShape)

		// --- how the three sites store the arguments in the deferred entry
		copies := helperCopies(common.FindFunc(run, "", "copyDeferArg"))
		refCall := argsByRefFact(deferBranchOfCall(common.FindFunc(run, "", "call")), "call", "v(f)", copies)
		refBin := argsByRefFact(deferClauseOfCallBin(common.FindFunc(run, "", "callBin")), "callBin", "getBinValue(getMapType, v, f)", copies)
		refBuiltin := argsByRefFact(deferBranchOfCall(common.FindFunc(run, "", "genBuiltinDeferWrapper")), "genBuiltinDeferWrapper", "v(f)", copies)

		// --- runCfg: the deferred function literal
		exitSteps, ifSteps := []string{".unrecognised"}, []string{".unrecognised"}
		if fd := common.FindFunc(run, "", "runCfg"); fd != nil {
			for _, s := range fd.Body.List {
				ds, ok := s.(*ast.DeferStmt)
				if !ok {
					continue
				}
				fl, ok := ds.Call.Fun.(*ast.FuncLit)
				if !ok || len(ds.Call.Args) != 0 {
					continue
				}
				exitSteps, ifSteps = nil, nil
				for _, st := range fl.Body.List {
					k := stepOf(st)
					exitSteps = append(exitSteps, k)
					if k == ".ifRecovered" {
						logged := false
						for _, is := range st.(*ast.IfStmt).Body.List {
							if isLogStmt(is) {
								if !logged {
									ifSteps = append(ifSteps, ".log")
									logged = true
								}
								continue
							}
							ifSteps = append(ifSteps, stepOf(is))
						}
					}
				}
				break
			}
		}

		// --- how the loop over f.deferred calls an entry
		protected := ""
		switch {
		case len(loopBodies) == 1 && loopBodies[0] == "call":
			protected = "false"
		case len(loopBodies) == 1 && loopBodies[0] == "runDeferred" && helperProtects(common.FindFunc(run, "", "runDeferred")):
			protected = "true"
		case len(loopBodies) == 1 && loopBodies[0] == "runDeferred":
			protected = unrec("runDeferred is not `defer func() { if r := recover(); r != nil { f.recovered = r } }(); <val[0].Call(val[1:]) or callVariadic(val[0], val[1:]) with callVariadic of the recognised shape>`")
		default:
			protected = unrec(fmt.Sprintf("runCfg: %d recognised loops over f.deferred", len(loopBodies)))
		}

		// --- _recover
		readsAnc, clears := "", "false"
		if fd := common.FindFunc(run, "", "_recover"); fd != nil {
			reads := map[string]bool{}
			ast.Inspect(fd, func(n ast.Node) bool {
				switch x := n.(type) {
				case *ast.AssignStmt:
					if len(x.Lhs) == 1 && len(x.Rhs) == 1 && str(x.Rhs[0]) == "nil" &&
						(str(x.Lhs[0]) == "f.anc.recovered" || str(x.Lhs[0]) == "f.recovered") {
						clears = "true:" + str(x.Lhs[0])
						return false
					}
				case *ast.SelectorExpr:
					if x.Sel.Name == "recovered" {
						reads[str(x)] = true
					}
				}
				return true
			})
			var field string
			switch {
			case len(reads) == 1 && reads["f.anc.recovered"]:
				readsAnc, field = "true", "f.anc.recovered"
			case len(reads) == 1 && reads["f.recovered"]:
				readsAnc, field = "false", "f.recovered"
			}
			switch {
			case clears == "false":
			case clears == "true:"+field:
				clears = "true"
			default:
				clears = unrec("_recover clears " + strings.TrimPrefix(clears, "true:") + " but reads another field")
			}
		}
		if readsAnc == "" {
			readsAnc = unrec("_recover: the field it reads was not recognised")
		}

		// --- _panic: what is raised, and whether the builtin can be deferred
		panicBoxed, panicDeferrable := "", ""
		if fd := common.FindFunc(run, "", "_panic"); fd != nil {
			var raisedArgs []string
			wrapper, ownExec := false, false
			nilPanics, guardedNilPanics := 0, 0
			ast.Inspect(fd, func(n ast.Node) bool {
				switch x := n.(type) {
				case *ast.IfStmt:
					// `panic(nil)` is expected for an invalid operand only (the untyped nil literal)
					if c := str(x.Cond); x.Init == nil && x.Else == nil && len(x.Body.List) == 1 && str(x.Body.List[0]) == "panic(nil)" &&
						(c == "!args[0].IsValid()" || c == "!v.IsValid()") {
						guardedNilPanics++
					}
				case *ast.CallExpr:
					if str(x.Fun) == "panic" && len(x.Args) == 1 && str(x.Args[0]) == "nil" {
						nilPanics++
					}
					if str(x.Fun) == "panic" && len(x.Args) == 1 && str(x.Args[0]) != "nil" {
						raisedArgs = append(raisedArgs, str(x.Args[0]))
					}
					if str(x.Fun) == "genBuiltinDeferWrapper" && len(x.Args) == 4 && str(x.Args[0]) == "n" {
						wrapper = true
					}
				case *ast.AssignStmt:
					if len(x.Lhs) == 1 && str(x.Lhs[0]) == "n.exec" {
						ownExec = true
					}
				}
				return true
			})
			if nilPanics != guardedNilPanics {
				notes = append(notes, "_panic raises nil under a condition other than `the operand is invalid`: a typed nil operand must be raised as the value it is")
			}
			switch {
			case len(raisedArgs) == 1 && (raisedArgs[0] == "value(f)" || raisedArgs[0] == "args[0]" || raisedArgs[0] == "v"):
				panicBoxed = "true"
			case len(raisedArgs) == 1 && (raisedArgs[0] == "args[0].Interface()" || raisedArgs[0] == "v.Interface()"):
				panicBoxed = "false"
			}
			switch {
			case wrapper && !ownExec:
				panicDeferrable = "true"
			case ownExec && !wrapper:
				panicDeferrable = "false"
			}
		}
		if panicBoxed == "" {
			notes = append(notes, "_panic: the value it panics with was not recognised")
			panicBoxed = "true"
		}
		if panicDeferrable == "" {
			panicDeferrable = unrec("_panic: neither generated through genBuiltinDeferWrapper nor by assigning n.exec")
		}

		// --- getFunc: the frame of a function literal evaluated as a value, and the lock taken by its wrapper
		ancClone, locksDefiner := "", ""
		if fd := common.FindFunc(run, "", "getFunc"); fd != nil {
			clones, newFrameArg, locks, makeFuncs := false, "", 0, 0
			ast.Inspect(fd, func(n ast.Node) bool {
				switch x := n.(type) {
				case *ast.AssignStmt:
					if len(x.Lhs) == 1 && len(x.Rhs) == 1 && str(x.Lhs[0]) == "fr" && str(x.Rhs[0]) == "f.clone()" {
						clones = true
					}
				case *ast.CallExpr:
					if str(x.Fun) == "reflect.MakeFunc" && len(x.Args) == 2 {
						if fl, ok := x.Args[1].(*ast.FuncLit); ok {
							makeFuncs++
							ast.Inspect(fl, func(m ast.Node) bool {
								if c, ok := m.(*ast.CallExpr); ok {
									if str(c.Fun) == "newFrame" && len(c.Args) == 3 {
										newFrameArg += str(c.Args[0]) + ";"
									}
									if str(c.Fun) == "newCallFrame" && callFrameKeepsAnc && len(c.Args) == callFrameArgs {
										newFrameArg += str(c.Args[callFrameAncArg]) + ";"
									}
									if str(c.Fun) == "f.mutex.Lock" {
										locks++
									}
								}
								return true
							})
						}
					}
				}
				return true
			})
			switch {
			case makeFuncs == 1 && clones && newFrameArg == "fr;":
				ancClone = "true"
			case makeFuncs == 1 && newFrameArg == "f;":
				ancClone = "false"
			}
			switch {
			case makeFuncs == 1 && locks == 1:
				locksDefiner = "true"
			case makeFuncs == 1 && locks == 0:
				locksDefiner = "false"
			}
		}
		if ancClone == "" {
			ancClone = unrec("getFunc: the ancestor of the literal's frame was not recognised")
		}
		if locksDefiner == "" {
			notes = append(notes, "getFunc: the locking of the defining frame by the wrapper was not recognised")
			locksDefiner = "true"
		}

		// --- Execute
		execRecovers, execCarries := "false", "false"
		if fd := common.FindFunc(prog, "Interpreter", "Execute"); fd != nil {
			for _, s := range fd.Body.List {
				ds, ok := s.(*ast.DeferStmt)
				if !ok {
					continue
				}
				fl, ok := ds.Call.Fun.(*ast.FuncLit)
				if !ok {
					continue
				}
				recVar := ""
				ast.Inspect(fl, func(n ast.Node) bool {
					switch x := n.(type) {
					case *ast.AssignStmt:
						if len(x.Lhs) == 1 && len(x.Rhs) == 1 && str(x.Rhs[0]) == "recover()" {
							recVar = str(x.Lhs[0])
							execRecovers = "true"
						}
						if len(x.Lhs) == 1 && str(x.Lhs[0]) == "err" && len(x.Rhs) == 1 {
							if cl, ok := x.Rhs[0].(*ast.CompositeLit); ok && str(cl.Type) == "Panic" {
								for _, e := range cl.Elts {
									if kv, ok := e.(*ast.KeyValueExpr); ok && str(kv.Key) == "Value" && recVar != "" && str(kv.Value) == recVar {
										execCarries = "true"
									}
								}
							}
						}
					}
					return true
				})
			}
		}

		return fmt.Sprintf(`import YaegiVerif.Model.Unwind
namespace YaegiVerif.Generated.C06
open YaegiVerif.Unwind
/-- constructs the extractor could not recognise (must be empty) -/
def unrecognised : List String := %s
/-- fingerprints of the functions and blocks that Model/Unwind.lean transcribes -/
def sourceHashes : List (String × String) :=
  %s
/-- interp/run.go call, callBin, genBuiltinDeferWrapper, runCfg, runDeferred, _recover, _panic, getFunc; interp/program.go Execute -/
def facts : UnwindFacts :=
  { prependCall := %s,
    prependCallBin := %s,
    prependBuiltin := %s,
    argsByRefCall := %s,
    argsByRefBin := %s,
    argsByRefBuiltin := %s,
    spreadCall := %s,
    spreadBin := %s,
    exitSteps := %s,
    ifSteps := %s,
    deferredProtected := %s,
    recoverReadsAnc := %s,
    recoverClears := %s,
    panicBoxed := %s,
    panicDeferrable := %s,
    closureAncIsClone := %s,
    closureLocksDefiner := %s,
    executeRecovers := %s,
    executeCarriesValue := %s }
end YaegiVerif.Generated.C06
`, common.LeanStrList(notes), hashes, pCall, pBin, pBuiltin, refCall, refBin, refBuiltin, spreadCall, spreadBin, stepList(exitSteps), stepList(ifSteps), protected, readsAnc, clears, panicBoxed,
			panicDeferrable, ancClone, locksDefiner, execRecovers, execCarries), nil
	})
}
