// extract-C08: facts about what the closures generated for the nodes of a program share.
//
// A generator `func xxx(n *node)` of interp/run.go, interp/op.go (and the value generators of
// interp/value.go) runs ONCE per statement; the closure it stores in n.exec (type bltn, or a value
// closure func(*frame) reflect.Value) runs once per EXECUTION, in whatever goroutine executes the
// statement. A variable declared in the generator body and captured by the closure is therefore shared
// by every goroutine executing that statement, and must be read-only at run time.
//
//	(a) closureWrites: for every function of the three files that contains a run-time closure (a function
//	    literal with a parameter of type *frame), the variables declared in the function outside the closure
//	    (parameters included) that the closure writes: assignment, ++/--, op-assignment, range assignment,
//	    element / field / pointer writes rooted at the variable, copy/delete/clear, reflect-style Set* calls
//	    on the variable, taking its address. Objects are resolved with go/types.
//	(b) GoFacts: the source-level choices the frame model is parametrised by — arguments of a go statement
//	    copied (call, binary branch), arguments stored with Set into fresh cells of a new frame (call),
//	    the frame allocated inside the closure, callBin's go branch, getFunc cloning the frame, the lock in
//	    frame.clone and around getFunc's slot store, _select's done case read under the frame lock.
//	(c) fingerprints of the functions Model/Conc.lean and Model/ConcFrames.lean transcribe.
package main

import (
	"bytes"
	"fmt"
	"go/ast"
	"go/build"
	"go/importer"
	"go/printer"
	"go/token"
	"go/types"
	"path/filepath"
	"sort"
	"strings"

	"verif/extract/common"
)

var scanned = []string{"run.go", "op.go", "value.go"}

func exprString(e ast.Node) string {
	var b bytes.Buffer
	_ = (&printer.Config{Mode: printer.RawFormat}).Fprint(&b, token.NewFileSet(), e)
	return strings.Join(strings.Fields(b.String()), " ")
}

type pkgInfo struct {
	fset  *token.FileSet
	files map[string]*ast.File // base name -> file
	info  *types.Info
	frame types.Type // *frame
	terrs []string
}

func load(repo string) (*pkgInfo, error) {
	dir := filepath.Join(repo, "interp")
	ctx := build.Default
	bp, err := ctx.ImportDir(dir, 0)
	if err != nil {
		if _, ok := err.(*build.MultiplePackageError); !ok {
			return nil, err
		}
	}
	p := &pkgInfo{fset: token.NewFileSet(), files: map[string]*ast.File{}}
	var files []*ast.File
	names := append([]string{}, bp.GoFiles...)
	sort.Strings(names)
	for _, name := range names {
		f, err := parserParse(p.fset, filepath.Join(dir, name))
		if err != nil {
			return nil, err
		}
		p.files[name] = f
		files = append(files, f)
	}
	p.info = &types.Info{Defs: map[*ast.Ident]types.Object{}, Uses: map[*ast.Ident]types.Object{}, Types: map[ast.Expr]types.TypeAndValue{}}
	conf := types.Config{
		Importer: importer.ForCompiler(p.fset, "source", nil),
		Error: func(err error) {
			if len(p.terrs) < 5 {
				p.terrs = append(p.terrs, err.Error())
			}
		},
		FakeImportC: true,
	}
	pkg, _ := conf.Check("github.com/traefik/yaegi/interp", p.fset, files, p.info)
	if pkg == nil {
		return nil, fmt.Errorf("package interp could not be type-checked")
	}
	obj := pkg.Scope().Lookup("frame")
	if obj == nil {
		return nil, fmt.Errorf("type frame not found in package interp")
	}
	p.frame = types.NewPointer(obj.Type())
	return p, nil
}

// isRuntimeClosure: a function literal one of whose parameters has type *frame.
func (p *pkgInfo) isRuntimeClosure(fl *ast.FuncLit) bool {
	for _, fld := range fl.Type.Params.List {
		if tv, ok := p.info.Types[fld.Type]; ok && types.Identical(tv.Type, p.frame) {
			return true
		}
	}
	return false
}

// root returns the variable an lvalue expression is rooted at (nil when it is rooted at a call result etc.).
func (p *pkgInfo) root(e ast.Expr) *types.Var {
	for {
		switch x := e.(type) {
		case *ast.ParenExpr:
			e = x.X
		case *ast.IndexExpr:
			e = x.X
		case *ast.SliceExpr:
			e = x.X
		case *ast.StarExpr:
			e = x.X
		case *ast.TypeAssertExpr:
			e = x.X
		case *ast.SelectorExpr:
			if id, ok := x.X.(*ast.Ident); ok {
				if _, isPkg := p.info.Uses[id].(*types.PkgName); isPkg {
					// pkg.Var = … : a package-level variable of another package
					if v, ok := p.info.Uses[x.Sel].(*types.Var); ok {
						return v
					}
					return nil
				}
			}
			e = x.X
		case *ast.Ident:
			if x.Name == "_" {
				return nil
			}
			if v, ok := p.info.Uses[x].(*types.Var); ok {
				return v
			}
			if v, ok := p.info.Defs[x].(*types.Var); ok {
				return v
			}
			return nil
		default:
			return nil
		}
	}
}

var setLike = map[string]bool{"Set": true, "SetInt": true, "SetUint": true, "SetFloat": true, "SetComplex": true, "SetString": true,
	"SetBool": true, "SetBytes": true, "SetLen": true, "SetCap": true, "SetMapIndex": true, "SetPointer": true, "SetZero": true,
	"SetIterKey": true, "SetIterValue": true, "Store": true, "Swap": true, "CompareAndSwap": true, "Add": true}

type write struct {
	v    *types.Var
	kind string
}

// writesIn lists the writes performed by the body of one run-time closure.
func (p *pkgInfo) writesIn(fl *ast.FuncLit) []write {
	var out []write
	add := func(e ast.Expr, kind string) {
		if v := p.root(e); v != nil {
			if _, plain := unparen(e).(*ast.Ident); !plain && (kind == "assign" || kind == "incdec" || kind == "range") {
				kind = "through"
			}
			out = append(out, write{v, kind})
		}
	}
	ast.Inspect(fl.Body, func(nd ast.Node) bool {
		switch x := nd.(type) {
		case *ast.AssignStmt:
			for _, l := range x.Lhs {
				if id, ok := l.(*ast.Ident); ok && x.Tok == token.DEFINE {
					if _, isDef := p.info.Defs[id]; isDef && p.info.Defs[id] != nil {
						continue // a new variable of the closure
					}
				}
				add(l, "assign")
			}
		case *ast.IncDecStmt:
			add(x.X, "incdec")
		case *ast.RangeStmt:
			if x.Tok == token.ASSIGN {
				if x.Key != nil {
					add(x.Key, "range")
				}
				if x.Value != nil {
					add(x.Value, "range")
				}
			}
		case *ast.UnaryExpr:
			if x.Op == token.AND {
				if _, isLit := unparen(x.X).(*ast.CompositeLit); !isLit {
					add(x.X, "addr")
				}
			}
		case *ast.CallExpr:
			switch f := x.Fun.(type) {
			case *ast.Ident:
				if _, isBuiltin := p.info.Uses[f].(*types.Builtin); isBuiltin && len(x.Args) > 0 {
					switch f.Name {
					case "copy", "delete", "clear":
						add(x.Args[0], f.Name)
					}
				}
			case *ast.SelectorExpr:
				if setLike[f.Sel.Name] {
					if _, isPkg := p.info.Uses[rootIdent(f.X)].(*types.PkgName); !isPkg {
						add(f.X, "setcall")
					}
				}
			}
		}
		return true
	})
	return out
}

func unparen(e ast.Expr) ast.Expr {
	for {
		p, ok := e.(*ast.ParenExpr)
		if !ok {
			return e
		}
		e = p.X
	}
}

func rootIdent(e ast.Expr) *ast.Ident {
	for {
		switch x := e.(type) {
		case *ast.Ident:
			return x
		case *ast.SelectorExpr:
			e = x.X
		case *ast.ParenExpr:
			e = x.X
		case *ast.IndexExpr:
			e = x.X
		case *ast.StarExpr:
			e = x.X
		case *ast.CallExpr:
			e = x.Fun
		default:
			return &ast.Ident{Name: "_"}
		}
	}
}

type genResult struct {
	name     string
	closures int
	vars     map[string]map[string]bool // variable -> kinds of write
}

func (p *pkgInfo) scan() (gens []genResult, nClosures int) {
	for _, fname := range scanned {
		f := p.files[fname]
		if f == nil {
			gens = append(gens, genResult{name: "unrecognised: file " + fname + " not part of package interp"})
			continue
		}
		for _, d := range f.Decls {
			fd, ok := d.(*ast.FuncDecl)
			if !ok || fd.Body == nil {
				continue
			}
			g := genResult{name: fd.Name.Name, vars: map[string]map[string]bool{}}
			if fd.Recv != nil {
				g.name = exprString(fd.Recv.List[0].Type) + "." + g.name
			}
			// outermost run-time closures of the function
			var visit func(nd ast.Node) bool
			visit = func(nd ast.Node) bool {
				fl, ok := nd.(*ast.FuncLit)
				if !ok || !p.isRuntimeClosure(fl) {
					return true
				}
				g.closures++
				for _, w := range p.writesIn(fl) {
					pos := w.v.Pos()
					declaredInGenerator := pos >= fd.Pos() && pos < fd.End()
					declaredInClosure := pos >= fl.Pos() && pos < fl.End()
					if w.v.IsField() {
						continue
					}
					shared := declaredInGenerator && !declaredInClosure
					if !declaredInGenerator && w.v.Parent() != nil && w.v.Parent() == w.v.Pkg().Scope() {
						// a package-level variable written at run time is shared by everything
						shared = true
					}
					if !shared {
						continue
					}
					name := w.v.Name()
					if !declaredInGenerator {
						name = "pkg:" + name
					}
					if g.vars[name] == nil {
						g.vars[name] = map[string]bool{}
					}
					g.vars[name][w.kind] = true
				}
				return false // nested closures were covered by writesIn
			}
			ast.Inspect(fd.Body, visit)
			if g.closures > 0 {
				gens = append(gens, g)
				nClosures += g.closures
			}
		}
	}
	sort.Slice(gens, func(i, j int) bool { return gens[i].name < gens[j].name })
	return gens, nClosures
}

func main() {
	common.Main("C08", func(repo string) (string, error) {
		p, err := load(repo)
		if err != nil {
			return "", err
		}
		gens, nClosures := p.scan()
		var b strings.Builder
		b.WriteString("import YaegiVerif.Model.Conc\nimport YaegiVerif.Model.ConcFrames\nnamespace YaegiVerif.Generated.C08\nopen YaegiVerif.Conc\n")
		if len(p.terrs) > 0 {
			fmt.Fprintf(&b, "-- go/types reported (tolerated, objects of package interp are still resolved): %s\n", strings.ReplaceAll(p.terrs[0], "\n", " "))
		}
		b.WriteString("/-- interp/run.go, op.go, value.go: for every function holding a run-time closure (a function literal with a\n    *frame parameter), the variables declared outside the closure that the closure writes; functions with no\n    such write are not listed -/\n")
		b.WriteString("def closureWrites : List (String × List String) :=\n  [")
		first := true
		for _, g := range gens {
			if len(g.vars) == 0 && !strings.HasPrefix(g.name, "unrecognised") {
				continue
			}
			var vs []string
			var notes []string
			for v, ks := range g.vars {
				vs = append(vs, v)
				var kk []string
				for k := range ks {
					kk = append(kk, k)
				}
				sort.Strings(kk)
				notes = append(notes, v+": "+strings.Join(kk, "/"))
			}
			sort.Strings(vs)
			sort.Strings(notes)
			if !first {
				b.WriteString(",\n   ")
			}
			first = false
			fmt.Fprintf(&b, "(%s, %s) /- %s -/", common.LeanStr(g.name), common.LeanStrList(vs), strings.Join(notes, "; "))
		}
		b.WriteString("]\n")
		fmt.Fprintf(&b, "/-- how much was scanned: functions holding at least one run-time closure, outermost run-time closures -/\ndef scannedGenerators : Nat := %d\ndef scannedClosures : Nat := %d\n", len(gens), nClosures)
		// generator names that the model's statement kinds refer to must exist
		have := map[string]bool{}
		for _, g := range gens {
			have[g.name] = true
		}
		var present []string
		for _, k := range []string{"assign", "add", "lower", "nop", "send", "recv2", "genBuiltinDeferWrapper", "_select", "callBin", "_return", "call", "getFunc", "genFunctionWrapperFor", "rangeChan", "recv"} {
			if have[k] {
				present = append(present, k)
			}
		}
		fmt.Fprintf(&b, "/-- of the generators the model's statement kinds name, those that exist with a run-time closure -/\ndef modelledGenerators : List String := %s\n", common.LeanStrList(present))
		b.WriteString(goFacts(p))
		frun, fint := p.files["run.go"], p.files["interp.go"]
		h := func(f *ast.File, recv, name string) string {
			if f == nil {
				return "unrecognised: file missing"
			}
			return common.FuncHash(p.fset, f, recv, name)
		}
		fmt.Fprintf(&b, "/-- fingerprints of the functions the models transcribe -/\ndef sourceHashes : List (String × String) :=\n  [(\"_select\", %s),\n   (\"clauseChanDir\", %s),\n   (\"getFunc\", %s),\n   (\"frame.clone\", %s),\n   (\"newFrame\", %s),\n   (\"copyDeferArg\", %s),\n   (\"newCallFrame\", %s),\n   (\"genValueRecv\", %s)]\n",
			common.LeanStr(h(frun, "", "_select")), common.LeanStr(h(frun, "", "clauseChanDir")), common.LeanStr(h(frun, "", "getFunc")),
			common.LeanStr(h(fint, "frame", "clone")), common.LeanStr(h(fint, "", "newFrame")), common.LeanStr(h(frun, "", "copyDeferArg")), common.LeanStr(h(fint, "", "newCallFrame")), common.LeanStr(h(p.files["value.go"], "", "genValueRecv")))
		b.WriteString("end YaegiVerif.Generated.C08\n")
		return b.String(), nil
	})
}
