package main

import (
	"crypto/sha256"
	"fmt"
	"go/ast"
	"go/parser"
	"go/token"
	"sort"
	"strings"

	"verif/extract/common"
)

func parserParse(fset *token.FileSet, path string) (*ast.File, error) {
	return parser.ParseFile(fset, path, nil, parser.SkipObjectResolution)
}

// execClosure returns the run-time closure assigned to n.exec at the top level of a generator
// (the last one when there are several).
func (p *pkgInfo) execClosures(fd *ast.FuncDecl) []*ast.FuncLit {
	var out []*ast.FuncLit
	ast.Inspect(fd.Body, func(nd ast.Node) bool {
		as, ok := nd.(*ast.AssignStmt)
		if !ok || len(as.Lhs) != 1 || len(as.Rhs) != 1 {
			return true
		}
		if exprString(as.Lhs[0]) != "n.exec" {
			return true
		}
		if fl, ok := as.Rhs[0].(*ast.FuncLit); ok && p.isRuntimeClosure(fl) {
			out = append(out, fl)
			return false
		}
		return true
	})
	return out
}

func within(outer ast.Node, inner ast.Node) bool {
	return inner.Pos() >= outer.Pos() && inner.End() <= outer.End()
}

// lockedBy reports whether statement number k of list is directly enclosed by x.Lock()/x.Unlock()
// (or RLock/RUnlock) statements on the given mutex expression.
func lockedBy(list []ast.Stmt, k int, mutex string, read bool) bool {
	lock, unlock := "Lock", "Unlock"
	if read {
		lock, unlock = "RLock", "RUnlock"
	}
	if k-1 < 0 || k+1 >= len(list) {
		return false
	}
	return exprString(list[k-1]) == mutex+"."+lock+"()" && exprString(list[k+1]) == mutex+"."+unlock+"()"
}

// findStmtList calls fn for every statement list below nd.
func eachStmtList(nd ast.Node, fn func(list []ast.Stmt)) {
	ast.Inspect(nd, func(x ast.Node) bool {
		switch b := x.(type) {
		case *ast.BlockStmt:
			fn(b.List)
		case *ast.CaseClause:
			fn(b.Body)
		case *ast.CommClause:
			fn(b.Body)
		}
		return true
	})
}

var reflectKinds = map[string]bool{"Bool": true, "Int": true, "Int8": true, "Int16": true, "Int32": true, "Int64": true, "Uint": true,
	"Uint8": true, "Uint16": true, "Uint32": true, "Uint64": true, "Uintptr": true, "Float32": true, "Float64": true,
	"Complex64": true, "Complex128": true, "Array": true, "Chan": true, "Func": true, "Interface": true, "Map": true,
	"Ptr": true, "Pointer": true, "Slice": true, "String": true, "Struct": true, "UnsafePointer": true, "Invalid": true}

// loopRule describes the body of a `for i, v := range values` loop that prepares the operands of a go statement:
// its statements (normalised text, nested statements flattened by go/printer) and every reflect.Kind it names —
// a rule that depends on the KIND of the argument shows up in both.
func loopRule(body *ast.BlockStmt) (stmts []string, kinds []string) {
	for _, st := range body.List {
		stmts = append(stmts, exprString(st))
	}
	seen := map[string]bool{}
	ast.Inspect(body, func(nd ast.Node) bool {
		if se, ok := nd.(*ast.SelectorExpr); ok {
			if id, ok := se.X.(*ast.Ident); ok && id.Name == "reflect" && reflectKinds[se.Sel.Name] && !seen[se.Sel.Name] {
				seen[se.Sel.Name] = true
				kinds = append(kinds, "reflect."+se.Sel.Name)
			}
		}
		return true
	})
	sort.Strings(kinds)
	return
}

// cellRule lists what the function made for a literal or a wrapper (the reflect.MakeFunc callback) does to the cells of
// its per-call frame: plain stores into a slot (`d[i] = …`, `fr.data[i] = …` — the slot is REBOUND to the given value) and
// writes through a slot (`d[i].Set(…)`). Every cell is fresh for the call iff every plain store is `reflect.New(t).Elem()`.
func cellRule(cb *ast.FuncLit) (inits, sets []string, fresh bool) {
	seenI, seenS := map[string]bool{}, map[string]bool{}
	fresh = true
	isSlot := func(e ast.Expr) bool {
		ix, ok := e.(*ast.IndexExpr)
		if !ok {
			return false
		}
		t := exprString(ix.X)
		return t == "d" || strings.HasSuffix(t, ".data")
	}
	ast.Inspect(cb.Body, func(nd ast.Node) bool {
		switch x := nd.(type) {
		case *ast.AssignStmt:
			for k, l := range x.Lhs {
				if isSlot(l) && k < len(x.Rhs) {
					t := exprString(l) + " = " + exprString(x.Rhs[k])
					if !seenI[t] {
						seenI[t] = true
						inits = append(inits, t)
					}
					if r := exprString(x.Rhs[k]); r != "reflect.New(t).Elem()" {
						fresh = false
					}
				}
			}
		case *ast.ExprStmt:
			if ce, ok := x.X.(*ast.CallExpr); ok {
				if se, ok := ce.Fun.(*ast.SelectorExpr); ok && strings.HasPrefix(se.Sel.Name, "Set") && isSlot(se.X) {
					t := exprString(x.X)
					if !seenS[t] {
						seenS[t] = true
						sets = append(sets, t)
					}
				}
			}
		}
		return true
	})
	if len(inits) == 0 {
		fresh = false
	}
	sort.Strings(inits)
	sort.Strings(sets)
	return
}

func findCallback(nd ast.Node) *ast.FuncLit {
	var cb *ast.FuncLit
	ast.Inspect(nd, func(x ast.Node) bool {
		if fl, ok := x.(*ast.FuncLit); ok && cb == nil && exprString(fl.Type) == "func(in []reflect.Value) []reflect.Value" {
			cb = fl
			return false
		}
		return true
	})
	return cb
}

func boolLean(b bool) string {
	if b {
		return "true"
	}
	return "false"
}

func goFacts(p *pkgInfo) string {
	frun, fint := p.files["run.go"], p.files["interp.go"]
	un := func(what string) string { return "unrecognised: " + what }

	goBinArgsCopied := false
	goValueArgLoop, goValueArgKinds := []string{un("call: go branch of function values")}, []string{}
	callBinGoArgLoop, callBinGoArgKinds := []string{un("callBin: go branch")}, []string{}
	srcArgLoop, srcArgKinds := []string{un("call: copy of input parameters")}, []string{}
	srcArgsCopied := false
	frameInClosure := false
	var callArgStores, frameCellInits, goStmts, newFrameCalls []string
	callBinGoArg := un("callBin go branch")
	callBinGoStmt := un("callBin go statement")
	callBinGoArgsCopied := false
	getFuncClones, getFuncAncIsClone, getFuncStoreLocked, getFuncNoDefFrameWrite := false, false, false, false
	cloneLocked, cloneCopiesData := false, false
	callFrameLocked := false
	wrapperCellInits, wrapperCellSets, wrapperCellsFresh := []string{un("genFunctionWrapperFor: callback")}, []string{}, false
	getFuncCellInits, getFuncCellSets, getFuncCellsFresh := []string{un("getFunc: callback")}, []string{}, false
	selectDoneLocked := false
	casesPerStatement := false
	selectCopiesCases := false
	wrapperFramePerCall := false
	wrapperRecvBound := false
	wrapperLateRecv := un("genFunctionWrapper: late")

	if frun != nil {
		// ---- call
		if fd := common.FindFunc(frun, "", "call"); fd != nil {
			cls := p.execClosures(fd)
			if len(cls) > 0 {
				cl := cls[len(cls)-1] // the non-deferred one
				ast.Inspect(cl.Body, func(nd ast.Node) bool {
					switch x := nd.(type) {
					case *ast.GoStmt:
						goStmts = append(goStmts, "call: "+exprString(x))
					case *ast.IfStmt:
						if exprString(x.Cond) == "goroutine" {
							// the branch that starts a goroutine on a binary function value
							hasGoCallf := false
							for _, s := range x.Body.List {
								if g, ok := s.(*ast.GoStmt); ok && strings.HasPrefix(exprString(g.Call), "callf(") {
									hasGoCallf = true
								}
							}
							if hasGoCallf {
								fresh, set := false, false
								ast.Inspect(x.Body, func(y ast.Node) bool {
									switch s := y.(type) {
									case *ast.AssignStmt:
										if len(s.Lhs) == 1 && exprString(s.Lhs[0]) == "in[i]" && exprString(s.Rhs[0]) == "reflect.New(value.Type()).Elem()" {
											fresh = true
										}
									case *ast.ExprStmt:
										if exprString(s.X) == "in[i].Set(value)" {
											set = true
										}
									}
									return true
								})
								goBinArgsCopied = fresh && set
								// the exact rule, for every kind of argument
								for _, st := range x.Body.List {
									if rs, ok := st.(*ast.RangeStmt); ok && exprString(rs.X) == "values" {
										goValueArgLoop, goValueArgKinds = loopRule(rs.Body)
									}
								}
								want := []string{"value := v(f)", "in[i] = reflect.New(value.Type()).Elem()", "in[i].Set(value)"}
								if strings.Join(goValueArgLoop, ";") != strings.Join(want, ";") || len(goValueArgKinds) != 0 {
									goBinArgsCopied = false
								}
							}
						}
					case *ast.RangeStmt:
						if exprString(x.X) == "values" {
							isDest := false
							ast.Inspect(x.Body, func(y ast.Node) bool {
								if es, ok := y.(*ast.ExprStmt); ok && exprString(es.X) == "dest[i].Set(val)" {
									isDest = true
								}
								return true
							})
							if isDest {
								srcArgLoop, srcArgKinds = loopRule(x.Body)
								srcArgLoop = []string{fmt.Sprintf("%x", sha256.Sum256([]byte(strings.Join(srcArgLoop, ";"))))[:16]}
							}
						}
					case *ast.AssignStmt:
						if len(x.Lhs) == 1 && len(x.Rhs) == 1 {
							l, r := exprString(x.Lhs[0]), exprString(x.Rhs[0])
							if l == "dest[i]" {
								callArgStores = append(callArgStores, l+" = "+r)
							}
							if strings.HasPrefix(l, "nf.data[") {
								frameCellInits = append(frameCellInits, l+" = "+r)
							}
							if strings.HasPrefix(r, "newFrame(") && x.Tok == token.DEFINE {
								newFrameCalls = append(newFrameCalls, "call: "+l+" := "+r)
								if l == "nf" {
									frameInClosure = true
								}
							}
						}
					case *ast.ExprStmt:
						if s := exprString(x.X); strings.HasPrefix(s, "dest[i].") || strings.HasPrefix(s, "vararg.Set(") {
							callArgStores = append(callArgStores, s)
						}
					}
					return true
				})
				sort.Strings(callArgStores)
				sort.Strings(frameCellInits)
				okStores := len(callArgStores) > 0
				hasSet := false
				for _, s := range callArgStores {
					switch {
					case s == "dest[i].Set(val)":
						hasSet = true
					case strings.HasPrefix(s, "vararg.Set("), s == "dest[i] = genFunctionWrapper(nod)(f)":
					default:
						okStores = false
					}
				}
				okCells := false
				for _, s := range frameCellInits {
					if s == "nf.data[numRet+i] = reflect.New(t).Elem()" {
						okCells = true
					}
				}
				srcArgsCopied = okStores && hasSet && okCells
			}
		}
		// ---- callBin
		if fd := common.FindFunc(frun, "", "callBin"); fd != nil {
			ast.Inspect(fd.Body, func(nd ast.Node) bool {
				cc, ok := nd.(*ast.CaseClause)
				if !ok || len(cc.List) != 1 || exprString(cc.List[0]) != "n.anc.kind == goStmt" {
					return true
				}
				fresh, set := false, false
				defer func() { callBinGoArgsCopied = fresh && set }()
				ast.Inspect(cc, func(y ast.Node) bool {
					switch s := y.(type) {
					case *ast.ExprStmt:
						if strings.HasPrefix(exprString(s.X), "in[i].Set(") {
							set = true
						}
					case *ast.AssignStmt:
						if len(s.Lhs) == 1 && exprString(s.Lhs[0]) == "in[i]" {
							callBinGoArg = exprString(s.Rhs[0])
							if strings.HasPrefix(callBinGoArg, "reflect.New(") {
								fresh = true
							}
							if strings.HasPrefix(callBinGoArg, "copyDeferArg(") {
								// copyDeferArg (fingerprinted) is reflect.New(v.Type()).Elem() + Set(v)
								fresh, set = true, true
							}
						}
					case *ast.GoStmt:
						callBinGoStmt = exprString(s)
					case *ast.RangeStmt:
						if exprString(s.X) == "values" {
							callBinGoArgLoop, callBinGoArgKinds = loopRule(s.Body)
						}
					}
					return true
				})
				return false
			})
		}
		// ---- getFunc
		if fd := common.FindFunc(frun, "", "getFunc"); fd != nil {
			cls := p.execClosures(fd)
			if len(cls) == 1 {
				cl := cls[0]
				if len(cl.Body.List) > 0 && exprString(cl.Body.List[0]) == "fr := f.clone()" {
					getFuncClones = true
				}
				ast.Inspect(cl.Body, func(nd ast.Node) bool {
					if as, ok := nd.(*ast.AssignStmt); ok && len(as.Rhs) == 1 && as.Tok == token.DEFINE {
						// newCallFrame(anc, n) = newFrame(anc, n, <run id of the root frame>) (fingerprinted)
						if r := exprString(as.Rhs[0]); strings.HasPrefix(r, "newFrame(") || strings.HasPrefix(r, "newCallFrame(") {
							newFrameCalls = append(newFrameCalls, "getFunc: "+exprString(as.Lhs[0])+" := "+r)
							if strings.HasPrefix(r, "newFrame(fr,") || strings.HasPrefix(r, "newCallFrame(fr,") || strings.HasPrefix(r, "newCallFrame(n.interp, fr,") {
								getFuncAncIsClone = true
							}
						}
					}
					return true
				})
				if cb := findCallback(cl.Body); cb != nil {
					getFuncCellInits, getFuncCellSets, getFuncCellsFresh = cellRule(cb)
				}
				// the function made for the literal (the reflect.MakeFunc callback) does not touch the DEFINING frame f:
				// no statement of it mentions f (in particular no `getFrame(f, l).data[i] = …` after the call)
				getFuncNoDefFrameWrite = false
				ast.Inspect(cl.Body, func(nd ast.Node) bool {
					fl, ok := nd.(*ast.FuncLit)
					if !ok || exprString(fl.Type) != "func(in []reflect.Value) []reflect.Value" {
						return true
					}
					getFuncNoDefFrameWrite = true
					ast.Inspect(fl.Body, func(y ast.Node) bool {
						if id, ok := y.(*ast.Ident); ok && id.Name == "f" {
							getFuncNoDefFrameWrite = false
						}
						return true
					})
					return false
				})
				eachStmtList(cl.Body, func(list []ast.Stmt) {
					for k, s := range list {
						switch exprString(s) {
						case "getFrame(f, l).data[i] = fct":
							getFuncStoreLocked = lockedBy(list, k, "f.mutex", false)
						}
					}
				})
			}
		}
		// ---- genFunctionWrapper: one frame per call of the wrapper
		fdw := common.FindFunc(frun, "", "genFunctionWrapperFor") // since dc95f3e genFunctionWrapper(n) = genFunctionWrapperFor(n, false)
		if fdw == nil {
			fdw = common.FindFunc(frun, "", "genFunctionWrapper")
		}
		if fd := fdw; fd != nil {
			if cb := findCallback(fd.Body); cb != nil {
				wrapperCellInits, wrapperCellSets, wrapperCellsFresh = cellRule(cb)
			}
			// the receiver read from the FRAME (`rcvr(f)`) is resolved by bindRecv, a closure made outside the
			// reflect.MakeFunc callback, which copies a value receiver; it is called when the wrapper is made
			// (`if rcvr != nil && !late { recv = bindRecv() }`); inside the callback it is called only in the
			// `case late:` arm, and late means that the receiver has no node (the constant value held by a host
			// interface, not a frame slot)
			early, lateCalls, copied, boundEarly, lateOnlyInLateArm := 0, 0, false, false, true
			var walk func(nd ast.Node, inCallback bool, underLate bool)
			walk = func(nd ast.Node, inCallback bool, underLate bool) {
				ast.Inspect(nd, func(x ast.Node) bool {
					switch y := x.(type) {
					case *ast.FuncLit:
						if y != nd {
							walk(y.Body, inCallback || exprString(y.Type) == "func(in []reflect.Value) []reflect.Value", underLate)
							return false
						}
					case *ast.CaseClause:
						if inCallback && len(y.List) == 1 && exprString(y.List[0]) == "late" {
							for _, st := range y.Body {
								walk(st, inCallback, true)
							}
							return false
						}
					case *ast.IfStmt:
						if !inCallback && exprString(y.Cond) == "rcvr != nil && !late" {
							for _, st := range y.Body.List {
								if exprString(st) == "recv = bindRecv()" {
									boundEarly = true
								}
							}
						}
					case *ast.AssignStmt:
						if len(y.Lhs) == 1 && exprString(y.Lhs[0]) == "late" && len(y.Rhs) == 1 && y.Tok == token.ASSIGN {
							wrapperLateRecv = exprString(y.Rhs[0])
						}
					case *ast.CallExpr:
						switch exprString(y) {
						case "rcvr(f)":
							if inCallback {
								lateCalls++
							} else {
								early++
							}
						case "bindRecv()":
							if inCallback && !underLate {
								lateOnlyInLateArm = false
							}
						case "copyDeferArg(src)":
							if !inCallback {
								copied = true
							}
						}
					}
					return true
				})
			}
			walk(fd.Body, false, false)
			wrapperRecvBound = early > 0 && lateCalls == 0 && copied && boundEarly && lateOnlyInLateArm
			ast.Inspect(fd.Body, func(nd ast.Node) bool {
				fl, ok := nd.(*ast.FuncLit)
				if !ok || p.isRuntimeClosure(fl) {
					return true
				}
				// the reflect.MakeFunc callback: func(in []reflect.Value) []reflect.Value
				if exprString(fl.Type) != "func(in []reflect.Value) []reflect.Value" {
					return true
				}
				for _, s := range fl.Body.List {
					if as, ok := s.(*ast.AssignStmt); ok && as.Tok == token.DEFINE && len(as.Rhs) == 1 &&
						(strings.HasPrefix(exprString(as.Rhs[0]), "newFrame(f,") || strings.HasPrefix(exprString(as.Rhs[0]), "newCallFrame(f,") ||
							strings.HasPrefix(exprString(as.Rhs[0]), "newCallFrame(n.interp, f,")) {
						wrapperFramePerCall = true
						newFrameCalls = append(newFrameCalls, "genFunctionWrapper: "+exprString(as.Lhs[0])+" := "+exprString(as.Rhs[0]))
					}
				}
				return false
			})
		}
		// ---- _select
		if fd := common.FindFunc(frun, "", "_select"); fd != nil {
			for _, s := range fd.Body.List {
				if exprString(s) == "cases := make([]reflect.SelectCase, nbClause+1)" {
					casesPerStatement = true
				}
			}
			for _, cl := range p.execClosures(fd) {
				// the repair of F08: the closure works on its own copy of the per-statement case vector
				if l := cl.Body.List; len(l) >= 2 && exprString(l[0]) == "cs := make([]reflect.SelectCase, len(cases))" && exprString(l[1]) == "copy(cs, cases)" {
					selectCopiesCases = true
				}
				eachStmtList(cl.Body, func(list []ast.Stmt) {
					for k, s := range list {
						if t := exprString(s); t == "cases[nbClause] = f.done" || t == "cs[nbClause] = f.done" {
							selectDoneLocked = lockedBy(list, k, "f.mutex", true)
						}
					}
				})
			}
		}
	}
	if fint != nil {
		// newCallFrame reads the run id and the cancellation channel of the interpreter together, under its lock
		if fd := common.FindFunc(fint, "", "newCallFrame"); fd != nil {
			lock, read, unlock := -1, -1, -1
			for k, st := range fd.Body.List {
				switch t := exprString(st); {
				case t == "interp.mutex.RLock()":
					lock = k
				case strings.HasPrefix(t, "id, done := interp.runid(), interp.done"):
					read = k
				case t == "interp.mutex.RUnlock()":
					unlock = k
				}
			}
			callFrameLocked = lock >= 0 && lock < read && read < unlock
		}
		if fd := common.FindFunc(fint, "frame", "clone"); fd != nil && len(fd.Body.List) >= 2 {
			cloneLocked = exprString(fd.Body.List[0]) == "f.mutex.RLock()" && exprString(fd.Body.List[1]) == "defer f.mutex.RUnlock()"
			mk, cp := false, false
			for _, s := range fd.Body.List {
				switch exprString(s) {
				case "nf.data = make([]reflect.Value, len(f.data))":
					mk = true
				case "copy(nf.data, f.data)":
					cp = true
				}
			}
			cloneCopiesData = mk && cp
		}
	}
	if len(callBinGoArgLoop) != 1 || !strings.HasPrefix(callBinGoArgLoop[0], "in[i] = copyDeferArg(") || len(callBinGoArgKinds) != 0 {
		callBinGoArgsCopied = false
	}
	sort.Strings(goStmts)
	sort.Strings(newFrameCalls)

	var b strings.Builder
	b.WriteString("open YaegiVerif.ConcFrames in\n/-- interp/run.go call, callBin, getFunc, genFunctionWrapper, _select; interp/interp.go frame.clone -/\ndef goFacts : GoFacts :=\n")
	fmt.Fprintf(&b, "  { goBinArgsCopied := %s,\n    srcArgsCopied := %s,\n    frameInClosure := %s,\n    wrapperFramePerCall := %s,\n    wrapperRecvBound := %s,\n    wrapperLateRecv := %s,\n    callBinGoArgsCopied := %s,\n    callBinGoArg := %s,\n    callBinGoStmt := %s,\n    getFuncClones := %s,\n    getFuncAncIsClone := %s,\n    getFuncStoreLocked := %s,\n    getFuncNoDefFrameWrite := %s,\n    cloneLocked := %s,\n    cloneCopiesData := %s,\n    callFrameLocked := %s,\n    selectDoneLocked := %s,\n    casesPerStatement := %s,\n    selectCopiesCases := %s,\n    callArgStores := %s,\n    frameCellInits := %s,\n    goStmts := %s,\n    newFrameCalls := %s,\n    goValueArgLoop := %s,\n    goValueArgKinds := %s,\n    callBinGoArgLoop := %s,\n    callBinGoArgKinds := %s,\n    srcArgLoopHash := %s,\n    srcArgKinds := %s,\n    wrapperCellsFresh := %s,\n    wrapperCellInits := %s,\n    wrapperCellSets := %s,\n    getFuncCellsFresh := %s,\n    getFuncCellInits := %s,\n    getFuncCellSets := %s }\n",
		boolLean(goBinArgsCopied), boolLean(srcArgsCopied), boolLean(frameInClosure), boolLean(wrapperFramePerCall), boolLean(wrapperRecvBound), common.LeanStr(wrapperLateRecv),
		boolLean(callBinGoArgsCopied), common.LeanStr(callBinGoArg), common.LeanStr(callBinGoStmt),
		boolLean(getFuncClones), boolLean(getFuncAncIsClone), boolLean(getFuncStoreLocked), boolLean(getFuncNoDefFrameWrite),
		boolLean(cloneLocked), boolLean(cloneCopiesData), boolLean(callFrameLocked), boolLean(selectDoneLocked), boolLean(casesPerStatement), boolLean(selectCopiesCases),
		common.LeanStrList(callArgStores), common.LeanStrList(frameCellInits), common.LeanStrList(goStmts), common.LeanStrList(newFrameCalls),
		common.LeanStrList(goValueArgLoop), common.LeanStrList(goValueArgKinds), common.LeanStrList(callBinGoArgLoop), common.LeanStrList(callBinGoArgKinds),
		common.LeanStr(srcArgLoop[0]), common.LeanStrList(srcArgKinds),
		boolLean(wrapperCellsFresh), common.LeanStrList(wrapperCellInits), common.LeanStrList(wrapperCellSets),
		boolLean(getFuncCellsFresh), common.LeanStrList(getFuncCellInits), common.LeanStrList(getFuncCellSets))
	return b.String()
}
