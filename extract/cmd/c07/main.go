// extract-C07: the choices interp/run.go makes at the host/script boundary (lean/YaegiVerif/Model/Boundary.lean `Facts`):
//
//	arms / outerArms       the ordered arms of callBin's per-argument switches (guard → effect)
//	recvGuardNonIface, rcvrCond   the receiver-offset rule
//	variadicSub            variadic = funcType.NumIn() - k
//	argType* / defType*    comparison and `.Elem()` of the type chosen for argument i (constant conversion / wrapper target)
//	callOnEllipsis / callOtherwise / deferCall   Call versus CallSlice
//	assign* / return* / default* / nestedReadIdx   index expressions of the result stores per context
//	wrap* / getFunc*       shape of genFunctionWrapper / getFunc: frame allocation, argument base, `fr.data[lo:hi]`
//
// plus fingerprints of every function the model transcribes. Anything that is not recognised is emitted as the
// `unrecognised` constructor (or a value that cannot equal the expectation) and listed in `notes`.
package main

import (
	"bytes"
	"fmt"
	"go/ast"
	"go/printer"
	"go/token"
	"strconv"
	"strings"

	"verif/extract/common"
)

func str(n ast.Node) string {
	if n == nil {
		return ""
	}
	var b bytes.Buffer
	_ = (&printer.Config{Mode: printer.RawFormat}).Fprint(&b, token.NewFileSet(), n)
	return strings.Join(strings.Fields(b.String()), " ")
}

func nospace(s string) string { return strings.ReplaceAll(s, " ", "") }

var notes []string

func note(format string, a ...interface{}) { notes = append(notes, fmt.Sprintf(format, a...)) }

func leanBool(b bool) string {
	if b {
		return "true"
	}
	return "false"
}

// ---- small translators ----

func unparen(e ast.Expr) ast.Expr {
	for {
		p, ok := e.(*ast.ParenExpr)
		if !ok {
			return e
		}
		e = p.X
	}
}

// cexpr translates the receiver-offset condition.
func cexpr(e ast.Expr) string {
	e = unparen(e)
	switch x := e.(type) {
	case *ast.BinaryExpr:
		switch x.Op {
		case token.LOR:
			return "(.or " + cexpr(x.X) + " " + cexpr(x.Y) + ")"
		case token.LAND:
			return "(.and " + cexpr(x.X) + " " + cexpr(x.Y) + ")"
		}
		switch str(x) {
		case "variadic > 0":
			return ".variadicGt0"
		case "funcType.NumIn() > len(child)":
			return ".numInGtArgs"
		case "variadic <= 0":
			return "(.not .variadicGt0)"
		case "funcType.NumIn() <= len(child)":
			return "(.not .numInGtArgs)"
		}
	case *ast.UnaryExpr:
		if x.Op == token.NOT {
			return "(.not " + cexpr(x.X) + ")"
		}
	}
	note("receiver-offset condition: %s", str(e))
	return ".unrecognised"
}

func cmpOf(op token.Token) string {
	switch op {
	case token.GEQ:
		return ".ge"
	case token.GTR:
		return ".gt"
	case token.LEQ:
		return ".le"
	case token.LSS:
		return ".lt"
	case token.EQL:
		return ".eq"
	}
	return ".unrecognised"
}

// iexpr translates an index expression; names maps identifiers/selectors to `.i` / `.base`.
func iexpr(e ast.Expr, names map[string]string) string {
	e = unparen(e)
	if s, ok := names[str(e)]; ok {
		return s
	}
	switch x := e.(type) {
	case *ast.BasicLit:
		if x.Kind == token.INT {
			return "(.lit " + x.Value + ")"
		}
	case *ast.BinaryExpr:
		if x.Op == token.ADD {
			return "(.add " + iexpr(x.X, names) + " " + iexpr(x.Y, names) + ")"
		}
	}
	note("index expression: %s", str(e))
	return ".unrecognised"
}

// find returns the first node (pre-order) for which ok returns true.
func find(root ast.Node, ok func(ast.Node) bool) ast.Node {
	var out ast.Node
	ast.Inspect(root, func(n ast.Node) bool {
		if out != nil || n == nil {
			return false
		}
		if ok(n) {
			out = n
			return false
		}
		return true
	})
	return out
}

func findAll(root ast.Node, ok func(ast.Node) bool) []ast.Node {
	var out []ast.Node
	ast.Inspect(root, func(n ast.Node) bool {
		if n != nil && ok(n) {
			out = append(out, n)
		}
		return true
	})
	return out
}

func guardOf(cc *ast.CaseClause) string {
	if cc.List == nil {
		return ".default"
	}
	if len(cc.List) != 1 {
		note("arm with %d guards", len(cc.List))
		return ".default"
	}
	switch s := str(cc.List[0]); s {
	case "isEmptyInterface(c.typ)":
		return ".emptyIface"
	case "isInterfaceSrc(c.typ)":
		return ".ifaceSrc"
	case "isFuncSrc(c.typ)":
		return ".funcSrc"
	case "c.typ.cat == arrayT || c.typ.cat == variadicT", "c.typ.cat == variadicT || c.typ.cat == arrayT":
		return ".arrayOrVariadic"
	case "isPtrSrc(c.typ)":
		return ".ptrSrc"
	case "c.typ.cat == valueT":
		return ".valueT"
	default:
		note("argument arm guard: %s", s)
		return ".default"
	}
}

func appendEffect(s ast.Stmt) string {
	switch str(s) {
	case "values = append(values, genValue(c))":
		return ".genValue"
	case "values = append(values, genValueInterfaceValue(c))":
		return ".unwrapIface"
	case "values = append(values, genFunctionWrapper(c))":
		return ".funcWrapper"
	case "values = append(values, genInterfaceWrapper(c, defType))":
		return ".ifaceWrapper"
	case "values = append(values, genValueArray(c))":
		return "genValueArray"
	}
	return ""
}

func effectOf(body []ast.Stmt) string {
	if len(body) != 1 {
		note("argument arm with %d statements", len(body))
		return ".unrecognised"
	}
	if e := appendEffect(body[0]); e != "" && e != "genValueArray" {
		return e
	}
	if is, ok := body[0].(*ast.IfStmt); ok && is.Init == nil && len(is.Body.List) == 1 {
		if eb, ok := is.Else.(*ast.BlockStmt); ok && len(eb.List) == 1 {
			th, el := appendEffect(is.Body.List[0]), appendEffect(eb.List[0])
			switch {
			case str(is.Cond) == "isEmptyInterface(c.typ.val)" && th == "genValueArray" && el == ".ifaceWrapper":
				return ".splitElemEmptyIface"
			case str(is.Cond) == "c.typ.val.cat == valueT" && th == ".genValue" && el == ".ifaceWrapper":
				return ".splitElemValueT"
			}
		}
	}
	note("argument arm effect: %s", str(body[0]))
	return ".unrecognised"
}

// typeChoice reads `if variadic >= 0 && i+rcvrOffset >= variadic { X = funcType.In(variadic)[.Elem()] } else { X = funcType.In(…) }`.
func typeChoice(root ast.Node, lhs string) (cmp string, elem string) {
	n := find(root, func(n ast.Node) bool {
		is, ok := n.(*ast.IfStmt)
		if !ok || len(is.Body.List) != 1 {
			return false
		}
		as, ok := is.Body.List[0].(*ast.AssignStmt)
		return ok && len(as.Lhs) == 1 && str(as.Lhs[0]) == lhs
	})
	if n == nil {
		note("no choice of %s", lhs)
		return ".unrecognised", "false"
	}
	is := n.(*ast.IfStmt)
	cmp = ".unrecognised"
	if be, ok := is.Cond.(*ast.BinaryExpr); ok && be.Op == token.LAND && str(be.X) == "variadic >= 0" {
		if c2, ok := unparen(be.Y).(*ast.BinaryExpr); ok && nospace(str(c2.X)) == "i+rcvrOffset" && str(c2.Y) == "variadic" {
			cmp = cmpOf(c2.Op)
		}
	}
	if cmp == ".unrecognised" {
		note("condition of the %s choice: %s", lhs, str(is.Cond))
	}
	rhs := str(is.Body.List[0].(*ast.AssignStmt).Rhs[0])
	switch rhs {
	case "funcType.In(variadic).Elem()":
		elem = "true"
	case "funcType.In(variadic)":
		elem = "false"
	default:
		note("%s in the variadic case: %s", lhs, rhs)
		elem = "false"
		cmp = ".unrecognised"
	}
	if eb, ok := is.Else.(*ast.BlockStmt); !ok || len(eb.List) != 1 ||
		(nospace(str(eb.List[0])) != lhs+"=funcType.In(i+rcvrOffset)" && nospace(str(eb.List[0])) != lhs+"=funcType.In(rcvrOffset+i)") {
		note("%s in the fixed case: %s", lhs, str(is.Else))
		cmp = ".unrecognised"
	}
	return cmp, elem
}

func callKind(e ast.Node) string {
	if find(e, func(n ast.Node) bool { ce, ok := n.(*ast.CallExpr); return ok && strings.HasSuffix(str(ce.Fun), ".CallSlice") }) != nil {
		return ".callSlice"
	}
	if find(e, func(n ast.Node) bool { ce, ok := n.(*ast.CallExpr); return ok && strings.HasSuffix(str(ce.Fun), ".Call") }) != nil {
		return ".call"
	}
	return ".unrecognised"
}

func sliceBounds(e ast.Expr, names map[string]string) (lo string, hi string) {
	se, ok := e.(*ast.SliceExpr)
	if !ok {
		note("result expression: %s", str(e))
		return "1000000", ".unrecognised"
	}
	lo = "0"
	if se.Low != nil {
		if bl, ok := se.Low.(*ast.BasicLit); ok && bl.Kind == token.INT {
			lo = bl.Value
		} else {
			note("low bound of the result slice: %s", str(se.Low))
			lo = "1000000"
		}
	}
	if se.High == nil {
		note("result slice without a high bound")
		return lo, ".unrecognised"
	}
	return lo, iexpr(se.High, names)
}

func main() {
	common.Main("C07", func(repo string) (string, error) {
		fset, f, err := common.ParseFile(repo, "interp/run.go")
		if err != nil {
			return "", err
		}
		cb := common.FindFunc(f, "", "callBin")
		gw := common.FindFunc(f, "", "genFunctionWrapper")
		gf := common.FindFunc(f, "", "getFunc")
		rc := common.FindFunc(f, "", "runCfg")
		if cb == nil || gw == nil || gf == nil || rc == nil {
			return "", fmt.Errorf("callBin / genFunctionWrapper / getFunc / runCfg not found in interp/run.go")
		}

		// ---- the per-argument switches
		var outer *ast.SwitchStmt
		if rs := find(cb, func(n ast.Node) bool {
			r, ok := n.(*ast.RangeStmt)
			return ok && str(r.X) == "child" && str(r.Key) == "i" && str(r.Value) == "c"
		}); rs != nil {
			for _, s := range rs.(*ast.RangeStmt).Body.List {
				if sw, ok := s.(*ast.SwitchStmt); ok && sw.Tag == nil {
					outer = sw
				}
			}
		}
		var outerArms []string
		arms := "[]"
		argCmp, argElem, defCmp, defElem := ".unrecognised", "false", ".unrecognised", "false"
		nestedRead := ".unrecognised"
		if outer == nil {
			note("the per-argument switch of callBin was not found")
		} else {
			var deflt *ast.CaseClause
			for _, s := range outer.Body.List {
				cc := s.(*ast.CaseClause)
				if cc.List == nil {
					outerArms = append(outerArms, "default")
					deflt = cc
				} else {
					outerArms = append(outerArms, str(cc.List[0]))
					if str(cc.List[0]) == "isBinCall(c, c.scope)" {
						if as := find(cc, func(n ast.Node) bool {
							a, ok := n.(*ast.AssignStmt)
							return ok && len(a.Lhs) == 1 && str(a.Lhs[0]) == "ind"
						}); as != nil {
							nestedRead = iexpr(as.(*ast.AssignStmt).Rhs[0], map[string]string{"c.findex": ".base", "j": ".i"})
						}
					}
				}
			}
			if deflt == nil {
				note("no default arm in the per-argument switch")
			} else {
				var inner *ast.SwitchStmt
				for _, s := range deflt.Body {
					if sw, ok := s.(*ast.SwitchStmt); ok && sw.Tag == nil {
						inner = sw
					}
				}
				if inner == nil {
					note("no inner switch in the default arm")
				} else {
					var items []string
					for _, s := range inner.Body.List {
						cc := s.(*ast.CaseClause)
						items = append(items, "⟨"+guardOf(cc)+", "+effectOf(cc.Body)+"⟩")
					}
					arms = "[" + strings.Join(items, ",\n      ") + "]"
				}
				dn := &ast.BlockStmt{List: deflt.Body}
				argCmp, argElem = typeChoice(dn, "argType")
				defCmp, defElem = typeChoice(dn, "defType")
			}
		}

		// ---- receiver offset
		recvGuard, rcvrCond := "false", ".unrecognised"
		if n := find(cb, func(n ast.Node) bool {
			is, ok := n.(*ast.IfStmt)
			return ok && is.Init != nil && str(is.Init) == "recv := c0.recv"
		}); n != nil {
			is := n.(*ast.IfStmt)
			switch str(is.Cond) {
			case "recv != nil && !isInterface(recv.node.typ)":
				recvGuard = "true"
			case "recv != nil":
				recvGuard = "false"
			default:
				note("receiver guard: %s", str(is.Cond))
			}
			if len(is.Body.List) == 1 {
				if in, ok := is.Body.List[0].(*ast.IfStmt); ok && len(in.Body.List) == 1 && str(in.Body.List[0]) == "rcvrOffset = 1" && in.Else == nil {
					rcvrCond = cexpr(in.Cond)
				} else {
					note("receiver-offset statement: %s", str(is.Body.List[0]))
				}
			} else {
				note("receiver-offset block has %d statements", len(is.Body.List))
			}
		} else {
			note("receiver-offset rule not found")
		}

		// ---- variadic index
		variadicSub := "1000000"
		if n := find(cb, func(n ast.Node) bool {
			as, ok := n.(*ast.AssignStmt)
			return ok && as.Tok == token.ASSIGN && len(as.Lhs) == 1 && str(as.Lhs[0]) == "variadic"
		}); n != nil {
			rhs := n.(*ast.AssignStmt).Rhs[0]
			if be, ok := rhs.(*ast.BinaryExpr); ok && be.Op == token.SUB && str(be.X) == "funcType.NumIn()" {
				if bl, ok := be.Y.(*ast.BasicLit); ok {
					variadicSub = bl.Value
				}
			} else if str(rhs) == "funcType.NumIn()" {
				variadicSub = "0"
			}
		}
		if variadicSub == "1000000" {
			note("variadic index assignment not recognised")
		}

		// ---- Call / CallSlice
		callOther, callEll := ".unrecognised", ".unrecognised"
		if n := find(cb, func(n ast.Node) bool {
			as, ok := n.(*ast.AssignStmt)
			return ok && as.Tok == token.DEFINE && len(as.Lhs) == 1 && str(as.Lhs[0]) == "callFn"
		}); n != nil {
			callOther = callKind(n)
		}
		if n := find(cb, func(n ast.Node) bool {
			is, ok := n.(*ast.IfStmt)
			return ok && str(is.Cond) == "n.action == aCallSlice"
		}); n != nil {
			callEll = callKind(n)
		}
		deferCall := ".unrecognised"
		if n := find(rc, func(n ast.Node) bool {
			r, ok := n.(*ast.RangeStmt)
			return ok && str(r.X) == "f.deferred"
		}); n != nil {
			deferCall = callKind(n)
			// since fix 215471a the loop runs each deferred call through the helper runDeferred (own recover)
			if deferCall == ".unrecognised" && find(n, func(n ast.Node) bool {
				ce, ok := n.(*ast.CallExpr)
				return ok && str(ce.Fun) == "runDeferred"
			}) != nil {
				if rd := common.FindFunc(f, "", "runDeferred"); rd != nil {
					deferCall = callKind(rd)
				}
			}
		}
		for what, v := range map[string]string{"callFn": callOther, "callFn on aCallSlice": callEll, "deferred call": deferCall} {
			if v == ".unrecognised" {
				note("%s not recognised", what)
			}
		}

		// ---- result routing
		assignSrc, assignDst, retDst, defDst := ".unrecognised", ".unrecognised", ".unrecognised", ".unrecognised"
		retBase := "false"
		if n := find(cb, func(n ast.Node) bool {
			sw, ok := n.(*ast.SwitchStmt)
			return ok && sw.Tag != nil && str(sw.Tag) == "n.anc.action"
		}); n != nil {
			for _, s := range n.(*ast.SwitchStmt).Body.List {
				cc := s.(*ast.CaseClause)
				switch {
				case len(cc.List) == 1 && str(cc.List[0]) == "aAssignX":
					// destination: `c := n.anc.child[<idx>]` in the loop `for i := range rvalues`
					if rs := find(cc, func(n ast.Node) bool {
						r, ok := n.(*ast.RangeStmt)
						return ok && str(r.X) == "rvalues" && str(r.Key) == "i" && r.Value == nil
					}); rs != nil {
						if as := find(rs, func(n ast.Node) bool {
							a, ok := n.(*ast.AssignStmt)
							return ok && len(a.Lhs) == 1 && str(a.Lhs[0]) == "c"
						}); as != nil {
							if ix, ok := as.(*ast.AssignStmt).Rhs[0].(*ast.IndexExpr); ok && str(ix.X) == "n.anc.child" {
								assignDst = iexpr(ix.Index, map[string]string{"i": ".i"})
							}
						}
					}
					// source: `v(f).Set(out[<idx>])` in the loop `for i, v := range rvalues`
					if rs := find(cc, func(n ast.Node) bool {
						r, ok := n.(*ast.RangeStmt)
						return ok && str(r.X) == "rvalues" && str(r.Key) == "i" && str(r.Value) == "v"
					}); rs != nil {
						srcs := map[string]bool{}
						for _, c := range findAll(rs, func(n ast.Node) bool {
							ce, ok := n.(*ast.CallExpr)
							return ok && strings.HasSuffix(str(ce.Fun), ".Set") && len(ce.Args) == 1
						}) {
							if ix, ok := c.(*ast.CallExpr).Args[0].(*ast.IndexExpr); ok && str(ix.X) == "out" {
								srcs[iexpr(ix.Index, map[string]string{"i": ".i"})] = true
							}
						}
						if len(srcs) == 1 {
							for k := range srcs {
								assignSrc = k
							}
						} else {
							note("aAssignX: %d different source indexes", len(srcs))
						}
					}
				case len(cc.List) == 1 && str(cc.List[0]) == "aReturn":
					if as := find(cc, func(n ast.Node) bool {
						a, ok := n.(*ast.AssignStmt)
						return ok && len(a.Lhs) == 1 && str(a.Lhs[0]) == "b"
					}); as != nil && str(as.(*ast.AssignStmt).Rhs[0]) == "childPos(n)" {
						retBase = "true"
					}
					if rs := find(cc, func(n ast.Node) bool {
						r, ok := n.(*ast.RangeStmt)
						return ok && str(r.X) == "out" && str(r.Key) == "i" && str(r.Value) == "v"
					}); rs != nil {
						if as := find(rs, func(n ast.Node) bool {
							a, ok := n.(*ast.AssignStmt)
							return ok && len(a.Lhs) == 1 && str(a.Lhs[0]) == "dest"
						}); as != nil {
							if ix, ok := as.(*ast.AssignStmt).Rhs[0].(*ast.IndexExpr); ok && str(ix.X) == "f.data" {
								retDst = iexpr(ix.Index, map[string]string{"i": ".i", "b": ".base"})
							}
						}
						if find(rs, func(n ast.Node) bool { return str(n) == "dest.Set(v)" }) == nil {
							note("aReturn: dest.Set(v) not found")
							retDst = ".unrecognised"
						}
					}
				case cc.List == nil:
					dsts := map[string]bool{}
					for _, c := range findAll(cc, func(n ast.Node) bool {
						ix, ok := n.(*ast.IndexExpr)
						return ok && str(ix.X) == "getFrame(f, n.level).data"
					}) {
						dsts[iexpr(c.(*ast.IndexExpr).Index, map[string]string{"i": ".i", "n.findex": ".base"})] = true
					}
					if len(dsts) == 1 {
						for k := range dsts {
							defDst = k
						}
					} else {
						note("default result store: %d different indexes", len(dsts))
					}
					if find(cc, func(n ast.Node) bool { return str(n) == "r := out[i]" }) == nil {
						note("default result store: r := out[i] not found")
						defDst = ".unrecognised"
					}
				}
			}
		} else {
			note("result-routing switch not found")
		}

		// ---- genFunctionWrapper / getFunc
		wrapFrame := leanBool(find(gw, func(n ast.Node) bool { return str(n) == "fr := newFrame(f, len(def.types), f.runid())" }) != nil)
		wrapBase, wrapShift := ".unrecognised", "1000000"
		for _, n := range findAll(gw, func(n ast.Node) bool {
			as, ok := n.(*ast.AssignStmt)
			return ok && as.Tok == token.ASSIGN && len(as.Lhs) == 1 && str(as.Lhs[0]) == "d"
		}) {
			se, ok := n.(*ast.AssignStmt).Rhs[0].(*ast.SliceExpr)
			if !ok || str(se.X) != "d" || se.High != nil || se.Low == nil {
				note("genFunctionWrapper: %s", str(n))
				continue
			}
			if be, ok := se.Low.(*ast.BinaryExpr); ok && be.Op == token.ADD && str(be.X) == "numRet" {
				if bl, ok := be.Y.(*ast.BasicLit); ok {
					wrapShift = bl.Value
				}
			} else {
				wrapBase = iexpr(se.Low, map[string]string{"numRet": ".base"})
			}
		}
		// the frame is allocated by the function literal handed to reflect.MakeFunc (one frame per invocation)
		perCall := func(fd *ast.FuncDecl, stmt string) string {
			mk := find(fd, func(n ast.Node) bool {
				ce, ok := n.(*ast.CallExpr)
				return ok && str(ce.Fun) == "reflect.MakeFunc" && len(ce.Args) == 2
			})
			if mk == nil {
				note("%s: no reflect.MakeFunc call", fd.Name.Name)
				return "false"
			}
			lit, ok := mk.(*ast.CallExpr).Args[1].(*ast.FuncLit)
			if !ok {
				note("%s: reflect.MakeFunc is not given a function literal", fd.Name.Name)
				return "false"
			}
			all := findAll(fd, func(n ast.Node) bool { return str(n) == stmt })
			in := findAll(lit, func(n ast.Node) bool { return str(n) == stmt })
			if len(all) != 1 {
				note("%s: %d statements `%s`", fd.Name.Name, len(all), stmt)
				return "false"
			}
			return leanBool(len(in) == 1)
		}
		wrapPerCall := perCall(gw, "fr := newFrame(f, len(def.types), f.runid())")
		getFuncPerCall := perCall(gf, "fr2 := newFrame(fr, len(n.types), fr.runid())")
		skipShort := leanBool(find(gw, func(n ast.Node) bool {
			is, ok := n.(*ast.IfStmt)
			return ok && str(is.Cond) == "i >= len(d)" && len(is.Body.List) == 1 && str(is.Body.List[0]) == "break"
		}) != nil)
		resultOf := func(fd *ast.FuncDecl, recv string) (string, string) {
			var rets []ast.Node
			for _, n := range findAll(fd, func(n ast.Node) bool {
				r, ok := n.(*ast.ReturnStmt)
				return ok && len(r.Results) == 1 && strings.HasPrefix(str(r.Results[0]), recv+".data[")
			}) {
				rets = append(rets, n)
			}
			if len(rets) != 1 {
				note("%s: %d returns of %s.data[…]", fd.Name.Name, len(rets), recv)
				return "1000000", ".unrecognised"
			}
			return sliceBounds(rets[0].(*ast.ReturnStmt).Results[0], map[string]string{"numRet": ".base"})
		}
		wLo, wHi := resultOf(gw, "fr")
		gLo, gHi := resultOf(gf, "fr2")
		if wrapShift == "1000000" || wrapBase == ".unrecognised" {
			note("genFunctionWrapper: argument base not recognised")
		}

		// ---- fingerprints
		hashes := common.HashTable(fset, f, [][2]string{{"", "callBin"}, {"", "genFunctionWrapper"}, {"", "getFunc"}, {"", "call"},
			{"", "genInterfaceWrapper"}, {"", "methodByName"}, {"", "getFrame"}})
		hashes = strings.TrimSuffix(hashes, "]")
		for _, file := range []struct {
			rel   string
			names [][2]string
		}{
			{"interp/value.go", [][2]string{{"", "genValueInterface"}, {"", "genValueInterfaceValue"}, {"", "valueInterfaceValue"}, {"", "genFuncValue"},
				{"", "genValueAsFunctionWrapper"}, {"", "getConcreteValue"}, {"", "getBinValue"}, {"", "genValueArray"}, {"", "genValue"}}},
			{"interp/program.go", [][2]string{{"Interpreter", "Execute"}}},
			{"interp/use.go", [][2]string{{"Interpreter", "Symbols"}, {"", "getWrapper"}, {"Interpreter", "Use"}}},
			{"interp/scope.go", [][2]string{{"Interpreter", "Globals"}}},
			{"interp/type.go", [][2]string{{"", "isEmptyInterface"}, {"", "isInterfaceSrc"}, {"", "isFuncSrc"}, {"", "isPtrSrc"}, {"", "isInterfaceBin"},
				{"", "isInterface"}, {"", "wrappedType"}}},
			{"interp/cfg.go", [][2]string{{"", "isBinCall"}, {"", "isRegularCall"}, {"", "variadicPos"}, {"", "childPos"}}},
		} {
			fs2, f2, err := common.ParseFile(repo, file.rel)
			if err != nil {
				return "", err
			}
			h := common.HashTable(fs2, f2, file.names)
			hashes += ",\n   " + strings.TrimSuffix(strings.TrimPrefix(h, "["), "]")
		}
		hashes += "]"

		lo := func(s string) string {
			if _, err := strconv.Atoi(s); err != nil {
				return "1000000"
			}
			return s
		}
		src := fmt.Sprintf(`import YaegiVerif.Model.Boundary
namespace YaegiVerif.Generated.C07
open YaegiVerif.Boundary
/-- interp/run.go callBin, runCfg, genFunctionWrapper, getFunc -/
def facts : Facts :=
  { arms := %s,
    outerArms := %s,
    recvGuardNonIface := %s,
    rcvrCond := %s,
    variadicSub := %s,
    argTypeCmp := %s,
    argTypeElem := %s,
    defTypeCmp := %s,
    defTypeElem := %s,
    callOnEllipsis := %s,
    callOtherwise := %s,
    deferCall := %s,
    assignSrcIdx := %s,
    assignDstIdx := %s,
    returnDstIdx := %s,
    returnBaseIsChildPos := %s,
    defaultDstIdx := %s,
    nestedReadIdx := %s,
    wrapFrameIsDefTypes := %s,
    wrapFramePerCall := %s,
    getFuncFramePerCall := %s,
    wrapArgBase := %s,
    wrapRcvrShift := %s,
    wrapResLo := %s,
    wrapResHi := %s,
    wrapSkipShort := %s,
    getFuncResLo := %s,
    getFuncResHi := %s }
/-- constructs the extractor could not recognise (must be empty) -/
def notes : List String := %s
/-- fingerprints of the functions that Model/Boundary.lean transcribes -/
def sourceHashes : List (String × String) :=
  %s
end YaegiVerif.Generated.C07
`, arms, common.LeanStrList(outerArms), recvGuard, rcvrCond, lo(variadicSub), argCmp, argElem, defCmp, defElem,
			callEll, callOther, deferCall, assignSrc, assignDst, retDst, retBase, defDst, nestedRead,
			wrapFrame, wrapPerCall, getFuncPerCall, wrapBase, lo(wrapShift), lo(wLo), wHi, skipShort, lo(gLo), gHi, common.LeanStrList(notes), hashes)
		return src, nil
	})
}
