// extract-C07: the choices interp/run.go makes at the host/script boundary (lean/YaegiVerif/Model/Boundary.lean `Facts`):
//
//	arms / outerArms       the ordered arms of callBin's per-argument switches (guard → effect)
//	recvGuardNonIface, recvGuardGetMethod, rcvrCond   the receiver-offset rule
//	variadicSub            variadic = funcType.NumIn() - k
//	argType* / defType*    comparison and `.Elem()` of the type chosen for argument i (constant conversion / wrapper target)
//	callArms / fvArms      Call versus CallSlice versus the helper callVariadic: the guarded choices of callBin's callFn and of
//	                       the function-value branch of call, in order of precedence; cv*: the shape of callVariadic itself
//	deferCall / deferWrap* how runDeferred calls a deferred record and whether the defer arms of callBin / call wrap the
//	                       function with deferCallSlice when the call has an ellipsis (what the deferred record holds)
//	wrapRecvAtCreation     genFunctionWrapper binds a receiver read from the script outside the reflect.MakeFunc literal
//	wrapRecvHeldAtCall     … and reaches the receiver of a record without node (the value held by an interface) inside it
//	argTypeSpreadArm       the argument followed by `...` is converted to the variadic parameter's own (slice) type
//	callArgArms            the ordered arms of the per-argument switch of `call` (which arguments a call with an ellipsis prepares)
//	hostMethodBindsRecv / bindRecvCopies   a method value of a host value copies an addressable receiver when it is evaluated
//	ifaceWrapRecvHeld      genInterfaceWrapper(Value) gives its method wrappers such a record (a copy of the converted value)
//	assign* / return* / default* / nestedReadIdx   index expressions of the result stores per context
//	defineXCell            aAssignX with `:=`: when the destination cell is re-created before the store
//	branchDstIdx / branchStore   the branch arm of callBin (a host call used as a condition): the slot and on which outcomes it is written
//	wrap* / getFunc*       shape of genFunctionWrapper / getFunc: frame allocation, argument base, `fr.data[lo:hi]`
//
// plus fingerprints of every function the model transcribes. Anything that is not recognised is emitted as the
// `unrecognised` constructor (or a value that cannot equal the expectation) and listed in `notes`.
package main

import (
	"bytes"
	"fmt"
	"go/ast"
	"go/printer"
	"go/token"
	"strconv"
	"strings"

	"verif/extract/common"
)

func str(n ast.Node) string {
	if n == nil {
		return ""
	}
	var b bytes.Buffer
	_ = (&printer.Config{Mode: printer.RawFormat}).Fprint(&b, token.NewFileSet(), n)
	return strings.Join(strings.Fields(b.String()), " ")
}

func nospace(s string) string { return strings.ReplaceAll(s, " ", "") }

var notes []string

func note(format string, a ...interface{}) { notes = append(notes, fmt.Sprintf(format, a...)) }

func leanBool(b bool) string {
	if b {
		return "true"
	}
	return "false"
}

// ---- small translators ----

func unparen(e ast.Expr) ast.Expr {
	for {
		p, ok := e.(*ast.ParenExpr)
		if !ok {
			return e
		}
		e = p.X
	}
}

// cexpr translates the receiver-offset condition.
func cexpr(e ast.Expr) string {
	e = unparen(e)
	switch x := e.(type) {
	case *ast.BinaryExpr:
		switch x.Op {
		case token.LOR:
			return "(.or " + cexpr(x.X) + " " + cexpr(x.Y) + ")"
		case token.LAND:
			return "(.and " + cexpr(x.X) + " " + cexpr(x.Y) + ")"
		}
		switch str(x) {
		case "variadic > 0":
			return ".variadicGt0"
		case "funcType.NumIn() > len(child)":
			return ".numInGtArgs"
		case "variadic <= 0":
			return "(.not .variadicGt0)"
		case "funcType.NumIn() <= len(child)":
			return "(.not .numInGtArgs)"
		}
	case *ast.UnaryExpr:
		if x.Op == token.NOT {
			return "(.not " + cexpr(x.X) + ")"
		}
	}
	note("receiver-offset condition: %s", str(e))
	return ".unrecognised"
}

func cmpOf(op token.Token) string {
	switch op {
	case token.GEQ:
		return ".ge"
	case token.GTR:
		return ".gt"
	case token.LEQ:
		return ".le"
	case token.LSS:
		return ".lt"
	case token.EQL:
		return ".eq"
	}
	return ".unrecognised"
}

// iexpr translates an index expression; names maps identifiers/selectors to `.i` / `.base`.
func iexpr(e ast.Expr, names map[string]string) string {
	e = unparen(e)
	if s, ok := names[str(e)]; ok {
		return s
	}
	switch x := e.(type) {
	case *ast.BasicLit:
		if x.Kind == token.INT {
			return "(.lit " + x.Value + ")"
		}
	case *ast.BinaryExpr:
		if x.Op == token.ADD {
			return "(.add " + iexpr(x.X, names) + " " + iexpr(x.Y, names) + ")"
		}
	}
	note("index expression: %s", str(e))
	return ".unrecognised"
}

// find returns the first node (pre-order) for which ok returns true.
func find(root ast.Node, ok func(ast.Node) bool) ast.Node {
	var out ast.Node
	ast.Inspect(root, func(n ast.Node) bool {
		if out != nil || n == nil {
			return false
		}
		if ok(n) {
			out = n
			return false
		}
		return true
	})
	return out
}

func findAll(root ast.Node, ok func(ast.Node) bool) []ast.Node {
	var out []ast.Node
	ast.Inspect(root, func(n ast.Node) bool {
		if n != nil && ok(n) {
			out = append(out, n)
		}
		return true
	})
	return out
}

func guardOf(cc *ast.CaseClause) string {
	if cc.List == nil {
		return ".default"
	}
	if len(cc.List) != 1 {
		note("arm with %d guards", len(cc.List))
		return ".default"
	}
	switch s := str(cc.List[0]); s {
	case "isEmptyInterface(c.typ)":
		return ".emptyIface"
	case "isInterfaceSrc(c.typ)":
		return ".ifaceSrc"
	case "isFuncSrc(c.typ)":
		return ".funcSrc"
	case "c.typ.cat == arrayT || c.typ.cat == variadicT", "c.typ.cat == variadicT || c.typ.cat == arrayT":
		return ".arrayOrVariadic"
	case "isPtrSrc(c.typ)":
		return ".ptrSrc"
	case "c.typ.cat == valueT":
		return ".valueT"
	default:
		note("argument arm guard: %s", s)
		return ".default"
	}
}

func appendEffect(s ast.Stmt) string {
	switch str(s) {
	case "values = append(values, genValue(c))":
		return ".genValue"
	case "values = append(values, genValueInterfaceValue(c))":
		return ".unwrapIface"
	case "values = append(values, genFunctionWrapper(c))":
		return ".funcWrapper"
	case "values = append(values, genInterfaceWrapper(c, defType))":
		return ".ifaceWrapper"
	case "values = append(values, genValueArray(c))":
		return "genValueArray"
	}
	return ""
}

func effectOf(body []ast.Stmt) string {
	if len(body) != 1 {
		note("argument arm with %d statements", len(body))
		return ".unrecognised"
	}
	if e := appendEffect(body[0]); e != "" && e != "genValueArray" {
		return e
	}
	if is, ok := body[0].(*ast.IfStmt); ok && is.Init == nil && len(is.Body.List) == 1 {
		if eb, ok := is.Else.(*ast.BlockStmt); ok && len(eb.List) == 1 {
			th, el := appendEffect(is.Body.List[0]), appendEffect(eb.List[0])
			switch {
			case str(is.Cond) == "isEmptyInterface(c.typ.val)" && th == "genValueArray" && el == ".ifaceWrapper":
				return ".splitElemEmptyIface"
			case str(is.Cond) == "c.typ.val.cat == valueT" && th == ".genValue" && el == ".ifaceWrapper":
				return ".splitElemValueT"
			}
		}
	}
	note("argument arm effect: %s", str(body[0]))
	return ".unrecognised"
}

// typeChoice reads `if variadic >= 0 && i+rcvrOffset >= variadic { X = funcType.In(variadic)[.Elem()] } else { X = funcType.In(…) }`.
func typeChoice(root ast.Node, lhs string) (cmp string, elem string, spread string) {
	spread = "false"
	// since 57dd9e4: `switch { case n.action == aCallSlice && i+rcvrOffset == variadic: X = funcType.In(variadic);
	// case variadic >= 0 && i+rcvrOffset >= variadic: X = …Elem(); default: X = funcType.In(i + rcvrOffset) }`
	if sw := find(root, func(n ast.Node) bool {
		s, ok := n.(*ast.SwitchStmt)
		if !ok || s.Tag != nil || len(s.Body.List) == 0 {
			return false
		}
		for _, c := range s.Body.List {
			cc := c.(*ast.CaseClause)
			if len(cc.Body) != 1 {
				return false
			}
			as, ok := cc.Body[0].(*ast.AssignStmt)
			if !ok || len(as.Lhs) != 1 || str(as.Lhs[0]) != lhs {
				return false
			}
		}
		return true
	}); sw != nil {
		cmp, elem = ".unrecognised", "false"
		cls := sw.(*ast.SwitchStmt).Body.List
		good := len(cls) == 3
		if good {
			c0, c1, c2 := cls[0].(*ast.CaseClause), cls[1].(*ast.CaseClause), cls[2].(*ast.CaseClause)
			good = len(c0.List) == 1 && nospace(str(c0.List[0])) == "n.action==aCallSlice&&i+rcvrOffset==variadic" &&
				nospace(str(c0.Body[0])) == lhs+"=funcType.In(variadic)" && len(c1.List) == 1 && c2.List == nil &&
				(nospace(str(c2.Body[0])) == lhs+"=funcType.In(i+rcvrOffset)" || nospace(str(c2.Body[0])) == lhs+"=funcType.In(rcvrOffset+i)")
			if good {
				spread = "true"
				if be, ok := c1.List[0].(*ast.BinaryExpr); ok && be.Op == token.LAND && str(be.X) == "variadic >= 0" {
					if c2e, ok := unparen(be.Y).(*ast.BinaryExpr); ok && nospace(str(c2e.X)) == "i+rcvrOffset" && str(c2e.Y) == "variadic" {
						cmp = cmpOf(c2e.Op)
					}
				}
				switch nospace(str(c1.Body[0])) {
				case lhs + "=funcType.In(variadic).Elem()":
					elem = "true"
				case lhs + "=funcType.In(variadic)":
					elem = "false"
				default:
					cmp = ".unrecognised"
				}
			}
		}
		if !good || cmp == ".unrecognised" {
			note("choice of %s: switch not recognised", lhs)
			cmp = ".unrecognised"
		}
		return cmp, elem, spread
	}
	n := find(root, func(n ast.Node) bool {
		is, ok := n.(*ast.IfStmt)
		if !ok || len(is.Body.List) != 1 {
			return false
		}
		as, ok := is.Body.List[0].(*ast.AssignStmt)
		return ok && len(as.Lhs) == 1 && str(as.Lhs[0]) == lhs
	})
	if n == nil {
		note("no choice of %s", lhs)
		return ".unrecognised", "false", spread
	}
	is := n.(*ast.IfStmt)
	cmp = ".unrecognised"
	if be, ok := is.Cond.(*ast.BinaryExpr); ok && be.Op == token.LAND && str(be.X) == "variadic >= 0" {
		if c2, ok := unparen(be.Y).(*ast.BinaryExpr); ok && nospace(str(c2.X)) == "i+rcvrOffset" && str(c2.Y) == "variadic" {
			cmp = cmpOf(c2.Op)
		}
	}
	if cmp == ".unrecognised" {
		note("condition of the %s choice: %s", lhs, str(is.Cond))
	}
	rhs := str(is.Body.List[0].(*ast.AssignStmt).Rhs[0])
	switch rhs {
	case "funcType.In(variadic).Elem()":
		elem = "true"
	case "funcType.In(variadic)":
		elem = "false"
	default:
		note("%s in the variadic case: %s", lhs, rhs)
		elem = "false"
		cmp = ".unrecognised"
	}
	if eb, ok := is.Else.(*ast.BlockStmt); !ok || len(eb.List) != 1 ||
		(nospace(str(eb.List[0])) != lhs+"=funcType.In(i+rcvrOffset)" && nospace(str(eb.List[0])) != lhs+"=funcType.In(rcvrOffset+i)") {
		note("%s in the fixed case: %s", lhs, str(is.Else))
		cmp = ".unrecognised"
	}
	return cmp, elem, spread
}

func callKind(e ast.Node) string {
	if id, ok := e.(*ast.Ident); ok && id.Name == "callVariadic" {
		return ".callVariadic"
	}
	if find(e, func(n ast.Node) bool { ce, ok := n.(*ast.CallExpr); return ok && str(ce.Fun) == "callVariadic" }) != nil {
		return ".callVariadic"
	}
	if find(e, func(n ast.Node) bool { ce, ok := n.(*ast.CallExpr); return ok && strings.HasSuffix(str(ce.Fun), ".CallSlice") }) != nil {
		return ".callSlice"
	}
	if find(e, func(n ast.Node) bool { ce, ok := n.(*ast.CallExpr); return ok && strings.HasSuffix(str(ce.Fun), ".Call") }) != nil {
		return ".call"
	}
	return ".unrecognised"
}

// guardedCalls: the assignments `lhs = …` of fd together with the guard each stands under (an `if`/`else` or the clauses of a
// tagless `switch`), in order of precedence.
func guardedCalls(fd *ast.FuncDecl, lhs, where string) []string {
	guardName := func(e ast.Expr) string {
		switch str(e) {
		case "n.action == aCallSlice", "hasVariadicArgs":
			return ".ellipsis"
		case "variadic >= 0":
			return ".variadic"
		}
		note("%s: guard of `%s = …`: %s", where, lhs, str(e))
		return ".unrecognised"
	}
	isAssign := func(n ast.Node) (ast.Expr, bool) {
		as, ok := n.(*ast.AssignStmt)
		if ok && as.Tok == token.ASSIGN && len(as.Lhs) == 1 && str(as.Lhs[0]) == lhs {
			return as.Rhs[0], true
		}
		return nil, false
	}
	assignIn := func(list []ast.Stmt) ast.Expr {
		for _, s := range list {
			if rhs, ok := isAssign(s); ok {
				return rhs
			}
		}
		return nil
	}
	total := len(findAll(fd, func(n ast.Node) bool { _, ok := isAssign(n); return ok }))
	var arms []string
	ast.Inspect(fd, func(n ast.Node) bool {
		switch x := n.(type) {
		case *ast.IfStmt:
			if rhs := assignIn(x.Body.List); rhs != nil {
				arms = append(arms, "⟨"+guardName(x.Cond)+", "+callKind(rhs)+"⟩")
				if eb, ok := x.Else.(*ast.BlockStmt); ok {
					if rhs := assignIn(eb.List); rhs != nil {
						arms = append(arms, "⟨.always, "+callKind(rhs)+"⟩")
					}
				}
			}
		case *ast.SwitchStmt:
			if x.Tag != nil {
				return true
			}
			deflt := ""
			for _, s := range x.Body.List {
				cc := s.(*ast.CaseClause)
				rhs := assignIn(cc.Body)
				if rhs == nil {
					continue
				}
				switch {
				case cc.List == nil:
					deflt = "⟨.always, " + callKind(rhs) + "⟩"
				case len(cc.List) == 1:
					arms = append(arms, "⟨"+guardName(cc.List[0])+", "+callKind(rhs)+"⟩")
				default:
					note("%s: `%s = …` under a clause with %d guards", where, lhs, len(cc.List))
					arms = append(arms, "⟨.unrecognised, "+callKind(rhs)+"⟩")
				}
			}
			if deflt != "" {
				arms = append(arms, deflt)
			}
		}
		return true
	})
	if len(arms) != total {
		note("%s: %d assignments `%s = …`, %d recognised", where, total, lhs, len(arms))
	}
	for _, a := range arms {
		if strings.Contains(a, ".unrecognised⟩") {
			note("%s: call kind of an arm of `%s` not recognised", where, lhs)
		}
	}
	return arms
}

func sliceBounds(e ast.Expr, names map[string]string) (lo string, hi string) {
	se, ok := e.(*ast.SliceExpr)
	if !ok {
		note("result expression: %s", str(e))
		return "1000000", ".unrecognised"
	}
	lo = "0"
	if se.Low != nil {
		if bl, ok := se.Low.(*ast.BasicLit); ok && bl.Kind == token.INT {
			lo = bl.Value
		} else {
			note("low bound of the result slice: %s", str(se.Low))
			lo = "1000000"
		}
	}
	if se.High == nil {
		note("result slice without a high bound")
		return lo, ".unrecognised"
	}
	return lo, iexpr(se.High, names)
}

func main() {
	common.Main("C07", func(repo string) (string, error) {
		fset, f, err := common.ParseFile(repo, "interp/run.go")
		if err != nil {
			return "", err
		}
		cb := common.FindFunc(f, "", "callBin")
		// since dc95f3e genFunctionWrapper / genHostFunctionWrapper are one-line delegations to genFunctionWrapperFor(n, host)
		gw := common.FindFunc(f, "", "genFunctionWrapperFor")
		if gw == nil {
			gw = common.FindFunc(f, "", "genFunctionWrapper")
		} else {
			for name, want := range map[string]string{"genFunctionWrapper": "returngenFunctionWrapperFor(n,false)", "genHostFunctionWrapper": "returngenFunctionWrapperFor(n,true)"} {
				if d := common.FindFunc(f, "", name); d == nil || len(d.Body.List) != 1 || nospace(str(d.Body.List[0])) != want {
					note("%s is not `%s`", name, want)
				}
			}
		}
		gf := common.FindFunc(f, "", "getFunc")
		rc := common.FindFunc(f, "", "runCfg")
		if cb == nil || gw == nil || gf == nil || rc == nil {
			return "", fmt.Errorf("callBin / genFunctionWrapper / getFunc / runCfg not found in interp/run.go")
		}

		// ---- the per-argument switches
		var outer *ast.SwitchStmt
		if rs := find(cb, func(n ast.Node) bool {
			r, ok := n.(*ast.RangeStmt)
			return ok && str(r.X) == "child" && str(r.Key) == "i" && str(r.Value) == "c"
		}); rs != nil {
			for _, s := range rs.(*ast.RangeStmt).Body.List {
				if sw, ok := s.(*ast.SwitchStmt); ok && sw.Tag == nil {
					outer = sw
				}
			}
		}
		var outerArms []string
		arms := "[]"
		argCmp, argElem, defCmp, defElem := ".unrecognised", "false", ".unrecognised", "false"
		argSpread := "false"
		nestedRead := ".unrecognised"
		if outer == nil {
			note("the per-argument switch of callBin was not found")
		} else {
			var deflt *ast.CaseClause
			for _, s := range outer.Body.List {
				cc := s.(*ast.CaseClause)
				if cc.List == nil {
					outerArms = append(outerArms, "default")
					deflt = cc
				} else {
					outerArms = append(outerArms, str(cc.List[0]))
					if str(cc.List[0]) == "isBinCall(c, c.scope)" {
						if as := find(cc, func(n ast.Node) bool {
							a, ok := n.(*ast.AssignStmt)
							return ok && len(a.Lhs) == 1 && str(a.Lhs[0]) == "ind"
						}); as != nil {
							nestedRead = iexpr(as.(*ast.AssignStmt).Rhs[0], map[string]string{"c.findex": ".base", "j": ".i"})
						}
					}
				}
			}
			if deflt == nil {
				note("no default arm in the per-argument switch")
			} else {
				var inner *ast.SwitchStmt
				for _, s := range deflt.Body {
					if sw, ok := s.(*ast.SwitchStmt); ok && sw.Tag == nil {
						inner = sw
					}
				}
				if inner == nil {
					note("no inner switch in the default arm")
				} else {
					var items []string
					for _, s := range inner.Body.List {
						cc := s.(*ast.CaseClause)
						items = append(items, "⟨"+guardOf(cc)+", "+effectOf(cc.Body)+"⟩")
					}
					arms = "[" + strings.Join(items, ",\n      ") + "]"
				}
				dn := &ast.BlockStmt{List: deflt.Body}
				argCmp, argElem, argSpread = typeChoice(dn, "argType")
				var defSpread string
				defCmp, defElem, defSpread = typeChoice(dn, "defType")
				if defSpread == "true" {
					note("defType has a spread arm")
				}
			}
		}

		// ---- receiver offset
		recvGuard, rcvrCond := "false", ".unrecognised"
		recvGetMethod := "false"
		if n := find(cb, func(n ast.Node) bool {
			is, ok := n.(*ast.IfStmt)
			return ok && is.Init != nil && str(is.Init) == "recv := c0.recv"
		}); n != nil {
			is := n.(*ast.IfStmt)
			switch str(is.Cond) {
			case "recv != nil && c0.action == aGetMethod && !isInterface(recv.node.typ)":
				// since b1e4f7b: only a method selected at the call, not a variable holding a method value
				recvGuard, recvGetMethod = "true", "true"
			case "recv != nil && c0.action == aGetMethod":
				recvGetMethod = "true"
			case "recv != nil && !isInterface(recv.node.typ)":
				recvGuard = "true"
			case "recv != nil":
				recvGuard = "false"
			default:
				note("receiver guard: %s", str(is.Cond))
			}
			if len(is.Body.List) == 1 {
				if in, ok := is.Body.List[0].(*ast.IfStmt); ok && len(in.Body.List) == 1 && str(in.Body.List[0]) == "rcvrOffset = 1" && in.Else == nil {
					rcvrCond = cexpr(in.Cond)
				} else {
					note("receiver-offset statement: %s", str(is.Body.List[0]))
				}
			} else {
				note("receiver-offset block has %d statements", len(is.Body.List))
			}
		} else {
			note("receiver-offset rule not found")
		}

		// ---- variadic index
		variadicSub := "1000000"
		if n := find(cb, func(n ast.Node) bool {
			as, ok := n.(*ast.AssignStmt)
			return ok && as.Tok == token.ASSIGN && len(as.Lhs) == 1 && str(as.Lhs[0]) == "variadic"
		}); n != nil {
			rhs := n.(*ast.AssignStmt).Rhs[0]
			if be, ok := rhs.(*ast.BinaryExpr); ok && be.Op == token.SUB && str(be.X) == "funcType.NumIn()" {
				if bl, ok := be.Y.(*ast.BasicLit); ok {
					variadicSub = bl.Value
				}
			} else if str(rhs) == "funcType.NumIn()" {
				variadicSub = "0"
			}
		}
		if variadicSub == "1000000" {
			note("variadic index assignment not recognised")
		}

		// ---- Call / CallSlice / callVariadic
		// callBin: `callFn := <default>` followed by an `if` or a tagless `switch` that overrides it
		callArms := guardedCalls(cb, "callFn", "callBin")
		if n := find(cb, func(n ast.Node) bool {
			as, ok := n.(*ast.AssignStmt)
			return ok && as.Tok == token.DEFINE && len(as.Lhs) == 1 && str(as.Lhs[0]) == "callFn"
		}); n != nil {
			callArms = append(callArms, "⟨.always, "+callKind(n.(*ast.AssignStmt).Rhs[0])+"⟩")
		} else {
			note("callBin: no `callFn :=`")
		}
		// call, function-value branch: `callf = …` under `if hasVariadicArgs {} else {}` or a tagless switch
		cl := common.FindFunc(f, "", "call")
		var fvArms []string
		if cl == nil {
			note("call not found")
		} else {
			if find(cl, func(n ast.Node) bool { return str(n) == "hasVariadicArgs := n.action == aCallSlice" }) == nil {
				note("call: hasVariadicArgs is not `n.action == aCallSlice`")
			}
			fvArms = guardedCalls(cl, "callf", "call")
		}
		// call: the inner switch that prepares one argument (`default:` arm of the outer switch over the argument's form)
		callArgArms := "[]"
		if cl != nil {
			var inner *ast.SwitchStmt
			if rs := find(cl, func(n ast.Node) bool {
				r, ok := n.(*ast.RangeStmt)
				return ok && str(r.X) == "child" && str(r.Key) == "i" && str(r.Value) == "c"
			}); rs != nil {
				for _, st := range rs.(*ast.RangeStmt).Body.List {
					if sw, ok := st.(*ast.SwitchStmt); ok && sw.Tag == nil {
						for _, c := range sw.Body.List {
							if cc := c.(*ast.CaseClause); cc.List == nil {
								for _, b := range cc.Body {
									if sw2, ok := b.(*ast.SwitchStmt); ok && sw2.Tag == nil {
										inner = sw2
									}
								}
							}
						}
					}
				}
			}
			if inner == nil {
				note("call: the per-argument switch was not found")
			} else {
				spreadDef := find(cl, func(n ast.Node) bool { return nospace(str(n)) == "spread:=hasVariadicArgs&&i==len(child)-1" }) != nil
				var items []string
				for _, c := range inner.Body.List {
					cc := c.(*ast.CaseClause)
					g := ".unrecognised"
					switch {
					case cc.List == nil:
						g = ".default"
					case len(cc.List) == 1:
						switch nospace(str(cc.List[0])) {
						case "spread":
							if spreadDef {
								g = ".spreadArg"
							} else {
								note("call: `spread` is not `hasVariadicArgs && i == len(child)-1`")
							}
						case "hasVariadicArgs":
							g = ".ellipsisCall"
						case "isInterfaceSrc(arg)&&(!isEmptyInterface(arg)||len(c.typ.method)>0)":
							g = ".ifaceSrc"
						case "isInterfaceBin(arg)":
							g = ".ifaceBin"
						case "isFuncSrc(arg)":
							g = ".funcSrc"
						}
					}
					e := ".unrecognised"
					if len(cc.Body) == 1 {
						switch nospace(str(cc.Body[0])) {
						case "values=append(values,genValue(c))":
							e = ".raw"
						case "values=append(values,genValueInterface(c))":
							e = ".boxIface"
						case "values=append(values,genInterfaceWrapper(c,arg.rtype))":
							e = ".ifaceWrap"
						case "values=append(values,genFuncValue(c))":
							e = ".funcValue"
						}
					}
					if g == ".unrecognised" || e == ".unrecognised" {
						note("call: argument arm %s", str(cc))
					}
					items = append(items, "⟨"+g+", "+e+"⟩")
				}
				callArgArms = "[" + strings.Join(items, ", ") + "]"
			}
		}
		// host method values (getIndexBinMethod, getIndexBinElemMethod): `bindRecv(…).Method(m)` binds a copy of an addressable
		// receiver when the method value is evaluated (ab0ab0c); before, `value(f).Method(m)` kept the address of the variable
		hostBind, bindCopies := "false", "false"
		{
			total, bound := 0, 0
			for _, name := range []string{"getIndexBinMethod", "getIndexBinElemMethod"} {
				fd := common.FindFunc(f, "", name)
				if fd == nil {
					note("%s not found", name)
					continue
				}
				for _, n := range findAll(fd, func(n ast.Node) bool {
					ce, ok := n.(*ast.CallExpr)
					if !ok {
						return false
					}
					se, ok := ce.Fun.(*ast.SelectorExpr)
					return ok && se.Sel.Name == "Method" && len(ce.Args) == 1 && str(ce.Args[0]) == "m"
				}) {
					total++
					x := n.(*ast.CallExpr).Fun.(*ast.SelectorExpr).X
					if ce, ok := x.(*ast.CallExpr); ok && str(ce.Fun) == "bindRecv" && len(ce.Args) == 1 {
						bound++
					}
				}
			}
			switch {
			case total > 0 && bound == total:
				hostBind = "true"
			case bound == 0:
			default:
				note("host method values: %d of %d `.Method(m)` receivers go through bindRecv", bound, total)
			}
			if br := common.FindFunc(f, "", "bindRecv"); br != nil {
				l := br.Body.List
				if len(l) == 4 && nospace(str(l[0])) == "if!v.CanAddr(){returnv}" && nospace(str(l[1])) == "c:=reflect.New(v.Type()).Elem()" &&
					nospace(str(l[2])) == "c.Set(v)" && nospace(str(l[3])) == "returnc" {
					bindCopies = "true"
				} else {
					note("bindRecv: shape not recognised")
				}
			} else if hostBind == "true" {
				note("bindRecv is used but not declared in interp/run.go")
			}
		}
		// the helper callVariadic
		cvGuard, cvCmp, cvSub, cvThen, cvZero, cvElse := "false", ".unrecognised", "1000000", ".unrecognised", "false", ".unrecognised"
		if cv := common.FindFunc(f, "", "callVariadic"); cv != nil {
			ok := false
			if len(cv.Body.List) == 2 {
				is, ok1 := cv.Body.List[0].(*ast.IfStmt)
				rt, ok2 := cv.Body.List[1].(*ast.ReturnStmt)
				if ok1 && ok2 && is.Else == nil && str(is.Init) == "t := v.Type()" && len(is.Body.List) == 1 && len(rt.Results) == 1 {
					cond := unparen(is.Cond)
					if be, isB := cond.(*ast.BinaryExpr); isB && be.Op == token.LAND && str(be.X) == "t.IsVariadic()" {
						cvGuard = "true"
						cond = unparen(be.Y)
					}
					if be, isB := cond.(*ast.BinaryExpr); isB && str(be.X) == "len(in)" {
						if sub, isS := be.Y.(*ast.BinaryExpr); isS && sub.Op == token.SUB && str(sub.X) == "t.NumIn()" {
							if bl, isL := sub.Y.(*ast.BasicLit); isL && bl.Kind == token.INT {
								cvCmp, cvSub = cmpOf(be.Op), bl.Value
							}
						} else if str(be.Y) == "t.NumIn()" {
							cvCmp, cvSub = cmpOf(be.Op), "0"
						}
					}
					if r, isR := is.Body.List[0].(*ast.ReturnStmt); isR && len(r.Results) == 1 {
						switch nospace(str(r.Results[0])) {
						case "v.CallSlice(append(in,reflect.Zero(t.In(len(in)))))":
							cvThen, cvZero = ".callSlice", "true"
						case "v.CallSlice(in)":
							cvThen = ".callSlice"
						case "v.Call(in)":
							cvThen = ".call"
						}
					}
					switch nospace(str(rt.Results[0])) {
					case "v.Call(in)":
						cvElse = ".call"
					case "v.CallSlice(in)":
						cvElse = ".callSlice"
					}
					ok = cvCmp != ".unrecognised" && cvThen != ".unrecognised" && cvElse != ".unrecognised"
				}
			}
			if !ok {
				note("callVariadic: shape not recognised")
			}
		} else if strings.Contains(strings.Join(callArms, "")+strings.Join(fvArms, ""), "callVariadic") {
			note("callVariadic is used but not declared in interp/run.go")
		}
		// deferred calls: how the record is called …
		deferCall := ".unrecognised"
		if n := find(rc, func(n ast.Node) bool {
			r, ok := n.(*ast.RangeStmt)
			return ok && str(r.X) == "f.deferred"
		}); n != nil {
			deferCall = callKind(n)
			// since fix 215471a the loop runs each deferred call through the helper runDeferred (own recover)
			if deferCall == ".unrecognised" && find(n, func(n ast.Node) bool {
				ce, ok := n.(*ast.CallExpr)
				return ok && str(ce.Fun) == "runDeferred"
			}) != nil {
				if rd := common.FindFunc(f, "", "runDeferred"); rd != nil {
					// the call proper is the last statement: callVariadic(val[0], val[1:]) / val[0].Call(val[1:])
					if l := rd.Body.List; len(l) > 0 {
						switch nospace(str(l[len(l)-1])) {
						case "callVariadic(val[0],val[1:])":
							deferCall = ".callVariadic"
						case "val[0].Call(val[1:])":
							deferCall = ".call"
						case "val[0].CallSlice(val[1:])":
							deferCall = ".callSlice"
						}
					}
				}
			}
		}
		if deferCall == ".unrecognised" {
			note("deferred call not recognised")
		}
		// … and what the defer arms put into it: `if <ellipsis> { val[0] = deferCallSlice(val[0]) }`
		deferWrap := func(fd *ast.FuncDecl, cond string) string {
			if fd == nil {
				return "false"
			}
			var hits []ast.Node
			for _, n := range findAll(fd, func(n ast.Node) bool { return nospace(str(n)) == "val[0]=deferCallSlice(val[0])" }) {
				if _, ok := n.(*ast.AssignStmt); ok {
					hits = append(hits, n)
				}
			}
			if len(hits) == 0 {
				return "false"
			}
			guarded := findAll(fd, func(n ast.Node) bool {
				is, ok := n.(*ast.IfStmt)
				return ok && is.Init == nil && is.Else == nil && str(is.Cond) == cond && len(is.Body.List) == 1 &&
					nospace(str(is.Body.List[0])) == "val[0]=deferCallSlice(val[0])"
			})
			if len(hits) != 1 || len(guarded) != 1 {
				note("%s: %d deferCallSlice wrappings, %d under `if %s`", fd.Name.Name, len(hits), len(guarded), cond)
				return "false"
			}
			// it has to follow `val[0] = value(f)` in the same block (the defer arm)
			return "true"
		}
		deferWrapBin := deferWrap(cb, "n.action == aCallSlice")
		deferWrapCall := deferWrap(cl, "hasVariadicArgs")
		deferWrapKind, deferWrapVariadic := ".unrecognised", "false"
		if dc := common.FindFunc(f, "", "deferCallSlice"); dc != nil {
			if mk := find(dc, func(n ast.Node) bool {
				ce, ok := n.(*ast.CallExpr)
				return ok && str(ce.Fun) == "reflect.MakeFunc" && len(ce.Args) == 2
			}); mk != nil {
				ce := mk.(*ast.CallExpr)
				if fo, ok := ce.Args[0].(*ast.CallExpr); ok && str(fo.Fun) == "reflect.FuncOf" && len(fo.Args) == 3 &&
					str(fo.Args[0]) == "in" && str(fo.Args[1]) == "out" {
					switch str(fo.Args[2]) {
					case "false":
						deferWrapVariadic = "false"
					case "true", "t.IsVariadic()":
						deferWrapVariadic = "true"
					default:
						note("deferCallSlice: variadic flag %s", str(fo.Args[2]))
					}
				} else {
					note("deferCallSlice: type of the wrapper: %s", str(ce.Args[0]))
				}
				if lit, ok := ce.Args[1].(*ast.FuncLit); ok && len(lit.Body.List) == 1 {
					switch nospace(str(lit.Body.List[0])) {
					case "returnfn.CallSlice(args)":
						deferWrapKind = ".callSlice"
					case "returnfn.Call(args)":
						deferWrapKind = ".call"
					}
				}
			}
			if deferWrapKind == ".unrecognised" {
				note("deferCallSlice: shape not recognised")
			}
		} else if deferWrapBin == "true" || deferWrapCall == "true" {
			note("deferCallSlice is used but not declared in interp/run.go")
		}

		// ---- aAssignX, `q, r := hp.F(…)` (defineXStmt, variable not redeclared): the destination cell is re-created before the result is
		// stored, so that a pointer to / closure over the variable of an EARLIER execution keeps its value. Unconditionally?
		defineCell := ".unrecognised"
		{
			var hits []*ast.IfStmt
			for _, n := range findAll(cb, func(n ast.Node) bool {
				is, ok := n.(*ast.IfStmt)
				return ok && nospace(str(is.Cond)) == "n.anc.kind==defineXStmt&&!c.redeclared"
			}) {
				hits = append(hits, n.(*ast.IfStmt))
			}
			const alloc = "data[c.findex]=reflect.New(data[c.findex].Type()).Elem()"
			if len(hits) != 1 {
				note("aAssignX: %d `defineXStmt && !c.redeclared` blocks", len(hits))
			} else {
				body := hits[0].Body.List
				mode := ".never"
				for _, st := range body {
					switch x := st.(type) {
					case *ast.AssignStmt:
						if nospace(str(x)) == alloc {
							mode = ".always"
						}
					case *ast.IfStmt:
						if len(x.Body.List) == 1 && nospace(str(x.Body.List[0])) == alloc && x.Else == nil {
							if nospace(str(x.Cond)) == "!data[c.findex].IsZero()" {
								mode = ".whenNonZero"
							} else {
								note("aAssignX: the cell is re-created under `%s`", str(x.Cond))
								mode = ".unrecognised"
							}
						}
					}
				}
				n := len(body)
				if n < 2 || nospace(str(body[n-2])) != "data[c.findex].Set(out[i])" || nospace(str(body[n-1])) != "continue" ||
					nospace(str(body[0])) != "data:=getFrame(f,c.level).data" {
					note("aAssignX: shape of the defineX block not recognised")
					mode = ".unrecognised"
				}
				defineCell = mode
			}
		}

		// ---- the branch arm (`case fnext != nil:`): a host call used as a condition stores its bool result in its frame slot
		// (`getFrame(f, level).data[index].SetBool(…)`, index := n.findex) and returns tnext / fnext. Which outcomes are stored?
		branchStore, branchDst := ".unrecognised", ".unrecognised"
		if n := find(cb, func(n ast.Node) bool {
			cc, ok := n.(*ast.CaseClause)
			return ok && len(cc.List) == 1 && str(cc.List[0]) == "fnext != nil"
		}); n != nil {
			cc := n.(*ast.CaseClause)
			if as := find(cc, func(n ast.Node) bool {
				a, ok := n.(*ast.AssignStmt)
				return ok && a.Tok == token.DEFINE && len(a.Lhs) == 1 && str(a.Lhs[0]) == "index"
			}); as != nil {
				branchDst = iexpr(as.(*ast.AssignStmt).Rhs[0], map[string]string{"n.findex": ".base"})
			}
			if find(cc, func(n ast.Node) bool { return nospace(str(n)) == "level:=n.level" }) == nil {
				note("branch arm: `level := n.level` not found")
				branchDst = ".unrecognised"
			}
			var lit *ast.FuncLit
			if as := find(cc, func(n ast.Node) bool {
				a, ok := n.(*ast.AssignStmt)
				return ok && len(a.Lhs) == 1 && str(a.Lhs[0]) == "n.exec"
			}); as != nil {
				lit, _ = as.(*ast.AssignStmt).Rhs[0].(*ast.FuncLit)
			}
			isStore := func(st ast.Stmt) (string, bool) {
				es, ok := st.(*ast.ExprStmt)
				if !ok {
					return "", false
				}
				ce, ok := es.X.(*ast.CallExpr)
				if !ok || nospace(str(ce.Fun)) != "getFrame(f,level).data[index].SetBool" || len(ce.Args) != 1 {
					return "", false
				}
				return nospace(str(ce.Args[0])), true
			}
			isResult := func(e ast.Expr) bool { x := nospace(str(e)); return x == "b" || x == "res[0].Bool()" }
			if lit == nil {
				note("branch arm: n.exec is not a function literal")
			} else {
				onTrue, onFalse, bad := false, false, false
				total := 0
				ast.Inspect(lit, func(n ast.Node) bool {
					if st, ok := n.(ast.Stmt); ok {
						if _, ok := isStore(st); ok {
							total++
						}
					}
					return true
				})
				seen := 0
				returned := false // an earlier `if result { …; return tnext }` was passed: what follows runs on false only
				for _, st := range lit.Body.List {
					if arg, ok := isStore(st); ok {
						seen++
						switch {
						case returned && (arg == "false" || arg == "b" || arg == "res[0].Bool()"):
							onFalse = true
						case !returned && (arg == "b" || arg == "res[0].Bool()"):
							onTrue, onFalse = true, true
						default:
							bad = true
						}
						continue
					}
					is, ok := st.(*ast.IfStmt)
					if !ok || !isResult(is.Cond) {
						continue
					}
					for _, t := range is.Body.List {
						if arg, ok := isStore(t); ok {
							seen++
							if arg == "true" || arg == "b" || arg == "res[0].Bool()" {
								onTrue = true
							} else {
								bad = true
							}
						}
					}
					if eb, ok := is.Else.(*ast.BlockStmt); ok {
						for _, t := range eb.List {
							if arg, ok := isStore(t); ok {
								seen++
								if arg == "false" || arg == "b" || arg == "res[0].Bool()" {
									onFalse = true
								} else {
									bad = true
								}
							}
						}
					}
					if l := is.Body.List; len(l) > 0 {
						if _, ok := l[len(l)-1].(*ast.ReturnStmt); ok && is.Else == nil {
							returned = true
						}
					}
				}
				switch {
				case bad || seen != total:
					note("branch arm: %d stores of the result, %d recognised", total, seen)
				case onTrue && onFalse:
					branchStore = ".both"
				case onTrue:
					branchStore = ".trueOnly"
				case onFalse:
					branchStore = ".falseOnly"
				default:
					branchStore = ".never"
				}
			}
		} else {
			note("branch arm (`case fnext != nil`) not found")
		}
		if branchDst == ".unrecognised" {
			note("branch arm: destination index not recognised")
		}

		// ---- result routing
		assignSrc, assignDst, retDst, defDst := ".unrecognised", ".unrecognised", ".unrecognised", ".unrecognised"
		retBase := ".unrecognised"
		if n := find(cb, func(n ast.Node) bool {
			sw, ok := n.(*ast.SwitchStmt)
			return ok && sw.Tag != nil && str(sw.Tag) == "n.anc.action"
		}); n != nil {
			for _, s := range n.(*ast.SwitchStmt).Body.List {
				cc := s.(*ast.CaseClause)
				switch {
				case len(cc.List) == 1 && str(cc.List[0]) == "aAssignX":
					// destination: `c := n.anc.child[<idx>]` in the loop `for i := range rvalues`
					if rs := find(cc, func(n ast.Node) bool {
						r, ok := n.(*ast.RangeStmt)
						return ok && str(r.X) == "rvalues" && str(r.Key) == "i" && r.Value == nil
					}); rs != nil {
						if as := find(rs, func(n ast.Node) bool {
							a, ok := n.(*ast.AssignStmt)
							return ok && len(a.Lhs) == 1 && str(a.Lhs[0]) == "c"
						}); as != nil {
							if ix, ok := as.(*ast.AssignStmt).Rhs[0].(*ast.IndexExpr); ok && str(ix.X) == "n.anc.child" {
								assignDst = iexpr(ix.Index, map[string]string{"i": ".i"})
							}
						}
					}
					// source: `v(f).Set(out[<idx>])` in the loop `for i, v := range rvalues`
					if rs := find(cc, func(n ast.Node) bool {
						r, ok := n.(*ast.RangeStmt)
						return ok && str(r.X) == "rvalues" && str(r.Key) == "i" && str(r.Value) == "v"
					}); rs != nil {
						srcs := map[string]bool{}
						for _, c := range findAll(rs, func(n ast.Node) bool {
							ce, ok := n.(*ast.CallExpr)
							return ok && strings.HasSuffix(str(ce.Fun), ".Set") && len(ce.Args) == 1
						}) {
							if ix, ok := c.(*ast.CallExpr).Args[0].(*ast.IndexExpr); ok && str(ix.X) == "out" {
								srcs[iexpr(ix.Index, map[string]string{"i": ".i"})] = true
							}
						}
						if len(srcs) == 1 {
							for k := range srcs {
								assignSrc = k
							}
						} else {
							note("aAssignX: %d different source indexes", len(srcs))
						}
					}
				case len(cc.List) == 1 && str(cc.List[0]) == "aReturn":
					// `b := childPos(n)` (the result slot of the operand, until 28d3d87) or `b := 0; if len(n.anc.child) > 1 { b = n.findex }`
					// (the call's own location when the return statement has several operands: the statement assigns them)
					if as := find(cc, func(n ast.Node) bool {
						a, ok := n.(*ast.AssignStmt)
						return ok && a.Tok == token.DEFINE && len(a.Lhs) == 1 && str(a.Lhs[0]) == "b"
					}); as != nil {
						own := find(cc, func(n ast.Node) bool {
							is, ok := n.(*ast.IfStmt)
							return ok && is.Init == nil && is.Else == nil && nospace(str(is.Cond)) == "len(n.anc.child)>1" && len(is.Body.List) == 1 &&
								nospace(str(is.Body.List[0])) == "b=n.findex"
						}) != nil
						otherB := len(findAll(cc, func(n ast.Node) bool {
							a, ok := n.(*ast.AssignStmt)
							return ok && a.Tok == token.ASSIGN && len(a.Lhs) == 1 && str(a.Lhs[0]) == "b"
						}))
						switch rhs := str(as.(*ast.AssignStmt).Rhs[0]); {
						case rhs == "childPos(n)" && otherB == 0:
							retBase = ".childPos"
						case rhs == "0" && own && otherB == 1:
							retBase = ".zeroOrOwn"
						default:
							note("aReturn: base `b := %s`, %d further assignments", rhs, otherB)
						}
					} else {
						note("aReturn: no `b := …`")
					}
					if rs := find(cc, func(n ast.Node) bool {
						r, ok := n.(*ast.RangeStmt)
						return ok && str(r.X) == "out" && str(r.Key) == "i" && str(r.Value) == "v"
					}); rs != nil {
						if as := find(rs, func(n ast.Node) bool {
							a, ok := n.(*ast.AssignStmt)
							return ok && len(a.Lhs) == 1 && str(a.Lhs[0]) == "dest"
						}); as != nil {
							if ix, ok := as.(*ast.AssignStmt).Rhs[0].(*ast.IndexExpr); ok && str(ix.X) == "f.data" {
								retDst = iexpr(ix.Index, map[string]string{"i": ".i", "b": ".base"})
							}
						}
						if find(rs, func(n ast.Node) bool { return str(n) == "dest.Set(v)" }) == nil {
							note("aReturn: dest.Set(v) not found")
							retDst = ".unrecognised"
						}
					}
				case cc.List == nil:
					dsts := map[string]bool{}
					for _, c := range findAll(cc, func(n ast.Node) bool {
						ix, ok := n.(*ast.IndexExpr)
						return ok && str(ix.X) == "getFrame(f, n.level).data"
					}) {
						dsts[iexpr(c.(*ast.IndexExpr).Index, map[string]string{"i": ".i", "n.findex": ".base"})] = true
					}
					if len(dsts) == 1 {
						for k := range dsts {
							defDst = k
						}
					} else {
						note("default result store: %d different indexes", len(dsts))
					}
					if find(cc, func(n ast.Node) bool { return str(n) == "r := out[i]" }) == nil {
						note("default result store: r := out[i] not found")
						defDst = ".unrecognised"
					}
				}
			}
		} else {
			note("result-routing switch not found")
		}

		// ---- genFunctionWrapper / getFunc
		// the frame of an invocation: newCallFrame(interp, anc, length, epoch) since dc95f3e (run id and cancellation channel of the
		// interpreter unless the epoch the function value belongs to was cancelled; interp/interp.go, fingerprinted),
		// newCallFrame(anc, length) since 4a41b28, newFrame(anc, length, anc.runid()) before
		stmtIn := func(fd *ast.FuncDecl, stmts ...string) string {
			for _, st := range stmts {
				if find(fd, func(n ast.Node) bool { return str(n) == st }) != nil {
					return st
				}
			}
			return stmts[0]
		}
		wrapFrameStmt := stmtIn(gw, "fr := newCallFrame(n.interp, f, len(def.types), e)", "fr := newCallFrame(f, len(def.types))",
			"fr := newFrame(f, len(def.types), f.runid())")
		getFuncFrameStmt := stmtIn(gf, "fr2 := newCallFrame(n.interp, fr, len(n.types), fr.getEpoch())", "fr2 := newCallFrame(fr, len(n.types))",
			"fr2 := newFrame(fr, len(n.types), fr.runid())")
		wrapFrame := leanBool(find(gw, func(n ast.Node) bool { return str(n) == wrapFrameStmt }) != nil)
		wrapBase, wrapShift := ".unrecognised", "1000000"
		for _, n := range findAll(gw, func(n ast.Node) bool {
			as, ok := n.(*ast.AssignStmt)
			return ok && as.Tok == token.ASSIGN && len(as.Lhs) == 1 && str(as.Lhs[0]) == "d"
		}) {
			se, ok := n.(*ast.AssignStmt).Rhs[0].(*ast.SliceExpr)
			if !ok || str(se.X) != "d" || se.High != nil || se.Low == nil {
				note("genFunctionWrapper: %s", str(n))
				continue
			}
			if be, ok := se.Low.(*ast.BinaryExpr); ok && be.Op == token.ADD && str(be.X) == "numRet" {
				if bl, ok := be.Y.(*ast.BasicLit); ok {
					wrapShift = bl.Value
				}
			} else {
				wrapBase = iexpr(se.Low, map[string]string{"numRet": ".base"})
			}
		}
		// the frame is allocated by the function literal handed to reflect.MakeFunc (one frame per invocation)
		perCall := func(fd *ast.FuncDecl, stmt string) string {
			mk := find(fd, func(n ast.Node) bool {
				ce, ok := n.(*ast.CallExpr)
				return ok && str(ce.Fun) == "reflect.MakeFunc" && len(ce.Args) == 2
			})
			if mk == nil {
				note("%s: no reflect.MakeFunc call", fd.Name.Name)
				return "false"
			}
			lit, ok := mk.(*ast.CallExpr).Args[1].(*ast.FuncLit)
			if !ok {
				note("%s: reflect.MakeFunc is not given a function literal", fd.Name.Name)
				return "false"
			}
			all := findAll(fd, func(n ast.Node) bool { return str(n) == stmt })
			in := findAll(lit, func(n ast.Node) bool { return str(n) == stmt })
			if len(all) != 1 {
				note("%s: %d statements `%s`", fd.Name.Name, len(all), stmt)
				return "false"
			}
			return leanBool(len(in) == 1)
		}
		wrapPerCall := perCall(gw, wrapFrameStmt)
		getFuncPerCall := perCall(gf, getFuncFrameStmt)
		// The method receiver. `rcvr(f)` is read by the helper closure bindRecv (or, before 32d4f06, in line). A receiver read
		// from the script (`n.recv.node != nil`) is bound when the wrapper is made: `recv = bindRecv()` outside the literal given to
		// reflect.MakeFunc, `d[numRet].Set(recv)` inside. A receiver record without node (`late = n.recv.node == nil`: the value
		// held by an interface) is reached at each call: `case late: d[numRet].Set(bindRecv())` inside the literal.
		recvAtCreation, recvHeldAtCall := "false", "false"
		if mk := find(gw, func(n ast.Node) bool {
			ce, ok := n.(*ast.CallExpr)
			return ok && str(ce.Fun) == "reflect.MakeFunc" && len(ce.Args) == 2
		}); mk != nil {
			if lit, ok := mk.(*ast.CallExpr).Args[1].(*ast.FuncLit); ok {
				isRcvr := func(n ast.Node) bool { ce, ok := n.(*ast.CallExpr); return ok && str(ce.Fun) == "rcvr" }
				isBind := func(n ast.Node) bool { ce, ok := n.(*ast.CallExpr); return ok && str(ce.Fun) == "bindRecv" }
				all, in := findAll(gw, isRcvr), findAll(lit, isRcvr)
				stored := find(lit, func(n ast.Node) bool { return nospace(str(n)) == "d[numRet].Set(recv)" }) != nil
				var helper *ast.FuncLit
				if as := find(gw, func(n ast.Node) bool {
					a, ok := n.(*ast.AssignStmt)
					return ok && a.Tok == token.DEFINE && len(a.Lhs) == 1 && str(a.Lhs[0]) == "bindRecv"
				}); as != nil {
					helper, _ = as.(*ast.AssignStmt).Rhs[0].(*ast.FuncLit)
				}
				switch {
				case helper != nil:
					// the helper is declared outside the literal and is the only reader of the receiver
					inHelper := findAll(helper, isRcvr)
					bindAll, bindIn := findAll(gw, isBind), findAll(lit, isBind)
					early := findAll(gw, func(n ast.Node) bool {
						is, ok := n.(*ast.IfStmt)
						return ok && is.Else == nil && len(is.Body.List) == 1 && nospace(str(is.Body.List[0])) == "recv=bindRecv()" &&
							(str(is.Cond) == "rcvr != nil && !late" || str(is.Cond) == "rcvr != nil")
					})
					earlyInLit := findAll(lit, func(n ast.Node) bool { return nospace(str(n)) == "recv=bindRecv()" })
					lateDef := find(gw, func(n ast.Node) bool { return nospace(str(n)) == "late=n.recv.node==nil" }) != nil
					var lateArm *ast.CaseClause
					for _, n := range findAll(lit, func(n ast.Node) bool {
						cc, ok := n.(*ast.CaseClause)
						return ok && len(cc.List) == 1 && str(cc.List[0]) == "late"
					}) {
						lateArm = n.(*ast.CaseClause)
					}
					lateStores := lateArm != nil && len(lateArm.Body) == 2 && nospace(str(lateArm.Body[0])) == "d[numRet].Set(bindRecv())" &&
						nospace(str(lateArm.Body[1])) == "d=d[numRet+1:]"
					switch {
					case len(all) != 1 || len(inHelper) != 1 || len(in) != 0:
						note("genFunctionWrapper: %d reads of the receiver, %d in bindRecv, %d inside the MakeFunc literal", len(all), len(inHelper), len(in))
					case len(early) == 1 && len(earlyInLit) == 0 && stored && len(bindIn) == 0 && len(bindAll) == 1:
						recvAtCreation = "true" // no late arm at all
						if lateDef {
							note("genFunctionWrapper: `late` is set but no arm uses it")
						}
					case len(early) == 1 && len(earlyInLit) == 0 && stored && lateDef && lateStores && len(bindIn) == 1 && len(bindAll) == 2 &&
						str(early[0].(*ast.IfStmt).Cond) == "rcvr != nil && !late":
						recvAtCreation, recvHeldAtCall = "true", "true"
					default:
						note("genFunctionWrapper: bindRecv is called %d times (%d inside the MakeFunc literal), early binding %d, late arm %v",
							len(bindAll), len(bindIn), len(early), lateStores)
					}
				case len(all) == 1 && len(in) == 0 && stored:
					recvAtCreation = "true"
				case len(all) == 1 && len(in) == 1:
					recvAtCreation = "false"
				default:
					note("genFunctionWrapper: %d reads of the receiver (%d inside the MakeFunc literal), stored: %v", len(all), len(in), stored)
				}
			}
		}
		// genInterfaceWrapper: the receiver record of the method wrappers of an interface conversion — `&receiver{val: rv, index: …}`
		// with `rv := copyDeferArg(valueInterfaceValue(v))` (the value HELD by the interface, no node) since 32d4f06,
		// `&receiver{n, v, …}` (the converted expression's node) before
		ifaceHeld := "false"
		gi := common.FindFunc(f, "", "genInterfaceWrapperValue")
		if gi == nil {
			gi = common.FindFunc(f, "", "genInterfaceWrapper") // before bbd3913
		} else if gw0 := common.FindFunc(f, "", "genInterfaceWrapper"); gw0 == nil || len(gw0.Body.List) != 1 ||
			nospace(str(gw0.Body.List[0])) != "returngenInterfaceWrapperValue(n,typ,genValue(n))" {
			note("genInterfaceWrapper is not `return genInterfaceWrapperValue(n, typ, genValue(n))`")
		}
		if gi != nil {
			var held, byNode, other int
			for _, n := range findAll(gi, func(n ast.Node) bool {
				a, ok := n.(*ast.AssignStmt)
				return ok && a.Tok == token.ASSIGN && len(a.Lhs) == 1 && str(a.Lhs[0]) == "nod.recv"
			}) {
				rhs := nospace(str(n.(*ast.AssignStmt).Rhs[0]))
				switch {
				case strings.HasPrefix(rhs, "&receiver{val:rv,index:"):
					held++
				case strings.HasPrefix(rhs, "&receiver{n,v,"):
					byNode++
				default:
					other++
					note("genInterfaceWrapper: receiver record %s", rhs)
				}
			}
			rvCopy := find(gi, func(n ast.Node) bool { return nospace(str(n)) == "rv:=copyDeferArg(valueInterfaceValue(v))" }) != nil
			switch {
			case held > 0 && byNode == 0 && other == 0 && rvCopy:
				ifaceHeld = "true"
			case held == 0 && byNode > 0 && other == 0:
				ifaceHeld = "false"
			default:
				note("genInterfaceWrapper: %d receiver records by value, %d by node, copy of the held value: %v", held, byNode, rvCopy)
			}
		} else {
			note("genInterfaceWrapper not found")
		}
		skipShort := leanBool(find(gw, func(n ast.Node) bool {
			is, ok := n.(*ast.IfStmt)
			return ok && str(is.Cond) == "i >= len(d)" && len(is.Body.List) == 1 && str(is.Body.List[0]) == "break"
		}) != nil)
		resultOf := func(fd *ast.FuncDecl, recv string) (string, string) {
			var rets []ast.Node
			for _, n := range findAll(fd, func(n ast.Node) bool {
				r, ok := n.(*ast.ReturnStmt)
				return ok && len(r.Results) == 1 && strings.HasPrefix(str(r.Results[0]), recv+".data[")
			}) {
				rets = append(rets, n)
			}
			if len(rets) != 1 {
				note("%s: %d returns of %s.data[…]", fd.Name.Name, len(rets), recv)
				return "1000000", ".unrecognised"
			}
			return sliceBounds(rets[0].(*ast.ReturnStmt).Results[0], map[string]string{"numRet": ".base"})
		}
		wLo, wHi := resultOf(gw, "fr")
		gLo, gHi := resultOf(gf, "fr2")
		if wrapShift == "1000000" || wrapBase == ".unrecognised" {
			note("genFunctionWrapper: argument base not recognised")
		}

		// ---- fingerprints
		hashes := common.HashTable(fset, f, [][2]string{{"", "callBin"}, {"", "genFunctionWrapper"}, {"", "getFunc"}, {"", "call"},
			{"", "genInterfaceWrapper"}, {"", "methodByName"}, {"", "getFrame"}, {"", "genFunctionWrapperFor"}, {"", "genHostFunctionWrapper"}, {"", "callVariadic"}, {"", "deferCallSlice"}, {"", "runDeferred"},
			{"", "copyDeferArg"}, {"", "genInterfaceWrapperValue"}, {"", "bindRecv"}, {"", "getIndexBinMethod"}, {"", "getIndexBinElemMethod"},
			{"", "getIndexBinPtrMethod"}})
		hashes = strings.TrimSuffix(hashes, "]")
		for _, file := range []struct {
			rel   string
			names [][2]string
		}{
			{"interp/value.go", [][2]string{{"", "genValueInterface"}, {"", "genValueInterfaceValue"}, {"", "valueInterfaceValue"}, {"", "genFuncValue"},
				{"", "genValueAsFunctionWrapper"}, {"", "getConcreteValue"}, {"", "getBinValue"}, {"", "genValueArray"}, {"", "genValue"}, {"", "genValueRecv"}}},
			{"interp/program.go", [][2]string{{"Interpreter", "Execute"}}},
			{"interp/interp.go", [][2]string{{"", "newCallFrame"}, {"", "newFrame"}}},
			{"interp/use.go", [][2]string{{"Interpreter", "Symbols"}, {"", "getWrapper"}, {"Interpreter", "Use"}}},
			{"interp/scope.go", [][2]string{{"Interpreter", "Globals"}}},
			{"interp/type.go", [][2]string{{"", "isEmptyInterface"}, {"", "isInterfaceSrc"}, {"", "isFuncSrc"}, {"", "isPtrSrc"}, {"", "isInterfaceBin"},
				{"", "isInterface"}, {"", "wrappedType"}}},
			{"interp/cfg.go", [][2]string{{"", "isBinCall"}, {"", "isRegularCall"}, {"", "variadicPos"}, {"", "childPos"}}},
		} {
			fs2, f2, err := common.ParseFile(repo, file.rel)
			if err != nil {
				return "", err
			}
			h := common.HashTable(fs2, f2, file.names)
			hashes += ",\n   " + strings.TrimSuffix(strings.TrimPrefix(h, "["), "]")
		}
		hashes += "]"

		lo := func(s string) string {
			if _, err := strconv.Atoi(s); err != nil {
				return "1000000"
			}
			return s
		}
		src := fmt.Sprintf(`import YaegiVerif.Model.Boundary
namespace YaegiVerif.Generated.C07
open YaegiVerif.Boundary
/-- interp/run.go callBin, runCfg, genFunctionWrapper, getFunc -/
def facts : Facts :=
  { arms := %s,
    outerArms := %s,
    recvGuardNonIface := %s,
    recvGuardGetMethod := %s,
    rcvrCond := %s,
    variadicSub := %s,
    argTypeCmp := %s,
    argTypeElem := %s,
    argTypeSpreadArm := %s,
    defTypeCmp := %s,
    defTypeElem := %s,
    callArms := %s,
    fvArms := %s,
    callArgArms := %s,
    hostMethodBindsRecv := %s,
    bindRecvCopies := %s,
    cvGuardVariadic := %s,
    cvCmp := %s,
    cvSub := %s,
    cvThen := %s,
    cvAppendZero := %s,
    cvElse := %s,
    deferCall := %s,
    deferWrapBin := %s,
    deferWrapCall := %s,
    deferWrapKind := %s,
    deferWrapVariadic := %s,
    assignSrcIdx := %s,
    assignDstIdx := %s,
    returnDstIdx := %s,
    returnBase := %s,
    defaultDstIdx := %s,
    defineXCell := %s,
    branchDstIdx := %s,
    branchStore := %s,
    nestedReadIdx := %s,
    wrapFrameIsDefTypes := %s,
    wrapFramePerCall := %s,
    wrapRecvAtCreation := %s,
    wrapRecvHeldAtCall := %s,
    ifaceWrapRecvHeld := %s,
    getFuncFramePerCall := %s,
    wrapArgBase := %s,
    wrapRcvrShift := %s,
    wrapResLo := %s,
    wrapResHi := %s,
    wrapSkipShort := %s,
    getFuncResLo := %s,
    getFuncResHi := %s }
/-- constructs the extractor could not recognise (must be empty) -/
def notes : List String := %s
/-- fingerprints of the functions that Model/Boundary.lean transcribes -/
def sourceHashes : List (String × String) :=
  %s
end YaegiVerif.Generated.C07
`, arms, common.LeanStrList(outerArms), recvGuard, recvGetMethod, rcvrCond, lo(variadicSub), argCmp, argElem, argSpread, defCmp, defElem,
			"["+strings.Join(callArms, ", ")+"]", "["+strings.Join(fvArms, ", ")+"]", callArgArms, hostBind, bindCopies, cvGuard, cvCmp, lo(cvSub), cvThen, cvZero, cvElse,
			deferCall, deferWrapBin, deferWrapCall, deferWrapKind, deferWrapVariadic, assignSrc, assignDst, retDst, retBase, defDst, defineCell, branchDst, branchStore, nestedRead,
			wrapFrame, wrapPerCall, recvAtCreation, recvHeldAtCall, ifaceHeld, getFuncPerCall, wrapBase, lo(wrapShift), lo(wLo), wHi, skipShort, lo(gLo), gHi, common.LeanStrList(notes), hashes)
		return src, nil
	})
}
