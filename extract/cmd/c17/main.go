// extract-C17: the two tables of interp/build.go (keys whose value is the literal `true`) and the
// fingerprints of the functions Model/Build.lean transcribes.
package main

import (
	"fmt"
	"go/ast"
	"go/token"
	"sort"
	"strconv"

	"verif/extract/common"
)

func main() {
	common.Main("C17", func(repo string) (string, error) {
		fset, f, err := common.ParseFile(repo, "interp/build.go")
		if err != nil {
			return "", err
		}
		keys := func(name string) []string {
			cl, ok := common.FindVar(f, name).(*ast.CompositeLit)
			if !ok {
				return []string{"unrecognised: " + name + " is not a map literal"}
			}
			var out []string
			for _, e := range cl.Elts {
				kv, ok := e.(*ast.KeyValueExpr)
				if !ok {
					return []string{"unrecognised: element of " + name}
				}
				k, ok1 := kv.Key.(*ast.BasicLit)
				v, ok2 := kv.Value.(*ast.Ident)
				if !ok1 || k.Kind != token.STRING || !ok2 {
					return []string{"unrecognised: entry of " + name}
				}
				s, _ := strconv.Unquote(k.Value)
				if v.Name == "true" {
					out = append(out, s)
				}
			}
			sort.Strings(out)
			return out
		}
		return fmt.Sprintf(`import YaegiVerif.Model.Build
namespace YaegiVerif.Generated.C17
open YaegiVerif.Build
/-- interp/build.go: knownOs, knownArch (sorted keys) -/
def known : Known :=
  { os := %s,
    arch := %s }
/-- interp/build.go: unixOs (sorted keys) -/
def unixOs : List String := %s
/-- fingerprints of the functions that Model/Build.lean transcribes -/
def sourceHashes : List (String × String) :=
  %s
end YaegiVerif.Generated.C17
`, common.LeanStrList(keys("knownOs")), common.LeanStrList(keys("knownArch")), common.LeanStrList(keys("unixOs")),
			common.HashTable(fset, f, [][2]string{{"Interpreter", "buildOk"}, {"", "buildLineOk"}, {"", "buildOptionOk"},
				{"", "buildTagOk"}, {"", "goMinorVersion"}, {"", "contains"}, {"", "skipFile"}, {"", "matchTag"}, {"", "isValidTag"}})), nil
	})
}
