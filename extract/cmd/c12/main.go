// extract-C12: the facts the C12 model is parametrised by, re-read from the working tree.
//
//   - interp/typecheck.go: unaryOpPredicates / binaryOpPredicates (action ↦ predicate names), bitlen,
//     the comparison operator of the argument-count test of `arguments`;
//   - interp/type.go: for every kind predicate (isNumber, isInt, …) the reflect kinds it accepts itself and
//     the predicates it delegates to;
//   - interp/cfg.go: whether the landExpr/lorExpr and sendStmt cases call the type checker, whether every
//     `cond.rval.Bool()` of the if/for cases is guarded by the boolean test, the operators of the two
//     count tests of returnStmt;
//   - interp/interp.go, interp/program.go: the statement list of eval and compileSrc, the call graph among
//     the entry points, the callers of Execute, the functions reachable from CompileAST that run code;
//   - fingerprints of every function and case clause the model transcribes.
package main

import (
	"bytes"
	"crypto/sha256"
	"fmt"
	"go/ast"
	"go/parser"
	"go/printer"
	"go/token"
	"os"
	"path/filepath"
	"sort"
	"strings"

	"verif/extract/common"
)

func src(n ast.Node) string {
	var b bytes.Buffer
	if err := (&printer.Config{Mode: printer.RawFormat}).Fprint(&b, token.NewFileSet(), n); err != nil {
		return "unrecognised: " + err.Error()
	}
	return strings.Join(strings.Fields(b.String()), " ")
}

var knownActions = map[string]bool{"aInc": true, "aDec": true, "aPos": true, "aNeg": true, "aBitNot": true, "aNot": true,
	"aAdd": true, "aSub": true, "aMul": true, "aQuo": true, "aRem": true, "aAnd": true, "aOr": true, "aXor": true, "aAndNot": true,
	"aLand": true, "aLor": true}
var knownPreds = map[string]bool{"isNumber": true, "isInt": true, "isUint": true, "isFloat": true, "isComplex": true, "isBoolean": true,
	"isString": true, "isConstantValue": true}
var kindNames = map[string]string{"Bool": "bool", "Int": "int", "Int8": "int8", "Int16": "int16", "Int32": "int32", "Int64": "int64",
	"Uint": "uint", "Uint8": "uint8", "Uint16": "uint16", "Uint32": "uint32", "Uint64": "uint64", "Uintptr": "uintptr",
	"Float32": "float32", "Float64": "float64", "Complex64": "complex64", "Complex128": "complex128", "Array": "array", "Chan": "chan",
	"Func": "func", "Interface": "interface", "Map": "map", "Ptr": "ptr", "Pointer": "ptr", "Slice": "slice", "String": "string",
	"Struct": "struct", "UnsafePointer": "unsafePointer"}

func action(s string) string {
	if knownActions[s] {
		return "." + s
	}
	return ".other " + common.LeanStr(s)
}

func pred(s string) string {
	if knownPreds[s] {
		return "." + s
	}
	return ".other " + common.LeanStr(s)
}

// disjuncts flattens `a || b || c`.
func disjuncts(e ast.Expr) []ast.Expr {
	if p, ok := e.(*ast.ParenExpr); ok {
		return disjuncts(p.X)
	}
	if b, ok := e.(*ast.BinaryExpr); ok && b.Op == token.LOR {
		return append(disjuncts(b.X), disjuncts(b.Y)...)
	}
	return []ast.Expr{e}
}

func conjuncts(e ast.Expr) []ast.Expr {
	if p, ok := e.(*ast.ParenExpr); ok {
		return conjuncts(p.X)
	}
	if b, ok := e.(*ast.BinaryExpr); ok && b.Op == token.LAND {
		return append(conjuncts(b.X), conjuncts(b.Y)...)
	}
	return []ast.Expr{e}
}

// predCall recognises `isX(<ident>)` and returns X.
func predCall(e ast.Expr) (string, bool) {
	c, ok := e.(*ast.CallExpr)
	if !ok || len(c.Args) != 1 {
		return "", false
	}
	id, ok := c.Fun.(*ast.Ident)
	if !ok {
		return "", false
	}
	if _, ok := c.Args[0].(*ast.Ident); !ok {
		return "", false
	}
	return id.Name, true
}

// tableEntry: the value of one entry of an opPredicates literal as a disjunction of predicate names.
func tableEntry(v ast.Expr) []string {
	switch x := v.(type) {
	case *ast.Ident:
		return []string{pred(x.Name)}
	case *ast.FuncLit:
		if len(x.Body.List) == 1 {
			if r, ok := x.Body.List[0].(*ast.ReturnStmt); ok && len(r.Results) == 1 {
				var out []string
				for _, d := range disjuncts(r.Results[0]) {
					p, ok := predCall(d)
					if !ok {
						return []string{".other " + common.LeanStr("unrecognised: "+src(v))}
					}
					out = append(out, pred(p))
				}
				return out
			}
		}
	}
	return []string{".other " + common.LeanStr("unrecognised: "+src(v))}
}

func table(f *ast.File, name string) string {
	cl, ok := common.FindVar(f, name).(*ast.CompositeLit)
	if !ok {
		return "[(.other " + common.LeanStr("unrecognised: "+name+" is not a composite literal") + ", [])]"
	}
	var rows []string
	for _, e := range cl.Elts {
		kv, ok := e.(*ast.KeyValueExpr)
		if !ok {
			rows = append(rows, "(.other "+common.LeanStr("unrecognised: "+src(e))+", [])")
			continue
		}
		k := "unrecognised: " + src(kv.Key)
		if id, ok := kv.Key.(*ast.Ident); ok {
			k = id.Name
		}
		rows = append(rows, "("+action(k)+", ["+strings.Join(tableEntry(kv.Value), ", ")+"])")
	}
	return "[" + strings.Join(rows, ",\n     ") + "]"
}

// reflectKind recognises `reflect.X`.
func reflectKind(e ast.Expr) (string, bool) {
	s, ok := e.(*ast.SelectorExpr)
	if !ok {
		return "", false
	}
	if id, ok := s.X.(*ast.Ident); !ok || id.Name != "reflect" {
		return "", false
	}
	k, ok := kindNames[s.Sel.Name]
	return k, ok
}

// predicate analyses one `func isX(t reflect.Type) bool`: kinds accepted directly, predicates delegated to.
func predicate(f *ast.File, name string) (kinds []string, calls []string, ok bool) {
	fd := common.FindFunc(f, "", name)
	if fd == nil || fd.Body == nil {
		return nil, nil, false
	}
	ok = true
	for _, st := range fd.Body.List {
		switch s := st.(type) {
		case *ast.IfStmt:
			// `if t == nil { return false }`
			if src(s) != "if t == nil { return false }" {
				ok = false
			}
		case *ast.SwitchStmt:
			if src(s.Tag) != "t.Kind()" || s.Init != nil {
				ok = false
				break
			}
			for _, c := range s.Body.List {
				cc := c.(*ast.CaseClause)
				if len(cc.Body) != 1 || src(cc.Body[0]) != "return true" {
					ok = false
					continue
				}
				for _, e := range cc.List {
					k, isK := reflectKind(e)
					if !isK {
						ok = false
						continue
					}
					kinds = append(kinds, k)
				}
			}
		case *ast.ReturnStmt:
			if len(s.Results) != 1 {
				ok = false
				break
			}
			if src(s.Results[0]) == "false" {
				break
			}
			for _, d := range disjuncts(s.Results[0]) {
				if p, isP := predCall(d); isP {
					calls = append(calls, p)
					continue
				}
				// `t != nil && t.Kind() == reflect.X` / `t != nil && t.Implements(constVal)`
				cs := conjuncts(d)
				if len(cs) == 2 && src(cs[0]) == "t != nil" {
					if b, isB := cs[1].(*ast.BinaryExpr); isB && b.Op == token.EQL && src(b.X) == "t.Kind()" {
						if k, isK := reflectKind(b.Y); isK {
							kinds = append(kinds, k)
							continue
						}
					}
					if src(cs[1]) == "t.Implements(constVal)" {
						continue // a property of the type, not of its kind: no kind is accepted on that ground
					}
				}
				ok = false
			}
		default:
			ok = false
		}
	}
	return kinds, calls, ok
}

func kindList(ks []string) string {
	p := make([]string, len(ks))
	for i, k := range ks {
		p[i] = "." + k
	}
	return "[" + strings.Join(p, ", ") + "]"
}

// cfgClauses returns the case clauses of (*Interpreter).cfg by kind name, with the occurrence number.
func cfgClauses(f *ast.File) map[string][]*ast.CaseClause {
	out := map[string][]*ast.CaseClause{}
	cfg := common.FindFunc(f, "Interpreter", "cfg")
	if cfg == nil {
		return out
	}
	ast.Inspect(cfg, func(n ast.Node) bool {
		cc, ok := n.(*ast.CaseClause)
		if !ok {
			return true
		}
		for _, e := range cc.List {
			if id, ok := e.(*ast.Ident); ok {
				out[id.Name] = append(out[id.Name], cc)
			}
		}
		return true
	})
	return out
}

// lastClause: the post-order clause of a kind is the last one in source order.
func lastClause(m map[string][]*ast.CaseClause, kind string) *ast.CaseClause {
	cs := m[kind]
	if len(cs) == 0 {
		return nil
	}
	return cs[len(cs)-1]
}

func callsChecker(cc *ast.CaseClause) bool {
	found := false
	for _, st := range cc.Body {
		ast.Inspect(st, func(n ast.Node) bool {
			if c, ok := n.(*ast.CallExpr); ok {
				if s, ok := c.Fun.(*ast.SelectorExpr); ok {
					if id, ok := s.X.(*ast.Ident); ok && id.Name == "check" {
						found = true
					}
				}
			}
			return true
		})
	}
	return found
}

// condGuarded: in this clause every `cond.rval.Bool()` is reached only when the condition is boolean:
// the `if !isBool(cond.typ) { … }` statement ends by leaving the clause, or the call sits under a test
// of isBool(cond.typ) / err == nil.
func condGuarded(cc *ast.CaseClause) (hasBool bool, guarded bool) {
	guarded = true
	leaves := false
	for _, st := range cc.Body {
		if is, ok := st.(*ast.IfStmt); ok && src(is.Cond) == "!isBool(cond.typ)" && len(is.Body.List) > 0 {
			switch l := is.Body.List[len(is.Body.List)-1].(type) {
			case *ast.BranchStmt:
				leaves = l.Tok == token.BREAK
			case *ast.ReturnStmt:
				leaves = true
			}
		}
	}
	var walk func(n ast.Node, under bool)
	walk = func(n ast.Node, under bool) {
		switch x := n.(type) {
		case *ast.IfStmt:
			c := src(x.Cond)
			u := under || strings.Contains(c, "isBool(cond.typ)") && !strings.Contains(c, "!isBool(cond.typ)") || strings.Contains(c, "err == nil")
			walk(x.Cond, under)
			walk(x.Body, u)
			if x.Else != nil {
				walk(x.Else, under)
			}
			return
		case *ast.CallExpr:
			if src(x) == "cond.rval.Bool()" {
				hasBool = true
				if !under && !leaves {
					guarded = false
				}
			}
		}
		ast.Inspect(n, func(m ast.Node) bool {
			if m == n || m == nil {
				return true
			}
			switch m.(type) {
			case *ast.IfStmt, *ast.CallExpr:
				walk(m, under)
				return false
			}
			return true
		})
	}
	for _, st := range cc.Body {
		walk(st, false)
	}
	return hasBool, guarded
}

func cmpTok(t token.Token) string {
	switch t {
	case token.LSS:
		return ".lt"
	case token.LEQ:
		return ".le"
	case token.GTR:
		return ".gt"
	case token.GEQ:
		return ".ge"
	case token.EQL:
		return ".eq"
	case token.NEQ:
		return ".ne"
	}
	return ".other " + common.LeanStr(t.String())
}

// findCmp finds, under n, the condition `<lhs> OP <rhs>` of an if statement with the given operand texts.
func findCmp(n ast.Node, lhs, rhs string) string {
	res := ".other " + common.LeanStr("unrecognised: no test of "+lhs+" against "+rhs)
	ast.Inspect(n, func(m ast.Node) bool {
		if is, ok := m.(*ast.IfStmt); ok {
			if b, ok := is.Cond.(*ast.BinaryExpr); ok && src(b.X) == lhs && src(b.Y) == rhs {
				res = cmpTok(b.Op)
			}
		}
		return true
	})
	return res
}

// steps renders the statements of a small function body.
func steps(body []ast.Stmt) string {
	var out []string
	for _, st := range body {
		s := src(st)
		switch x := st.(type) {
		case *ast.AssignStmt:
			if len(x.Lhs) == 2 && src(x.Lhs[1]) == "err" && len(x.Rhs) == 1 {
				if c, ok := x.Rhs[0].(*ast.CallExpr); ok {
					if sel, ok := c.Fun.(*ast.SelectorExpr); ok && src(sel.X) == "interp" {
						out = append(out, ".assignErrCall "+common.LeanStr(sel.Sel.Name))
						continue
					}
				}
			}
		case *ast.IfStmt:
			if x.Init == nil && x.Else == nil && len(x.Body.List) == 1 {
				if r, ok := x.Body.List[0].(*ast.ReturnStmt); ok {
					if src(x.Cond) == "err != nil" && len(r.Results) > 0 && src(r.Results[len(r.Results)-1]) == "err" {
						out = append(out, ".ifErrReturn")
						continue
					}
					if sel, ok := x.Cond.(*ast.SelectorExpr); ok && src(sel.X) == "interp" {
						out = append(out, ".ifFlagReturn "+common.LeanStr(sel.Sel.Name))
						continue
					}
				}
			}
		case *ast.ReturnStmt:
			if len(x.Results) == 1 {
				if c, ok := x.Results[0].(*ast.CallExpr); ok {
					if sel, ok := c.Fun.(*ast.SelectorExpr); ok && src(sel.X) == "interp" {
						out = append(out, ".returnCall "+common.LeanStr(sel.Sel.Name))
						continue
					}
				}
			}
		}
		out = append(out, ".other "+common.LeanStr(s))
	}
	return "[" + strings.Join(out, ", ") + "]"
}

// pkgFuncs parses every non-test, non-verif file of interp/ and returns name -> declaration
// (methods are keyed by their bare name; the package has no clashes among the names used here).
func pkgFuncs(repo string) (map[string]*ast.FuncDecl, error) {
	out := map[string]*ast.FuncDecl{}
	files, err := filepath.Glob(filepath.Join(repo, "interp", "*.go"))
	if err != nil {
		return nil, err
	}
	for _, p := range files {
		b := filepath.Base(p)
		if strings.HasSuffix(b, "_test.go") || strings.HasPrefix(b, "verif_") {
			continue
		}
		f, err := parser.ParseFile(token.NewFileSet(), p, nil, 0)
		if err != nil {
			return nil, err
		}
		for _, d := range f.Decls {
			if fd, ok := d.(*ast.FuncDecl); ok && fd.Body != nil {
				if _, dup := out[fd.Name.Name]; dup {
					// keep the method of *Interpreter when names clash
					if fd.Recv == nil || !strings.Contains(src(fd.Recv.List[0].Type), "Interpreter") {
						continue
					}
				}
				out[fd.Name.Name] = fd
			}
		}
	}
	return out, nil
}

// callees: names of package-level functions and of methods of the interpreter called in fd's body. A
// selector call counts only when its receiver expression is the interpreter itself (`interp`, `n.interp`,
// `sc.interp`, …): methods of other types that happen to share a name (constraint.Expr.Eval,
// template.Execute) are not calls into the pipeline.
func callees(fd *ast.FuncDecl, funcs map[string]*ast.FuncDecl) []string {
	seen := map[string]bool{}
	ast.Inspect(fd.Body, func(n ast.Node) bool {
		if c, ok := n.(*ast.CallExpr); ok {
			name := ""
			switch f := c.Fun.(type) {
			case *ast.Ident:
				name = f.Name
			case *ast.SelectorExpr:
				if r := src(f.X); r == "interp" || strings.HasSuffix(r, ".interp") {
					name = f.Sel.Name
				} else if d, ok := funcs[f.Sel.Name]; ok && d.Recv != nil && !strings.Contains(src(d.Recv.List[0].Type), "Interpreter") {
					name = f.Sel.Name // method of another type of the package (scope, node, itype …)
				}
			}
			if _, ok := funcs[name]; ok {
				seen[name] = true
			}
		}
		return true
	})
	var out []string
	for k := range seen {
		out = append(out, k)
	}
	sort.Strings(out)
	return out
}

// callsMethod: does fd call the interpreter's method / the package function sel
func callsMethod(fd *ast.FuncDecl, sel string) bool {
	found := false
	ast.Inspect(fd.Body, func(n ast.Node) bool {
		if c, ok := n.(*ast.CallExpr); ok {
			if s, ok := c.Fun.(*ast.SelectorExpr); ok && s.Sel.Name == sel {
				if r := src(s.X); r == "interp" || strings.HasSuffix(r, ".interp") || r == "i" {
					found = true
				}
			}
			if id, ok := c.Fun.(*ast.Ident); ok && id.Name == sel {
				found = true
			}
		}
		return true
	})
	return found
}

func clauseHash(cc *ast.CaseClause) string {
	if cc == nil {
		return "unrecognised: no such case"
	}
	return fmt.Sprintf("%x", sha256.Sum256([]byte(src(cc))))[:16]
}

// clauseWith: the case clause of cfg, among those of the given kind, whose body contains the text marker.
func clauseWith(m map[string][]*ast.CaseClause, kind, marker string) *ast.CaseClause {
	var found *ast.CaseClause
	for _, cc := range m[kind] {
		for _, st := range cc.Body {
			if strings.Contains(src(st), marker) {
				found = cc
			}
		}
	}
	return found
}

// findIf: the first if statement under n whose condition has the given text.
func findIf(n ast.Node, cond string) *ast.IfStmt {
	var res *ast.IfStmt
	if n == nil {
		return nil
	}
	ast.Inspect(n, func(m ast.Node) bool {
		if is, ok := m.(*ast.IfStmt); ok && res == nil && src(is.Cond) == cond {
			res = is
		}
		return res == nil
	})
	return res
}

// endsWith: the last statement of the block has the given text.
func endsWith(b *ast.BlockStmt, text string) bool {
	return b != nil && len(b.List) > 0 && src(b.List[len(b.List)-1]) == text
}

// setsErr: the block assigns a cfgErrorf to err (or returns one).
func setsErr(b *ast.BlockStmt) bool {
	return b != nil && strings.Contains(src(b), "cfgErrorf(")
}

// innerCase: the clause of a tagless switch under n whose (single) expression contains the marker.
func innerCase(n ast.Node, marker string) *ast.CaseClause {
	var res *ast.CaseClause
	if n == nil {
		return nil
	}
	ast.Inspect(n, func(m ast.Node) bool {
		if cc, ok := m.(*ast.CaseClause); ok && res == nil && len(cc.List) == 1 && strings.Contains(src(cc.List[0]), marker) {
			res = cc
		}
		return res == nil
	})
	return res
}

func main() {
	common.Main("C12", func(repo string) (string, error) {
		fsetT, tc, err := common.ParseFile(repo, "interp/typecheck.go")
		if err != nil {
			return "", err
		}
		fsetY, ty, err := common.ParseFile(repo, "interp/type.go")
		if err != nil {
			return "", err
		}
		_, cfg, err := common.ParseFile(repo, "interp/cfg.go")
		if err != nil {
			return "", err
		}
		fsetI, ip, err := common.ParseFile(repo, "interp/interp.go")
		if err != nil {
			return "", err
		}
		fsetP, pg, err := common.ParseFile(repo, "interp/program.go")
		if err != nil {
			return "", err
		}
		fsetV, vl, err := common.ParseFile(repo, "interp/value.go")
		if err != nil {
			return "", err
		}
		var b strings.Builder
		b.WriteString("import YaegiVerif.Model.Typecheck\nnamespace YaegiVerif.Generated.C12\nopen YaegiVerif.Typecheck\n")

		// ---- operator tables and predicates
		var pk, pc []string
		for _, p := range []string{"isNumber", "isInt", "isUint", "isFloat", "isComplex", "isBoolean", "isString", "isConstantValue"} {
			kinds, calls, ok := predicate(ty, p)
			if !ok {
				pk = append(pk, "(.other "+common.LeanStr("unrecognised: body of "+p)+", [])")
				continue
			}
			pk = append(pk, "("+pred(p)+", "+kindList(kinds)+")")
			cs := make([]string, len(calls))
			for i, c := range calls {
				cs[i] = pred(c)
			}
			pc = append(pc, "("+pred(p)+", ["+strings.Join(cs, ", ")+"])")
		}
		// bitlen
		var bl []string
		if cl, ok := common.FindVar(tc, "bitlen").(*ast.CompositeLit); ok {
			for _, e := range cl.Elts {
				kv, ok := e.(*ast.KeyValueExpr)
				if !ok {
					bl = append(bl, "(.unsafePointer, 0)")
					continue
				}
				k, okK := reflectKind(kv.Key)
				v, okV := kv.Value.(*ast.BasicLit)
				if !okK || !okV || v.Kind != token.INT {
					bl = append(bl, "(.unsafePointer, 0)")
					continue
				}
				bl = append(bl, "(."+k+", "+v.Value+")")
			}
		} else {
			bl = append(bl, "(.unsafePointer, 0)")
		}
		// representableConst, integer arm, signed kinds: bit-length test (constant.BitLen after the clause) or exact range inside the clause
		signedRepr := ".other " + common.LeanStr("unrecognised: representableConst")
		if fd := common.FindFunc(tc, "", "representableConst"); fd != nil {
			ast.Inspect(fd, func(n ast.Node) bool {
				cc, ok := n.(*ast.CaseClause)
				if !ok || len(cc.List) == 0 || src(cc.List[0]) != "reflect.Int" {
					return true
				}
				body := ""
				for _, st := range cc.Body {
					body += src(st) + " ; "
				}
				switch {
				case body == "if _, ok := constant.Int64Val(x); !ok { return false } ; ":
					signedRepr = ".bitLen"
				case strings.Contains(body, "return -1<<(s-1) <= v && v <= 1<<(s-1)-1") && strings.Contains(body, "s := uint(bitlen[t.Kind()])") &&
					strings.Contains(body, "v, ok := constant.Int64Val(x)"):
					signedRepr = ".exactRange"
				default:
					signedRepr = ".other " + common.LeanStr(body)
				}
				return true
			})
		}
		// convertUntyped: the arm for basic target types starts by rejecting nil and a boolean / non-boolean mix
		convGuard := false
		if fd := common.FindFunc(tc, "typecheck", "convertUntyped"); fd != nil {
			if cc := innerCase(fd, "isNumber(ttyp) || isString(ttyp) || isBoolean(ttyp)"); cc != nil && src(cc.List[0]) == "isNumber(ttyp) || isString(ttyp) || isBoolean(ttyp)" && len(cc.Body) > 0 {
				if is, ok := cc.Body[0].(*ast.IfStmt); ok && src(is.Cond) == "n.typ.isNil() || isBoolean(ntyp) != isBoolean(ttyp)" && endsWith(is.Body, "return convErr") {
					convGuard = true
				}
			}
		}
		// assignableTo: `if t.isNil() || o.isNil() { return false }` before the reflect AssignableTo test
		nilGuard := false
		if fd := common.FindFunc(ty, "itype", "assignableTo"); fd != nil {
			seenGuard := false
			for _, st := range fd.Body.List {
				is, ok := st.(*ast.IfStmt)
				if !ok {
					continue
				}
				if src(is.Cond) == "t.isNil() || o.isNil()" && len(is.Body.List) == 1 && src(is.Body.List[0]) == "return false" {
					seenGuard = true
				}
				if src(is.Cond) == "t.TypeOf().AssignableTo(o.TypeOf())" {
					nilGuard = seenGuard
					break
				}
			}
		}
		// assignment: which variable receives the default type of an untyped operand assigned to an interface,
		// which one is passed to convertUntyped, and `typ` itself goes to assignableTo
		constIface := false
		if fd := common.FindFunc(tc, "typecheck", "assignment"); fd != nil {
			lhs, conv := "", ""
			ast.Inspect(fd, func(n ast.Node) bool {
				switch x := n.(type) {
				case *ast.AssignStmt:
					if len(x.Lhs) == 1 && len(x.Rhs) == 1 && src(x.Rhs[0]) == "n.typ.defaultType(n.rval, check.scope)" {
						lhs = src(x.Lhs[0])
					}
				case *ast.CallExpr:
					if src(x.Fun) == "check.convertUntyped" && len(x.Args) == 2 && src(x.Args[0]) == "n" {
						conv = src(x.Args[1])
					}
				}
				return true
			})
			constIface = lhs == "ctyp" && conv == "ctyp" && strings.Contains(src(fd), "ctyp := typ") && strings.Contains(src(fd), "!n.typ.assignableTo(typ)")
		}
		// comparison: the channel pairs exempted from the identity test of non-interface operands
		chanCmp := ".other " + common.LeanStr("unrecognised: comparison")
		if fd := common.FindFunc(tc, "typecheck", "comparison"); fd != nil {
			const pre = "!isInterface(t0) && !isInterface(t1) && !t0.isNil() && !t1.isNil() && t0.untyped == t1.untyped && t0.id() != t1.id() && !typeDefined(t0, t1)"
			ast.Inspect(fd, func(n ast.Node) bool {
				is, ok := n.(*ast.IfStmt)
				if !ok || !strings.HasPrefix(src(is.Cond), pre) {
					return true
				}
				switch rest := strings.TrimPrefix(src(is.Cond), pre); rest {
				case "":
					chanCmp = ".identical"
				case ` && !(isChan(t0) && isChan(t1) && (t0.name == "" || t1.name == ""))`:
					chanCmp = ".unnamedPair"
				case " && !chanComparable(t0, t1)":
					chanCmp = ".other " + common.LeanStr("unrecognised: chanComparable")
					if cd := common.FindFunc(tc, "", "chanComparable"); cd != nil {
						var parts []string
						for _, st := range cd.Body.List {
							parts = append(parts, src(st))
						}
						if strings.Join(parts, " ; ") == `if !isChan(t0) || !isChan(t1) || t0.name != "" && t1.name != "" { return false } ; `+
							`if t0.TypeOf().ChanDir() != reflect.BothDir && t1.TypeOf().ChanDir() != reflect.BothDir { return false } ; `+
							`e0, e1 := chanElement(t0), chanElement(t1) ; return e0 != nil && e1 != nil && e0.id() == e1.id()` {
							chanCmp = ".sameElemOneBidir"
						}
					}
				default:
					chanCmp = ".other " + common.LeanStr(rest)
				}
				return false
			})
		}
		// shift: the constant.Value assertion of the shifted operand is guarded; a negative signed constant count is an error
		shiftBool, shiftNeg := false, false
		if fd := common.FindFunc(tc, "typecheck", "shift"); fd != nil {
			shiftBool = strings.Contains(src(fd), "if c, ok := c0.rval.Interface().(constant.Value); ok { v0 = constant.ToInt(c) c0.rval = reflect.ValueOf(v0) }") &&
				!strings.Contains(src(fd), "v0 = constant.ToInt(c0.rval.Interface().(constant.Value))")
			if cc := innerCase(fd, "isInt(t1)"); cc != nil && src(cc.List[0]) == "isInt(t1)" && len(cc.Body) == 1 {
				if is, ok := cc.Body[0].(*ast.IfStmt); ok && src(is.Cond) == "c1.rval.IsValid() && !isUint(t1) && vInt(c1.rval) < 0" && setsErr(is.Body) {
					shiftNeg = true
				}
			}
		}
		// round 7 (2992617): nil in convertUntyped and comparison
		convNilUntyped, cmpNilNil := false, false
		if fd := common.FindFunc(tc, "typecheck", "convertUntyped"); fd != nil {
			if is := findIf(fd, "typ.untyped"); is != nil && len(is.Body.List) > 0 {
				if in, ok := is.Body.List[0].(*ast.IfStmt); ok && src(in.Cond) == "n.typ.isNil() || typ.isNil()" &&
					src(in.Body) == "{ if n.typ.isNil() != typ.isNil() { return convErr } return nil }" {
					convNilUntyped = true
				}
			}
		}
		if fd := common.FindFunc(tc, "typecheck", "comparison"); fd != nil {
			cmpNilNil = strings.Contains(src(fd), "ok = !(t0.isNil() && t1.isNil()) && (t0.comparable() && t1.comparable() || t0.isNil() && t1.hasNil() || t1.isNil() && t0.hasNil())")
		}
		fmt.Fprintf(&b, `/-- interp/typecheck.go unaryOpPredicates, binaryOpPredicates, bitlen; interp/type.go kind predicates -/
def opFacts : OpFacts :=
  { unary :=
    %s,
    binary :=
    %s,
    predKinds :=
    [%s],
    predCalls :=
    [%s],
    bitlen := [%s],
    signedRepr := %s,
    convNilBoolGuard := %v,
    assignNilGuard := %v,
    constIfaceChecked := %v,
    cmpChanExempt := %s,
    shiftBoolGuard := %v,
    shiftNegChecked := %v,
    convNilUntypedGuard := %v,
    cmpNilNilRejected := %v }
`, table(tc, "unaryOpPredicates"), table(tc, "binaryOpPredicates"), strings.Join(pk, ",\n     "), strings.Join(pc, ",\n     "), strings.Join(bl, ", "), signedRepr,
			convGuard, nilGuard, constIface, chanCmp, shiftBool, shiftNeg, convNilUntyped, cmpNilNil)

		// ---- call sites and guards
		cl := cfgClauses(cfg)
		// landExpr / lorExpr: `if err = check.logicalExpr(n); err != nil { break }` in both clauses
		landLor := true
		for _, k := range []string{"landExpr", "lorExpr"} {
			ok := false
			if c := lastClause(cl, k); c != nil {
				for _, st := range c.Body {
					if is, isIf := st.(*ast.IfStmt); isIf && is.Init != nil && src(is.Init) == "err = check.logicalExpr(n)" && src(is.Cond) == "err != nil" && endsWith(is.Body, "break") {
						ok = true
					}
				}
			}
			if !ok {
				landLor = false
			}
		}
		send, sendDir := false, false
		if c := lastClause(cl, "sendStmt"); c != nil {
			for _, st := range c.Body {
				is, isIf := st.(*ast.IfStmt)
				if !isIf {
					continue
				}
				if is.Init != nil && src(is.Init) == `err = check.assignment(n.child[1], ctyp.elem(), "send")` && src(is.Cond) == "err != nil" && endsWith(is.Body, "break") {
					send = true
				}
				if src(is.Cond) == "n.child[0].typ.TypeOf().ChanDir() == reflect.RecvDir" && setsErr(is.Body) && endsWith(is.Body, "break") {
					sendDir = true
				}
			}
		}
		guardedAll, anyBool := true, false
		for _, k := range []string{"ifStmt0", "ifStmt1", "ifStmt2", "ifStmt3", "forStmt2", "forStmt3", "forStmt5", "forStmt7"} {
			c := lastClause(cl, k)
			if c == nil {
				guardedAll = false
				continue
			}
			hb, g := condGuarded(c)
			anyBool = anyBool || hb
			if !g {
				guardedAll = false
			}
		}
		_ = anyBool
		argCmp := ".other \"unrecognised: typecheck.arguments not found\""
		if fd := common.FindFunc(tc, "typecheck", "arguments"); fd != nil {
			argCmp = findCmp(fd, "cnt", "fun.typ.numIn()")
		}
		retMany, retFew := ".other \"unrecognised: no returnStmt case\"", ".other \"unrecognised: no returnStmt case\""
		if c := lastClause(cl, "returnStmt"); c != nil {
			retMany = findCmp(c, "len(n.child)", "sc.def.typ.numOut()")
			retFew = findCmp(c, "nret", "sc.def.typ.numOut()")
		}
		// typeAssertionExpr: inside `if tm == nil { … }`, the if statement whose body is `continue`
		assertSkip := ".other " + common.LeanStr("unrecognised: typeAssertionExpr")
		if fd := common.FindFunc(tc, "typecheck", "typeAssertionExpr"); fd != nil {
			found := 0
			ast.Inspect(fd, func(n ast.Node) bool {
				is, ok := n.(*ast.IfStmt)
				if !ok || src(is.Cond) != "tm == nil" {
					return true
				}
				for _, st := range is.Body.List {
					in, ok := st.(*ast.IfStmt)
					if !ok || len(in.Body.List) != 1 || src(in.Body.List[0]) != "continue" {
						continue
					}
					if in.Init != nil && src(in.Init) == "_, ok := typ.methods()[name]" && src(in.Cond) == "ok" {
						// 5c3b0c5: a method promoted from an embedded interface; in the fragment (no embedding) the methods
						// lookupMethod finds are exactly those of typ.methods(), so this test never fires after a failed lookup
						continue
					}
					found++
					switch src(in.Cond) {
					case "!token.IsExported(name) && isBin(typ)":
						assertSkip = ".andBin"
					case "!token.IsExported(name) || isBin(typ)":
						assertSkip = ".orBin"
					default:
						assertSkip = ".other " + common.LeanStr(src(in.Cond))
					}
				}
				if l := len(is.Body.List); l == 0 || !strings.HasPrefix(src(is.Body.List[l-1]), "return n.cfgErrorf(\"impossible type assertion") {
					assertSkip = ".other " + common.LeanStr("the missing-method block does not end with the error")
				}
				return false
			})
			if found != 1 && !strings.HasPrefix(assertSkip, ".other") {
				assertSkip = ".other " + common.LeanStr(fmt.Sprintf("%d skip tests in the missing-method block", found))
			}
		}
		// returnStmt: representability of a numeric constant in the result type
		retConst := false
		if c := lastClause(cl, "returnStmt"); c != nil {
			for _, st := range c.Body {
				if is := findIf(st, "c.typ.untyped && isNumber(typ.TypeOf())"); is != nil && len(is.Body.List) == 1 {
					if in, ok := is.Body.List[0].(*ast.IfStmt); ok && in.Init != nil && src(in.Init) == "err = check.representable(c, typ.TypeOf())" && src(in.Cond) == "err != nil" && endsWith(in.Body, "return") {
						retConst = true
					}
				}
			}
		}
		// binaryExpr: conversion errors kept for comparisons, zero-divisor cases
		cmpErrKept, opAssignZero, quoFloat := false, false, false
		if fd := common.FindFunc(tc, "typecheck", "binaryExpr"); fd != nil {
			body := src(fd)
			if strings.Contains(body, "err0 := check.convertUntyped(c0, c1.typ) err1 := check.convertUntyped(c1, c0.typ)") {
				if is := findIf(fd, "isComparisonAction(a)"); is != nil && len(is.Body.List) == 3 &&
					src(is.Body.List[0]) == "if err0 != nil { return err0 }" && src(is.Body.List[1]) == "if err1 != nil { return err1 }" &&
					src(is.Body.List[2]) == "return check.comparison(n)" {
					cmpErrKept = true
				}
			}
			remAssign, quoAssign := false, false
			ast.Inspect(fd, func(n ast.Node) bool {
				cc, ok := n.(*ast.CaseClause)
				if !ok {
					return true
				}
				var names []string
				for _, e := range cc.List {
					names = append(names, src(e))
				}
				l := strings.Join(names, ",")
				switch l {
				case "aRem,aRemAssign":
					remAssign = len(cc.Body) == 1 && strings.HasPrefix(src(cc.Body[0]), "if zeroConst(c1) { return n.cfgErrorf(")
				case "aQuo,aQuoAssign", "aQuo":
					quoAssign = l == "aQuo,aQuoAssign"
					if len(cc.Body) > 0 {
						if is, ok := cc.Body[0].(*ast.IfStmt); ok && src(is.Cond) == "zeroConst(c1) && (c0.rval.IsValid() || isInt(c0.typ.TypeOf()))" && setsErr(is.Body) {
							quoFloat = true
						}
					}
				}
				return true
			})
			opAssignZero = remAssign && quoAssign
		}
		zeroMode := ".other " + common.LeanStr("unrecognised: zeroConst")
		if fd := common.FindFunc(tc, "", "zeroConst"); fd != nil {
			var parts []string
			for _, st := range fd.Body.List {
				parts = append(parts, src(st))
			}
			switch strings.Join(parts, " ; ") {
			case "return n.typ.untyped && constant.Sign(n.rval.Interface().(constant.Value)) == 0":
				zeroMode = ".untypedSign"
			case "if !n.rval.IsValid() || !isNumber(n.typ.TypeOf()) { return false } ; if c, ok := n.rval.Interface().(constant.Value); ok { return constant.Sign(c) == 0 } ; return !n.rval.CanSet() && n.rval.IsZero()":
				zeroMode = ".numericConst"
			default:
				zeroMode = ".other " + common.LeanStr(strings.Join(parts, " ; "))
			}
		}
		// index: negative constant index
		indexNeg := false
		if fd := common.FindFunc(tc, "typecheck", "index"); fd != nil {
			for _, st := range fd.Body.List {
				is, ok := st.(*ast.IfStmt)
				if !ok {
					continue
				}
				if src(is.Cond) == "vInt(n.rval) < 0" && len(is.Body.List) == 1 && strings.HasPrefix(src(is.Body.List[0]), "return n.cfgErrorf(") {
					indexNeg = true
				}
				if strings.Contains(src(is.Cond), "max < 1") {
					break // the sign test must come before the `max < 1` exit
				}
			}
		}
		// indexExpr: the three operand tests of 8a6620e
		indexOperand := false
		if c := lastClause(cl, "indexExpr"); c != nil {
			kindTest, genTest, nilTest := false, false, false
			for _, st := range c.Body {
				if is, ok := st.(*ast.IfStmt); ok {
					if src(is.Cond) == "t.cat != funcT && t.cat != genericT && t.cat != structT" && strings.Contains(src(is.Body), "default: err = n.cfgErrorf(") && endsWith(is.Body, "if err != nil { break }") {
						kindTest = true
					}
					if src(is.Cond) == "n.typ == nil" && setsErr(is.Body) && endsWith(is.Body, "break") {
						nilTest = true
					}
				}
				if strings.HasPrefix(src(st), "n.findex = sc.add(n.typ)") && !nilTest {
					break
				}
				if is := findIf(st, "!isGeneric(t)"); is != nil && setsErr(is.Body) && endsWith(is.Body, "break") {
					genTest = true
				}
			}
			indexOperand = kindTest && genTest && nilTest
		}
		// assignStmt: the in-place receive shortcut ("assign by reading from a receiving channel")
		recvDecl := ".other " + common.LeanStr("unrecognised: no assignStmt clause")
		if c := clauseWith(cl, "assignStmt", "check.assignExpr(n, dest, src)"); c != nil {
			recvDecl = ".plain"
			if ic := innerCase(c, "src.action == aRecv &&"); ic != nil {
				recvDecl = ".legacy"
				switch {
				case src(ic.List[0]) != "src.action == aRecv && !isCommRecvAssign(n)" || !strings.Contains(src(ic), "dest.typ = src.typ"):
					recvDecl = ".other " + common.LeanStr(src(ic.List[0]))
				case len(ic.Body) > 0:
					if is, ok := ic.Body[0].(*ast.IfStmt); ok {
						if src(is.Cond) == "dest.typ.id() != src.typ.id()" && endsWith(is.Body, "break") {
							recvDecl = ".guarded"
						} else {
							recvDecl = ".other " + common.LeanStr(src(is.Cond))
						}
					}
				}
			} else if strings.Contains(src(c), "dest.typ = src.typ") {
				recvDecl = ".other " + common.LeanStr("the destination is retyped outside a receive case")
			}
		}
		// unaryExpr: how the `v = <op> x` shortcut treats a receive
		recvAssign := ".other " + common.LeanStr("unrecognised: no assignment shortcut in the unaryExpr clause")
		if c := lastClause(cl, "unaryExpr"); c != nil {
			if ic := innerCase(c, "n.anc.kind == assignStmt && n.anc.action == aAssign"); ic != nil {
				excluded := strings.HasSuffix(src(ic.List[0]), "&& n.action != aRecv")
				test := ""
				for _, st := range ic.Body {
					if is, ok := st.(*ast.IfStmt); ok && strings.Contains(src(is.Cond), "isInterface(dest.typ) && !isInterface(n.typ)") {
						test = src(is.Cond)
					}
				}
				switch {
				case excluded && test == "dest.typ != nil && isInterface(dest.typ) && !isInterface(n.typ)":
					recvAssign = ".plain"
				case !excluded && test == "dest.typ != nil && isInterface(dest.typ) && !isInterface(n.typ)":
					recvAssign = ".guarded"
				case !excluded && test == "n.action != aRecv && dest.typ != nil && isInterface(dest.typ) && !isInterface(n.typ)":
					recvAssign = ".legacy"
				default:
					recvAssign = ".other " + common.LeanStr(src(ic.List[0])+" / "+test)
				}
			}
		}
		// callExpr: check.callValue
		callValue := false
		if c := clauseWith(cl, "callExpr", "check.arguments("); c != nil {
			for _, st := range c.Body {
				if is, ok := st.(*ast.IfStmt); ok && src(is.Cond) == "err == nil && n.action != aConvert" && len(is.Body.List) == 1 && src(is.Body.List[0]) == "err = check.callValue(n)" {
					callValue = true
				}
			}
		}
		// conversion: typed constants are checked by representable, which reads plain Go values through constValue
		convTyped := false
		if fd := common.FindFunc(tc, "typecheck", "conversion"); fd != nil {
			if is := findIf(fd, "c == nil && n.rval.IsValid() && isNumber(typ.TypeOf())"); is != nil && len(is.Body.List) == 1 &&
				src(is.Body.List[0]) == "if err := check.representable(n, typ.TypeOf()); err != nil { return err }" {
				if rd := common.FindFunc(tc, "typecheck", "representable"); rd != nil && strings.Contains(src(rd), "c := constValue(n.rval) if c == nil { return nil }") {
					convTyped = true
				}
			}
		}
		// arrayLitExpr: the counter tested by the bounds case of a positional element; the running index is set from the
		// key, tested for duplicates and incremented
		arrLit := ".other " + common.LeanStr("unrecognised: arrayLitExpr")
		if fd := common.FindFunc(tc, "typecheck", "arrayLitExpr"); fd != nil {
			body := src(fd)
			var bound []string
			ast.Inspect(fd, func(n ast.Node) bool {
				if cc, ok := n.(*ast.CaseClause); ok && len(cc.List) == 1 && strings.HasPrefix(src(cc.List[0]), "cat == arrayT &&") {
					bound = append(bound, src(cc.List[0]))
				}
				return true
			})
			shape := strings.Contains(body, "index := 0 for _, c := range child {") || strings.Contains(body, "index := 0 for i, c := range child {")
			shape = shape && strings.Contains(body, "index = int(vInt(c.child[0].rval))") && strings.Contains(body, "if visited[index] {") &&
				strings.Contains(body, "visited[index] = true index++") && strings.Contains(body, "check.index(c.child[0], length)")
			switch {
			case !shape || len(bound) != 1:
				arrLit = ".other " + common.LeanStr(strings.Join(bound, " ; "))
			case bound[0] == "cat == arrayT && index >= length":
				arrLit = ".runningIndex"
			case bound[0] == "cat == arrayT && i >= length" && strings.Contains(body, "for i, c := range child {"):
				arrLit = ".loopPosition"
			default:
				arrLit = ".other " + common.LeanStr(bound[0])
			}
		}
		// round 5
		opTypeOperand, shiftCtx := false, false
		if c := lastClause(cl, "binaryExpr"); c != nil {
			ast.Inspect(c, func(n ast.Node) bool {
				cc, ok := n.(*ast.CaseClause)
				if !ok {
					return true
				}
				var names []string
				for _, e := range cc.List {
					names = append(names, src(e))
				}
				if strings.Join(names, ",") == "aAdd,aSub,aMul,aQuo,aAnd,aOr,aXor,aAndNot" && len(cc.Body) == 1 &&
					// 674fd4c narrows the first arm to non-constant operations (constant operations are folded: outside the fragment)
					(src(cc.Body[0]) == "switch { case n.typ == nil: case !c0.typ.untyped: n.typ = c0.typ case !c1.typ.untyped: n.typ = c1.typ }" ||
						src(cc.Body[0]) == "switch { case n.typ == nil && !(c0.rval.IsValid() && c1.rval.IsValid()): case !c0.typ.untyped: n.typ = c0.typ case !c1.typ.untyped: n.typ = c1.typ }") {
					opTypeOperand = true
				}
				return true
			})
			for _, st := range c.Body {
				if is, ok := st.(*ast.IfStmt); ok && src(is.Cond) == "isShiftNode(n) && isUntypedConst(c0) && !c1.rval.IsValid()" && setsErr(is.Body) {
					shiftCtx = true
				}
			}
		}
		indexZero := false
		if fd := common.FindFunc(tc, "typecheck", "index"); fd != nil {
			for _, st := range fd.Body.List {
				if is, ok := st.(*ast.IfStmt); ok && src(is.Cond) == "max < 0" && endsWith(is.Body, "return nil") {
					indexZero = true
				}
			}
		}
		sliceUnbounded := false
		if fd := common.FindFunc(tc, "typecheck", "arrayLitExpr"); fd != nil {
			sliceUnbounded = strings.Contains(src(fd), "if cat != arrayT { length = -1 }")
		}
		nilReported := false
		{
			a, bb, cc, dd := false, false, false, false
			if c := clauseWith(cl, "assignStmt", "check.assignExpr(n, dest, src)"); c != nil {
				a = strings.Contains(src(c), `if src.typ.isNil() { err = src.cfgErrorf("use of untyped nil in assignment") return }`)
			}
			if fd := common.FindFunc(ty, "itype", "convertibleTo"); fd != nil && len(fd.Body.List) > 1 {
				bb = src(fd.Body.List[0]) == "if t.assignableTo(o) { return true }" && src(fd.Body.List[1]) == "if t.isNil() { return false }"
			}
			if fd := common.FindFunc(ty, "", "isBool"); fd != nil {
				cc = src(fd.Body) == "{ return isBoolean(t.TypeOf()) }"
			}
			if fd := common.FindFunc(tc, "typecheck", "typeAssertionExpr"); fd != nil {
				dd = findIf(fd, "rt == nil || rt.Kind() != reflect.Interface && rt != valueInterfaceType") != nil
			}
			nilReported = a && bb && cc && dd
		}
		convNumeric := false
		if fd := common.FindFunc(tc, "typecheck", "conversion"); fd != nil {
			if cc := innerCase(fd, "c == nil && n.rval.IsValid() && isNumber(n.typ.TypeOf()) && isNumber(typ.TypeOf())"); cc != nil &&
				src(cc.List[0]) == "c == nil && n.rval.IsValid() && isNumber(n.typ.TypeOf()) && isNumber(typ.TypeOf())" && len(cc.Body) == 1 && src(cc.Body[0]) == "ok = true" {
				convNumeric = true
			}
		}
		callConv := false
		if fd := common.FindFunc(tc, "typecheck", "callValue"); fd != nil {
			callConv = findIf(fd, "anc.child[0] != c && !anc.child[0].isType(check.scope)") != nil
		}
		// round 7: typeKind (nil-safe kind tests) and operationResult at the four shortcut sites
		typeKindSafe := false
		if fd := common.FindFunc(ty, "", "typeKind"); fd != nil && src(fd.Body) == "{ if rt := t.TypeOf(); rt != nil { return rt.Kind() } return reflect.Invalid }" {
			okAll := true
			for name, kind := range map[string]string{"isChan": "Chan", "isFunc": "Func", "isMap": "Map", "isPtr": "Ptr"} {
				if pd := common.FindFunc(ty, "", name); pd == nil || src(pd.Body) != "{ return typeKind(t) == reflect."+kind+" }" {
					okAll = false
				}
			}
			if c := lastClause(cl, "indexExpr"); c == nil || !strings.Contains(src(c), "switch typeKind(t) {") {
				okAll = false
			}
			typeKindSafe = okAll
		}
		opResult := false
		{
			n := 0
			for _, k := range []string{"binaryExpr", "unaryExpr"} {
				if c := lastClause(cl, k); c != nil {
					t := src(c)
					n += strings.Count(t, `if err = check.operationResult(n, dest.typ, "assignment"); err != nil { break } n.typ = dest.typ`)
				}
			}
			bt, ut := "", ""
			if c := lastClause(cl, "binaryExpr"); c != nil {
				bt = src(c)
			}
			if c := lastClause(cl, "unaryExpr"); c != nil {
				ut = src(c)
			}
			if n == 2 && strings.Contains(bt, `err = check.operationResult(n, sc.def.typ.ret[n.findex], "return argument")`) &&
				strings.Contains(ut, `if err = check.operationResult(n, sc.def.typ.ret[pos], "return argument"); err != nil { break } n.typ = sc.def.typ.ret[pos]`) &&
				common.FindFunc(tc, "typecheck", "operationResult") != nil {
				opResult = true
			}
		}
		fmt.Fprintf(&b, `/-- interp/cfg.go call sites of the checker and guards; interp/typecheck.go arguments -/
def tcFacts : TcFacts :=
  { ops := opFacts,
    landLorChecked := %v,
    sendValueChecked := %v,
    sendDirChecked := %v,
    argCountCmp := %s,
    retTooManyCmp := %s,
    retTooFewCmp := %s,
    condBoolGuarded := %v,
    assertSkipMissing := %s,
    retConstChecked := %v,
    cmpConvErrKept := %v,
    zeroConst := %s,
    opAssignZeroChecked := %v,
    quoFloatZeroOk := %v,
    indexNegChecked := %v,
    indexOperandChecked := %v,
    recvDecl := %s,
    recvAssign := %s,
    callValueChecked := %v,
    convTypedConstChecked := %v,
    arrayLitBound := %s,
    opTypeFromOperand := %v,
    shiftUntypedCtx := %v,
    indexZeroLenChecked := %v,
    arrayLitSliceUnbounded := %v,
    nilOperandsReported := %v,
    convTypedNumericOk := %v,
    callValueConvChecked := %v,
    typeKindNilSafe := %v,
    opResultChecked := %v }
`, landLor, send, sendDir, argCmp, retMany, retFew, guardedAll, assertSkip, retConst, cmpErrKept, zeroMode, opAssignZero, quoFloat,
			indexNeg, indexOperand, recvDecl, recvAssign, callValue, convTyped, arrLit,
			opTypeOperand, shiftCtx, indexZero, sliceUnbounded, nilReported, convNumeric, callConv, typeKindSafe, opResult)

		// ---- pipeline
		funcs, err := pkgFuncs(repo)
		if err != nil {
			return "", err
		}
		evalBody, compBody := "[.other \"unrecognised: eval not found\"]", "[.other \"unrecognised: compileSrc not found\"]"
		if fd := common.FindFunc(ip, "Interpreter", "eval"); fd != nil {
			evalBody = steps(fd.Body.List)
		}
		if fd := common.FindFunc(pg, "Interpreter", "compileSrc"); fd != nil {
			// skip the leading bookkeeping of interp.name (two if statements that call nothing)
			body := fd.Body.List
			for len(body) > 0 {
				is, ok := body[0].(*ast.IfStmt)
				if !ok || strings.Contains(src(is), "(") && !strings.Contains(src(is.Cond), "name") {
					break
				}
				calls := false
				ast.Inspect(is, func(n ast.Node) bool {
					if _, ok := n.(*ast.CallExpr); ok {
						calls = true
					}
					return true
				})
				if calls {
					break
				}
				body = body[1:]
			}
			// `n, err := interp.parse(…)` / `if err != nil {return nil, err}` / `return interp.CompileAST(n)`
			compBody = steps(body)
		}
		var execCallers []string
		for name, fd := range funcs {
			if callsMethod(fd, "Execute") {
				execCallers = append(execCallers, name)
			}
		}
		sort.Strings(execCallers)
		interesting := map[string]bool{"eval": true, "Eval": true, "EvalPath": true, "EvalWithContext": true, "EvalPathWithContext": true,
			"importSrc": true, "Compile": true, "CompilePath": true, "compileSrc": true, "CompileAST": true, "Execute": true, "ExecuteWithContext": true}
		var callRows []string
		for _, e := range []string{"Eval", "EvalPath", "EvalWithContext", "EvalPathWithContext", "EvalTest", "eval", "Compile", "CompilePath", "compileSrc"} {
			fd := funcs[e]
			if fd == nil {
				callRows = append(callRows, "("+common.LeanStr(e)+", [\"unrecognised: not found\"])")
				continue
			}
			var cs []string
			for _, c := range callees(fd, funcs) {
				if interesting[c] {
					cs = append(cs, c)
				}
			}
			callRows = append(callRows, "("+common.LeanStr(e)+", "+common.LeanStrList(cs)+")")
		}
		// static call closure of CompileAST inside the package; which of those functions start the execution loop
		reach := map[string]bool{}
		var visit func(string)
		visit = func(n string) {
			if reach[n] || funcs[n] == nil {
				return
			}
			reach[n] = true
			for _, c := range callees(funcs[n], funcs) {
				visit(c)
			}
		}
		visit("CompileAST")
		var runners []string
		for n := range reach {
			if callsMethod(funcs[n], "run") || callsMethod(funcs[n], "runCfg") {
				runners = append(runners, n)
			}
		}
		sort.Strings(runners)
		fmt.Fprintf(&b, `/-- interp/interp.go eval, interp/program.go compileSrc, call graph of the entry points -/
def pipeline : PipelineFacts :=
  { evalBody := %s,
    compileSrcBody := %s,
    executeCallers := %s,
    calls := [%s],
    compileRunCallers := %s }
`, evalBody, compBody, common.LeanStrList(execCallers), strings.Join(callRows, ",\n      "), common.LeanStrList(runners))

		// ---- fingerprints
		var rows []string
		row := func(label, h string) { rows = append(rows, "("+common.LeanStr(label)+", "+common.LeanStr(h)+")") }
		for _, fn := range []string{"op", "assignment", "assignExpr", "unaryExpr", "shift", "comparison", "binaryExpr", "index", "conversion",
			"unpackParams", "arguments", "argument", "convertUntyped", "representable", "convertConst", "typeAssertionExpr", "logicalExpr", "callValue", "operationResult",
			"arrayLitExpr", "mapLitExpr", "structLitExpr", "structBinLitExpr", "sliceExpr", "addressExpr", "starExpr", "switchCases", "builtin", "constExpr"} {
			row("typecheck."+fn, common.FuncHash(fsetT, tc, "typecheck", fn))
		}
		for _, fn := range []string{"zeroConst", "getArg", "representableConst", "isShiftAction", "isComparisonAction", "isComparison", "chanComparable"} {
			row(fn, common.FuncHash(fsetT, tc, "", fn))
		}
		for _, fn := range []string{"assignableTo", "convertibleTo", "ordered", "equals", "comparable", "implements", "defaultType", "hasNil", "isNil",
			"methods", "id", "refType", "needsPtrFor"} {
			row("itype."+fn, common.FuncHash(fsetY, ty, "itype", fn))
		}
		for _, fn := range []string{"lookupFieldOrMethod", "isBin", "typeKind"} {
			row(fn, common.FuncHash(fsetY, ty, "", fn))
		}
		for _, fn := range []string{"lookupMethod", "lookupField", "lookupBinMethod", "methods", "numIn", "numOut", "in", "out"} {
			if fn == "methods" {
				continue // already listed
			}
			row("itype."+fn, common.FuncHash(fsetY, ty, "itype", fn))
		}
		for _, fn := range []string{"typeDefined", "isInterface", "isInterfaceSrc", "isArray", "isConstType", "isBool", "isChan", "isSendChan", "isMap", "isFunc", "isPtr"} {
			row(fn, common.FuncHash(fsetY, ty, "", fn))
		}
		for _, fn := range []string{"Eval", "EvalPath", "eval"} {
			row("Interpreter."+fn, common.FuncHash(fsetI, ip, "Interpreter", fn))
		}
		for _, fn := range []string{"Compile", "compileSrc", "CompileAST", "Execute"} {
			row("Interpreter."+fn, common.FuncHash(fsetP, pg, "Interpreter", fn))
		}
		for _, k := range []string{"landExpr", "lorExpr", "sendStmt", "returnStmt", "indexExpr", "incDecStmt", "unaryExpr", "binaryExpr",
			"ifStmt0", "ifStmt1", "ifStmt2", "ifStmt3", "forStmt2", "forStmt3", "forStmt5", "forStmt7", "identExpr", "typeAssertExpr", "typeSwitch"} {
			row("cfg case "+k, clauseHash(lastClause(cl, k)))
		}
		row("constValue", common.FuncHash(fsetV, vl, "", "constValue"))
		if pre := cl["binaryExpr"]; len(pre) > 0 {
			row("cfg pre-order case binaryExpr", clauseHash(pre[0])) // type propagation from the enclosing statement / operator
		}
		row("cfg case compositeLitExpr", clauseHash(clauseWith(cl, "compositeLitExpr", "check.arrayLitExpr(")))
		row("cfg case assignStmt", clauseHash(clauseWith(cl, "assignStmt", "check.assignExpr(n, dest, src)")))
		row("cfg case callExpr", clauseHash(clauseWith(cl, "callExpr", "check.arguments(")))
		b.WriteString("/-- fingerprints of the functions and cfg.go clauses that Model/Typecheck.lean transcribes -/\ndef sourceHashes : List (String × String) :=\n  [" +
			strings.Join(rows, ",\n   ") + "]\nend YaegiVerif.Generated.C12\n")
		_ = os.Stderr
		return b.String(), nil
	})
}
