package main

// stdlib/wrapper-composed.go and stdlib/maptypes.go: the hand-written wrappers of composed interfaces (checked like
// the generated ones, against the union of the interfaces Expected/C14.lean says they compose) and the MapTypes
// registrations (tied as text).

import (
	"fmt"
	"go/ast"
	"go/token"
	"go/types"
	"regexp"
	"sort"
	"strings"

	"verif/extract/common"
)

var typeOfRe = regexp.MustCompile(`^reflect\.(?:TypeOf|ValueOf)\(\(\*(.+)\)\(nil\)\)(?:\.Type\(\))?\.Elem\(\)$`)
var valueOfRe = regexp.MustCompile(`^reflect\.ValueOf\((?:\(\*(.+)\)\(nil\)|(.+))\)$`)

func stripReflect(s string) string {
	if m := typeOfRe.FindStringSubmatch(s); m != nil {
		return m[1]
	}
	if m := valueOfRe.FindStringSubmatch(s); m != nil {
		if m[1] != "" {
			return m[1]
		}
		return m[2]
	}
	return "unrecognised: " + s
}

// mapTypes lists every `MapTypes[k] = v` of the hand-written files of stdlib/ as "file: key -> t1, t2".
func mapTypes(repo string, files []string) []string {
	var out []string
	for _, rel := range files {
		_, f, err := common.ParseFile(repo, rel)
		if err != nil {
			out = append(out, "unrecognised: "+err.Error())
			continue
		}
		for _, d := range f.Decls {
			fd, ok := d.(*ast.FuncDecl)
			if !ok || fd.Body == nil {
				continue
			}
			vars := map[string][]string{}
			elems := func(e ast.Expr) []string {
				switch x := e.(type) {
				case *ast.Ident:
					if v, ok := vars[x.Name]; ok {
						return v
					}
				case *ast.CompositeLit:
					var xs []string
					for _, el := range x.Elts {
						xs = append(xs, stripReflect(types.ExprString(el)))
					}
					return xs
				}
				return []string{"unrecognised: " + types.ExprString(e)}
			}
			for _, st := range fd.Body.List {
				as, ok := st.(*ast.AssignStmt)
				if !ok || len(as.Lhs) != 1 || len(as.Rhs) != 1 {
					continue
				}
				if id, ok := as.Lhs[0].(*ast.Ident); ok && (as.Tok == token.DEFINE || as.Tok == token.ASSIGN) {
					vars[id.Name] = elems(as.Rhs[0])
					continue
				}
				ix, ok := as.Lhs[0].(*ast.IndexExpr)
				if !ok {
					continue
				}
				if id, ok := ix.X.(*ast.Ident); !ok || id.Name != "MapTypes" {
					continue
				}
				out = append(out, fmt.Sprintf("%s: %s -> %s", rel, stripReflect(types.ExprString(ix.Index)), strings.Join(elems(as.Rhs[0]), ", ")))
			}
		}
	}
	return out
}

// composedModule emits the wrappers of wrapper-composed.go with every interface of the packages they mention.
func composedModule(bf *bindFile, refs map[string]*refPkg, rel int, api *apiDB) string {
	var b strings.Builder
	b.WriteString("import YaegiVerif.Model.Bind\nimport YaegiVerif.Expected.C14\n")
	b.WriteString("/- stdlib/wrapper-composed.go: hand-written wrappers of composed interfaces, and the interfaces of io and net/http -/\n")
	b.WriteString("namespace YaegiVerif.Generated.C14.Composed\nopen YaegiVerif.Bind\n")
	var ws []string
	for _, w := range bf.Wrappers {
		w.Iface = w.Struct
		ws = append(ws, emitWrapper(w))
	}
	fmt.Fprintf(&b, "def wrappers : List Wrapper := %s\n", leanList(ws, nil, "  "))
	var ifs []string
	pkgs := sortedKeys(refs)
	for _, p := range pkgs {
		rp := refs[p]
		ris := append([]refIface{}, rp.Ifaces...)
		sort.SliceStable(ris, func(i, j int) bool { return codeLess(ris[i].Name, ris[j].Name) })
		for _, ri := range ris {
			cp := refIface{Name: ri.Name}
			for _, m := range ri.Methods {
				if api.methodSince(p, ri.Name, m.Name, rp.GOOS, rp.GOARCH) > rel {
					continue
				}
				cp.Methods = append(cp.Methods, m)
			}
			ifs = append(ifs, fmt.Sprintf("(%s, %s)", codeStr(p), emitRefIface(cp)))
		}
	}
	fmt.Fprintf(&b, "/-- (package, interface) for every interface of the packages involved -/\ndef ifaces : List (Nat × RefIface) := %s\n", leanList(ifs, nil, "  "))
	b.WriteString("end YaegiVerif.Generated.C14.Composed\n\nnamespace YaegiVerif.Props.C14.Gen.Composed\nopen YaegiVerif.Bind YaegiVerif.Generated.C14.Composed\n")
	b.WriteString("theorem composed_forward : composedOk Expected.C14.composed wrappers ifaces = true := by decide +kernel\n")
	b.WriteString("end YaegiVerif.Props.C14.Gen.Composed\n")
	return b.String()
}
