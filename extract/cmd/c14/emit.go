package main

// Lean emission. Names are written as naturals (bytes, big endian, below a leading 1) with the readable text in
// a trailing comment; lists are ordered by that code so that the merge joins of Model/Bind.lean are linear.

import (
	"fmt"
	"go/constant"
	"math/big"
	"sort"
	"strings"
)

func code(s string) *big.Int {
	b := append([]byte{1}, []byte(s)...)
	return new(big.Int).SetBytes(b)
}

func codeStr(s string) string { return code(s).String() }

// order of the codes: shorter first, then bytewise
func codeLess(a, b string) bool {
	if len(a) != len(b) {
		return len(a) < len(b)
	}
	return a < b
}

func comment(s string) string {
	s = strings.ReplaceAll(s, "\n", " ")
	s = strings.ReplaceAll(s, "-/", "- /")
	if len(s) > 100 {
		s = s[:100] + "…"
	}
	return s
}

func leanBool(b bool) string {
	if b {
		return "true"
	}
	return "false"
}

func ratOf(v constant.Value) *big.Rat {
	switch x := constant.Val(v).(type) {
	case *big.Rat:
		return x
	case *big.Float:
		r, _ := x.Rat(nil)
		return r
	case int64:
		return new(big.Rat).SetInt64(x)
	case *big.Int:
		return new(big.Rat).SetInt(x)
	}
	return nil
}

func intOf(v constant.Value) *big.Int {
	switch x := constant.Val(v).(type) {
	case int64:
		return big.NewInt(x)
	case *big.Int:
		return x
	}
	return nil
}

// cval renders a constant as the arguments of a CVal constructor.
func cval(v constant.Value) string {
	if v == nil {
		return ".none"
	}
	switch v.Kind() {
	case constant.Int:
		if i := intOf(v); i != nil {
			return fmt.Sprintf("(.int %s %s)", leanBool(i.Sign() < 0), new(big.Int).Abs(i).String())
		}
	case constant.Float:
		if r := ratOf(v); r != nil {
			return fmt.Sprintf("(.rat %s %s %s)", leanBool(r.Sign() < 0), new(big.Int).Abs(r.Num()).String(), r.Denom().String())
		}
	case constant.String:
		return fmt.Sprintf("(.str %s)", codeStr(constant.StringVal(v)))
	case constant.Bool:
		return fmt.Sprintf("(.bool %s)", leanBool(constant.BoolVal(v)))
	}
	return ".none"
}

// exact, kind-tagged text of a constant (for the harness facts)
func cvalText(v constant.Value) string {
	if v == nil {
		return ""
	}
	switch v.Kind() {
	case constant.Int:
		return "int:" + v.ExactString()
	case constant.Float:
		if r := ratOf(v); r != nil {
			return "rat:" + r.Num().String() + "/" + r.Denom().String()
		}
	case constant.String:
		return "str:" + constant.StringVal(v)
	case constant.Bool:
		return "bool:" + v.ExactString()
	case constant.Complex:
		return "complex:" + v.ExactString()
	}
	return ""
}

func tokLean(t string) string {
	switch t {
	case "INT":
		return ".int"
	case "FLOAT":
		return ".float"
	case "STRING":
		return ".string"
	case "CHAR":
		return ".char"
	case "IMAG":
		return ".imag"
	case "":
		return ".none"
	}
	return ".other"
}

func qualCode(q, pkg string) string {
	if q == "" {
		return "0"
	}
	if q == pkg {
		return "p"
	}
	return codeStr(q)
}

func emitEntry(e entry, pkg string) string {
	k := codeStr(e.Key)
	switch e.Form {
	case "value":
		return fmt.Sprintf("eV %s %s %s", k, qualCode(e.Qual, pkg), codeStr(e.Sel))
	case "addr":
		return fmt.Sprintf("eA %s %s %s", k, qualCode(e.Qual, pkg), codeStr(e.Sel))
	case "typ":
		return fmt.Sprintf("eT %s %s %s", k, qualCode(e.Qual, pkg), codeStr(e.Sel))
	case "wrap":
		return fmt.Sprintf("eW %s %s %s", k, qualCode(e.Qual, pkg), codeStr(e.Sel))
	case "lit":
		if e.Tok == "INT" && e.Val != nil && e.Val.Kind() == constant.Int {
			if i := intOf(e.Val); i != nil {
				if i.Sign() < 0 {
					return fmt.Sprintf("eN %s %s", k, new(big.Int).Abs(i).String())
				}
				return fmt.Sprintf("eI %s %s", k, i.String())
			}
		}
		return fmt.Sprintf("eL %s %s %s", k, tokLean(e.Tok), cval(e.Val))
	}
	return fmt.Sprintf("eO %s", k)
}

func entryComment(e entry) string {
	switch e.Form {
	case "lit":
		return comment(e.Key + " = " + e.Tok + " " + e.Lit)
	case "other":
		return comment(e.Key + " : unrecognised (" + e.Note + ")")
	}
	q := e.Qual
	if q != "" {
		q += "."
	}
	return comment(e.Key + " ↦ " + e.Form + " " + q + e.Sel)
}

func emitRefObj(o refObj) string {
	n := codeStr(o.Name)
	switch o.Kind {
	case "func":
		if o.Skip {
			return "oFg " + n
		}
		return "oF " + n
	case "var":
		return "oV " + n
	case "builtin":
		return "oB " + n
	case "type":
		if o.Skip {
			return "oTs " + n
		}
		if o.Iface {
			return "oTi " + n
		}
		return "oT " + n
	case "const":
		switch o.CK {
		case "typed":
			return "oCt " + n
		case "int":
			if o.Val != nil && o.Val.Kind() == constant.Int {
				if i := intOf(o.Val); i != nil {
					if i.Sign() < 0 {
						return fmt.Sprintf("oN %s %s", n, new(big.Int).Abs(i).String())
					}
					return fmt.Sprintf("oI %s %s", n, i.String())
				}
			}
			return fmt.Sprintf("oC %s .int %s", n, cval(o.Val))
		case "rune":
			return fmt.Sprintf("oC %s .rune %s", n, cval(o.Val))
		case "float":
			return fmt.Sprintf("oC %s .float %s", n, cval(o.Val))
		case "string":
			return fmt.Sprintf("oC %s .string %s", n, cval(o.Val))
		case "bool":
			return fmt.Sprintf("oC %s .bool %s", n, cval(o.Val))
		case "complex":
			return fmt.Sprintf("oC %s .complex .none", n)
		}
	}
	return fmt.Sprintf("oC %s .na .none", n)
}

func natList(xs []string) string {
	cs := make([]string, len(xs))
	for i, x := range xs {
		cs[i] = codeStr(x)
	}
	return "[" + strings.Join(cs, ", ") + "]"
}

func emitSig(s sig) string {
	return fmt.Sprintf("⟨%s, %s, %s⟩", natList(s.Params), leanBool(s.Variadic), natList(s.Results))
}

func sigText(s sig) string {
	v := ""
	if s.Variadic {
		v = " variadic"
	}
	return "(" + strings.Join(s.Params, ", ") + ")" + v + " (" + strings.Join(s.Results, ", ") + ")"
}

// leanList renders items one per line, each with a trailing comment.
func leanList(items, comments []string, indent string) string {
	if len(items) == 0 {
		return "[]"
	}
	var b strings.Builder
	b.WriteString("[\n")
	for i, it := range items {
		sep := ","
		if i == len(items)-1 {
			sep = ""
		}
		c := ""
		if comments != nil && comments[i] != "" {
			c = " -- " + comments[i]
		}
		b.WriteString(indent + it + sep + c + "\n")
	}
	b.WriteString(indent + "]")
	return b.String()
}

func emitWrapper(w wrapper) string {
	var fs, fc []string
	fields := append([]wfield{}, w.Fields...)
	for _, f := range fields {
		fs = append(fs, fmt.Sprintf("⟨%s, %s⟩", codeStr(f.Name), emitSig(f.Sig)))
		fc = append(fc, comment(f.Name+" func"+sigText(f.Sig)))
	}
	var ms, mc []string
	methods := append([]wmethod{}, w.Methods...)
	sort.SliceStable(methods, func(i, j int) bool { return codeLess(methods[i].Name, methods[j].Name) })
	for _, m := range methods {
		ms = append(ms, fmt.Sprintf("⟨%s, %s, %s, %s, %s, %s, %s, %s, %s⟩", codeStr(m.Name), emitSig(m.Sig), leanBool(m.OnRecv),
			codeStr(m.Field), natList(m.ParamNames), natList(m.ArgNames), leanBool(m.Spread), leanBool(m.Returns), leanBool(m.Plain)))
		mc = append(mc, comment(fmt.Sprintf("%s%s → %s(%s)", m.Name, sigText(m.Sig), m.Field, strings.Join(m.ArgNames, ", "))))
	}
	return fmt.Sprintf("{ struct := %s, iface := %s, hasIValue := %s, -- %s\n      fields := %s,\n      methods := %s }",
		codeStr(w.Struct), codeStr(w.Iface), leanBool(w.HasIValue), comment(w.Struct),
		leanList(fs, fc, "        "), leanList(ms, mc, "        "))
}

func emitRefIface(ri refIface) string {
	var ms, mc []string
	methods := append([]refMethod{}, ri.Methods...)
	sort.SliceStable(methods, func(i, j int) bool { return codeLess(methods[i].Name, methods[j].Name) })
	for _, m := range methods {
		ms = append(ms, fmt.Sprintf("⟨%s, %s⟩", codeStr(m.Name), emitSig(m.Sig)))
		mc = append(mc, comment(m.Name+sigText(m.Sig)))
	}
	return fmt.Sprintf("⟨%s, -- %s\n      %s⟩", codeStr(ri.Name), comment(ri.Name), leanList(ms, mc, "        "))
}

// modIdent turns a path into a Lean identifier component.
func modIdent(prefix, s string) string {
	var b strings.Builder
	b.WriteString(prefix)
	for _, r := range s {
		switch {
		case r >= 'a' && r <= 'z', r >= 'A' && r <= 'Z', r >= '0' && r <= '9':
			b.WriteRune(r)
		default:
			b.WriteByte('_')
		}
	}
	return b.String()
}

// chunkedDef renders `def name : List ty := …`, splitting long lists into pieces that are appended (the elaborator's
// recursion depth is bounded; the kernel does not mind).
func chunkedDef(doc, name, ty string, items, comments []string) string {
	const n = 400
	var b strings.Builder
	if len(items) <= n {
		fmt.Fprintf(&b, "%sdef %s : List %s := %s\n", doc, name, ty, leanList(items, comments, "  "))
		return b.String()
	}
	var parts []string
	for i := 0; i < len(items); i += n {
		j := i + n
		if j > len(items) {
			j = len(items)
		}
		var cs []string
		if comments != nil {
			cs = comments[i:j]
		}
		pn := fmt.Sprintf("%s_%d", name, i/n)
		fmt.Fprintf(&b, "def %s : List %s := %s\n", pn, ty, leanList(items[i:j], cs, "  "))
		parts = append(parts, pn)
	}
	fmt.Fprintf(&b, "%sdef %s : List %s := %s\n", doc, name, ty, strings.Join(parts, " ++ "))
	return b.String()
}
