package main

// The reference side: what the installed toolchain says the namesake package contains.
//   * go/types over GOROOT/src for a given GOOS/GOARCH (own source importer on a go/build.Context, cgo off,
//     function bodies ignored): object kind, exact constant value, interface method signatures;
//   * GOROOT/api/go1*.txt minus except.txt: which exported package-level objects each release declares, per
//     platform context, and in which release each interface method appeared.

import (
	"bufio"
	"fmt"
	"go/ast"
	"go/build"
	"go/constant"
	"go/parser"
	"go/token"
	"go/types"
	"os"
	"path/filepath"
	"regexp"
	"runtime"
	"sort"
	"strconv"
	"strings"
)

const newestRelease = 22 // newest release the repository has binding files for (extract.go defaultMinorVersion)

func goroot() string {
	if r := os.Getenv("GOROOT"); r != "" {
		return r
	}
	return runtime.GOROOT()
}

func ctxtFor(goos, goarch string) *build.Context {
	c := build.Default
	c.GOROOT = goroot()
	c.GOOS, c.GOARCH = goos, goarch
	c.CgoEnabled = false
	c.Compiler = "gc"
	c.BuildTags = nil
	c.ToolTags = append([]string{}, build.Default.ToolTags...)
	return &c
}

var hostC *build.Context

func hostCtxt() *build.Context {
	if hostC == nil {
		hostC = ctxtFor(runtime.GOOS, runtime.GOARCH)
	}
	return hostC
}

// ---- source importer -------------------------------------------------------------------------------------

type loader struct {
	ctxt  *build.Context
	fset  *token.FileSet
	pkgs  map[string]*types.Package
	sizes types.Sizes
	errs  []string
}

func newLoader(goos, goarch string) *loader {
	sz := types.SizesFor("gc", goarch)
	if sz == nil {
		sz = types.SizesFor("gc", "amd64")
	}
	return &loader{ctxt: ctxtFor(goos, goarch), fset: token.NewFileSet(), pkgs: map[string]*types.Package{}, sizes: sz}
}

func (l *loader) Import(path string) (*types.Package, error) { return l.ImportFrom(path, "", 0) }

func (l *loader) ImportFrom(path, srcDir string, _ types.ImportMode) (*types.Package, error) {
	if path == "unsafe" {
		return types.Unsafe, nil
	}
	bp, err := l.ctxt.Import(path, srcDir, 0)
	if err != nil {
		if _, nogo := err.(*build.NoGoError); !nogo {
			return nil, err
		}
	}
	if p, ok := l.pkgs[bp.ImportPath]; ok {
		if p == nil {
			return nil, fmt.Errorf("import cycle through %s", bp.ImportPath)
		}
		return p, nil
	}
	l.pkgs[bp.ImportPath] = nil
	var files []*ast.File
	for _, name := range bp.GoFiles {
		f, err := parser.ParseFile(l.fset, filepath.Join(bp.Dir, name), nil, parser.SkipObjectResolution)
		if err != nil {
			return nil, err
		}
		files = append(files, f)
	}
	conf := types.Config{
		IgnoreFuncBodies: true,
		FakeImportC:      true,
		Importer:         l,
		Sizes:            l.sizes,
		Error:            func(err error) { l.errs = append(l.errs, err.Error()) },
	}
	pkg, _ := conf.Check(bp.ImportPath, l.fset, files, nil)
	l.pkgs[bp.ImportPath] = pkg
	if pkg == nil {
		return nil, fmt.Errorf("type-check of %s failed", path)
	}
	return pkg, nil
}

// ---- reference objects -----------------------------------------------------------------------------------

type refObj struct {
	Name  string
	Kind  string // func var type const builtin
	CK    string // na typed int rune float string bool complex
	Val   constant.Value
	Skip  bool
	Iface bool
}

type refMethod struct {
	Name string
	Sig  sig
}

type refIface struct {
	Name    string
	Methods []refMethod
}

type refPkg struct {
	Path   string
	Name   string
	GOOS   string
	GOARCH string
	Objs   []refObj
	Ifaces []refIface
	Errs   []string
}

func qualifier(p *types.Package) string { return p.Name() }

func refSig(s *types.Signature) sig {
	var out sig
	out.Variadic = s.Variadic()
	for i := 0; i < s.Params().Len(); i++ {
		out.Params = append(out.Params, normType(types.TypeString(s.Params().At(i).Type(), qualifier)))
	}
	for i := 0; i < s.Results().Len(); i++ {
		out.Results = append(out.Results, normType(types.TypeString(s.Results().At(i).Type(), qualifier)))
	}
	return out
}

// loadRef type-checks one package for one platform and lists its exported package-level objects as
// extract/extract.go genContent classifies them.
func loadRef(l *loader, ipath string) (*refPkg, error) {
	pkg, err := l.Import(ipath)
	if err != nil {
		return nil, err
	}
	rp := &refPkg{Path: ipath, Name: pkg.Name(), GOOS: l.ctxt.GOOS, GOARCH: l.ctxt.GOARCH}
	sc := pkg.Scope()
	for _, name := range sc.Names() {
		o := sc.Lookup(name)
		if !o.Exported() {
			continue
		}
		r := refObj{Name: name, CK: "na"}
		switch o := o.(type) {
		case *types.Const:
			r.Kind = "const"
			if b, ok := o.Type().(*types.Basic); ok && b.Info()&types.IsUntyped != 0 {
				switch o.Val().Kind() {
				case constant.Int:
					r.CK = "int"
					if b.Kind() == types.UntypedRune {
						r.CK = "rune"
					}
				case constant.Float:
					r.CK = "float"
				case constant.String:
					r.CK = "string"
				case constant.Bool:
					r.CK = "bool"
				case constant.Complex:
					r.CK = "complex"
				default:
					r.CK = "na"
				}
			} else {
				r.CK = "typed"
			}
			r.Val = o.Val()
		case *types.Func:
			r.Kind = "func"
			if s := o.Type().(*types.Signature); s.TypeParams().Len() > 0 || s.RecvTypeParams().Len() > 0 {
				r.Skip = true
			}
		case *types.Var:
			r.Kind = "var"
		case *types.Builtin:
			r.Kind = "builtin"
		case *types.TypeName:
			r.Kind = "type"
			if t, ok := o.Type().(*types.Named); ok && t.TypeParams().Len() > 0 {
				r.Skip = true
			} else if t, ok := o.Type().Underlying().(*types.Interface); ok {
				if t.NumMethods() == 0 && t.NumEmbeddeds() != 0 {
					r.Skip = true
				} else {
					r.Iface = true
					ri := refIface{Name: name}
					for i := 0; i < t.NumMethods(); i++ {
						f := t.Method(i)
						if !f.Exported() {
							continue
						}
						ri.Methods = append(ri.Methods, refMethod{f.Name(), refSig(f.Type().(*types.Signature))})
					}
					rp.Ifaces = append(rp.Ifaces, ri)
				}
			}
		default:
			continue
		}
		rp.Objs = append(rp.Objs, r)
	}
	return rp, nil
}

// ---- api files -------------------------------------------------------------------------------------------

type apiObj struct {
	Since   int             // first release with a (non-excepted) feature line of this object in the context
	Generic bool            // declared with type parameters
	Methods map[string]int  // interface methods: name → release of its feature line
	Ctx     map[string]bool // contexts ("" = every platform) in which it is declared
}

type apiDB struct {
	// pkg → ctx → name → object
	objs map[string]map[string]map[string]*apiObj
	// releases whose file was read
	Releases []int
}

var featRe = regexp.MustCompile(`^pkg ([^ ,(]+)(?: \(([a-z0-9-]+)\))?, (const|func|var|type) ([A-Za-z_][A-Za-z0-9_]*)(.*)$`)
var ifaceMethRe = regexp.MustCompile(`^ interface, ([A-Za-z_][A-Za-z0-9_]*)\(`)

func loadAPI() (*apiDB, error) {
	dir := filepath.Join(goroot(), "api")
	except := map[string]bool{}
	if f, err := os.Open(filepath.Join(dir, "except.txt")); err == nil {
		sc := bufio.NewScanner(f)
		sc.Buffer(make([]byte, 1<<20), 1<<24)
		for sc.Scan() {
			except[strings.TrimSpace(sc.Text())] = true
		}
		f.Close()
	} else {
		return nil, err
	}
	db := &apiDB{objs: map[string]map[string]map[string]*apiObj{}}
	names, _ := filepath.Glob(filepath.Join(dir, "go1*.txt"))
	type rel struct {
		n    int
		path string
	}
	var rels []rel
	for _, p := range names {
		b := strings.TrimSuffix(filepath.Base(p), ".txt")
		n := 0
		if b != "go1" {
			v, err := strconv.Atoi(strings.TrimPrefix(b, "go1."))
			if err != nil {
				continue
			}
			n = v
		}
		rels = append(rels, rel{n, p})
	}
	sort.Slice(rels, func(i, j int) bool { return rels[i].n < rels[j].n })
	for _, r := range rels {
		db.Releases = append(db.Releases, r.n)
		f, err := os.Open(r.path)
		if err != nil {
			return nil, err
		}
		sc := bufio.NewScanner(f)
		sc.Buffer(make([]byte, 1<<20), 1<<24)
		for sc.Scan() {
			line := strings.TrimSpace(sc.Text())
			if line == "" || strings.HasPrefix(line, "#") {
				continue
			}
			if except[line] {
				continue
			}
			feat := line
			if i := strings.Index(feat, " #"); i >= 0 {
				feat = strings.TrimSpace(feat[:i])
				if except[feat] {
					continue
				}
			}
			m := featRe.FindStringSubmatch(feat)
			if m == nil {
				continue // methods of concrete types
			}
			pkg, ctx, kind, name, rest := m[1], m[2], m[3], m[4], m[5]
			if db.objs[pkg] == nil {
				db.objs[pkg] = map[string]map[string]*apiObj{}
			}
			if db.objs[pkg][ctx] == nil {
				db.objs[pkg][ctx] = map[string]*apiObj{}
			}
			o := db.objs[pkg][ctx][name]
			if o == nil {
				o = &apiObj{Since: r.n, Methods: map[string]int{}}
				db.objs[pkg][ctx][name] = o
			}
			if (kind == "func" || kind == "type") && strings.HasPrefix(rest, "[") {
				o.Generic = true
			}
			if kind == "type" {
				if mm := ifaceMethRe.FindStringSubmatch(rest); mm != nil {
					if _, ok := o.Methods[mm[1]]; !ok {
						o.Methods[mm[1]] = r.n
					}
				}
			}
		}
		f.Close()
	}
	return db, nil
}

// names returns the exported package-level objects that release `rel` declares for pkg in the platform
// context goos-goarch (lines without a context apply to every platform), generic ones excluded.
func (db *apiDB) names(pkg string, rel int, goos, goarch string) []string {
	set := map[string]bool{}
	for _, ctx := range []string{"", goos + "-" + goarch} {
		for n, o := range db.objs[pkg][ctx] {
			if o.Since <= rel && !o.Generic {
				set[n] = true
			}
		}
	}
	return sortedKeys(set)
}

// methodSince returns the release in which the api files first list method m of interface type t (0: go1 or
// not listed separately).
func (db *apiDB) methodSince(pkg, t, m, goos, goarch string) int {
	since := 0
	for _, ctx := range []string{"", goos + "-" + goarch} {
		if o := db.objs[pkg][ctx][t]; o != nil {
			if r, ok := o.Methods[m]; ok && r > since {
				since = r
			}
		}
	}
	return since
}

// hasContext reports whether the api files describe the platform at all.
func (db *apiDB) hasContext(goos, goarch string) bool {
	_, ok := db.objs["syscall"][goos+"-"+goarch]
	return ok
}
