package main

// Small facts tied to Expected/C14.lean by `decide`: the restricted map of extract/extract.go with the declarations
// of stdlib/restricted.go, the include/exclude lists of the go:generate lines, the tables of the hand-written
// files, the census of generated files against the go:generate package lists.

import (
	"fmt"
	"go/ast"
	"go/token"
	"sort"
	"strconv"
	"strings"
	"unicode"

	"verif/extract/common"
)

func factsModule(repo string, all []*bindFile, census, stray, stdPkgs, std22, sysInc, sysExc, unrInc, unrExc []string, units []*unit) (string, error) {
	var b strings.Builder
	b.WriteString("import YaegiVerif.Model.Bind\nnamespace YaegiVerif.Generated.C14.Facts\nopen YaegiVerif.Bind\n")

	// extract/extract.go: var restricted = map[string]bool{…}
	_, xf, err := common.ParseFile(repo, "extract/extract.go")
	if err != nil {
		return "", err
	}
	_, rf, err := common.ParseFile(repo, "stdlib/restricted.go")
	if err != nil {
		return "", err
	}
	declared := map[string]string{}
	for _, d := range rf.Decls {
		switch d := d.(type) {
		case *ast.FuncDecl:
			if d.Recv == nil {
				declared[d.Name.Name] = "func"
			}
		case *ast.GenDecl:
			if d.Tok == token.TYPE {
				for _, s := range d.Specs {
					declared[s.(*ast.TypeSpec).Name.Name] = "type"
				}
			}
		}
	}
	var restr []string
	if cl, ok := common.FindVar(xf, "restricted").(*ast.CompositeLit); ok {
		for _, el := range cl.Elts {
			kv, ok := el.(*ast.KeyValueExpr)
			if !ok {
				restr = append(restr, "unrecognised: element")
				continue
			}
			k, ok1 := kv.Key.(*ast.BasicLit)
			v, ok2 := kv.Value.(*ast.Ident)
			if !ok1 || !ok2 || v.Name != "true" {
				restr = append(restr, "unrecognised: entry")
				continue
			}
			s, _ := strconv.Unquote(k.Value)
			restr = append(restr, s)
		}
	} else {
		restr = append(restr, "unrecognised: restricted is not a map literal")
	}
	sort.Strings(restr)
	b.WriteString("/-- extract/extract.go `restricted`: identifier, package and key it replaces (split at the first upper-case\n    letter, as `p.Name() + name` composes it), what stdlib/restricted.go declares under that identifier -/\n")
	b.WriteString("def restricted : List (String × String × String × String) := [")
	for i, id := range restr {
		cut := strings.IndexFunc(id, unicode.IsUpper)
		pkg, key := id, ""
		if cut > 0 {
			pkg, key = id[:cut], id[cut:]
		}
		decl := declared[id]
		if decl == "" {
			decl = "undeclared"
		}
		if i > 0 {
			b.WriteString(",")
		}
		fmt.Fprintf(&b, "\n  (%s, %s, %s, %s)", common.LeanStr(id), common.LeanStr(pkg), common.LeanStr(key), common.LeanStr(decl))
	}
	b.WriteString("]\n")

	fmt.Fprintf(&b, "/-- go:generate lines of stdlib/syscall/syscall.go and stdlib/unrestricted/unrestricted.go -/\n")
	fmt.Fprintf(&b, "def syscallInclude : List String := %s\ndef syscallExclude : List String := %s\n", common.LeanStrList(sysInc), common.LeanStrList(sysExc))
	fmt.Fprintf(&b, "def unrestrictedInclude : List String := %s\ndef unrestrictedExclude : List String := %s\n", common.LeanStrList(unrInc), common.LeanStrList(unrExc))

	// hand-written tables
	b.WriteString("/-- every `Symbols[…]` table of the hand-written files: file, table key, entry key, bound expression -/\n")
	b.WriteString("def handTables : List (String × String × String × String) := [")
	first := true
	for _, bf := range all {
		if bf.Generated {
			continue
		}
		for _, t := range bf.Tables {
			for _, e := range t.Entries {
				q := e.Qual
				if q != "" {
					q += "."
				}
				if !first {
					b.WriteString(",")
				}
				first = false
				fmt.Fprintf(&b, "\n  (%s, %s, %s, %s)", common.LeanStr(bf.Rel), common.LeanStr(t.SymKey), common.LeanStr(e.Key), common.LeanStr(e.Form+" "+q+e.Sel))
			}
		}
	}
	b.WriteString("]\n")
	var unrec []string
	for _, bf := range all {
		for _, u := range bf.Unrecog {
			unrec = append(unrec, bf.Rel+": "+u)
		}
	}
	fmt.Fprintf(&b, "/-- statements or declarations that touch `Symbols` (any, in generated files) and are not table definitions -/\ndef unrecognised : List String := %s\n", common.LeanStrList(unrec))
	fmt.Fprintf(&b, "/-- generated files that do not consist of exactly one table -/\ndef strayGenerated : List String := %s\n", common.LeanStrList(stray))

	// census: dir code, release, package
	dirCode := map[string]int{"stdlib": 0, "stdlib/syscall": 1, "stdlib/unsafe": 2, "stdlib/unrestricted": 3}
	b.WriteString("/-- generated files: directory (0 stdlib, 1 syscall, 2 the wrapper of package unsafe, 3 unrestricted), release, package -/\n")
	b.WriteString("def genFiles : List (Nat × Nat × Nat) := [")
	count := map[string]int{}
	first = true
	for _, u := range units {
		if u.Hand {
			continue
		}
		if !first {
			b.WriteString(",")
		}
		first = false
		fmt.Fprintf(&b, "\n  (%d, %d, %s) /- %s -/", dirCode[u.BF.Dir], u.BF.Release, codeStr(u.Pkg), comment(u.BF.Rel))
		count[fmt.Sprintf("%d %d", dirCode[u.BF.Dir], u.BF.Release)]++
	}
	b.WriteString("]\n")
	b.WriteString("/-- packages named by the go:generate lines of stdlib/stdlib.go (from go1.21) and stdlib/stdlib-go1.22.go (from go1.22) -/\n")
	b.WriteString("def wanted : List (Nat × Nat) := [")
	first = true
	for _, set := range []struct {
		pk  []string
		rel int
	}{{stdPkgs, 21}, {std22, 22}} {
		for _, p := range set.pk {
			if !first {
				b.WriteString(",")
			}
			first = false
			fmt.Fprintf(&b, "\n  (%s, %d) /- %s -/", codeStr(p), set.rel, comment(p))
		}
	}
	b.WriteString("]\n")
	b.WriteString("/-- number of generated files per (directory, release) -/\ndef census : List (Nat × Nat × Nat) := [")
	keys := sortedKeys(count)
	for i, k := range keys {
		var d, r int
		fmt.Sscanf(k, "%d %d", &d, &r)
		if i > 0 {
			b.WriteString(", ")
		}
		fmt.Fprintf(&b, "(%d, %d, %d)", d, r, count[k])
	}
	b.WriteString("]\n")
	b.WriteString("end YaegiVerif.Generated.C14.Facts\n")
	return b.String(), nil
}
