package main

// The checks and decisions that the repairs of the third round put around the folding functions
// (Model/Const.lean `CheckFacts`, `constToken`, the `compare` entry). Every fact is recognised by the exact shape of
// the statement in the source; anything else is reported as the value the model treats as "repair absent" together
// with an "unrecognised" comment, so that the tie theorem breaks and the driver follows the code before the repair.

import (
	"fmt"
	"go/ast"
	"go/token"
	"regexp"
	"strings"

	"verif/extract/common"
)

// caseOf finds, inside fn, the case clauses whose expression list renders as want (comma separated).
func casesOf(fd *ast.FuncDecl, want string) []*ast.CaseClause {
	var out []*ast.CaseClause
	if fd == nil {
		return nil
	}
	ast.Inspect(fd.Body, func(n ast.Node) bool {
		cc, ok := n.(*ast.CaseClause)
		if !ok {
			return true
		}
		var xs []string
		for _, e := range cc.List {
			xs = append(xs, render(e))
		}
		if strings.Join(xs, ", ") == want {
			out = append(out, cc)
		}
		return true
	})
	return out
}

// ifsIn lists the if statements (at any depth) of the statements.
func ifsIn(stmts []ast.Stmt) []*ast.IfStmt {
	var out []*ast.IfStmt
	for _, s := range stmts {
		ast.Inspect(s, func(n ast.Node) bool {
			if is, ok := n.(*ast.IfStmt); ok {
				out = append(out, is)
			}
			return true
		})
	}
	return out
}

func ifCond(is *ast.IfStmt) string { return render(is.Cond) }
func ifInit(is *ast.IfStmt) string {
	if is.Init == nil {
		return ""
	}
	return render(is.Init)
}

// foldFraming: in the post-order case `caseExpr` of cfg, the statement `if <cond> { … constOp[n.action](n) … }`:
// is the fold preceded by `if err = check.constExpr(n); err != nil { break }` and followed by
// `if err = check.constOverflow(n); err != nil { break }`?
func foldFraming(cfg *ast.FuncDecl, caseExpr, cond string) (pre, post string) {
	pre, post = "false /- "+unrec("fold of the "+caseExpr+" case")+" -/", "false"
	for _, cc := range casesOf(cfg, caseExpr) {
		for _, is := range ifsIn(cc.Body) {
			if ifCond(is) != cond {
				continue
			}
			at := -1
			for i, s := range is.Body.List {
				if render(s) == "constOp[n.action](n)" {
					at = i
				}
			}
			if at < 0 {
				continue
			}
			isCheck := func(s ast.Stmt, name string) bool {
				c, ok := s.(*ast.IfStmt)
				return ok && ifInit(c) == "err = check."+name+"(n)" && ifCond(c) == "err != nil" && c.Else == nil &&
					len(c.Body.List) == 1 && render(c.Body.List[0]) == "break"
			}
			pre, post = "false", "false"
			for i, s := range is.Body.List {
				if i < at && isCheck(s, "constExpr") {
					pre = "true"
				}
				if i > at && isCheck(s, "constOverflow") {
					post = "true"
				}
			}
		}
	}
	return
}

var reBits = regexp.MustCompile(`^c != nil && c\.Kind\(\) == constant\.Int && constant\.BitLen\(c\) > (\d+)$`)
var reCount = regexp.MustCompile(`^c0\.rval\.IsValid\(\) && c1\.rval\.IsValid\(\) && vUint\(c1\.rval\) > (\d+)$`)
var reClamp = regexp.MustCompile(`^x = constant\.Shift\(x, tok, uint\(min\(vUint\(c1\.rval\), (\d+)\)\)\)$`)

func returnsError(is *ast.IfStmt) bool {
	if len(is.Body.List) != 1 {
		return false
	}
	rs, ok := is.Body.List[0].(*ast.ReturnStmt)
	return ok && len(rs.Results) == 1 && strings.Contains(render(rs.Results[0]), "cfgErrorf(")
}

func checkFacts(repo string) (string, error) {
	_, fC, err := common.ParseFile(repo, "interp/cfg.go")
	if err != nil {
		return "", err
	}
	_, fT, err := common.ParseFile(repo, "interp/typecheck.go")
	if err != nil {
		return "", err
	}
	_, fY, err := common.ParseFile(repo, "interp/type.go")
	if err != nil {
		return "", err
	}
	cfg := common.FindFunc(fC, "Interpreter", "cfg")
	f := map[string]string{}

	f["constExprBin"], f["overflowBin"] = foldFraming(cfg, "binaryExpr",
		"c0.rval.IsValid() && c1.rval.IsValid() && (!isInterface(n.typ)) && constOp[n.action] != nil")
	f["constExprUn"], f["overflowUn"] = foldFraming(cfg, "unaryExpr",
		"n.child[0].rval.IsValid() && !isInterface(n.typ) && constOp[n.action] != nil")

	// constOverflow: `if c := constValue(n.rval); c != nil && c.Kind() == constant.Int && constant.BitLen(c) > N { return error }`
	f["intBitsMax"] = "none"
	if fd := common.FindFunc(fT, "typecheck", "constOverflow"); fd != nil && len(fd.Body.List) == 2 {
		if is, ok := fd.Body.List[0].(*ast.IfStmt); ok && ifInit(is) == "c := constValue(n.rval)" && returnsError(is) {
			if m := reBits.FindStringSubmatch(ifCond(is)); m != nil && render(fd.Body.List[1]) == "return nil" {
				f["intBitsMax"] = "some " + m[1]
			}
		}
		if f["intBitsMax"] == "none" {
			f["intBitsMax"] = "none /- " + unrec("constOverflow") + " -/"
		}
	}

	// shift: the limit on constant counts, and the floating-point count
	shift := common.FindFunc(fT, "typecheck", "shift")
	f["shiftCountMax"], f["floatShiftCount"] = "none", "false"
	if shift != nil {
		for _, is := range ifsIn(shift.Body.List) {
			if m := reCount.FindStringSubmatch(ifCond(is)); m != nil && returnsError(is) && is.Else == nil {
				f["shiftCountMax"] = "some " + m[1]
			}
		}
		for _, cc := range casesOf(shift, "c0.rval.IsValid() && c1.rval.IsValid() && isFloat(t1) && vFloat(c1.rval) >= 0 && vFloat(c1.rval) == math.Trunc(vFloat(c1.rval))") {
			if len(cc.Body) == 0 {
				f["floatShiftCount"] = "true"
			}
		}
	}

	// constExpr: the clamp of the shift count, the exact integer quotient
	f["shiftClamp"], f["quoIntExact"] = "0", "false"
	if fd := common.FindFunc(fT, "typecheck", "constExpr"); fd != nil {
		for _, cc := range casesOf(fd, "isShiftAction(n.action)") {
			if len(cc.Body) == 1 {
				if m := reClamp.FindStringSubmatch(render(cc.Body[0])); m != nil {
					f["shiftClamp"] = m[1]
				}
			}
		}
		for _, cc := range casesOf(fd, "tok == token.QUO && isInt(t)") {
			if len(cc.Body) == 1 && render(cc.Body[0]) == "x = constant.BinaryOp(x, token.QUO_ASSIGN, y)" {
				f["quoIntExact"] = "true"
			}
		}
	}

	// binaryExpr: the early return for a quotient of two constants
	f["quoEarlyReturn"] = "false"
	if fd := common.FindFunc(fT, "typecheck", "binaryExpr"); fd != nil {
		for _, cc := range casesOf(fd, "aQuo, aQuoAssign") {
			for _, is := range ifsIn(cc.Body) {
				if ifCond(is) == "c0.rval.IsValid() && c1.rval.IsValid()" && len(is.Body.List) == 1 && render(is.Body.List[0]) == "return nil" {
					f["quoEarlyReturn"] = "true"
				}
			}
		}
	} else {
		f["quoEarlyReturn"] = "true /- " + unrec("typecheck.binaryExpr") + " -/"
	}

	// zeroConst
	f["zeroForm"] = ".other"
	if fd := common.FindFunc(fT, "", "zeroConst"); fd != nil {
		switch render(fd.Body) {
		case "{ if !n.rval.IsValid() || !isNumber(n.typ.TypeOf()) { return false } if c, ok := n.rval.Interface().(constant.Value); ok { return constant.Sign(c) == 0 } return !n.rval.CanSet() && n.rval.IsZero() }":
			f["zeroForm"] = ".anyConst"
		case "{ return n.typ.untyped && constant.Sign(n.rval.Interface().(constant.Value)) == 0 }":
			f["zeroForm"] = ".untypedOnly"
		}
	}

	// cfg.go binaryExpr case: an operation on untyped constants stays untyped
	f["untypedStays"] = "false"
	untypedConst := false
	if fd := common.FindFunc(fC, "", "isUntypedConst"); fd != nil {
		untypedConst = render(fd.Body) == "{ return n.typ.untyped && n.rval.IsValid() && isConstantValue(n.rval.Type()) }"
	}
	for _, cc := range casesOf(cfg, "binaryExpr") {
		seenCheck := false
		for _, s := range cc.Body {
			if render(s) == "err = check.binaryExpr(n)" {
				seenCheck = true
			}
			if is, ok := s.(*ast.IfStmt); ok && seenCheck && untypedConst && is.Init == nil && is.Else == nil &&
				// since 707c765 the rule also applies, without a pushed-down type, to the operand of a return statement
				// (a context outside the model): both shapes are the rule of 3f5ccd5
				(ifCond(is) == "n.typ != nil && isUntypedConst(c0) && (isUntypedConst(c1) || isShiftNode(n) && c1.rval.IsValid())" ||
					ifCond(is) == "(n.typ != nil || n.anc.kind == returnStmt) && isUntypedConst(c0) && (isUntypedConst(c1) || isShiftNode(n) && c1.rval.IsValid())") &&
				len(is.Body.List) == 1 && render(is.Body.List[0]) == "n.typ = c0.typ" {
				f["untypedStays"] = "true"
			}
		}
	}

	// conversion / representable / convertUntyped
	f["convTypedChecked"] = "false"
	if fd := common.FindFunc(fT, "typecheck", "conversion"); fd != nil {
		for _, is := range ifsIn(fd.Body.List) {
			if ifCond(is) == "c == nil && n.rval.IsValid() && isNumber(typ.TypeOf())" && len(is.Body.List) == 1 {
				if in, ok := is.Body.List[0].(*ast.IfStmt); ok && ifInit(in) == "err := check.representable(n, typ.TypeOf())" &&
					ifCond(in) == "err != nil" && len(in.Body.List) == 1 && render(in.Body.List[0]) == "return err" {
					f["convTypedChecked"] = "true"
				}
			}
		}
	}
	f["reprConstValue"] = "false"
	if fd := common.FindFunc(fT, "typecheck", "representable"); fd != nil {
		for _, s := range fd.Body.List {
			switch render(s) {
			case "c := constValue(n.rval)":
				f["reprConstValue"] = "true"
			case "c, ok := n.rval.Interface().(constant.Value)":
				f["reprConstValue"] = "false"
			}
		}
	}
	f["boolConvChecked"] = "false"
	if fd := common.FindFunc(fT, "typecheck", "convertUntyped"); fd != nil {
		for _, is := range ifsIn(fd.Body.List) {
			if ifCond(is) == "n.typ.isNil() || isBoolean(ntyp) != isBoolean(ttyp)" && len(is.Body.List) == 1 && render(is.Body.List[0]) == "return convErr" {
				f["boolConvChecked"] = "true"
			}
		}
	}

	// landExpr / lorExpr: the fold
	logical := func(caseExpr, op string) bool {
		for _, cc := range casesOf(cfg, caseExpr) {
			for _, is := range ifsIn(cc.Body) {
				if ifInit(is) == "x, y := constValue(n.child[0].rval), constValue(n.child[1].rval)" && ifCond(is) == "x != nil && y != nil" &&
					len(is.Body.List) > 0 && render(is.Body.List[0]) == "n.rval = reflect.ValueOf(constant.BoolVal(x) "+op+" constant.BoolVal(y))" {
					return true
				}
			}
		}
		return false
	}
	f["foldLogical"] = fmt.Sprint(logical("landExpr", "&&") && logical("lorExpr", "||"))

	// pre-order: the type of a boolean parent is not pushed down
	f["cmpNotPushed"] = "false /- " + unrec("pre-order type propagation") + " -/"
	for _, cc := range casesOf(cfg, "binaryExpr, unaryExpr, parenExpr") {
		if len(cc.Body) != 1 {
			continue
		}
		if render(cc.Body[0]) == "n.typ = n.anc.typ" {
			f["cmpNotPushed"] = "false"
		}
		if is, ok := cc.Body[0].(*ast.IfStmt); ok && is.Init == nil && is.Else == nil && ifCond(is) == "!isBoolAction(n.anc)" &&
			len(is.Body.List) == 1 && render(is.Body.List[0]) == "n.typ = n.anc.typ" {
			f["cmpNotPushed"] = "true"
		}
	}

	// builtin len
	f["lenConstString"] = "false /- " + unrec("len case of the builtin calls") + " -/"
	constString := false
	f["lenAnyConstString"] = "false"
	if fd := common.FindFunc(fC, "", "isConstString"); fd != nil {
		switch render(fd.Body) {
		case "{ return n.rval.IsValid() && isString(n.typ.TypeOf()) && (n.kind == basicLit || isConstantValue(n.rval.Type())) }":
			constString = true
		case "{ for n.kind == parenExpr { n = n.child[0] } if !n.rval.IsValid() || !isString(n.typ.TypeOf()) { return false } if n.kind == identExpr || n.kind == selectorExpr { return isConstantValue(n.rval.Type()) } return true }":
			constString = true
			f["lenAnyConstString"] = "true"
		}
	}
	if len(casesOf(cfg, `bname == "len" && isInConstOrTypeDecl(n)`)) == 1 {
		f["lenConstString"] = "false"
	}
	if len(casesOf(cfg, `bname == "len" && (isInConstOrTypeDecl(n) || isConstString(n.child[1]))`)) == 1 && constString {
		f["lenConstString"] = "true"
	}

	// type.go nodeType2, basicLit: a rune literal seen a second time
	f["runeLitKeepsType"] = "false"
	if fd := common.FindFunc(fY, "", "nodeType2"); fd != nil {
		for _, cc := range casesOf(fd, "constant.Int") {
			body := cc.Body
			if len(body) == 3 {
				if is, ok := body[0].(*ast.IfStmt); ok && strings.HasPrefix(ifCond(is), "constant.BitLen(v) > ") {
					body = body[1:] // the limit on literals (638fc07) precedes
				}
			}
			if len(body) == 2 && render(body[0]) == "t = untypedInt(n)" {
				if is, ok := body[1].(*ast.IfStmt); ok && ifCond(is) == `strings.HasPrefix(n.ident, "'")` && len(is.Body.List) == 1 &&
					render(is.Body.List[0]) == "t = untypedRune(n)" {
					f["runeLitKeepsType"] = "true"
				}
			}
		}
	}

	// convertConst: the float32 case takes the nearest float32 of the exact value
	f["f32Direct"] = "false"
	if fd := common.FindFunc(fT, "typecheck", "convertConst"); fd != nil {
		for _, cc := range casesOf(fd, "reflect.Float32") {
			if len(cc.Body) == 2 && render(cc.Body[0]) == "f, _ := constant.Float32Val(constant.ToFloat(c))" &&
				render(cc.Body[1]) == "v = reflect.ValueOf(f)" {
				f["f32Direct"] = "true"
			}
		}
	} else {
		f["f32Direct"] = "false /- " + unrec("typecheck.convertConst") + " -/"
	}

	// shift: the guarded replacement of an untyped left operand
	f["shiftBoolGuard"] = "false"
	if shift != nil {
		for _, is := range ifsIn(shift.Body.List) {
			if ifCond(is) == "c0.typ.untyped && c0.rval.IsValid()" && len(is.Body.List) == 1 {
				if in, ok := is.Body.List[0].(*ast.IfStmt); ok && ifInit(in) == "c, ok := c0.rval.Interface().(constant.Value)" && ifCond(in) == "ok" &&
					len(in.Body.List) == 2 && render(in.Body.List[0]) == "v0 = constant.ToInt(c)" && render(in.Body.List[1]) == "c0.rval = reflect.ValueOf(v0)" {
					f["shiftBoolGuard"] = "true"
				}
			}
		}
	}

	// binaryExpr, case aAdd: two untyped constants are not compared with the node type
	f["addSkipsUntyped"] = "false"
	if fd := common.FindFunc(fT, "typecheck", "binaryExpr"); fd != nil {
		for _, cc := range casesOf(fd, "aAdd") {
			if len(cc.Body) > 0 {
				if is, ok := cc.Body[0].(*ast.IfStmt); ok && len(is.Body.List) == 1 && render(is.Body.List[0]) == "break" {
					switch ifCond(is) {
					case "n.typ == nil || isUntypedConst(c0) && isUntypedConst(c1)":
						f["addSkipsUntyped"] = "true"
					case "n.typ == nil":
						f["addSkipsUntyped"] = "false"
					default:
						f["addSkipsUntyped"] = "false /- " + unrec("aAdd case of typecheck.binaryExpr") + " -/"
					}
				}
			}
		}
	}

	// cfg.go binaryExpr case: the type of an operation on a typed operand
	f["operandTypeWins"] = "false"
	for _, cc := range casesOf(cfg, "aAdd, aSub, aMul, aQuo, aAnd, aOr, aXor, aAndNot") {
		// since 674fd4c the first case lets constant operations through also without a pushed-down type (the model
		// computes the same type with nodeType there): both shapes are the rule of 2988c87
		if len(cc.Body) == 1 && (render(cc.Body[0]) == "switch { case n.typ == nil: case !c0.typ.untyped: n.typ = c0.typ case !c1.typ.untyped: n.typ = c1.typ }" ||
			render(cc.Body[0]) == "switch { case n.typ == nil && !(c0.rval.IsValid() && c1.rval.IsValid()): case !c0.typ.untyped: n.typ = c0.typ case !c1.typ.untyped: n.typ = c1.typ }") {
			f["operandTypeWins"] = "true"
		} else {
			f["operandTypeWins"] = "false /- " + unrec("operand type case of the binaryExpr case") + " -/"
		}
	}

	// cfg.go binaryExpr case, shifts: a constant shift of an untyped constant is an untyped integer constant
	f["shiftUntypedInt"] = "false"
	for _, cc := range casesOf(cfg, "aShl, aShr") {
		if len(cc.Body) == 2 && render(cc.Body[1]) == "n.typ = c0.typ" {
			switch render(cc.Body[0]) {
			case "if c0.typ.untyped { if c0.rval.IsValid() && c1.rval.IsValid() { if n.typ = c0.typ; !isInt(n.typ.TypeOf()) { n.typ = untypedInt(n) } } break }":
				f["shiftUntypedInt"] = "true"
			case "if c0.typ.untyped { break }":
				f["shiftUntypedInt"] = "false"
			default:
				f["shiftUntypedInt"] = "false /- " + unrec("shift case of the binaryExpr case") + " -/"
			}
		}
	}

	// conversion: string(c), the code point
	f["codepointChecked"] = "false"
	if fd := common.FindFunc(fT, "typecheck", "conversion"); fd != nil {
		for _, is := range ifsIn(fd.Body.List) {
			if ifInit(is) == "i, ok := constant.Int64Val(c)" {
				switch {
				case ifCond(is) == "ok && i == int64(rune(i))" && len(is.Body.List) == 1 && render(is.Body.List[0]) == "codepoint = rune(i)":
					f["codepointChecked"] = "true"
				case ifCond(is) == "ok" && len(is.Body.List) == 1 && render(is.Body.List[0]) == "codepoint = i":
					f["codepointChecked"] = "false"
				default:
					f["codepointChecked"] = "false /- " + unrec("code point of string(c)") + " -/"
				}
			}
		}
	}

	// nodeType2, basicLit: the limit on integer literals
	f["litBitsMax"] = "none"
	if fd := common.FindFunc(fY, "", "nodeType2"); fd != nil {
		for _, cc := range casesOf(fd, "constant.Int") {
			if len(cc.Body) > 0 {
				if is, ok := cc.Body[0].(*ast.IfStmt); ok && is.Init == nil {
					if m := regexp.MustCompile(`^constant\.BitLen\(v\) > (\d+)$`).FindStringSubmatch(ifCond(is)); m != nil &&
						len(is.Body.List) == 2 && strings.HasPrefix(render(is.Body.List[0]), "err = n.cfgErrorf(") && render(is.Body.List[1]) == "break" {
						f["litBitsMax"] = "some " + m[1]
					}
				}
			}
		}
	}

	// constToken
	var toks []string
	if cl, ok := common.FindVar(fT, "constToken").(*ast.CompositeLit); ok {
		for _, e := range cl.Elts {
			kv, ok := e.(*ast.KeyValueExpr)
			if !ok {
				continue
			}
			k, ok1 := kv.Key.(*ast.Ident)
			t := tokOf(kv.Value)
			if !ok1 || actNames[k.Name] == "" || t == "" {
				toks = append(toks, "(.other, .other) /- "+unrec("constToken entry "+render(kv))+" -/")
				continue
			}
			toks = append(toks, fmt.Sprintf("(.%s, .%s)", actNames[k.Name], t))
		}
	}

	var b strings.Builder
	fmt.Fprintf(&b, "/-- interp/typecheck.go: constToken -/\ndef constToken : List (Act × Tok) :=\n  [%s]\n", strings.Join(toks, ", "))
	order := []string{"constExprBin", "constExprUn", "overflowBin", "overflowUn", "intBitsMax", "shiftCountMax", "shiftClamp", "quoIntExact",
		"quoEarlyReturn", "zeroForm", "untypedStays", "floatShiftCount", "convTypedChecked", "reprConstValue", "boolConvChecked",
		"foldLogical", "cmpNotPushed", "lenConstString", "runeLitKeepsType", "f32Direct",
		"shiftBoolGuard", "addSkipsUntyped", "operandTypeWins", "codepointChecked", "lenAnyConstString", "litBitsMax", "shiftUntypedInt"}
	var fields []string
	for _, k := range order {
		fields = append(fields, k+" := "+f[k])
	}
	fmt.Fprintf(&b, "/-- the checks around the folds: interp/cfg.go (post-order cases binaryExpr, unaryExpr, landExpr, lorExpr, builtin len; pre-order type propagation), interp/typecheck.go (constExpr, constOverflow, shift, binaryExpr, zeroConst, conversion, representable, convertUntyped), interp/type.go (nodeType2) -/\ndef checkFacts : CheckFacts :=\n  { %s }\n",
		strings.Join(fields, ",\n    "))
	return b.String(), nil
}

// compareFold recognises typecheck.go compareConst:
//
//	if x, y := constValue(n.child[0].rval), constValue(n.child[1].rval); x != nil && y != nil {
//		n.rval = reflect.ValueOf(constant.Compare(x, constToken[n.action], y))
//	}
func compareFold(fd *ast.FuncDecl) bool {
	if fd == nil || len(fd.Body.List) != 1 {
		return false
	}
	is, ok := fd.Body.List[0].(*ast.IfStmt)
	return ok && is.Else == nil && ifInit(is) == "x, y := constValue(n.child[0].rval), constValue(n.child[1].rval)" &&
		ifCond(is) == "x != nil && y != nil" && len(is.Body.List) == 1 &&
		render(is.Body.List[0]) == "n.rval = reflect.ValueOf(constant.Compare(x, constToken[n.action], y))"
}

var _ = token.ADD
