package main

import (
	"crypto/sha256"
	"fmt"
	"go/ast"
	"go/token"
	"strings"

	"verif/extract/common"
)

// iotaFacts looks, inside one function, for
//
//	if childPos(n) == len(n.anc.child)-1 { sc.iota = 0 } else { sc.iota++ }
//
// (every occurrence must have the same shape) and for the materialisation of the ident `iota` from sc.iota.
func iotaFacts(f *ast.File, recv, fn string) string {
	fd := common.FindFunc(f, recv, fn)
	if fd == nil {
		return "{ incr := false, reset := false, fromScope := false } /- " + unrec(fn+" not found") + " -/"
	}
	incr, reset, found := true, true, 0
	fromScope := false
	ast.Inspect(fd.Body, func(n ast.Node) bool {
		switch x := n.(type) {
		case *ast.IfStmt:
			if render(x.Cond) == "childPos(n) == len(n.anc.child)-1" {
				found++
				r := false
				for _, s := range x.Body.List {
					if as, ok := s.(*ast.AssignStmt); ok && render(as) == "sc.iota = 0" {
						r = true
					}
				}
				i := false
				if eb, ok := x.Else.(*ast.BlockStmt); ok {
					for _, s := range eb.List {
						if ids, ok := s.(*ast.IncDecStmt); ok && ids.Tok == token.INC && render(ids.X) == "sc.iota" {
							i = true
						}
					}
				}
				incr = incr && i
				reset = reset && r
			}
		case *ast.CaseClause:
			if len(x.List) == 1 && render(x.List[0]) == `n.ident == "iota"` {
				fromScope = strings.Contains(render(&ast.BlockStmt{List: x.Body}), "constant.MakeInt64(int64(sc.iota))")
			}
		}
		return true
	})
	if found == 0 {
		incr, reset = false, false
	}
	return fmt.Sprintf("{ incr := %v, reset := %v, fromScope := %v }", incr, reset, fromScope)
}

// implicitBlock finds the block of ast.go that implements implicit repetition.
func implicitBlock(f *ast.File) *ast.IfStmt {
	var out *ast.IfStmt
	ast.Inspect(f, func(n ast.Node) bool {
		if is, ok := n.(*ast.IfStmt); ok {
			if render(is.Cond) == "n.anc.kind == defineStmt && n.anc.anc.kind == constDecl && n.anc.nright == 0" {
				out = is
			}
		}
		return true
	})
	return out
}

func declFacts(repo string) (string, string, error) {
	_, fG, err := common.ParseFile(repo, "interp/gta.go")
	if err != nil {
		return "", "", err
	}
	_, fC, err := common.ParseFile(repo, "interp/cfg.go")
	if err != nil {
		return "", "", err
	}
	_, fA, err := common.ParseFile(repo, "interp/ast.go")
	if err != nil {
		return "", "", err
	}
	gta := iotaFacts(fG, "Interpreter", "gta")
	cfg := iotaFacts(fC, "Interpreter", "cfg")
	// in gta.go the ident is not materialised (that is cfg's identExpr case, reached through interp.cfg(n, …))
	gta = strings.Replace(gta, "fromScope := false", "fromScope := "+fmt.Sprint(strings.Contains(cfg, "fromScope := true")), 1)
	prev, typ := false, false
	hash := unrec("implicit repetition block of ast.go not found")
	if is := implicitBlock(fA); is != nil {
		txt := render(is.Body)
		prev = strings.Contains(txt, "pa := a.anc.child[childPos(a)-1]") && strings.Contains(txt, "a.child = append(a.child, interp.dup(pa.lastChild(), a))") &&
			strings.Contains(txt, "a.nright++")
		typ = strings.Contains(txt, "if len(pa.child) > pa.nleft+pa.nright { a.child = append(a.child, interp.dup(pa.child[a.nleft], a)) }")
		hash = fmt.Sprintf("%x", sha256.Sum256([]byte(txt)))[:16]
	}
	lean := fmt.Sprintf("/-- interp/gta.go, interp/cfg.go: iota bookkeeping; interp/ast.go: implicit repetition -/\ndef declFacts : DeclFacts :=\n  { gta := %s,\n    cfg := %s,\n    implicitPrev := %v, implicitType := %v }\n", gta, cfg, prev, typ)
	return lean, hash, nil
}
