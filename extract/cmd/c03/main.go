// extract-C03: the choices made in the source text that the Lean model of constant evaluation is
// parametrised by.
//
//	interp/typecheck.go  bitlen table; representableConst integer arm (arm per kind: guard, signed range test with its
//	                     two comparison operators; final comparison)
//	interp/cfg.go        constOp map (action -> folding function)
//	interp/op.go         per folding function: the go/constant entry point and token it uses, whether the
//	                     operands are wrapped in constant.ToInt, the integer-quotient switch of quoConst
//	fingerprints of the functions the model transcribes by hand
package main

import (
	"fmt"
	"go/ast"
	"go/token"
	"go/types"
	"sort"
	"strings"

	"verif/extract/common"
)

var kindNames = map[string]string{
	"Int": "int", "Int8": "int8", "Int16": "int16", "Int32": "int32", "Int64": "int64",
	"Uint": "uint", "Uint8": "uint8", "Uint16": "uint16", "Uint32": "uint32", "Uint64": "uint64", "Uintptr": "uintptr",
}

// reflectKind recognises `reflect.<Kind>` for the integer kinds.
func reflectKind(e ast.Expr) (string, bool) {
	se, ok := e.(*ast.SelectorExpr)
	if !ok {
		return "", false
	}
	x, ok := se.X.(*ast.Ident)
	if !ok || x.Name != "reflect" {
		return "", false
	}
	k, ok := kindNames[se.Sel.Name]
	return k, ok
}

func unrec(what string) string { return "unrecognised: " + what }

// ---- typecheck.go ----

func bitlenTable(f *ast.File) string {
	cl, ok := common.FindVar(f, "bitlen").(*ast.CompositeLit)
	if !ok {
		return "[] /- " + unrec("bitlen is not a composite literal") + " -/"
	}
	var items []string
	for _, e := range cl.Elts {
		kv, ok := e.(*ast.KeyValueExpr)
		if !ok {
			return "[] /- " + unrec("element of bitlen") + " -/"
		}
		k, ok1 := reflectKind(kv.Key)
		v, ok2 := kv.Value.(*ast.BasicLit)
		if !ok1 || !ok2 || v.Kind != token.INT {
			return "[] /- " + unrec("entry of bitlen") + " -/"
		}
		items = append(items, fmt.Sprintf("(.%s, %s)", k, v.Value))
	}
	return "[" + strings.Join(items, ", ") + "]"
}

// isCall recognises pkg.Name(args…).
func isCall(e ast.Expr, pkg, name string) (*ast.CallExpr, bool) {
	c, ok := e.(*ast.CallExpr)
	if !ok {
		return nil, false
	}
	se, ok := c.Fun.(*ast.SelectorExpr)
	if !ok || se.Sel.Name != name {
		return nil, false
	}
	x, ok := se.X.(*ast.Ident)
	return c, ok && x.Name == pkg
}

// cmpOf maps a comparison token to the Lean `Cmp`.
func cmpOf(op token.Token) string {
	switch op {
	case token.LEQ:
		return ".le"
	case token.LSS:
		return ".lt"
	}
	return ".other"
}

// isReturnFalse recognises `return false`.
func isReturnFalse(s ast.Stmt) bool {
	rs, ok := s.(*ast.ReturnStmt)
	if !ok || len(rs.Results) != 1 {
		return false
	}
	id, ok := rs.Results[0].(*ast.Ident)
	return ok && id.Name == "false"
}

// rangeOf recognises the signed arm with the exact range test
//
//	v, ok := constant.Int64Val(x)
//	if !ok { return false }
//	s := uint(bitlen[t.Kind()])
//	return -1<<(s-1) <lo> v && v <hi> 1<<(s-1)-1
//
// (comments are not statements) and returns the two comparison operators.
func rangeOf(body []ast.Stmt) (lo, hi string, ok bool) {
	if len(body) != 4 {
		return
	}
	as, ok1 := body[0].(*ast.AssignStmt)
	if !ok1 || as.Tok != token.DEFINE || len(as.Lhs) != 2 || len(as.Rhs) != 1 || types.ExprString(as.Lhs[0]) != "v" || types.ExprString(as.Lhs[1]) != "ok" {
		return
	}
	if c, isAcc := isCall(as.Rhs[0], "constant", "Int64Val"); !isAcc || len(c.Args) != 1 || types.ExprString(c.Args[0]) != "x" {
		return
	}
	is, ok2 := body[1].(*ast.IfStmt)
	if !ok2 || is.Init != nil || is.Else != nil || types.ExprString(is.Cond) != "!ok" || len(is.Body.List) != 1 || !isReturnFalse(is.Body.List[0]) {
		return
	}
	sd, ok3 := body[2].(*ast.AssignStmt)
	if !ok3 || sd.Tok != token.DEFINE || len(sd.Lhs) != 1 || len(sd.Rhs) != 1 || types.ExprString(sd.Lhs[0]) != "s" ||
		types.ExprString(sd.Rhs[0]) != "uint(bitlen[t.Kind()])" {
		return
	}
	rs, ok4 := body[3].(*ast.ReturnStmt)
	if !ok4 || len(rs.Results) != 1 {
		return
	}
	and, ok5 := rs.Results[0].(*ast.BinaryExpr)
	if !ok5 || and.Op != token.LAND {
		return
	}
	l, okl := and.X.(*ast.BinaryExpr)
	h, okh := and.Y.(*ast.BinaryExpr)
	if !okl || !okh {
		return
	}
	if types.ExprString(l.X) != "-1 << (s - 1)" || types.ExprString(l.Y) != "v" ||
		types.ExprString(h.X) != "v" || types.ExprString(h.Y) != "1 << (s - 1) - 1" {
		return
	}
	return cmpOf(l.Op), cmpOf(h.Op), true
}

// guardOf recognises the body `if _, ok := constant.<Acc>(x); !ok { return false }`.
func guardOf(body []ast.Stmt) string {
	if len(body) == 1 {
		if isReturnFalse(body[0]) {
			return ".reject"
		}
		if is, ok := body[0].(*ast.IfStmt); ok && is.Else == nil {
			as, ok1 := is.Init.(*ast.AssignStmt)
			un, ok2 := is.Cond.(*ast.UnaryExpr)
			if ok1 && ok2 && un.Op == token.NOT && len(as.Rhs) == 1 && len(is.Body.List) == 1 {
				if isReturnFalse(is.Body.List[0]) {
					if _, ok := isCall(as.Rhs[0], "constant", "Int64Val"); ok {
						return ".int64Val"
					}
					if _, ok := isCall(as.Rhs[0], "constant", "Uint64Val"); ok {
						return ".uint64Val"
					}
				}
			}
		}
	}
	return ""
}

func reprArm(f *ast.File) (pre, cmp, lo, hi string) {
	bad := func(what string) (string, string, string, string) {
		return "[] /- " + unrec(what) + " -/", ".other", ".other", ".other"
	}
	fd := common.FindFunc(f, "", "representableConst")
	if fd == nil || len(fd.Body.List) != 1 {
		return bad("representableConst shape")
	}
	sw, ok := fd.Body.List[0].(*ast.SwitchStmt)
	if !ok || sw.Tag != nil {
		return bad("representableConst outer switch")
	}
	var arm *ast.CaseClause
	for _, s := range sw.Body.List {
		cc := s.(*ast.CaseClause)
		if len(cc.List) == 1 {
			if c, ok := cc.List[0].(*ast.CallExpr); ok {
				if id, ok := c.Fun.(*ast.Ident); ok && id.Name == "isInt" {
					arm = cc
				}
			}
		}
	}
	// expected: x := constant.ToInt(c); if x.Kind() != constant.Int { return false }; switch t.Kind() {…}; return BitLen(x) <op> bitlen[t.Kind()]
	// where the signed arm of the inner switch returns the exact range test itself (rangeOf) and the unsigned arm
	// only guards with Uint64Val (guardOf)
	if arm == nil || len(arm.Body) != 4 {
		return bad("isInt arm of representableConst")
	}
	inner, ok := arm.Body[2].(*ast.SwitchStmt)
	if !ok {
		return bad("inner switch of the isInt arm")
	}
	var items []string
	lo, hi = ".other", ".other" // no range test in the source: the operators are not used by the model
	nRange := 0
	for _, s := range inner.Body.List {
		cc := s.(*ast.CaseClause)
		g := guardOf(cc.Body)
		if l, h, ok := rangeOf(cc.Body); ok {
			if nRange > 0 && (l != lo || h != hi) {
				return bad("two different range tests")
			}
			g, lo, hi = ".int64Range", l, h
			nRange++
		}
		if g == "" {
			return bad("arm of an inner case")
		}
		if cc.List == nil { // default
			if g != ".reject" {
				return bad("default arm of the inner switch")
			}
			continue
		}
		for _, e := range cc.List {
			k, ok := reflectKind(e)
			if !ok {
				return bad("kind in an inner case")
			}
			items = append(items, fmt.Sprintf("(.%s, %s)", k, g))
		}
	}
	pre = "[" + strings.Join(items, ", ") + "]"
	rs, ok := arm.Body[3].(*ast.ReturnStmt)
	if !ok || len(rs.Results) != 1 {
		return pre, ".other", lo, hi
	}
	be, ok := rs.Results[0].(*ast.BinaryExpr)
	if !ok {
		return pre, ".other", lo, hi
	}
	_, okL := isCall(be.X, "constant", "BitLen")
	ix, okR := be.Y.(*ast.IndexExpr)
	if okR {
		id, ok := ix.X.(*ast.Ident)
		okR = ok && id.Name == "bitlen"
	}
	if !okL || !okR {
		return pre, ".other", lo, hi
	}
	return pre, cmpOf(be.Op), lo, hi
}

func main() {
	common.Main("C03", func(repo string) (string, error) {
		fsetT, fT, err := common.ParseFile(repo, "interp/typecheck.go")
		if err != nil {
			return "", err
		}
		pre, cmp, lo, hi := reprArm(fT)
		var b strings.Builder
		b.WriteString("import YaegiVerif.Model.Const\nimport YaegiVerif.Model.ConstDecl\nnamespace YaegiVerif.Generated.C03\nopen YaegiVerif.Const\n")
		fmt.Fprintf(&b, "/-- interp/typecheck.go: bitlen, representableConst (integer arm) -/\ndef reprFacts : ReprFacts :=\n  { bitlen := %s,\n    pre := %s,\n    cmp := %s,\n    lo := %s,\n    hi := %s }\n",
			bitlenTable(fT), pre, cmp, lo, hi)
		more, err := evalFacts(repo)
		if err != nil {
			return "", err
		}
		b.WriteString(more)
		dl, implicitHash, err := declFacts(repo)
		if err != nil {
			return "", err
		}
		b.WriteString(dl)
		hashes := [][3]string{
			{"interp/typecheck.go", "", "representableConst"},
		}
		hashes = append(hashes, evalHashes...)
		sort.SliceStable(hashes, func(i, j int) bool { return false })
		ht := hashTable(repo, hashes)
		ht = strings.TrimSuffix(ht, "]") + ",\n   (" + common.LeanStr("ast.implicitRepetition") + ", " + common.LeanStr(implicitHash) + ")]"
		fmt.Fprintf(&b, "/-- fingerprints of the functions that Model/Const*.lean transcribes -/\ndef sourceHashes : List (String × String) :=\n  %s\n", ht)
		b.WriteString("end YaegiVerif.Generated.C03\n")
		_ = fsetT
		return b.String(), nil
	})
}

// hashTable is common.HashTable over several files.
func hashTable(repo string, names [][3]string) string {
	var b strings.Builder
	b.WriteString("[")
	cache := map[string]*ast.File{}
	for i, n := range names {
		if i > 0 {
			b.WriteString(",\n   ")
		}
		f := cache[n[0]]
		if f == nil {
			_, pf, err := common.ParseFile(repo, n[0])
			if err != nil {
				fmt.Fprintf(&b, "(%s, %s)", common.LeanStr(n[2]), common.LeanStr(unrec(err.Error())))
				continue
			}
			cache[n[0]] = pf
			f = pf
		}
		label := n[2]
		if n[1] != "" {
			label = n[1] + "." + n[2]
		}
		fmt.Fprintf(&b, "(%s, %s)", common.LeanStr(label), common.LeanStr(common.FuncHash(nil, f, n[1], n[2])))
	}
	b.WriteString("]")
	return b.String()
}
