package main

import (
	"bytes"
	"fmt"
	"go/ast"
	"go/printer"
	"go/token"
	"strings"

	"verif/extract/common"
)

// functions whose text the model transcribes (file, receiver, name)
var evalHashes = [][3]string{
	{"interp/typecheck.go", "typecheck", "convertUntyped"},
	{"interp/typecheck.go", "typecheck", "representable"},
	{"interp/typecheck.go", "typecheck", "convertConst"},
	{"interp/typecheck.go", "typecheck", "conversion"},
	{"interp/typecheck.go", "typecheck", "shift"},
	{"interp/typecheck.go", "typecheck", "binaryExpr"},
	{"interp/typecheck.go", "typecheck", "unaryExpr"},
	{"interp/typecheck.go", "typecheck", "comparison"},
	{"interp/typecheck.go", "typecheck", "assignment"},
	{"interp/typecheck.go", "typecheck", "assignExpr"},
	{"interp/typecheck.go", "", "zeroConst"},
	{"interp/typecheck.go", "typecheck", "constExpr"},
	{"interp/typecheck.go", "typecheck", "constOverflow"},
	{"interp/typecheck.go", "", "compareConst"},
	{"interp/typecheck.go", "typecheck", "logicalExpr"},
	{"interp/value.go", "", "constValue"},
	{"interp/cfg.go", "", "isUntypedConst"},
	{"interp/cfg.go", "", "isConstString"},
	{"interp/value.go", "", "setConstFloat"},
	{"interp/op.go", "", "addConst"}, {"interp/op.go", "", "subConst"}, {"interp/op.go", "", "mulConst"},
	{"interp/op.go", "", "quoConst"}, {"interp/op.go", "", "remConst"}, {"interp/op.go", "", "andConst"},
	{"interp/op.go", "", "orConst"}, {"interp/op.go", "", "xorConst"}, {"interp/op.go", "", "andNotConst"},
	{"interp/op.go", "", "shlConst"}, {"interp/op.go", "", "shrConst"}, {"interp/op.go", "", "negConst"},
	{"interp/op.go", "", "posConst"}, {"interp/op.go", "", "bitNotConst"}, {"interp/op.go", "", "notConst"},
	{"interp/type.go", "itype", "defaultType"},
	{"interp/scope.go", "scope", "fixType"},
	{"interp/cfg.go", "", "fixUntyped"},
	{"interp/cfg.go", "", "isBoolAction"},
	{"interp/run.go", "", "lenConst"},
}

var actNames = map[string]string{
	"aAdd": "add", "aSub": "sub", "aMul": "mul", "aQuo": "quo", "aRem": "rem", "aAnd": "and", "aOr": "or",
	"aXor": "xor", "aAndNot": "andNot", "aShl": "shl", "aShr": "shr", "aNeg": "neg", "aPos": "pos",
	"aBitNot": "bitNot", "aNot": "not", "aEqual": "eq", "aNotEqual": "ne", "aLower": "lt", "aLowerEqual": "le",
	"aGreater": "gt", "aGreaterEqual": "ge", "aLand": "land", "aLor": "lor",
}

var tokNames = map[string]string{
	"ADD": "add", "SUB": "sub", "MUL": "mul", "QUO": "quo", "QUO_ASSIGN": "quoAssign", "REM": "rem", "AND": "and",
	"OR": "or", "XOR": "xor", "AND_NOT": "andNot", "SHL": "shl", "SHR": "shr", "NOT": "not",
	"EQL": "eql", "NEQ": "neq", "LSS": "lss", "LEQ": "leq", "GTR": "gtr", "GEQ": "geq",
}

func tokOf(e ast.Expr) string {
	se, ok := e.(*ast.SelectorExpr)
	if !ok {
		return ""
	}
	x, ok := se.X.(*ast.Ident)
	if !ok || x.Name != "token" {
		return ""
	}
	return tokNames[se.Sel.Name]
}

func render(n ast.Node) string {
	var b bytes.Buffer
	_ = (&printer.Config{Mode: printer.RawFormat}).Fprint(&b, token.NewFileSet(), n)
	return strings.Join(strings.Fields(b.String()), " ")
}

// wrapsToInt reports whether e is constant.ToInt(…).
func wrapsToInt(e ast.Expr) bool {
	_, ok := isCall(e, "constant", "ToInt")
	return ok
}

// foldFact describes the constant arm of one *Const function.
type foldFact struct {
	entry, tok        string // binaryOp|unaryOp|shift ; token (or "" when chosen by quoSwitch)
	toInt             bool
	quoCond           string // for quoConst: the condition selecting the first token
	quoThen, quoElse  string
	bothMustBeConst   bool   // isConst requires both operands to hold a constant.Value
	typedArms         string // Lean list of (class, go operator) of the non-constant arms
	recognised        bool
}

var armClass = map[string]string{"isString": "str", "isComplex": "cplx", "isFloat": "flt", "isUint": "uint", "isInt": "sint"}

var goOps = map[token.Token]string{
	token.ADD: "add", token.SUB: "sub", token.MUL: "mul", token.QUO: "quo", token.REM: "rem", token.AND: "and",
	token.OR: "or", token.XOR: "xor", token.AND_NOT: "andNot", token.SHL: "shl", token.SHR: "shr", token.NOT: "not",
}

// opOfSetCall finds, in `n.rval.SetX(<expr>)`, the Go operator of <expr> (binary or unary).
func opOfSetCall(s ast.Stmt) string {
	es, ok := s.(*ast.ExprStmt)
	if !ok {
		return ""
	}
	c, ok := es.X.(*ast.CallExpr)
	if !ok || len(c.Args) != 1 {
		return ""
	}
	switch e := c.Args[0].(type) {
	case *ast.BinaryExpr:
		return goOps[e.Op]
	case *ast.UnaryExpr:
		return goOps[e.Op]
	}
	return ""
}

// exactFloatArm recognises the statement of the floating-point / complex arm since 149d328 and returns its token.
func exactFloatArm(s ast.Stmt) string {
	es, ok := s.(*ast.ExprStmt)
	if !ok {
		return ""
	}
	c, ok := es.X.(*ast.CallExpr)
	if !ok || render(c.Fun) != "setConstFloat" || len(c.Args) != 2 || render(c.Args[0]) != "n.rval" {
		return ""
	}
	if b, ok := isCall(c.Args[1], "constant", "BinaryOp"); ok && len(b.Args) == 3 && render(b.Args[0]) == "constValue(v0)" && render(b.Args[2]) == "constValue(v1)" {
		return tokOf(b.Args[1])
	}
	if u, ok := isCall(c.Args[1], "constant", "UnaryOp"); ok && len(u.Args) == 3 && render(u.Args[1]) == "constValue(v0)" && render(u.Args[2]) == "0" {
		return tokOf(u.Args[0])
	}
	return ""
}

func analyseFold(fd *ast.FuncDecl) foldFact {
	var ff foldFact
	if fd == nil {
		return ff
	}
	// isConst definition: one or two IsValid conjuncts
	ast.Inspect(fd.Body, func(n ast.Node) bool {
		as, ok := n.(*ast.AssignStmt)
		if ok && len(as.Lhs) == 1 && len(as.Rhs) == 1 {
			if id, ok := as.Lhs[0].(*ast.Ident); ok && id.Name == "isConst" {
				txt := render(as.Rhs[0])
				ff.bothMustBeConst = strings.Contains(txt, "v0.IsValid()") && strings.Contains(txt, "v1.IsValid()")
			}
		}
		return true
	})
	var constBody []ast.Stmt
	var arms []string
	ast.Inspect(fd.Body, func(n ast.Node) bool {
		switch x := n.(type) {
		case *ast.CaseClause:
			if len(x.List) == 2 && len(x.Body) == 1 {
				// `case isComplex(t), isFloat(t):` (either order) with the exact fold
				// setConstFloat(n.rval, constant.BinaryOp(constValue(v0), token.X, constValue(v1))) / constant.UnaryOp(token.X, constValue(v0), 0)
				names := map[string]bool{render(x.List[0]): true, render(x.List[1]): true}
				if names["isComplex(t)"] && names["isFloat(t)"] {
					if op := exactFloatArm(x.Body[0]); op != "" {
						arms = append(arms, fmt.Sprintf("(.fltExact, .%s)", op))
					} else {
						arms = append(arms, "(.flt, .other)")
					}
				}
			}
			if len(x.List) == 1 {
				if id, ok := x.List[0].(*ast.Ident); ok && id.Name == "isConst" {
					constBody = x.Body
				}
				if c, ok := x.List[0].(*ast.CallExpr); ok {
					if id, ok := c.Fun.(*ast.Ident); ok && armClass[id.Name] != "" && len(x.Body) == 1 {
						if op := opOfSetCall(x.Body[0]); op != "" {
							arms = append(arms, fmt.Sprintf("(.%s, .%s)", armClass[id.Name], op))
						} else {
							arms = append(arms, fmt.Sprintf("(.%s, .other)", armClass[id.Name]))
						}
					}
				}
			}
		case *ast.IfStmt:
			if id, ok := x.Cond.(*ast.Ident); ok && id.Name == "isConst" && constBody == nil && x.Init == nil {
				// `if isConst { t = constVal }` precedes; the folding one contains a go/constant call
				if strings.Contains(render(x.Body), "constant.") {
					constBody = x.Body.List
					if es, ok := x.Else.(*ast.BlockStmt); ok && len(es.List) == 1 {
						if op := opOfSetCall(es.List[0]); op != "" {
							arms = append(arms, fmt.Sprintf("(.bool, .%s)", op))
						}
					}
				}
			}
		}
		return true
	})
	ff.typedArms = "[" + strings.Join(arms, ", ") + "]"
	if constBody == nil {
		return ff
	}
	for _, s := range constBody {
		ast.Inspect(s, func(n ast.Node) bool {
			c, ok := n.(*ast.CallExpr)
			if !ok {
				return true
			}
			if cc, ok := isCall(c, "constant", "BinaryOp"); ok && len(cc.Args) == 3 {
				ff.entry = "binaryOp"
				ff.toInt = wrapsToInt(cc.Args[0]) && wrapsToInt(cc.Args[2])
				ff.tok = tokOf(cc.Args[1])
				if id, ok := cc.Args[1].(*ast.Ident); ok {
					ff.tok = "var:" + id.Name
				}
				ff.recognised = true
			}
			if cc, ok := isCall(c, "constant", "UnaryOp"); ok && len(cc.Args) == 3 {
				ff.entry = "unaryOp"
				ff.tok = tokOf(cc.Args[0])
				if lit, ok := cc.Args[2].(*ast.BasicLit); !ok || lit.Value != "0" {
					ff.tok = ""
				}
				ff.recognised = true
			}
			if cc, ok := isCall(c, "constant", "Shift"); ok && len(cc.Args) == 3 {
				ff.entry = "shift"
				ff.tok = tokOf(cc.Args[1])
				ff.recognised = true
			}
			return true
		})
		// the quotient switch: if <cond> { operator = token.A } else { operator = token.B }
		if is, ok := s.(*ast.IfStmt); ok {
			if eb, ok := is.Else.(*ast.BlockStmt); ok && len(is.Body.List) == 1 && len(eb.List) == 1 {
				a1, ok1 := is.Body.List[0].(*ast.AssignStmt)
				a2, ok2 := eb.List[0].(*ast.AssignStmt)
				if ok1 && ok2 && len(a1.Rhs) == 1 && len(a2.Rhs) == 1 {
					ff.quoCond = render(is.Cond)
					ff.quoThen, ff.quoElse = tokOf(a1.Rhs[0]), tokOf(a2.Rhs[0])
				}
			}
		}
	}
	return ff
}

// quoRule classifies the condition of the quotient switch of quoConst: the kinds of the operand constants
// (`c0, c1 := vConstantValue(v0), vConstantValue(v1)` must be the definition of c0 and c1, and they must be the
// operands handed to constant.BinaryOp), or the type of the node.
func quoRule(fO *ast.File, cond string) string {
	switch cond {
	case "n.typ.untyped && isInt(n.typ.rtype)":
		return ".nodeType"
	case "c0.Kind() == constant.Int && c1.Kind() == constant.Int":
		fd := common.FindFunc(fO, "", "quoConst")
		if fd == nil {
			return ".other"
		}
		def, use := false, false
		ast.Inspect(fd.Body, func(n ast.Node) bool {
			switch x := n.(type) {
			case *ast.AssignStmt:
				if x.Tok == token.DEFINE && render(x) == "c0, c1 := vConstantValue(v0), vConstantValue(v1)" {
					def = true
				}
			case *ast.CallExpr:
				if cc, ok := isCall(x, "constant", "BinaryOp"); ok && len(cc.Args) == 3 && render(cc.Args[0]) == "c0" && render(cc.Args[2]) == "c1" {
					use = true
				}
			}
			return true
		})
		if def && use {
			return ".operandKinds"
		}
	}
	return ".other"
}

// fixSkipsConst: does cfg.go fixUntyped guard its write to sc.types with `!n.rval.IsValid()`?
func fixSkipsConst(fC *ast.File) string {
	fd := common.FindFunc(fC, "", "fixUntyped")
	if fd == nil {
		return "false /- " + unrec("fixUntyped") + " -/"
	}
	res := "false /- " + unrec("no guarded write to sc.types in fixUntyped") + " -/"
	ast.Inspect(fd.Body, func(n ast.Node) bool {
		is, ok := n.(*ast.IfStmt)
		if !ok || len(is.Body.List) != 1 || !strings.HasPrefix(render(is.Body.List[0]), "sc.types[n.findex] =") {
			return true
		}
		switch render(is.Cond) {
		case "n.findex >= 0 && !n.rval.IsValid()":
			res = "true"
		case "n.findex >= 0":
			res = "false"
		}
		return true
	})
	return res
}

func leanTok(t string) string {
	if t == "" || strings.HasPrefix(t, "var:") {
		return ".other"
	}
	return "." + t
}

func evalFacts(repo string) (string, error) {
	_, fC, err := common.ParseFile(repo, "interp/cfg.go")
	if err != nil {
		return "", err
	}
	_, fO, err := common.ParseFile(repo, "interp/op.go")
	if err != nil {
		return "", err
	}
	_, fT, err := common.ParseFile(repo, "interp/typecheck.go")
	if err != nil {
		return "", err
	}
	var b strings.Builder
	// constOp map
	var ops, fns []string
	if cl, ok := common.FindVar(fC, "constOp").(*ast.CompositeLit); ok {
		for _, e := range cl.Elts {
			kv, ok := e.(*ast.KeyValueExpr)
			if !ok {
				ops = append(ops, "(.other, "+common.LeanStr(unrec("constOp element"))+")")
				continue
			}
			k, ok1 := kv.Key.(*ast.Ident)
			v, ok2 := kv.Value.(*ast.Ident)
			if !ok1 || !ok2 || actNames[k.Name] == "" {
				ops = append(ops, "(.other, "+common.LeanStr(unrec("constOp entry "+render(kv)))+")")
				continue
			}
			ops = append(ops, fmt.Sprintf("(.%s, %s)", actNames[k.Name], common.LeanStr(v.Name)))
			fns = append(fns, v.Name)
		}
	} else {
		ops = append(ops, "(.other, "+common.LeanStr(unrec("constOp is not a map literal"))+")")
	}
	fmt.Fprintf(&b, "/-- interp/cfg.go: constOp -/\ndef constOp : List (Act × String) :=\n  [%s]\n", strings.Join(ops, ", "))
	// folding functions: every *Const function of op.go that constOp may name
	seen := map[string]bool{}
	var folds []string
	var quo foldFact
	all := append([]string{"addConst", "subConst", "mulConst", "quoConst", "remConst", "andConst", "orConst", "xorConst",
		"andNotConst", "shlConst", "shrConst", "negConst", "posConst", "bitNotConst", "notConst"}, fns...)
	for _, fn := range all {
		if seen[fn] {
			continue
		}
		seen[fn] = true
		fd := common.FindFunc(fO, "", fn)
		if fd == nil {
			fd = common.FindFunc(fT, "", fn) // compareConst lives in typecheck.go
		}
		ff := analyseFold(fd)
		entry := ".other"
		if ff.recognised {
			entry = "." + ff.entry
		}
		if compareFold(fd) {
			entry = ".compare"
		}
		tok := leanTok(ff.tok)
		if ff.tok == "var:operator" {
			tok = ".byQuoSwitch"
			quo = ff
		}
		if ff.typedArms == "" {
			ff.typedArms = "[]"
		}
		folds = append(folds, fmt.Sprintf("{ name := %s, entry := %s, tok := %s, toInt := %v, bothConst := %v, typed := %s }",
			common.LeanStr(fn), entry, tok, ff.toInt, ff.bothMustBeConst, ff.typedArms))
	}
	fmt.Fprintf(&b, "/-- interp/op.go: the constant arm (and the operators of the typed arms) of each folding function -/\ndef folds : List FoldFn :=\n  [%s]\n", strings.Join(folds, ",\n   "))
	fmt.Fprintf(&b, "/-- interp/op.go quoConst: `if <cond> { operator = token.<then> } else { operator = token.<else> }` -/\ndef quoSwitch : QuoSwitch :=\n  { cond := %s, rule := %s, thenTok := %s, elseTok := %s }\n",
		common.LeanStr(quo.quoCond), quoRule(fO, quo.quoCond), leanTok(quo.quoThen), leanTok(quo.quoElse))
	chk, err := checkFacts(repo)
	if err != nil {
		return "", err
	}
	b.WriteString(chk)
	fmt.Fprintf(&b, "def evalFacts : EvalFacts :=\n  { constOp := constOp, folds := folds, quo := quoSwitch, fixSkipsConst := %s, constToken := constToken, chk := checkFacts }\n", fixSkipsConst(fC))
	return b.String(), nil
}
