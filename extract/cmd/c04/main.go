// extract-C04: the choices in interp/run.go, interp/value.go and interp/cfg.go that decide whether a
// value is copied or shared (ShareFacts of Model/Share.lean), plus fingerprints of the transcribed
// functions. A shape that is no longer recognised is reported in `unrecognised` (the tie then fails).
package main

import (
	"bytes"
	"crypto/sha256"
	"fmt"
	"go/ast"
	"go/printer"
	"go/token"
	"strings"

	"verif/extract/common"
)

// text renders a node without comments, white space normalised.
func text(n ast.Node) string {
	if n == nil {
		return ""
	}
	var b bytes.Buffer
	if err := (&printer.Config{Mode: printer.RawFormat}).Fprint(&b, token.NewFileSet(), n); err != nil {
		return "unprintable"
	}
	return strings.Join(strings.Fields(b.String()), " ")
}

func hash(n ast.Node) string {
	return fmt.Sprintf("%x", sha256.Sum256([]byte(text(n))))[:16]
}

// contains reports whether some statement/expression below n renders exactly as want.
func contains(n ast.Node, want string) bool {
	found := false
	ast.Inspect(n, func(x ast.Node) bool {
		if x == nil || found {
			return false
		}
		switch x.(type) {
		case ast.Stmt, ast.Expr:
			if text(x) == want {
				found = true
				return false
			}
		}
		return true
	})
	return found
}

// containsPrefix: some assignment below n whose text has the prefix and suffix.
func containsAssign(n ast.Node, prefix, suffix string) bool {
	found := false
	ast.Inspect(n, func(x ast.Node) bool {
		if a, ok := x.(*ast.AssignStmt); ok {
			t := text(a)
			if strings.HasPrefix(t, prefix) && strings.HasSuffix(t, suffix) {
				found = true
			}
		}
		return !found
	})
	return found
}

type facts struct {
	vals         map[string]bool
	order        []string
	unrecognised []string
}

func (f *facts) set(name string, v bool) {
	if _, ok := f.vals[name]; !ok {
		f.order = append(f.order, name)
	}
	f.vals[name] = v
}

func (f *facts) miss(what string) { f.unrecognised = append(f.unrecognised, what) }

// execLits returns the function literals assigned to n.exec directly in the statement list (not nested).
func execLit(s ast.Stmt) *ast.FuncLit {
	a, ok := s.(*ast.AssignStmt)
	if !ok || len(a.Lhs) != 1 || text(a.Lhs[0]) != "n.exec" {
		return nil
	}
	fl, _ := a.Rhs[0].(*ast.FuncLit)
	return fl
}

// rangeLoops returns the top-level range statements of a function literal's body.
func rangeLoops(fl *ast.FuncLit) []*ast.RangeStmt {
	var out []*ast.RangeStmt
	for _, s := range fl.Body.List {
		if r, ok := s.(*ast.RangeStmt); ok {
			out = append(out, r)
		}
	}
	return out
}

// twoPhase: a loop over svalue that fills temporaries with Set(s(f)), then a loop that stores the temporaries
// without evaluating any source.
func twoPhase(fl *ast.FuncLit) bool {
	ls := rangeLoops(fl)
	if len(ls) != 2 {
		return false
	}
	first, second := ls[0], ls[1]
	if text(first.X) != "svalue" || !contains(first.Body, "t[i].Set(s(f))") {
		return false
	}
	if contains(second.Body, "s(f)") {
		return false
	}
	return contains(second.Body, "d(f).Set(t[i])") || containsAssign(second.Body, "", ".Set(t[i])")
}

// twoPhaseDefine: the multi-define variant — a loop over svalue that reads every source (`t[i] = s(f)`, the
// reflect.Value of the cell the source denotes now) or copies it, then a loop that re-allocates and stores each
// destination without evaluating any source.
func twoPhaseDefine(fl *ast.FuncLit) bool {
	ls := rangeLoops(fl)
	if len(ls) != 2 {
		return false
	}
	first, second := ls[0], ls[1]
	if text(first.X) != "svalue" || !(contains(first.Body, "t[i] = s(f)") || contains(first.Body, "t[i].Set(s(f))")) {
		return false
	}
	if contains(second.Body, "s(f)") {
		return false
	}
	return contains(second.Body, "data[j].Set(v)") || contains(second.Body, "data[j].Set(t[i])")
}

func extractAssign(fd *ast.FuncDecl, f *facts) {
	if fd == nil {
		f.miss("func assign")
		return
	}
	var single *ast.IfStmt
	var multiDef *ast.IfStmt
	var lastExec *ast.FuncLit
	for _, s := range fd.Body.List {
		if is, ok := s.(*ast.IfStmt); ok {
			switch text(is.Cond) {
			case "n.nleft == 1":
				single = is
			case "n.kind == defineStmt":
				multiDef = is
			}
		}
		if fl := execLit(s); fl != nil {
			lastExec = fl
		}
	}
	if single == nil || multiDef == nil || lastExec == nil {
		f.miss("assign: single / multi-define / multi-assign blocks")
		return
	}
	// single assignment: the switch arms
	var sw *ast.SwitchStmt
	for _, s := range single.Body.List {
		if x, ok := s.(*ast.SwitchStmt); ok {
			sw = x
		}
	}
	if sw == nil {
		f.miss("assign: switch of the single assignment")
		return
	}
	seenDefault, seenDefine := false, false
	for _, c := range sw.Body.List {
		cc := c.(*ast.CaseClause)
		switch {
		case cc.List == nil:
			seenDefault = true
			f.set("assignCopies", contains(cc, "d(f).Set(s(f))"))
		case len(cc.List) == 1 && text(cc.List[0]) == "n.kind == defineStmt":
			seenDefine = true
			f.set("defineFresh", containsAssign(cc, "data[ind] = reflect.New(", ".Elem()") && contains(cc, "data[ind].Set(s(f))"))
		}
	}
	if !seenDefault || !seenDefine {
		f.miss("assign: default / define arms of the single assignment")
	}
	// multi-define
	var mdExec *ast.FuncLit
	for _, s := range multiDef.Body.List {
		if fl := execLit(s); fl != nil {
			mdExec = fl
		}
	}
	if mdExec == nil {
		f.miss("assign: exec of the multi-define branch")
	} else {
		f.set("multiDefineTemps", twoPhaseDefine(mdExec))
		// a variable that is only redeclared keeps its cell: the re-allocation of the destination is guarded by
		// `if !n.child[i].redeclared` (since 8bd8040); which variables carry the mark is decided in cfg.go (extractCfg)
		guarded, unguarded := false, false
		ast.Inspect(mdExec, func(x ast.Node) bool {
			switch y := x.(type) {
			case *ast.IfStmt:
				if text(y.Cond) == "!n.child[i].redeclared" && y.Else == nil && len(y.Body.List) == 1 &&
					strings.HasPrefix(text(y.Body.List[0]), "data[j] = reflect.New(") {
					guarded = true
					return false
				}
			case *ast.AssignStmt:
				if strings.HasPrefix(text(y), "data[j] = reflect.New(") {
					unguarded = true
				}
			}
			return true
		})
		f.set("multiDefineRedeclAssigns", guarded && !unguarded)
		if strings.Contains(text(mdExec), "redeclared") && !guarded {
			f.miss("assign: multi-define mentions `redeclared` outside the shape `if !n.child[i].redeclared { data[j] = reflect.New(…).Elem() }`")
		}
		// … and then every source is copied before the first store: `redeclare` is the disjunction of the marks of the
		// left-hand sides, and the first loop replaces t[i] by a copy when it is set
		copies := false
		if ls := rangeLoops(mdExec); len(ls) == 2 {
			ast.Inspect(ls[0].Body, func(x ast.Node) bool {
				if is, ok := x.(*ast.IfStmt); ok && text(is.Cond) == "redeclare" && contains(is.Body, "v.Set(t[i])") && contains(is.Body, "t[i] = v") &&
					containsAssign(is.Body, "v := reflect.New(", ".Elem()") {
					copies = true
				}
				return true
			})
		}
		redeclareAll := contains(multiDef.Body, "redeclare = redeclare || c.redeclared") && contains(multiDef.Body, "redeclare := false")
		f.set("multiDefineRedeclCopies", copies && redeclareAll)
		if guarded && !(copies && redeclareAll) {
			f.miss("assign: multi-define sets redeclared variables in place without the `if redeclare { … copy … }` shape")
		}
		if !guarded && !unguarded {
			f.set("defineFresh", false)
		}
	}
	f.set("multiTemps", twoPhase(lastExec))
}

func extractCfg(file *ast.File, f *facts) (clauseHash string) {
	clauseHash = "unrecognised: case assignStmt, defineStmt"
	var clause *ast.CaseClause
	ast.Inspect(file, func(x ast.Node) bool {
		cc, ok := x.(*ast.CaseClause)
		if !ok {
			return true
		}
		if len(cc.List) == 2 && text(cc.List[0]) == "assignStmt" && text(cc.List[1]) == "defineStmt" && contains(cc, "wireChild(n)") {
			clause = cc
		}
		return true
	})
	if clause == nil {
		f.miss("cfg.go: case assignStmt, defineStmt (post-order)")
		return
	}
	clauseHash = hash(clause)
	// the optimisation switch: the tagless switch inside the per-pair loop that has an `n.action != aAssign` arm
	var opt *ast.SwitchStmt
	var loop *ast.ForStmt
	ast.Inspect(clause, func(x ast.Node) bool {
		if fs, ok := x.(*ast.ForStmt); ok && strings.Contains(text(fs.Cond), "n.nleft") {
			loop = fs
		}
		return true
	})
	if loop == nil {
		f.miss("cfg.go: per-pair loop of the assignment")
		return
	}
	ast.Inspect(loop, func(x ast.Node) bool {
		if sw, ok := x.(*ast.SwitchStmt); ok && sw.Tag == nil {
			for _, c := range sw.Body.List {
				cc := c.(*ast.CaseClause)
				if len(cc.List) == 1 && text(cc.List[0]) == "n.action != aAssign" {
					opt = sw
				}
			}
		}
		return true
	})
	if opt == nil {
		f.miss("cfg.go: optimisation switch of the assignment")
		return
	}
	var callArm, litArm, recvArm *ast.CaseClause
	// an earlier arm with an empty body that catches calls and composite literals of multiple assignments
	// keeps the two shortcut arms for single assignments only
	guardBefore := false
	for _, c := range opt.Body.List {
		cc := c.(*ast.CaseClause)
		if len(cc.List) != 1 {
			continue
		}
		t := text(cc.List[0])
		switch {
		case strings.HasPrefix(t, "isCall(src)"):
			callArm = cc
		case strings.HasPrefix(t, "src.action == aCompositeLit"):
			litArm = cc
		case strings.HasPrefix(t, "src.action == aRecv"):
			recvArm = cc
		case callArm == nil && litArm == nil && len(cc.Body) == 0 && strings.HasPrefix(t, "n.nleft > 1 && (") &&
			strings.Contains(t, "isCall(src)") && strings.Contains(t, "src.action == aCompositeLit"):
			guardBefore = true
		}
	}
	redirects := func(cc *ast.CaseClause) bool {
		return cc != nil && contains(cc, "n.gen = nop") && contains(cc, "src.findex = dest.findex")
	}
	f.set("callShortcut", redirects(callArm))
	f.set("litShortcut", redirects(litArm))
	guards := func(cc *ast.CaseClause) bool {
		if cc == nil {
			return false
		}
		t := text(cc.List[0])
		return strings.Contains(t, "nleft") || strings.Contains(t, "nright") || strings.Contains(t, "len(n.child)")
	}
	f.set("shortcutGuardsSingle", guardBefore || (guards(callArm) && guards(litArm)))
	// `dest = <-c`: until 212dc2e an arm redirected the receive node to the destination's slot
	f.set("recvAssignsValue", recvArm == nil)
	if recvArm != nil && !redirects(recvArm) {
		f.miss("cfg.go: `src.action == aRecv` arm of the assignment optimisation without the redirection shape")
	}
	// which destinations are marked `redeclared` (8bd8040, narrowed by 6ebc898): a named variable of a short variable
	// declaration found in its own, non-global scope
	marks, goodGuard := 0, 0
	ast.Inspect(clause, func(x ast.Node) bool {
		direct := func(is *ast.IfStmt, want string) bool {
			for _, st := range is.Body.List {
				if text(st) == want {
					return true
				}
			}
			return false
		}
		if is, ok := x.(*ast.IfStmt); ok && direct(is, "dest.redeclared = true") {
			marks++
			if text(is.Cond) == `!sc.global && n.kind == defineStmt && dest.ident != "_"` && contains(is.Body, "dest.typ = sym.typ") {
				// the enclosing test: the symbol exists in the current scope
				goodGuard++
			}
			return false
		}
		return true
	})
	inScope := contains(clause, "sc.global || sc.isRedeclared(dest)")
	if strings.Count(text(clause), "redeclared = true") != marks {
		marks = -1 // a mark set somewhere else
	}
	switch {
	case marks == 0:
		f.set("multiDefineRedeclAssigns", false)
	case marks == 1 && goodGuard == 1 && inScope:
		// keeps the value decided from assign()
	default:
		f.set("multiDefineRedeclAssigns", false)
		f.miss("cfg.go: `dest.redeclared = true` outside the shape `if !sc.global && n.kind == defineStmt && dest.ident != \"_\" { … }` under `sc.global || sc.isRedeclared(dest)`")
	}
	return
}

func firstFuncLit(n ast.Node) *ast.FuncLit {
	var out *ast.FuncLit
	ast.Inspect(n, func(x ast.Node) bool {
		if fl, ok := x.(*ast.FuncLit); ok && out == nil {
			out = fl
			return false
		}
		return out == nil
	})
	return out
}

// extractRecvUnary: the twin of the receive shortcut in the post-order of unaryExpr — a unary operation that is the single
// source of an assignment stores straight into the destination; since 212dc2e a receive is excluded.
func extractRecvUnary(cfg *ast.File, f *facts) {
	n, excl := 0, 0
	ast.Inspect(cfg, func(x ast.Node) bool {
		cc, ok := x.(*ast.CaseClause)
		if !ok || len(cc.List) != 1 {
			return true
		}
		t := text(cc.List[0])
		if strings.HasPrefix(t, "n.anc.kind == assignStmt && n.anc.action == aAssign && n.anc.nright == 1") && contains(cc, "n.findex = dest.findex") {
			n++
			if strings.HasSuffix(t, "&& n.action != aRecv") {
				excl++
			}
		}
		return true
	})
	switch {
	case n == 1 && excl == 1:
		// keeps the value decided from the assignment clause
	case n == 1 && excl == 0:
		f.set("recvAssignsValue", false)
	default:
		f.set("recvAssignsValue", false)
		f.miss("cfg.go: unaryExpr arm `n.anc.kind == assignStmt && n.anc.action == aAssign && n.anc.nright == 1 …` storing into the destination")
	}
}

// extractAssert: the destinations of the two-value type assertion and what a failed assertion stores (daee744).
func extractAssert(run *ast.File, f *facts) {
	fd := common.FindFunc(run, "", "typeAssert")
	if fd == nil {
		f.miss("func typeAssert")
		return
	}
	old := contains(fd, "value0 = genValue(n.anc.child[0])") && contains(fd, "value1 = genValue(n.anc.child[1])")
	neu := contains(fd, "value0 = genValueDefine(n.anc.child[0])") && contains(fd, "value1 = genValueDefine(n.anc.child[1])")
	switch {
	case old && !neu:
		f.set("assertDefineFresh", false)
	case neu && !old:
		f.set("assertDefineFresh", true)
	default:
		f.miss("typeAssert: destinations of the two-value form through genValue or genValueDefine")
	}
	// setResult: status, then the zero value when the assertion failed; deferred in every exec closure of the two-value form
	var setResult *ast.FuncLit
	for _, st := range fd.Body.List {
		if a, ok := st.(*ast.AssignStmt); ok && len(a.Lhs) == 1 && text(a.Lhs[0]) == "setResult" {
			setResult, _ = a.Rhs[0].(*ast.FuncLit)
		}
	}
	if setResult == nil {
		f.set("assertZeroOnFail", false)
		if strings.Contains(text(fd), "reflect.Zero(") {
			f.miss("typeAssert: a zero value is stored outside the setResult shape")
		}
		return
	}
	zeroes := false
	ast.Inspect(setResult, func(x ast.Node) bool {
		if is, ok := x.(*ast.IfStmt); ok && text(is.Cond) == "withResult && !*ok" && contains(is.Body, "v := value0(f)") &&
			contains(is.Body, "v.Set(reflect.Zero(v.Type()))") {
			zeroes = true
		}
		return true
	})
	execs, deferred := 0, 0
	ast.Inspect(fd, func(x ast.Node) bool {
		if a, ok := x.(*ast.AssignStmt); ok && len(a.Lhs) == 1 && text(a.Lhs[0]) == "n.exec" {
			if fl, ok := a.Rhs[0].(*ast.FuncLit); ok {
				execs++
				if contains(fl, "defer setResult(f, &ok)") {
					deferred++
				}
			}
		}
		return true
	})
	f.set("assertZeroOnFail", zeroes && execs > 0 && execs == deferred)
	if !zeroes || execs != deferred {
		f.miss(fmt.Sprintf("typeAssert: setResult zeroes the result of a failed assertion and is deferred in every exec closure (%d of %d)", deferred, execs))
	}
}

// extractLit: where arrayLit / mapLit store the literal (genValueLit, since 1436613).
func extractLit(run *ast.File, f *facts) {
	al, ml := common.FindFunc(run, "", "arrayLit"), common.FindFunc(run, "", "mapLit")
	if al == nil || ml == nil {
		f.miss("func arrayLit / mapLit")
		return
	}
	f.set("arrayLitSets", contains(al, "value(f).Set(a)") && contains(ml, "value(f).Set(m)"))
	old := contains(al, "value := valueGenerator(n, n.findex)") && contains(ml, "value := valueGenerator(n, n.findex)")
	neu := contains(al, "value := genValueLit(n)") && contains(ml, "value := genValueLit(n)")
	switch {
	case old:
		f.set("arrayLitFresh", false)
		f.set("arrayLitAssignInPlace", false)
	case neu:
		gl := common.FindFunc(run, "", "genValueLit")
		if gl == nil {
			f.miss("func genValueLit")
			return
		}
		fresh, inPlace, other := false, false, 0
		for _, st := range gl.Body.List {
			switch y := st.(type) {
			case *ast.IfStmt:
				if text(y.Cond) == "n.anc.kind == assignStmt" && y.Else == nil && text(y.Body) == "{ return valueGenerator(n, n.findex) }" {
					inPlace = true
				} else {
					other++
				}
			case *ast.ReturnStmt:
				if len(y.Results) == 1 {
					if fl, ok := y.Results[0].(*ast.FuncLit); ok && containsAssign(fl, "data[i] = reflect.New(data[i].Type())", ".Elem()") &&
						contains(fl, "return data[i]") && contains(fl, "data := getFrame(f, l).data") {
						fresh = true
					}
				}
			case *ast.AssignStmt:
				if text(y) != "i, l := n.findex, n.level" {
					other++
				}
			default:
				other++
			}
		}
		f.set("arrayLitFresh", fresh)
		f.set("arrayLitAssignInPlace", fresh && inPlace)
		if !fresh || other != 0 {
			f.miss("genValueLit: `if n.anc.kind == assignStmt { return valueGenerator(n, n.findex) }` then a closure that re-allocates data[i]")
		}
	default:
		f.miss("arrayLit / mapLit: `value := genValueLit(n)` or `value := valueGenerator(n, n.findex)`")
	}
}

// extractDefineX: the destinations of the comma-ok map index (genValueDefine, since 5a404d3).
func extractDefineX(run *ast.File, f *facts) {
	fd := common.FindFunc(run, "", "getIndexMap2")
	if fd == nil {
		return // reported by the caller
	}
	old := contains(fd, "dest := genValue(n.anc.child[0])") && contains(fd, "value2 := genValue(n.anc.child[1])")
	neu := contains(fd, "dest := genValueDefine(n.anc.child[0])") && contains(fd, "value2 := genValueDefine(n.anc.child[1])")
	switch {
	case old:
		f.set("lookup2DefineFresh", false)
		f.set("lookup2RedeclInPlace", true) // every destination is the existing cell
	case neu:
		gd := common.FindFunc(run, "", "genValueDefine")
		if gd == nil {
			f.miss("func genValueDefine")
			return
		}
		fresh, guard := false, ""
		for _, st := range gd.Body.List {
			switch y := st.(type) {
			case *ast.IfStmt:
				if text(y.Body) == "{ return genValue(n) }" && y.Else == nil {
					guard = text(y.Cond)
				}
			case *ast.ReturnStmt:
				if len(y.Results) == 1 {
					if fl, ok := y.Results[0].(*ast.FuncLit); ok && containsAssign(fl, "data[i] = reflect.New(data[i].Type())", ".Elem()") &&
						contains(fl, "return data[i]") {
						fresh = true
					}
				}
			}
		}
		f.set("lookup2DefineFresh", fresh)
		switch guard {
		case `n.anc.kind != defineXStmt || n.redeclared || n.ident == "_"`:
			f.set("lookup2RedeclInPlace", true)
		case `n.anc.kind != defineXStmt || n.ident == "_"`:
			f.set("lookup2RedeclInPlace", false)
		default:
			f.set("lookup2RedeclInPlace", false)
			f.miss("genValueDefine: guard `n.anc.kind != defineXStmt || n.redeclared || n.ident == \"_\"`")
		}
		if !fresh {
			f.miss("genValueDefine: closure that re-allocates data[i]")
		}
		// every destination function is called at most once per execution (a second call would allocate again)
		n := 0
		ast.Inspect(fd, func(x ast.Node) bool {
			if fl, ok := x.(*ast.FuncLit); ok {
				t := text(fl)
				if strings.Count(t, "value2(f)") > 1 {
					n++
				}
				// dest(f) appears once in each branch of the if / else
				if strings.Count(t, "dest(f)") > 2 {
					n++
				}
				return false
			}
			return true
		})
		if n != 0 {
			f.miss("getIndexMap2: a destination generator is called more than once in one execution")
		}
	default:
		f.miss("getIndexMap2: destinations through genValue or genValueDefine")
	}
}

// extractDeref: does `*p` panic at the dereference when p is nil (since 93fb945).
func extractDeref(run *ast.File, f *facts) {
	fd := common.FindFunc(run, "", "deref")
	if fd == nil {
		f.miss("func deref")
		return
	}
	// the shape since 93fb945: a local `value` closure does Elem() and checks validity; the exec closures only call it
	var valueLit *ast.FuncLit
	direct := 0
	for _, st := range fd.Body.List {
		if a, ok := st.(*ast.AssignStmt); ok && len(a.Lhs) == 1 && text(a.Lhs[0]) == "value" {
			if fl, ok := a.Rhs[0].(*ast.FuncLit); ok {
				valueLit = fl
			}
		}
	}
	ast.Inspect(fd, func(x ast.Node) bool {
		if fl, ok := x.(*ast.FuncLit); ok && fl != valueLit {
			if strings.Contains(text(fl), ".Elem()") {
				direct++
			}
			return false
		}
		return true
	})
	switch {
	case valueLit == nil && direct == 2 && contains(fd, "value := genValue(n.child[0])"):
		f.set("derefNilPanics", false) // `value(f).Elem()` used as is: the zero Value of a nil pointer travels on
	case valueLit != nil && direct == 0:
		ok := false
		ast.Inspect(valueLit, func(x ast.Node) bool {
			if is, isIf := x.(*ast.IfStmt); isIf && text(is.Cond) == "!r.IsValid()" && len(is.Body.List) >= 1 &&
				(contains(is.Body, "_ = *nilPtr") || strings.Contains(text(is.Body), "panic(")) {
				ok = true
			}
			return true
		})
		f.set("derefNilPanics", ok && contains(valueLit, "r := v(f).Elem()") && contains(valueLit, "return r"))
		if !ok {
			f.miss("deref: `r := v(f).Elem(); if !r.IsValid() { _ = *nilPtr }; return r`")
		}
	default:
		f.miss("deref: Elem() either in both exec closures or in one checked `value` closure")
	}
}

// extractAppend: how `append(s, a, b, …)` with several operands stores them.
func extractAppend(run *ast.File, f *facts) {
	fd := common.FindFunc(run, "", "_append")
	if fd == nil {
		f.miss("func _append")
		return
	}
	var multi *ast.CaseClause
	ast.Inspect(fd, func(x ast.Node) bool {
		if cc, ok := x.(*ast.CaseClause); ok && len(cc.List) == 1 && text(cc.List[0]) == "l > 3" {
			multi = cc
		}
		return true
	})
	if multi == nil {
		f.miss("_append: case l > 3")
		return
	}
	var ex *ast.FuncLit
	for _, st := range multi.Body {
		if fl := execLit(st); fl != nil {
			ex = fl
		}
	}
	if ex == nil {
		f.miss("_append: exec of the several-operands case")
		return
	}
	slots := contains(ex, "sl[i] = v(f)") && contains(ex, "dest(f).Set(reflect.Append(value(f), sl...))")
	copied := contains(ex, "s := value(f)") && contains(ex, "sl := reflect.MakeSlice(s.Type(), l, l)") &&
		contains(ex, "sl.Index(i).Set(v(f))") && contains(ex, "dest(f).Set(reflect.AppendSlice(s, sl))") && !contains(ex, "sl[i] = v(f)")
	switch {
	case slots && !copied:
		f.set("appendArgsAreSlots", true)
	case copied && !slots:
		f.set("appendArgsAreSlots", false)
	default:
		f.set("appendArgsAreSlots", true)
		f.miss("_append: operands either passed as slots to reflect.Append or copied into a fresh slice for reflect.AppendSlice")
	}
}

func main() {
	common.Main("C04", func(repo string) (string, error) {
		fsetR, run, err := common.ParseFile(repo, "interp/run.go")
		if err != nil {
			return "", err
		}
		fsetV, val, err := common.ParseFile(repo, "interp/value.go")
		if err != nil {
			return "", err
		}
		_, cfg, err := common.ParseFile(repo, "interp/cfg.go")
		if err != nil {
			return "", err
		}
		f := &facts{vals: map[string]bool{}}
		for _, n := range []string{"assignCopies", "multiTemps", "multiDefineTemps", "multiDefineRedeclAssigns", "multiDefineRedeclCopies", "defineFresh",
			"callCopiesArgs", "rangeSnapshotsArray", "closureClonesFrame", "callShortcut", "litShortcut", "shortcutGuardsSingle",
			"structLitSetsSlot", "structLitAssignSets", "structLitInTemp", "arrayLitSets", "arrayLitFresh", "arrayLitAssignInPlace", "lookup2OnlyIfValid",
			"lookup2DefineFresh", "lookup2RedeclInPlace", "appendArgsAreSlots", "derefNilPanics", "callResultsFresh", "returnTwoPhase", "recvAssignsValue", "assertDefineFresh",
			"assertZeroOnFail"} {
			f.set(n, false)
		}
		extractAssign(common.FindFunc(run, "", "assign"), f)

		if fd := common.FindFunc(run, "", "call"); fd != nil {
			f.set("callCopiesArgs", contains(fd, "dest[i].Set(val)") && !contains(fd, "dest[i] = val"))
			// the result slots of the callee frame: fresh cells copied back after runCfg (since 1b5ab85), or the destination's cells
			var ord *ast.FuncLit
			for _, st := range fd.Body.List {
				if fl := execLit(st); fl != nil {
					ord = fl
				}
			}
			if ord == nil {
				f.miss("call: exec of an ordinary call")
			} else {
				freshAll, aliased := false, contains(ord, "nf.data[i] = v(f)")
				ast.Inspect(ord, func(x ast.Node) bool {
					if rs, ok := x.(*ast.RangeStmt); ok && text(rs.X) == "rvalues" && len(rs.Body.List) == 1 &&
						text(rs.Body.List[0]) == "nf.data[i] = reflect.New(def.types[i]).Elem()" {
						freshAll = true
					}
					return true
				})
				copiedBack := contains(ord, "v(f).Set(nf.data[i])")
				switch {
				case freshAll && !aliased && copiedBack:
					f.set("callResultsFresh", true)
				case aliased && copiedBack:
					f.set("callResultsFresh", false)
				default:
					f.miss("call: result slots either fresh cells (`for i := range rvalues { nf.data[i] = reflect.New(def.types[i]).Elem() }`) or the destination's (`nf.data[i] = v(f)`), copied with `v(f).Set(nf.data[i])` after runCfg")
				}
			}
		} else {
			f.miss("func call")
		}

		if fd := common.FindFunc(val, "", "genValueRangeArray"); fd != nil {
			ok := false
			ast.Inspect(fd, func(x ast.Node) bool {
				cc, isCC := x.(*ast.CaseClause)
				if isCC && cc.List == nil {
					ok = contains(cc, "return reflect.ValueOf(value(f).Interface())")
				}
				return true
			})
			f.set("rangeSnapshotsArray", ok)
		} else {
			f.miss("func genValueRangeArray")
		}
		if fd := common.FindFunc(run, "", "_range"); fd != nil {
			// since bb375fd genValueRangeArray takes a second argument (key only: a nil pointer to an array is not dereferenced)
			viaRange := contains(fd, "value = genValueRangeArray(an)") ||
				(contains(fd, "value = genValueRangeArray(an, isBlank(n.child[1]))") && contains(fd, "value = genValueRangeArray(an, true)")) ||
				// since 2e3bfaf the blank test has a name (and guards the store of the element)
				(contains(fd, "blankValue := isBlank(n.child[1])") && contains(fd, "value = genValueRangeArray(an, blankValue)") &&
					contains(fd, "value = genValueRangeArray(an, true)"))
			if !viaRange || !contains(fd, "f.data[index2] = value(f)") {
				f.set("rangeSnapshotsArray", false)
				f.miss("_range: shadow copy through genValueRangeArray")
			}
		} else {
			f.miss("func _range")
		}

		if fd := common.FindFunc(run, "", "getFunc"); fd != nil {
			// the frame of each call hangs below the CLONE taken when the literal was evaluated (since 4a41b28 through
			// newCallFrame, which only changes the run id / cancellation channel of the new frame)
			f.set("closureClonesFrame", contains(fd, "fr := f.clone()") &&
				(contains(fd, "fr2 := newFrame(fr, len(n.types), fr.runid())") || contains(fd, "fr2 := newCallFrame(fr, len(n.types))") ||
					// since dc95f3e: newCallFrame(interp, anc, length, epoch) builds the frame itself, `anc: anc`, the epoch is the clone's
					contains(fd, "fr2 := newCallFrame(n.interp, fr, len(n.types), fr.getEpoch())")))
		} else {
			f.miss("func getFunc")
		}

		clauseHash := extractCfg(cfg, f)
		extractRecvUnary(cfg, f)
		extractAssert(run, f)

		if fd := common.FindFunc(run, "", "doComposite"); fd != nil {
			ok := false
			ast.Inspect(fd, func(x ast.Node) bool {
				cc, isCC := x.(*ast.CaseClause)
				if isCC && cc.List == nil {
					ok = contains(cc, "getFrame(f, l).data[frameIndex] = a")
				}
				return true
			})
			f.set("structLitSetsSlot", ok)
			// an arm for plain assignments that stores through the existing variable
			asg := false
			ast.Inspect(fd, func(x ast.Node) bool {
				cc, isCC := x.(*ast.CaseClause)
				if isCC && len(cc.List) == 1 && text(cc.List[0]) == "n.anc.kind == assignStmt" && contains(cc, "d.Set(a)") &&
					!contains(cc, "getFrame(f, l).data[frameIndex] = a") {
					asg = true
				}
				return true
			})
			f.set("structLitAssignSets", asg)
			// the struct is built in a temporary before the destination is looked at: the exec closure starts with
			// `a := reflect.New(rt).Elem()`, fills the fields of `a`, and only then takes `d := value(f)`; `a` is never
			// assigned again
			inTemp := false
			var ex *ast.FuncLit
			for _, st := range fd.Body.List {
				if fl := execLit(st); fl != nil {
					ex = fl
				}
			}
			if ex != nil && len(ex.Body.List) >= 3 && text(ex.Body.List[0]) == "a := reflect.New(rt).Elem()" {
				loopAt, destAt, reassigned := -1, -1, false
				for i, st := range ex.Body.List {
					if rs, ok := st.(*ast.RangeStmt); ok && text(rs.X) == "values" && contains(rs.Body, "a.Field(i).Set(v(f))") {
						loopAt = i
					}
					if text(st) == "d := value(f)" {
						destAt = i
					}
				}
				ast.Inspect(ex, func(x ast.Node) bool {
					if a, ok := x.(*ast.AssignStmt); ok && a.Tok == token.ASSIGN {
						for _, l := range a.Lhs {
							if text(l) == "a" {
								reassigned = true
							}
						}
					}
					return true
				})
				inTemp = loopAt == 1 && destAt > loopAt && !reassigned
			}
			f.set("structLitInTemp", inTemp)
			if !inTemp {
				f.miss("doComposite: exec closure `a := reflect.New(rt).Elem()`; fields of a; then `d := value(f)`")
			}
		} else {
			f.miss("func doComposite")
		}

		extractLit(run, f)

		if fd := common.FindFunc(run, "", "getIndexMap2"); fd != nil {
			n, only, zero := 0, 0, 0
			ast.Inspect(fd, func(x ast.Node) bool {
				is, ok := x.(*ast.IfStmt)
				if ok && text(is.Cond) == "v.IsValid()" && len(is.Body.List) == 1 && text(is.Body.List[0]) == "dest(f).Set(v)" {
					n++
					switch {
					case is.Else == nil:
						only++
					case text(is.Else) == "{ dest(f).Set(z) }":
						zero++
					}
				}
				return true
			})
			f.set("lookup2OnlyIfValid", n == 2 && only == 2)
			if n != 2 || (only != 2 && zero != 2) {
				f.miss("getIndexMap2: two guarded stores (both without else, or both storing the zero value otherwise)")
			}
			extractDefineX(run, f)
		} else {
			f.miss("func getIndexMap2")
		}

		extractAppend(run, f)
		if fd := common.FindFunc(run, "", "_return"); fd != nil {
			// 8544122: when an operand lives in an earlier result slot, every operand is copied into a temporary before any
			// result slot is set
			two := false
			ast.Inspect(fd, func(x ast.Node) bool {
				rs, ok := x.(*ast.RangeStmt)
				if !ok || text(rs.X) != "child" {
					return true
				}
				guard := false
				for _, st := range rs.Body.List {
					if is, ok := st.(*ast.IfStmt); ok && strings.HasSuffix(text(is.Cond), "c.findex >= i") && contains(is.Body, "continue") {
						guard = true
					}
				}
				if guard && contains(rs.Body, "tmp[i].Set(v)") && contains(rs.Body, "f.data[i].Set(v)") && contains(rs.Body, "tmp := make([]reflect.Value, len(values))") {
					if fl := firstFuncLit(rs.Body); fl != nil {
						ls := rangeLoops(fl)
						two = len(ls) == 2 && text(ls[0].X) == "values" && text(ls[1].X) == "tmp" && !contains(ls[0].Body, "f.data[i].Set(v)")
					}
				}
				return true
			})
			f.set("returnTwoPhase", two)
			if !two && strings.Contains(text(fd), "tmp") {
				f.miss("_return: two-phase exec (`tmp[i].Set(v)` for all operands, then `f.data[i].Set(v)`) guarded by `… || c.findex >= i`")
			}
		} else {
			f.miss("func _return")
		}
		extractDeref(run, f)

		// the frame slot reserved for the ranged value when ranging over a pointer to an array (da35a0b, F04-7): a matter
		// of frame layout that the model has no fact for — anchored by the fingerprint of the clause
		rangePtrHash := "unrecognised: rangeStmt, case ptrT"
		ast.Inspect(cfg, func(x ast.Node) bool {
			if cc, ok := x.(*ast.CaseClause); ok && len(cc.List) == 1 && text(cc.List[0]) == "ptrT" &&
				contains(cc, `ktyp = sc.getType("int")`) && contains(cc, "vtyp = o.typ.val") {
				rangePtrHash = hash(cc)
				if len(cc.Body) == 0 || text(cc.Body[0]) != `sc.add(sc.getType("int"))` {
					f.miss("cfg.go: rangeStmt, case ptrT does not start by reserving the slot of the ranged value")
				}
			}
			return true
		})
		// `&p[i]` with p a pointer to an array (0780d8c, F04-9)
		addrHash := "unrecognised: addressExpr"
		if fsetT, tc, err := common.ParseFile(repo, "interp/typecheck.go"); err == nil {
			addrHash = common.FuncHash(fsetT, tc, "typecheck", "addressExpr")
		}

		var b strings.Builder
		b.WriteString("import YaegiVerif.Model.Share\nnamespace YaegiVerif.Generated.C04\nopen YaegiVerif.Share\n")
		b.WriteString("/-- interp/run.go assign, call, _range, getFunc, doComposite, arrayLit, mapLit, getIndexMap2, _append;\n    interp/value.go genValueRangeArray; interp/cfg.go case assignStmt, defineStmt -/\n")
		b.WriteString("def share : ShareFacts :=\n  { ")
		for i, n := range f.order {
			if i > 0 {
				b.WriteString(",\n    ")
			}
			fmt.Fprintf(&b, "%s := %v", n, f.vals[n])
		}
		b.WriteString(" }\n")
		fmt.Fprintf(&b, "/-- shapes the extractor looked for and did not find -/\ndef unrecognised : List String := %s\n", common.LeanStrList(f.unrecognised))
		runNames := [][2]string{{"", "assign"}, {"", "assignFromCall"}, {"", "addr"}, {"", "deref"}, {"", "getIndexArray"},
			{"", "getIndexMap"}, {"", "getIndexMap2"}, {"", "getFunc"}, {"", "getIndexSeq"}, {"", "getPtrIndexSeq"}, {"", "arrayLit"},
			{"", "mapLit"}, {"", "genValueLit"}, {"", "genValueDefine"}, {"", "typeAssert"}, {"", "recv"}, {"", "_return"}, {"", "doComposite"}, {"", "_range"}, {"", "loopVarKey"}, {"", "loopVarVal"}, {"", "_append"}, {"", "appendSlice"}, {"", "_copy"},
			{"", "_delete"}, {"", "slice"}, {"", "slice0"}}
		hr := common.HashTable(fsetR, run, runNames)
		// of `call` only the closure that performs an ordinary (not deferred, not go) call is transcribed: the last
		// `n.exec = func…` of the function (the defer branch above it belongs to C06)
		callHash := "unrecognised: call exec"
		if fd := common.FindFunc(run, "", "call"); fd != nil {
			for _, st := range fd.Body.List {
				if fl := execLit(st); fl != nil {
					callHash = hash(fl)
				}
			}
		}
		hv := common.HashTable(fsetV, val, [][2]string{{"", "genValueRangeArray"}, {"", "genValueArray"}, {"", "genDestValue"}})
		b.WriteString("/-- fingerprints of the functions that Model/Share.lean transcribes -/\ndef sourceHashes : List (String × String) :=\n  ")
		b.WriteString(strings.TrimSuffix(hr, "]") + ",\n   (" + common.LeanStr("call: exec of an ordinary call") + ", " + common.LeanStr(callHash) + "),\n   " +
			strings.TrimPrefix(strings.TrimSuffix(hv, "]"), "[") + ",\n   (" +
			common.LeanStr("cfg.go: case assignStmt, defineStmt") + ", " + common.LeanStr(clauseHash) + "),\n   (" +
			common.LeanStr("cfg.go: rangeStmt, case ptrT") + ", " + common.LeanStr(rangePtrHash) + "),\n   (" +
			common.LeanStr("typecheck.go: addressExpr") + ", " + common.LeanStr(addrHash) + ")]\n")
		b.WriteString("end YaegiVerif.Generated.C04\n")
		return b.String(), nil
	})
}
