// extract-C16: the literal words and statement orders of interp/src.go that Model/Src.lean is
// parametrised by, the file-system entry points the resolution goes through, and the fingerprints of
// the functions the model transcribes.
package main

import (
	"fmt"
	"go/ast"
	"go/token"
	"sort"
	"strconv"
	"strings"

	"verif/extract/common"
)

func unq(e ast.Expr) (string, bool) {
	bl, ok := e.(*ast.BasicLit)
	if !ok || bl.Kind != token.STRING {
		return "", false
	}
	s, err := strconv.Unquote(bl.Value)
	return s, err == nil
}

// constStr finds `const name = "…"` at package level.
func constStr(f *ast.File, name string) string {
	for _, d := range f.Decls {
		gd, ok := d.(*ast.GenDecl)
		if !ok || gd.Tok != token.CONST {
			continue
		}
		for _, s := range gd.Specs {
			vs := s.(*ast.ValueSpec)
			for i, n := range vs.Names {
				if n.Name == name && i < len(vs.Values) {
					if v, ok := unq(vs.Values[i]); ok {
						return v
					}
				}
			}
		}
	}
	return "unrecognised: const " + name
}

func isSel(e ast.Expr, x, sel string) bool {
	s, ok := e.(*ast.SelectorExpr)
	if !ok || s.Sel.Name != sel {
		return false
	}
	id, ok := s.X.(*ast.Ident)
	return ok && id.Name == x
}

func exprString(e ast.Expr) string {
	switch v := e.(type) {
	case *ast.Ident:
		return v.Name
	case *ast.SelectorExpr:
		return exprString(v.X) + "." + v.Sel.Name
	case *ast.IndexExpr:
		return exprString(v.X) + "[" + exprString(v.Index) + "]"
	case *ast.BasicLit:
		return v.Value
	case *ast.StarExpr:
		return "*" + exprString(v.X)
	case *ast.UnaryExpr:
		return v.Op.String() + exprString(v.X)
	}
	return "?"
}

func mentions(n ast.Node, pred func(ast.Node) bool) bool {
	found := false
	ast.Inspect(n, func(x ast.Node) bool {
		if x != nil && pred(x) {
			found = true
		}
		return !found
	})
	return found
}

func main() {
	common.Main("C16", func(repo string) (string, error) {
		fset, f, err := common.ParseFile(repo, "interp/src.go")
		if err != nil {
			return "", err
		}
		_, fi, err := common.ParseFile(repo, "interp/interp.go")
		if err != nil {
			return "", err
		}

		// ---- words
		vendorConst := constStr(f, "vendor")
		mainID := constStr(fi, "mainID")
		defaultName := constStr(fi, "DefaultSourceName")
		vendorDir, src, vendorLit := "unrecognised: pkgDir vendor literal", "unrecognised: pkgDir src literal", "unrecognised: previousRoot literal"
		vendorFirst := "false"
		pd := common.FindFunc(f, "Interpreter", "pkgDir")
		if pd != nil && pd.Body != nil {
			srcs := map[string]bool{}
			idxVendor, idxEff := -1, -1
			for i, st := range pd.Body.List {
				as, ok := st.(*ast.AssignStmt)
				if !ok || len(as.Rhs) != 1 {
					continue
				}
				call, ok := as.Rhs[0].(*ast.CallExpr)
				if !ok || !isSel(call.Fun, "filepath", "Join") {
					continue
				}
				lhs := exprString(as.Lhs[0])
				if lhs == "rPath" && len(call.Args) == 2 && exprString(call.Args[0]) == "root" {
					if s, ok := unq(call.Args[1]); ok {
						vendorDir = s
					}
				}
				if len(call.Args) >= 2 && exprString(call.Args[0]) == "goPath" {
					if s, ok := unq(call.Args[1]); ok {
						srcs[s] = true
					} else {
						srcs["unrecognised: second argument of Join(goPath, …)"] = true
					}
				}
				if lhs == "dir" {
					usesRPath := false
					for _, a := range call.Args {
						if exprString(a) == "rPath" {
							usesRPath = true
						}
					}
					usesEff := mentions(call, func(n ast.Node) bool {
						c, ok := n.(*ast.CallExpr)
						return ok && exprString(c.Fun) == "effectivePkg"
					})
					if usesRPath && idxVendor < 0 {
						idxVendor = i
					}
					if usesEff && idxEff < 0 {
						idxEff = i
					}
				}
			}
			if len(srcs) == 1 {
				for s := range srcs {
					src = s
				}
			}
			if idxVendor >= 0 && idxEff >= 0 {
				vendorFirst = fmt.Sprint(idxVendor < idxEff)
			} else {
				vendorDir = "unrecognised: the two attempts of pkgDir"
			}
		}
		if pr := common.FindFunc(f, "", "previousRoot"); pr != nil {
			ast.Inspect(pr, func(n ast.Node) bool {
				be, ok := n.(*ast.BinaryExpr)
				if ok && be.Op == token.EQL {
					if ix, ok := be.X.(*ast.IndexExpr); ok && exprString(ix.X) == "splitRoot" {
						if s, ok := unq(be.Y); ok {
							vendorLit = s
						}
					}
				}
				return true
			})
		}

		// ---- gta.go importSpec: `if packageName := path.Base(ipath); path.Dir(ipath) == packageName { ipath = packageName }`
		gtaCollapse := "false"
		if _, fg, err := common.ParseFile(repo, "interp/gta.go"); err == nil {
			ast.Inspect(fg, func(n ast.Node) bool {
				ifs, ok := n.(*ast.IfStmt)
				if !ok || ifs.Init == nil {
					return true
				}
				as, ok := ifs.Init.(*ast.AssignStmt)
				if !ok || len(as.Lhs) != 1 || len(as.Rhs) != 1 || exprString(as.Lhs[0]) != "packageName" {
					return true
				}
				call, ok := as.Rhs[0].(*ast.CallExpr)
				if !ok || exprString(call.Fun) != "path.Base" || len(call.Args) != 1 || exprString(call.Args[0]) != "ipath" {
					return true
				}
				be, ok := ifs.Cond.(*ast.BinaryExpr)
				if !ok || be.Op != token.EQL {
					return true
				}
				l, ok := be.X.(*ast.CallExpr)
				if !ok || exprString(l.Fun) != "path.Dir" || exprString(be.Y) != "packageName" {
					return true
				}
				for _, st := range ifs.Body.List {
					if a, ok := st.(*ast.AssignStmt); ok && len(a.Lhs) == 1 && exprString(a.Lhs[0]) == "ipath" && exprString(a.Rhs[0]) == "packageName" {
						gtaCollapse = "true"
					}
				}
				return true
			})
		}

		// ---- order of the bookkeeping statements of importSrc
		type ev struct {
			pos   token.Pos
			label string
		}
		var evs []ev
		seen := map[string]bool{}
		add := func(p token.Pos, l string) {
			if !seen[l] {
				seen[l] = true
				evs = append(evs, ev{p, l})
			}
		}
		var fsCalls, osCalls []string
		is := common.FindFunc(f, "Interpreter", "importSrc")
		if is != nil {
			ast.Inspect(is, func(n ast.Node) bool {
				switch v := n.(type) {
				case *ast.IfStmt:
					if mentions(v.Cond, func(x ast.Node) bool {
						e, ok := x.(ast.Expr)
						return ok && exprString(e) == "interp.srcPkg[importPath]"
					}) {
						add(v.Pos(), "srcPkg-test")
					}
					if mentions(v.Cond, func(x ast.Node) bool {
						e, ok := x.(ast.Expr)
						return ok && exprString(e) == "interp.rdir[importPath]"
					}) {
						// only a test that returns an error counts
						ret := false
						for _, s := range v.Body.List {
							if _, ok := s.(*ast.ReturnStmt); ok {
								ret = true
							}
						}
						if ret {
							add(v.Pos(), "rdir-test")
						}
					}
				case *ast.AssignStmt:
					if len(v.Lhs) == 1 && exprString(v.Lhs[0]) == "interp.rdir[importPath]" && exprString(v.Rhs[0]) == "true" {
						add(v.Pos(), "rdir-set")
					}
					if len(v.Lhs) == 1 && exprString(v.Lhs[0]) == "interp.srcPkg[importPath]" {
						add(v.Pos(), "srcPkg-set")
					}
				case *ast.CallExpr:
					switch exprString(v.Fun) {
					case "interp.pkgDir":
						add(v.Pos(), "resolve")
					case "interp.gta":
						add(v.Pos(), "gta")
					}
				}
				return true
			})
		}
		sort.Slice(evs, func(i, j int) bool { return evs[i].pos < evs[j].pos })
		var order []string
		for _, e := range evs {
			order = append(order, e.label)
		}

		// ---- file-system entry points of the resolution functions
		for _, fn := range [][2]string{{"Interpreter", "importSrc"}, {"Interpreter", "pkgDir"}, {"", "previousRoot"}, {"", "effectivePkg"}} {
			fd := common.FindFunc(f, fn[0], fn[1])
			if fd == nil {
				fsCalls = append(fsCalls, "unrecognised: "+fn[1])
				continue
			}
			ast.Inspect(fd, func(n ast.Node) bool {
				c, ok := n.(*ast.CallExpr)
				if !ok {
					return true
				}
				s, ok := c.Fun.(*ast.SelectorExpr)
				if !ok {
					return true
				}
				id, ok := s.X.(*ast.Ident)
				if !ok {
					return true
				}
				switch id.Name {
				case "fs":
					if s.Sel.Name == "Stat" || s.Sel.Name == "ReadDir" || s.Sel.Name == "ReadFile" || s.Sel.Name == "Glob" || s.Sel.Name == "WalkDir" || s.Sel.Name == "Sub" {
						arg := "?"
						if len(c.Args) > 0 {
							arg = exprString(c.Args[0])
						}
						fsCalls = append(fsCalls, "fs."+s.Sel.Name+"("+arg+")")
					}
				case "os", "ioutil":
					osCalls = append(osCalls, id.Name+"."+s.Sel.Name)
				}
				return true
			})
		}
		uniq := func(xs []string) []string {
			sort.Strings(xs)
			var out []string
			for i, x := range xs {
				if i == 0 || xs[i-1] != x {
					out = append(out, x)
				}
			}
			if out == nil {
				out = []string{}
			}
			return out
		}

		var b strings.Builder
		fmt.Fprintf(&b, `import YaegiVerif.Model.Src
namespace YaegiVerif.Generated.C16
open YaegiVerif.Src
/-- interp/src.go: const vendor; the literal of previousRoot's second loop; the literals of pkgDir's
    Joins; interp.go: mainID; order of pkgDir's two attempts -/
def words : Words :=
  { vendor := %s, vendorLit := %s, vendorDir := %s, src := %s, mainID := %s,
    defaultName := %s, vendorFirst := %s }
/-- importSrc: bookkeeping statements in source order -/
def importOrder : List String := %s
/-- io/fs calls (with their file-system argument) in importSrc, pkgDir, previousRoot, effectivePkg -/
def fsCalls : List String := %s
/-- direct os/ioutil calls in the same functions -/
def osCalls : List String := %s
/-- gta.go importSpec rewrites an import path whose directory part equals its base ("x/x") to the base -/
def gtaCollapse : Bool := %s
/-- fingerprints of the functions that Model/Src.lean transcribes -/
def sourceHashes : List (String × String) :=
  %s
end YaegiVerif.Generated.C16
`, common.LeanStr(vendorConst), common.LeanStr(vendorLit), common.LeanStr(vendorDir), common.LeanStr(src), common.LeanStr(mainID),
			common.LeanStr(defaultName), vendorFirst, common.LeanStrList(order), common.LeanStrList(uniq(fsCalls)), common.LeanStrList(uniq(osCalls)), gtaCollapse,
			common.HashTable(fset, f, [][2]string{{"Interpreter", "importSrc"}, {"Interpreter", "rootFromSourceLocation"},
				{"Interpreter", "pkgDir"}, {"", "previousRoot"}, {"", "effectivePkg"}, {"", "isPathRelative"}}))
		return b.String(), nil
	})
}
