// extract-C16: the literal words and statement orders of interp/src.go that Model/Src.lean is
// parametrised by, the file-system entry points the resolution goes through, and the fingerprints of
// the functions the model transcribes.
package main

import (
	"fmt"
	"go/ast"
	"go/token"
	"sort"
	"strconv"
	"strings"

	"verif/extract/common"
)

func unq(e ast.Expr) (string, bool) {
	bl, ok := e.(*ast.BasicLit)
	if !ok || bl.Kind != token.STRING {
		return "", false
	}
	s, err := strconv.Unquote(bl.Value)
	return s, err == nil
}

// constStr finds `const name = "…"` at package level.
func constStr(f *ast.File, name string) string {
	for _, d := range f.Decls {
		gd, ok := d.(*ast.GenDecl)
		if !ok || gd.Tok != token.CONST {
			continue
		}
		for _, s := range gd.Specs {
			vs := s.(*ast.ValueSpec)
			for i, n := range vs.Names {
				if n.Name == name && i < len(vs.Values) {
					if v, ok := unq(vs.Values[i]); ok {
						return v
					}
				}
			}
		}
	}
	return "unrecognised: const " + name
}

func isSel(e ast.Expr, x, sel string) bool {
	s, ok := e.(*ast.SelectorExpr)
	if !ok || s.Sel.Name != sel {
		return false
	}
	id, ok := s.X.(*ast.Ident)
	return ok && id.Name == x
}

func exprString(e ast.Expr) string {
	switch v := e.(type) {
	case *ast.Ident:
		return v.Name
	case *ast.SelectorExpr:
		return exprString(v.X) + "." + v.Sel.Name
	case *ast.IndexExpr:
		return exprString(v.X) + "[" + exprString(v.Index) + "]"
	case *ast.BasicLit:
		return v.Value
	case *ast.StarExpr:
		return "*" + exprString(v.X)
	case *ast.UnaryExpr:
		return v.Op.String() + exprString(v.X)
	}
	return "?"
}

func mentions(n ast.Node, pred func(ast.Node) bool) bool {
	found := false
	ast.Inspect(n, func(x ast.Node) bool {
		if x != nil && pred(x) {
			found = true
		}
		return !found
	})
	return found
}

// joinKind classifies the directory a `filepath.Join(goPath, "src", …)` denotes.
func joinKind(e ast.Expr) string {
	call, ok := e.(*ast.CallExpr)
	if !ok || !isSel(call.Fun, "filepath", "Join") || len(call.Args) < 3 || exprString(call.Args[0]) != "goPath" {
		return "other"
	}
	rest := call.Args[2:]
	switch {
	case len(rest) == 2 && exprString(rest[0]) == "rPath" && exprString(rest[1]) == "importPath":
		return "vendor"
	case len(rest) == 1 && exprString(rest[0]) == "importPath":
		return "gopath"
	case len(rest) == 1:
		if c, ok := rest[0].(*ast.CallExpr); ok && exprString(c.Fun) == "effectivePkg" && len(c.Args) == 2 &&
			exprString(c.Args[0]) == "root" && exprString(c.Args[1]) == "importPath" {
			return "eff"
		}
	}
	return "other"
}

func main() {
	common.Main("C16", func(repo string) (string, error) {
		fset, f, err := common.ParseFile(repo, "interp/src.go")
		if err != nil {
			return "", err
		}
		_, fi, err := common.ParseFile(repo, "interp/interp.go")
		if err != nil {
			return "", err
		}

		// ---- words
		vendorConst := constStr(f, "vendor")
		mainID := constStr(fi, "mainID")
		defaultName := constStr(fi, "DefaultSourceName")
		noRoot := constStr(f, "noRoot")
		vendorDir, src, vendorLit := "unrecognised: pkgDir vendor literal", "unrecognised: pkgDir src literal", "unrecognised: previousRoot literal"
		vendorFirst, effCandidate, candMustBeDir := "false", "false", "false"
		pd := common.FindFunc(f, "Interpreter", "pkgDir")
		if pd != nil && pd.Body != nil {
			srcs := map[string]bool{}
			// every Join(goPath, X, …) of the function names the same X
			ast.Inspect(pd.Body, func(n ast.Node) bool {
				call, ok := n.(*ast.CallExpr)
				if ok && isSel(call.Fun, "filepath", "Join") && len(call.Args) >= 2 && exprString(call.Args[0]) == "goPath" {
					if s, ok := unq(call.Args[1]); ok {
						srcs[s] = true
					} else {
						srcs["unrecognised: second argument of Join(goPath, …)"] = true
					}
				}
				return true
			})
			if len(srcs) == 1 {
				for s := range srcs {
					src = s
				}
			}
			for _, st := range pd.Body.List {
				as, ok := st.(*ast.AssignStmt)
				if !ok || len(as.Rhs) != 1 || len(as.Lhs) != 1 {
					continue
				}
				call, ok := as.Rhs[0].(*ast.CallExpr)
				if ok && isSel(call.Fun, "filepath", "Join") && exprString(as.Lhs[0]) == "rPath" && len(call.Args) == 2 && exprString(call.Args[0]) == "root" {
					if s, ok := unq(call.Args[1]); ok {
						vendorDir = s
					}
				}
			}
			// the `root == noRoot` branch: root, rPath, dir = "", "", Join(goPath, "src", importPath)
			noRootOK := false
			for _, st := range pd.Body.List {
				ifs, ok := st.(*ast.IfStmt)
				if !ok || ifs.Init != nil || ifs.Else != nil || len(ifs.Body.List) != 1 {
					continue
				}
				be, ok := ifs.Cond.(*ast.BinaryExpr)
				if !ok || be.Op != token.EQL || exprString(be.X) != "root" || exprString(be.Y) != "noRoot" {
					continue
				}
				as, ok := ifs.Body.List[0].(*ast.AssignStmt)
				if !ok || len(as.Lhs) != 3 || len(as.Rhs) != 3 {
					continue
				}
				if exprString(as.Lhs[0]) == "root" && exprString(as.Lhs[1]) == "rPath" && exprString(as.Lhs[2]) == "dir" &&
					exprString(as.Rhs[0]) == `""` && exprString(as.Rhs[1]) == `""` && joinKind(as.Rhs[2]) == "gopath" {
					noRootOK = true
				}
			}
			if !noRootOK {
				noRoot = "absent: no `root == noRoot` branch in pkgDir (" + noRoot + ")"
			}
			// the attempts: every `if <candidate test> { return dir, …, nil }`, with the single assignment to
			// dir that precedes it, the test it uses and whether it sits under `if root == ""`
			type attempt struct{ what, test, guard string }
			var atts []attempt
			var lastDir string
			var walk func(list []ast.Stmt, guard string)
			walk = func(list []ast.Stmt, guard string) {
				for _, st := range list {
					switch v := st.(type) {
					case *ast.AssignStmt:
						if len(v.Lhs) == 1 && len(v.Rhs) == 1 && exprString(v.Lhs[0]) == "dir" {
							lastDir = joinKind(v.Rhs[0])
						}
					case *ast.IfStmt:
						test := ""
						if c, ok := v.Cond.(*ast.CallExpr); ok && exprString(c.Fun) == "isDir" && len(c.Args) == 2 && exprString(c.Args[1]) == "dir" && v.Init == nil {
							test = "isDir"
						}
						if as, ok := v.Init.(*ast.AssignStmt); ok && len(as.Rhs) == 1 {
							if c, ok := as.Rhs[0].(*ast.CallExpr); ok && isSel(c.Fun, "fs", "Stat") && len(c.Args) == 2 && exprString(c.Args[1]) == "dir" {
								if be, ok := v.Cond.(*ast.BinaryExpr); ok && be.Op == token.EQL && exprString(be.X) == "err" && exprString(be.Y) == "nil" {
									test = "stat"
								}
							}
						}
						returnsDir := false
						for _, s := range v.Body.List {
							if r, ok := s.(*ast.ReturnStmt); ok && len(r.Results) == 3 && exprString(r.Results[0]) == "dir" && exprString(r.Results[2]) == "nil" {
								returnsDir = true
							}
						}
						if test != "" && returnsDir {
							atts = append(atts, attempt{lastDir, test, guard})
							continue
						}
						if be, ok := v.Cond.(*ast.BinaryExpr); ok && v.Init == nil && be.Op == token.EQL && exprString(be.X) == "root" && exprString(be.Y) == `""` {
							walk(v.Body.List, "root-empty")
						}
					}
				}
			}
			walk(pd.Body.List, "always")
			shape := ""
			for _, a := range atts {
				shape += a.what + "/" + a.test + "/" + a.guard + " "
			}
			switch strings.TrimSpace(shape) {
			case "vendor/isDir/always gopath/isDir/root-empty":
				vendorFirst, effCandidate, candMustBeDir = "true", "false", "true"
			case "vendor/stat/always gopath/stat/root-empty":
				vendorFirst, effCandidate, candMustBeDir = "true", "false", "false"
			case "vendor/isDir/always eff/isDir/always":
				vendorFirst, effCandidate, candMustBeDir = "true", "true", "true"
			case "vendor/stat/always eff/stat/always":
				vendorFirst, effCandidate, candMustBeDir = "true", "true", "false"
			case "eff/stat/always vendor/stat/always":
				vendorFirst, effCandidate, candMustBeDir = "false", "true", "false"
			case "eff/isDir/always vendor/isDir/always":
				vendorFirst, effCandidate, candMustBeDir = "false", "true", "true"
			default:
				vendorDir = "unrecognised: the attempts of pkgDir: " + shape
			}
		}
		vendorFileStops := "false"
		if pr := common.FindFunc(f, "", "previousRoot"); pr != nil {
			seenErrTest := false
			ast.Inspect(pr, func(n ast.Node) bool {
				be, ok := n.(*ast.BinaryExpr)
				if ok && be.Op == token.EQL {
					if ix, ok := be.X.(*ast.IndexExpr); ok && exprString(ix.X) == "splitRoot" {
						if s, ok := unq(be.Y); ok {
							vendorLit = s
						}
					}
				}
				// `if !errors.Is(err, fs.ErrNotExist) { return "", err }`: with a nil error (a regular file
				// named vendor) this returns; `err != nil && …` goes on with the walk
				if ifs, ok := n.(*ast.IfStmt); ok && mentions(ifs.Cond, func(x ast.Node) bool {
					c, ok := x.(*ast.CallExpr)
					return ok && exprString(c.Fun) == "errors.Is"
				}) {
					seenErrTest = true
					switch c := ifs.Cond.(type) {
					case *ast.UnaryExpr:
						vendorFileStops = "true"
					case *ast.BinaryExpr:
						if l, ok := c.X.(*ast.BinaryExpr); ok && c.Op == token.LAND && l.Op == token.NEQ && exprString(l.X) == "err" && exprString(l.Y) == "nil" {
							if _, ok := c.Y.(*ast.UnaryExpr); ok {
								vendorFileStops = "false"
								break
							}
						}
						vendorLit = "unrecognised: the error test of previousRoot"
					default:
						vendorLit = "unrecognised: the error test of previousRoot"
					}
				}
				return true
			})
			if !seenErrTest {
				vendorLit = "unrecognised: no error test in previousRoot"
			}
		}

		// ---- gta.go importSpec: the rewriting of "x/x" to "x" (unconditional before the repair of F16-7,
		// now only for a loaded binary package) and of relative import paths (F16-10)
		gtaCollapse, relKey := "false", "false"
		if _, fg, err := common.ParseFile(repo, "interp/gta.go"); err == nil {
			ast.Inspect(fg, func(n ast.Node) bool {
				ifs, ok := n.(*ast.IfStmt)
				if !ok {
					return true
				}
				if c, ok := ifs.Cond.(*ast.CallExpr); ok && ifs.Init == nil && exprString(c.Fun) == "isPathRelative" && len(c.Args) == 1 && exprString(c.Args[0]) == "ipath" {
					for _, st := range ifs.Body.List {
						a, ok := st.(*ast.AssignStmt)
						if !ok || len(a.Lhs) != 2 || len(a.Rhs) != 2 || exprString(a.Lhs[0]) != "ipath" || exprString(a.Lhs[1]) != "rpath" || exprString(a.Rhs[1]) != "mainID" {
							continue
						}
						if c, ok := a.Rhs[0].(*ast.CallExpr); ok && exprString(c.Fun) == "relativePath" && len(c.Args) == 2 && exprString(c.Args[0]) == "rpath" && exprString(c.Args[1]) == "ipath" {
							relKey = "true"
						}
					}
					return true
				}
				if ifs.Init == nil {
					return true
				}
				as, ok := ifs.Init.(*ast.AssignStmt)
				if !ok || len(as.Lhs) != 1 || len(as.Rhs) != 1 || exprString(as.Lhs[0]) != "packageName" {
					return true
				}
				call, ok := as.Rhs[0].(*ast.CallExpr)
				if !ok || exprString(call.Fun) != "path.Base" || len(call.Args) != 1 || exprString(call.Args[0]) != "ipath" {
					return true
				}
				be, ok := ifs.Cond.(*ast.BinaryExpr)
				if !ok || be.Op != token.EQL {
					return true // `… && interp.binPkg[packageName] != nil`: source packages are not concerned
				}
				l, ok := be.X.(*ast.CallExpr)
				if !ok || exprString(l.Fun) != "path.Dir" || exprString(be.Y) != "packageName" {
					return true
				}
				for _, st := range ifs.Body.List {
					if a, ok := st.(*ast.AssignStmt); ok && len(a.Lhs) == 1 && exprString(a.Lhs[0]) == "ipath" && exprString(a.Rhs[0]) == "packageName" {
						gtaCollapse = "true"
					}
				}
				return true
			})
		}

		// ---- order of the bookkeeping statements of importSrc
		type ev struct {
			pos   token.Pos
			label string
		}
		var evs []ev
		seen := map[string]bool{}
		add := func(p token.Pos, l string) {
			if !seen[l] {
				seen[l] = true
				evs = append(evs, ev{p, l})
			}
		}
		var fsCalls, osCalls, wdCalls []string
		var resolveCalls []*ast.CallExpr
		relSub := "false"
		is := common.FindFunc(f, "Interpreter", "importSrc")
		if is != nil {
			ast.Inspect(is, func(n ast.Node) bool {
				switch v := n.(type) {
				case *ast.IfStmt:
					if mentions(v.Cond, func(x ast.Node) bool {
						e, ok := x.(ast.Expr)
						return ok && exprString(e) == "interp.srcPkg[importPath]"
					}) {
						add(v.Pos(), "srcPkg-test")
					}
					// `else if i := strings.LastIndex("/"+importPath, "/vendor/"); i >= 0 { return "", … }`
					if as, ok := v.Init.(*ast.AssignStmt); ok && len(as.Rhs) == 1 {
						if c, ok := as.Rhs[0].(*ast.CallExpr); ok && exprString(c.Fun) == "strings.LastIndex" && len(c.Args) == 2 {
							lit, _ := unq(c.Args[1])
							arg, okb := c.Args[0].(*ast.BinaryExpr)
							be, okc := v.Cond.(*ast.BinaryExpr)
							ret := false
							for _, s := range v.Body.List {
								if _, ok := s.(*ast.ReturnStmt); ok {
									ret = true
								}
							}
							if okb && okc && arg.Op == token.ADD && exprString(arg.X) == `"/"` && exprString(arg.Y) == "importPath" &&
								lit == "/"+vendorConst+"/" && be.Op == token.GEQ && exprString(be.Y) == "0" && ret {
								add(v.Pos(), "vendor-test")
							}
						}
					}
					// `if isPathRelative(importPath) { subRPath = relativePath(rPath, importPath) }`
					if c, ok := v.Cond.(*ast.CallExpr); ok && v.Init == nil && exprString(c.Fun) == "isPathRelative" && len(c.Args) == 1 && exprString(c.Args[0]) == "importPath" {
						for _, s := range v.Body.List {
							if a, ok := s.(*ast.AssignStmt); ok && len(a.Lhs) == 1 && len(a.Rhs) == 1 && exprString(a.Lhs[0]) == "subRPath" {
								if rc, ok := a.Rhs[0].(*ast.CallExpr); ok && exprString(rc.Fun) == "relativePath" && len(rc.Args) == 2 && exprString(rc.Args[0]) == "rPath" && exprString(rc.Args[1]) == "importPath" {
									relSub = "true"
								}
							}
						}
					}
					if mentions(v.Cond, func(x ast.Node) bool {
						e, ok := x.(ast.Expr)
						return ok && exprString(e) == "interp.rdir[importPath]"
					}) {
						// only a test that returns an error counts
						ret := false
						for _, s := range v.Body.List {
							if _, ok := s.(*ast.ReturnStmt); ok {
								ret = true
							}
						}
						if ret {
							add(v.Pos(), "rdir-test")
						}
					}
				case *ast.AssignStmt:
					if len(v.Lhs) == 1 && exprString(v.Lhs[0]) == "interp.rdir[importPath]" && exprString(v.Rhs[0]) == "true" {
						add(v.Pos(), "rdir-set")
					}
					if len(v.Lhs) == 1 && exprString(v.Lhs[0]) == "interp.srcPkg[importPath]" {
						add(v.Pos(), "srcPkg-set")
					}
				case *ast.CallExpr:
					switch exprString(v.Fun) {
					case "interp.pkgDir", "interp.goPkgDir":
						add(v.Pos(), "resolve")
						resolveCalls = append(resolveCalls, v)
					case "interp.gta":
						add(v.Pos(), "gta")
					}
				}
				return true
			})
		}
		sort.Slice(evs, func(i, j int) bool { return evs[i].pos < evs[j].pos })
		var order []string
		for _, e := range evs {
			order = append(order, e.label)
		}

		// which function resolves, and from which root (first call: mainRoot(rPath) or rPath itself)
		goFilesSkip, mainRootArg, rejectVendor := "false", "false", "false"
		sort.Slice(resolveCalls, func(i, j int) bool { return resolveCalls[i].Pos() < resolveCalls[j].Pos() })
		nGo := 0
		for _, c := range resolveCalls {
			if exprString(c.Fun) == "interp.goPkgDir" {
				nGo++
			}
		}
		switch {
		case len(resolveCalls) == 0:
			order = append(order, "unrecognised: no call of pkgDir / goPkgDir in importSrc")
		case nGo == len(resolveCalls):
			goFilesSkip = "true"
		case nGo != 0:
			order = append(order, "unrecognised: importSrc calls both pkgDir and goPkgDir")
		}
		if len(resolveCalls) > 0 && len(resolveCalls[0].Args) == 3 {
			switch a := resolveCalls[0].Args[1].(type) {
			case *ast.CallExpr:
				if exprString(a.Fun) == "interp.mainRoot" && len(a.Args) == 1 && exprString(a.Args[0]) == "rPath" {
					mainRootArg = "true"
				} else {
					order = append(order, "unrecognised: the root of importSrc's first resolution")
				}
			case *ast.Ident:
				if a.Name != "rPath" {
					order = append(order, "unrecognised: the root of importSrc's first resolution")
				}
			default:
				order = append(order, "unrecognised: the root of importSrc's first resolution")
			}
		}
		for i, l := range order {
			if l == "vendor-test" {
				for _, m := range order[i:] {
					if m == "resolve" {
						rejectVendor = "true"
					}
				}
			}
		}
		// the failed first resolution: `… ; err != nil { return "", err }`, or (before the repair of F16-11) a
		// second attempt from interp.rootFromSourceLocation()
		retry := "false"
		if is != nil && len(resolveCalls) > 0 {
			found := false
			ast.Inspect(is, func(n ast.Node) bool {
				ifs, ok := n.(*ast.IfStmt)
				if !ok || ifs.Init == nil || found {
					return true
				}
				as, ok := ifs.Init.(*ast.AssignStmt)
				if !ok || len(as.Rhs) != 1 || as.Rhs[0] != ast.Expr(resolveCalls[0]) {
					return true
				}
				be, ok := ifs.Cond.(*ast.BinaryExpr)
				if !ok || be.Op != token.NEQ || exprString(be.X) != "err" || exprString(be.Y) != "nil" {
					return true
				}
				found = true
				again := mentions(ifs.Body, func(x ast.Node) bool {
					c, ok := x.(*ast.CallExpr)
					return ok && exprString(c.Fun) == "interp.rootFromSourceLocation"
				})
				switch {
				case again && len(resolveCalls) == 2 && resolveCalls[1].Pos() > ifs.Body.Pos() && resolveCalls[1].End() < ifs.Body.End():
					retry = "true"
				case !again && len(resolveCalls) == 1 && len(ifs.Body.List) == 1:
					if r, ok := ifs.Body.List[0].(*ast.ReturnStmt); !ok || len(r.Results) != 2 || exprString(r.Results[1]) != "err" {
						order = append(order, "unrecognised: what importSrc does when the resolution fails")
					}
				default:
					order = append(order, "unrecognised: what importSrc does when the resolution fails")
				}
				return true
			})
			if !found {
				order = append(order, "unrecognised: the error test of importSrc's resolution")
			}
		}
		// mainRoot: `case isPathRelative(rPath): rPath, err = interp.rootFromDir(filepath.Join(filepath.Dir(interp.name), rPath))`
		relRoot := "false"
		if mr := common.FindFunc(f, "Interpreter", "mainRoot"); mr != nil {
			ast.Inspect(mr, func(n ast.Node) bool {
				cc, ok := n.(*ast.CaseClause)
				if !ok || len(cc.List) != 1 {
					return true
				}
				c, ok := cc.List[0].(*ast.CallExpr)
				if !ok || exprString(c.Fun) != "isPathRelative" || len(c.Args) != 1 || exprString(c.Args[0]) != "rPath" {
					return true
				}
				for _, st := range cc.Body {
					a, ok := st.(*ast.AssignStmt)
					if !ok || len(a.Lhs) != 2 || len(a.Rhs) != 1 || exprString(a.Lhs[0]) != "rPath" {
						continue
					}
					if rc, ok := a.Rhs[0].(*ast.CallExpr); ok && exprString(rc.Fun) == "interp.rootFromDir" && len(rc.Args) == 1 {
						if j, ok := rc.Args[0].(*ast.CallExpr); ok && isSel(j.Fun, "filepath", "Join") && len(j.Args) == 2 && exprString(j.Args[1]) == "rPath" {
							if d, ok := j.Args[0].(*ast.CallExpr); ok && isSel(d.Fun, "filepath", "Dir") && len(d.Args) == 1 && exprString(d.Args[0]) == "interp.name" {
								relRoot = "true"
							}
						}
					}
				}
				return true
			})
		}

		// ---- file-system entry points of the resolution functions
		for _, fn := range [][2]string{{"Interpreter", "importSrc"}, {"Interpreter", "goPkgDir"}, {"", "hasGoFiles"}, {"Interpreter", "pkgDir"},
			{"", "isDir"}, {"", "previousRoot"}, {"", "effectivePkg"}, {"Interpreter", "rootFromSourceLocation"}, {"Interpreter", "rootFromDir"},
			{"Interpreter", "mainRoot"}, {"", "relativePath"}} {
			fd := common.FindFunc(f, fn[0], fn[1])
			if fd == nil {
				fsCalls = append(fsCalls, "unrecognised: "+fn[1])
				continue
			}
			ast.Inspect(fd, func(n ast.Node) bool {
				c, ok := n.(*ast.CallExpr)
				if !ok {
					return true
				}
				s, ok := c.Fun.(*ast.SelectorExpr)
				if !ok {
					return true
				}
				id, ok := s.X.(*ast.Ident)
				if !ok {
					return true
				}
				switch id.Name {
				case "fs":
					if s.Sel.Name == "Stat" || s.Sel.Name == "ReadDir" || s.Sel.Name == "ReadFile" || s.Sel.Name == "Glob" || s.Sel.Name == "WalkDir" || s.Sel.Name == "Sub" {
						arg := "?"
						if len(c.Args) > 0 {
							arg = exprString(c.Args[0])
						}
						fsCalls = append(fsCalls, "fs."+s.Sel.Name+"("+arg+")")
					}
				case "os", "ioutil":
					osCalls = append(osCalls, id.Name+"."+s.Sel.Name)
				case "filepath":
					// the only path function that looks outside its arguments: the process's working directory
					if s.Sel.Name == "Abs" || s.Sel.Name == "EvalSymlinks" || s.Sel.Name == "Glob" || s.Sel.Name == "Walk" || s.Sel.Name == "WalkDir" {
						wdCalls = append(wdCalls, fn[1]+":filepath."+s.Sel.Name)
					}
				}
				return true
			})
		}
		uniq := func(xs []string) []string {
			sort.Strings(xs)
			var out []string
			for i, x := range xs {
				if i == 0 || xs[i-1] != x {
					out = append(out, x)
				}
			}
			if out == nil {
				out = []string{}
			}
			return out
		}

		var b strings.Builder
		fmt.Fprintf(&b, `import YaegiVerif.Model.Src
namespace YaegiVerif.Generated.C16
open YaegiVerif.Src
/-- interp/src.go: const vendor; the literal of previousRoot's second loop; the literals of pkgDir's
    Joins; const noRoot (with pkgDir's branch for it); interp.go: mainID, DefaultSourceName; the shape of
    pkgDir's attempts; the decisions of previousRoot, importSrc, mainRoot and gta the model follows -/
def words : Words :=
  { vendor := %s, vendorLit := %s, vendorDir := %s, src := %s, mainID := %s,
    defaultName := %s, noRoot := %s, vendorFirst := %s, effCandidate := %s, candMustBeDir := %s,
    vendorFileStops := %s, goFilesSkip := %s, rejectVendor := %s, mainRoot := %s, relRoot := %s,
    relKey := %s, relSub := %s, retry := %s }
/-- importSrc: bookkeeping statements in source order -/
def importOrder : List String := %s
/-- io/fs calls (with their file-system argument) in importSrc, goPkgDir, hasGoFiles, pkgDir, isDir,
    previousRoot, effectivePkg, rootFromSourceLocation, rootFromDir, mainRoot, relativePath -/
def fsCalls : List String := %s
/-- direct os/ioutil calls in the same functions -/
def osCalls : List String := %s
/-- calls of path/filepath functions that consult the process (working directory) or the disk -/
def wdCalls : List String := %s
/-- gta.go importSpec rewrites the import path of a source package whose directory part equals its base
    ("x/x") to the base -/
def gtaCollapse : Bool := %s
/-- fingerprints of the functions that Model/Src.lean transcribes -/
def sourceHashes : List (String × String) :=
  %s
end YaegiVerif.Generated.C16
`, common.LeanStr(vendorConst), common.LeanStr(vendorLit), common.LeanStr(vendorDir), common.LeanStr(src), common.LeanStr(mainID),
			common.LeanStr(defaultName), common.LeanStr(noRoot), vendorFirst, effCandidate, candMustBeDir, vendorFileStops, goFilesSkip, rejectVendor,
			mainRootArg, relRoot, relKey, relSub, retry,
			common.LeanStrList(order), common.LeanStrList(uniq(fsCalls)), common.LeanStrList(uniq(osCalls)), common.LeanStrList(uniq(wdCalls)), gtaCollapse,
			common.HashTable(fset, f, [][2]string{{"Interpreter", "importSrc"}, {"Interpreter", "rootFromSourceLocation"},
				{"Interpreter", "rootFromDir"}, {"Interpreter", "mainRoot"}, {"Interpreter", "goPkgDir"}, {"", "hasGoFiles"},
				{"Interpreter", "pkgDir"}, {"", "isDir"}, {"", "previousRoot"}, {"", "effectivePkg"}, {"", "relativePath"}, {"", "isPathRelative"}}))
		return b.String(), nil
	})
}
