// extract-C18: the choices extract/extract.go makes in its source text, as Lean facts:
// the `restricted` table, the arms of genContent's classification switch with the Addr flag of every
// Val literal, the `continue` guards, the two branches of the variadic test, the statements of the
// method loop (parameter / result naming, the Stringer test), fixConst's kind→token cases and its
// Complex case, the wrapper prefix expression (and the replacer when there is one), the condition of
// the restricted-symbol substitution, the usePkg computation, the binding / guard / import lines of
// the template, defaultMinorVersion — plus fingerprints of the functions Model/Extract.lean transcribes and of the
// template text.
package main

import (
	"bytes"
	"crypto/sha256"
	"fmt"
	"go/ast"
	"go/printer"
	"go/token"
	"sort"
	"strconv"
	"strings"

	"verif/extract/common"
)

func text(n ast.Node) string {
	var b bytes.Buffer
	if err := (&printer.Config{Mode: printer.RawFormat}).Fprint(&b, token.NewFileSet(), n); err != nil {
		return "unrecognised: " + err.Error()
	}
	return strings.Join(strings.Fields(b.String()), " ")
}

func stmts(l []ast.Stmt) []string {
	out := make([]string, len(l))
	for i, s := range l {
		out[i] = text(s)
	}
	return out
}

// ifText renders `if init; cond { body }` as "init; cond => s1; s2".
func ifText(s *ast.IfStmt, body []ast.Stmt) string {
	t := text(s.Cond)
	if s.Init != nil {
		t = text(s.Init) + "; " + t
	}
	if len(body) > 0 {
		t += " => " + strings.Join(stmts(body), "; ")
	}
	return t
}

func endsWithContinue(b *ast.BlockStmt) bool {
	if len(b.List) == 0 {
		return false
	}
	br, ok := b.List[len(b.List)-1].(*ast.BranchStmt)
	return ok && br.Tok == token.CONTINUE
}

func findConst(f *ast.File, name string) ast.Expr {
	for _, d := range f.Decls {
		gd, ok := d.(*ast.GenDecl)
		if !ok || gd.Tok != token.CONST {
			continue
		}
		for _, s := range gd.Specs {
			vs := s.(*ast.ValueSpec)
			for i, n := range vs.Names {
				if n.Name == name && i < len(vs.Values) {
					return vs.Values[i]
				}
			}
		}
	}
	return nil
}

func leanPairs(ps [][2]string) string {
	q := make([]string, len(ps))
	for i, p := range ps {
		q[i] = "(" + common.LeanStr(p[0]) + ", " + common.LeanStr(p[1]) + ")"
	}
	return "[" + strings.Join(q, ",\n     ") + "]"
}

func main() {
	common.Main("C18", func(repo string) (string, error) {
		fset, f, err := common.ParseFile(repo, "extract/extract.go")
		if err != nil {
			return "", err
		}
		// ---- restricted
		var restricted []string
		if cl, ok := common.FindVar(f, "restricted").(*ast.CompositeLit); ok {
			for _, e := range cl.Elts {
				kv, ok := e.(*ast.KeyValueExpr)
				if !ok {
					restricted = append(restricted, "unrecognised: element of restricted")
					continue
				}
				k, ok1 := kv.Key.(*ast.BasicLit)
				v, ok2 := kv.Value.(*ast.Ident)
				if !ok1 || !ok2 {
					restricted = append(restricted, "unrecognised: entry of restricted")
					continue
				}
				s, _ := strconv.Unquote(k.Value)
				if v.Name == "true" {
					restricted = append(restricted, s)
				}
			}
		} else {
			restricted = []string{"unrecognised: restricted is not a map literal"}
		}
		sort.Strings(restricted)

		// ---- genContent
		var arms, typRhs, skips, vThen, vElse, methodStmts []string
		var valLits [][3]string
		vCond := "unrecognised: no variadic test"
		replaced := []string{} // arguments of strings.NewReplacer (none: the prefix is not built with a replacer)
		prefixExpr := "unrecognised: no prefix assignment"
		restrictedCond := "unrecognised: no restricted test"
		qualify := []string{} // the pre-population of `imports` and the body of the `qualify` closure
		usePkg := []string{}
		gc := common.FindFunc(f, "Extractor", "genContent")
		if gc == nil {
			arms = []string{"unrecognised: genContent not found"}
		} else {
			// prefix and replacer
			ast.Inspect(gc.Body, func(n ast.Node) bool {
				switch n := n.(type) {
				case *ast.AssignStmt:
					if len(n.Lhs) == 1 && len(n.Rhs) == 1 && text(n.Lhs[0]) == "prefix" {
						if n.Tok == token.DEFINE && prefixExpr == "unrecognised: no prefix assignment" {
							prefixExpr = text(n.Rhs[0])
						} else {
							prefixExpr += " ; " + text(n)
						}
					}
				case *ast.IfStmt:
					if n.Init != nil && strings.HasPrefix(text(n.Init), "rname :=") {
						restrictedCond = text(n.Init) + "; " + text(n.Cond) + " => " + strings.Join(stmts(n.Body.List), "; ")
					}
				case *ast.KeyValueExpr:
					if text(n.Key) == "\"UsePkg\"" {
						usePkg = append(usePkg, text(n))
					}
				case *ast.CallExpr:
					if text(n.Fun) == "strings.NewReplacer" {
						replaced = nil
						for _, a := range n.Args {
							if bl, ok := a.(*ast.BasicLit); ok && bl.Kind == token.STRING {
								s, _ := strconv.Unquote(bl.Value)
								replaced = append(replaced, s)
							} else {
								replaced = append(replaced, "unrecognised: "+text(a))
							}
						}
					}
				}
				return true
			})
			// the usePkg computation: top-level statements of genContent that assign usePkg;
			// the import bookkeeping: the loop over p.Imports() and the closure `qualify`
			for _, st := range gc.Body.List {
				switch st := st.(type) {
				case *ast.AssignStmt:
					if len(st.Lhs) == 1 && text(st.Lhs[0]) == "usePkg" {
						usePkg = append(usePkg, text(st))
					}
					if len(st.Lhs) == 1 && len(st.Rhs) == 1 && text(st.Lhs[0]) == "qualify" {
						if fl, ok := st.Rhs[0].(*ast.FuncLit); ok {
							for _, bs := range fl.Body.List {
								if is, ok := bs.(*ast.IfStmt); ok && is.Else == nil {
									qualify = append(qualify, "if "+ifText(is, is.Body.List))
								} else {
									qualify = append(qualify, text(bs))
								}
							}
						} else {
							qualify = append(qualify, "unrecognised: qualify is not a function literal")
						}
					}
				case *ast.RangeStmt:
					if text(st.X) == "p.Imports()" {
						qualify = append(qualify, "range "+text(st.Key)+", "+text(st.Value)+" "+text(st.X)+" => "+strings.Join(stmts(st.Body.List), "; "))
					}
					if strings.Contains(text(st.Body), "usePkg") {
						usePkg = append(usePkg, "range "+text(st.Key)+", "+text(st.Value)+" "+text(st.X)+" => "+strings.Join(stmts(st.Body.List), "; "))
					}
				}
			}
			// the object loop: `for _, name := range sc.Names()`
			var loop *ast.RangeStmt
			ast.Inspect(gc.Body, func(n ast.Node) bool {
				if r, ok := n.(*ast.RangeStmt); ok && loop == nil && text(r.X) == "sc.Names()" {
					loop = r
				}
				return true
			})
			if loop == nil {
				arms = []string{"unrecognised: object loop not found"}
			} else {
				var methodLoop *ast.ForStmt
				ast.Inspect(loop.Body, func(n ast.Node) bool {
					switch n := n.(type) {
					case *ast.IfStmt:
						if endsWithContinue(n.Body) {
							skips = append(skips, ifText(n, n.Body.List[:len(n.Body.List)-1]))
						}
						if strings.HasPrefix(text(n.Cond), "sign.Variadic()") {
							vCond = text(n.Cond)
							vThen = stmts(n.Body.List)
							if eb, ok := n.Else.(*ast.BlockStmt); ok {
								vElse = stmts(eb.List)
							} else if n.Else != nil {
								vElse = []string{"unrecognised: else is not a block"}
							}
						}
					case *ast.ForStmt:
						if methodLoop == nil && strings.Contains(text(n.Cond), "NumMethods()") {
							methodLoop = n
						}
					case *ast.TypeSwitchStmt:
						if len(arms) > 0 {
							arms = append(arms, "unrecognised: second type switch")
							return true
						}
						for _, c := range n.Body.List {
							cc := c.(*ast.CaseClause)
							var ts []string
							for _, e := range cc.List {
								ts = append(ts, text(e))
							}
							arm := strings.Join(ts, ",")
							if cc.List == nil {
								arm = "default"
							}
							arms = append(arms, arm)
							for _, s := range cc.Body {
								ast.Inspect(s, func(m ast.Node) bool {
									switch m := m.(type) {
									case *ast.CompositeLit:
										if text(m.Type) == "Val" {
											if len(m.Elts) == 2 {
												valLits = append(valLits, [3]string{arm, text(m.Elts[0]), text(m.Elts[1])})
											} else {
												valLits = append(valLits, [3]string{arm, "unrecognised: " + text(m), "false"})
											}
										}
									case *ast.AssignStmt:
										if len(m.Lhs) == 1 && len(m.Rhs) == 1 {
											l := text(m.Lhs[0])
											if l == "typ[name]" || l == "wrap[name]" {
												typRhs = append(typRhs, l+" = "+text(m.Rhs[0]))
											}
										}
									}
									return true
								})
							}
						}
					}
					return true
				})
				if methodLoop == nil {
					methodStmts = []string{"unrecognised: method loop not found"}
				} else {
					var flat func(l []ast.Stmt)
					flat = func(l []ast.Stmt) {
						for _, s := range l {
							switch s := s.(type) {
							case *ast.IfStmt:
								if endsWithContinue(s.Body) || strings.HasPrefix(text(s.Cond), "sign.Variadic()") {
									continue // recorded in skips / variadic
								}
								methodStmts = append(methodStmts, ifText(s, s.Body.List))
								if s.Else != nil {
									methodStmts = append(methodStmts, "else "+text(s.Else))
								}
							case *ast.ForStmt:
								methodStmts = append(methodStmts, "for "+text(s.Init)+"; "+text(s.Cond)+"; "+text(s.Post))
								flat(s.Body.List)
							case *ast.RangeStmt:
								methodStmts = append(methodStmts, "range "+text(s.Key)+" "+text(s.X))
								flat(s.Body.List)
							default:
								methodStmts = append(methodStmts, text(s))
							}
						}
					}
					flat(methodLoop.Body.List)
				}
			}
		}

		// ---- fixConst
		var fixCases [][2]string
		var fixFloat []string
		fixComplex := []string{}
		fixFormat := "unrecognised: no fmt.Sprintf in fixConst"
		if fc := common.FindFunc(f, "", "fixConst"); fc == nil {
			fixCases = [][2]string{{"unrecognised: fixConst not found", ""}}
		} else {
			ast.Inspect(fc.Body, func(n ast.Node) bool {
				switch n := n.(type) {
				case *ast.SwitchStmt:
					if text(n.Tag) != "val.Kind()" {
						fixCases = append(fixCases, [2]string{"unrecognised: switch on " + text(n.Tag), ""})
						return true
					}
					for _, c := range n.Body.List {
						cc := c.(*ast.CaseClause)
						kind := "default"
						if len(cc.List) == 1 {
							kind = strings.TrimPrefix(text(cc.List[0]), "constant.")
						} else if len(cc.List) > 1 {
							kind = "unrecognised: several kinds in one case"
						}
						tok := ""
						for _, s := range cc.Body {
							if as, ok := s.(*ast.AssignStmt); ok && len(as.Lhs) == 1 && text(as.Lhs[0]) == "tok" {
								if bl, ok := as.Rhs[0].(*ast.BasicLit); ok {
									tok, _ = strconv.Unquote(bl.Value)
								}
							}
						}
						fixCases = append(fixCases, [2]string{kind, tok})
						if kind == "Float" {
							fixFloat = stmts(cc.Body)
						}
						if kind == "Complex" {
							fixComplex = stmts(cc.Body)
						}
					}
				}
				return true
			})
			// the statement that prints a literal: the function's final `return fmt.Sprintf(...)`
			for _, st := range fc.Body.List {
				rs, ok := st.(*ast.ReturnStmt)
				if !ok || len(rs.Results) != 1 {
					continue
				}
				if n, ok := rs.Results[0].(*ast.CallExpr); ok && text(n.Fun) == "fmt.Sprintf" && len(n.Args) > 0 {
					if bl, ok := n.Args[0].(*ast.BasicLit); ok {
						fixFormat, _ = strconv.Unquote(bl.Value)
						var rest []string
						for _, a := range n.Args[1:] {
							rest = append(rest, text(a))
						}
						fixFormat += " <- " + strings.Join(rest, ", ")
					}
				}
			}
		}

		// ---- the template
		var tmpl [][2]string
		tmplHash := "unrecognised: const model not found"
		if bl, ok := findConst(f, "model").(*ast.BasicLit); ok && bl.Kind == token.STRING {
			src, _ := strconv.Unquote(bl.Value)
			tmplHash = fmt.Sprintf("%x", sha256.Sum256([]byte(src)))[:16]
			var lines []string
			for _, l := range strings.Split(src, "\n") {
				lines = append(lines, strings.TrimSpace(l))
			}
			find := func(name string, pred func(string) bool) {
				var hits []string
				for _, l := range lines {
					if pred(l) {
						hits = append(hits, l)
					}
				}
				switch len(hits) {
				case 1:
					tmpl = append(tmpl, [2]string{name, hits[0]})
				case 0:
					tmpl = append(tmpl, [2]string{name, "unrecognised: no such line"})
				default:
					tmpl = append(tmpl, [2]string{name, "unrecognised: " + strings.Join(hits, " | ")})
				}
			}
			pre := func(p string) func(string) bool { return func(l string) bool { return strings.HasPrefix(l, p) } }
			has := func(p string) func(string) bool { return func(l string) bool { return strings.Contains(l, p) } }
			find("addr", pre(`"{{$key}}": reflect.ValueOf(&`))
			find("value", pre(`"{{$key}}": reflect.ValueOf({{`))
			find("type", pre(`"{{$key}}": reflect.ValueOf((*`))
			find("wrap", pre(`"_{{$key}}":`))
			find("symkey", pre(`Symbols[`))
			find("struct", pre(`type {{`))
			find("ivalue", pre(`IValue`))
			find("field", pre(`W{{$m.Name}} func`))
			find("method", pre(`func (W `))
			// the line that decides the nil guard: the one before `if W.WString == nil {`;
			// the line that decides the import of the extracted package: the one before "{{.ImportPath}}"
			before := func(name, next string) {
				var hits []string
				for i, l := range lines {
					if l == next && i > 0 {
						hits = append(hits, lines[i-1])
					}
				}
				switch len(hits) {
				case 1:
					tmpl = append(tmpl, [2]string{name, hits[0]})
				case 0:
					tmpl = append(tmpl, [2]string{name, "unrecognised: no such line"})
				default:
					tmpl = append(tmpl, [2]string{name, "unrecognised: " + strings.Join(hits, " | ")})
				}
			}
			before("guard", `if W.WString == nil {`)
			before("importpkg", `"{{.ImportPath}}"`)
			find("call", has(`$m.Ret`))
			find("tags", has(`+build`))
			find("package", pre(`package `))
		}

		// ---- defaultMinorVersion
		defMinor := "0 /- unrecognised: defaultMinorVersion -/"
		if bl, ok := findConst(f, "defaultMinorVersion").(*ast.BasicLit); ok && bl.Kind == token.INT {
			if _, err := strconv.Atoi(bl.Value); err == nil {
				defMinor = bl.Value
			}
		}

		var vl []string
		for _, v := range valLits {
			b := "false"
			if v[2] == "true" {
				b = "true"
			} else if v[2] != "false" {
				v[1] = "unrecognised: Addr is " + v[2]
			}
			vl = append(vl, "("+common.LeanStr(v[0])+", "+common.LeanStr(v[1])+", "+b+")")
		}
		hashes := common.HashTable(fset, f, [][2]string{{"Extractor", "genContent"}, {"", "fixConst"}, {"", "matchList"}, {"", "genBuildTags"},
			{"", "isInStdlib"}, {"", "GetMinor"}, {"Extractor", "Extract"}, {"Extractor", "importPath"}})
		hashes = strings.TrimSuffix(hashes, "]") + ",\n   (\"const model\", " + common.LeanStr(tmplHash) + ")]"
		return fmt.Sprintf(`import YaegiVerif.Model.Extract
namespace YaegiVerif.Generated.C18
open YaegiVerif.Extract
/-- extract/extract.go: the choices genContent, fixConst and the template make in their text -/
def facts : Facts :=
  { restricted := %s,
    arms := %s,
    valLits := [%s],
    typRhs := %s,
    skips := %s,
    variadicCond := %s,
    variadicThen := %s,
    variadicElse := %s,
    methodStmts := %s,
    fixCases := %s,
    fixFloat := %s,
    fixFormat := %s,
    replaced := %s,
    prefixExpr := %s,
    restrictedCond := %s,
    usePkg := %s,
    fixComplex := %s,
    qualify := %s,
    tmpl := %s,
    defaultMinor := %s }
/-- fingerprints of the functions (and of the template text) that Model/Extract.lean transcribes -/
def sourceHashes : List (String × String) :=
  %s
end YaegiVerif.Generated.C18
`, common.LeanStrList(restricted), common.LeanStrList(arms), strings.Join(vl, ",\n     "), common.LeanStrList(typRhs),
			common.LeanStrList(skips), common.LeanStr(vCond), common.LeanStrList(vThen), common.LeanStrList(vElse),
			common.LeanStrList(methodStmts), leanPairs(fixCases), common.LeanStrList(fixFloat), common.LeanStr(fixFormat),
			common.LeanStrList(replaced), common.LeanStr(prefixExpr), common.LeanStr(restrictedCond), common.LeanStrList(usePkg),
			common.LeanStrList(fixComplex), common.LeanStrList(qualify), leanPairs(tmpl), defMinor, hashes), nil
	})
}
