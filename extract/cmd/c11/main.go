// extract-C11: facts about incremental evaluation, read from the source text of the repository:
//
//   - facts       the choices the Lean model (Model/Piecewise.lean) is parametrised by: resizeFrame
//                 copies the old frame; gta's funcDecl arm assigns the function symbol
//                 unconditionally; scope.add allocates at the end; which first tokens make the
//                 incremental parser prefix "package main;" and that everything else is wrapped in
//                 main and its body returned; CompileAST appends main to the init list, and only
//                 when this program declares it; addMethod replaces a method declared again;
//                 genGlobalVarDecl waits only for the variables of its own call;
//   - pipeline    for Eval, EvalPath, eval, Compile, compileSrc, CompileAST, Execute: the calls to
//                 the other functions of the pipeline, in source order, with the early returns;
//   - shapes      the statements those facts were recognised from, as normalised source text;
//   - sourceHashes fingerprints of the functions the model was written from.
//
// A construct that is no longer recognised yields a value that cannot equal the expectation.
package main

import (
	"bytes"
	"fmt"
	"go/ast"
	"go/printer"
	"go/token"
	"sort"
	"strings"

	"verif/extract/common"
)

// norm prints a node without comments and without white space.
func norm(n ast.Node) string {
	if n == nil {
		return ""
	}
	var b bytes.Buffer
	if err := (&printer.Config{Mode: printer.RawFormat}).Fprint(&b, token.NewFileSet(), n); err != nil {
		return "unrecognised: " + err.Error()
	}
	return strings.Join(strings.Fields(b.String()), "")
}

func leanBool(b bool) string {
	if b {
		return "true"
	}
	return "false"
}

// caseClauses returns every `case <name>:` clause (name among the case expressions) inside fn.
func caseClauses(fd *ast.FuncDecl, name string) []*ast.CaseClause {
	var out []*ast.CaseClause
	if fd == nil {
		return nil
	}
	ast.Inspect(fd, func(n ast.Node) bool {
		if cc, ok := n.(*ast.CaseClause); ok {
			for _, e := range cc.List {
				if id, ok := e.(*ast.Ident); ok && id.Name == name {
					out = append(out, cc)
				}
			}
		}
		return true
	})
	return out
}

type callT struct{ ctl, fn, args string }

var tracked = map[string]bool{"eval": true, "compileSrc": true, "CompileAST": true, "Execute": true, "parse": true, "ast": true,
	"gtaRetry": true, "gta": true, "cfg": true, "genRun": true, "resizeFrame": true, "run": true, "genGlobalVars": true, "importSrc": true,
	"ReadFile": true}

func calleeName(c *ast.CallExpr) string {
	switch f := c.Fun.(type) {
	case *ast.Ident:
		return f.Name
	case *ast.SelectorExpr:
		if x, ok := f.X.(*ast.Ident); ok && (x.Name == "interp" || x.Name == "fs" || x.Name == "os") {
			return f.Sel.Name
		}
	}
	return ""
}

// callsIn lists the tracked calls of a node in source order (function literals are skipped).
func callsIn(n ast.Node, ctl string) []callT {
	var out []callT
	if n == nil {
		return nil
	}
	ast.Inspect(n, func(m ast.Node) bool {
		switch x := m.(type) {
		case *ast.FuncLit:
			return false
		case *ast.CallExpr:
			// arguments first (they are evaluated first)
			for _, a := range x.Args {
				out = append(out, callsIn(a, ctl)...)
			}
			if name := calleeName(x); tracked[name] {
				args := make([]string, len(x.Args))
				for i, a := range x.Args {
					args[i] = norm(a)
				}
				out = append(out, callT{ctl, name, strings.Join(args, ",")})
			}
			return false
		}
		return true
	})
	return out
}

func endsWithReturn(b *ast.BlockStmt) bool {
	if b == nil || len(b.List) == 0 {
		return false
	}
	_, ok := b.List[len(b.List)-1].(*ast.ReturnStmt)
	return ok
}

func pipelineOf(fd *ast.FuncDecl) []callT {
	if fd == nil || fd.Body == nil {
		return []callT{{"unrecognised: function not found", "", ""}}
	}
	var out []callT
	for _, st := range fd.Body.List {
		switch s := st.(type) {
		case *ast.DeferStmt:
			continue
		case *ast.IfStmt:
			cond := norm(s.Cond)
			out = append(out, callsIn(s.Init, "")...)
			switch {
			case strings.HasPrefix(cond, "err!=nil") && endsWithReturn(s.Body) && s.Else == nil:
				if len(callsIn(s.Body, "")) > 0 {
					out = append(out, callT{"unrecognised: call in error branch", "", ""})
				}
				out = append(out, callT{"ret-if-err", "", ""})
			case cond == "interp.noRun" && endsWithReturn(s.Body) && s.Else == nil:
				out = append(out, callT{"ret-if-noRun", "", ""})
			case strings.HasPrefix(cond, "!isFile(") && endsWithReturn(s.Body) && s.Else == nil:
				out = append(out, callsIn(s.Body, "dir")...)
			default:
				for _, c := range callsIn(s.Body, "cond:"+cond) {
					out = append(out, c)
				}
				if s.Else != nil {
					out = append(out, callsIn(s.Else, "else:"+cond)...)
				}
			}
		case *ast.RangeStmt:
			out = append(out, callsIn(s.Body, "loop")...)
		case *ast.ForStmt:
			out = append(out, callsIn(s.Body, "loop")...)
		default:
			out = append(out, callsIn(st, "")...)
		}
	}
	return out
}

func leanCalls(cs []callT) string {
	ps := make([]string, len(cs))
	for i, c := range cs {
		ps[i] = "⟨" + common.LeanStr(c.ctl) + ", " + common.LeanStr(c.fn) + ", " + common.LeanStr(c.args) + "⟩"
	}
	return "[" + strings.Join(ps, ", ") + "]"
}

func main() {
	common.Main("C11", func(repo string) (string, error) {
		fsetI, fi, err := common.ParseFile(repo, "interp/interp.go")
		if err != nil {
			return "", err
		}
		fsetP, fp, err := common.ParseFile(repo, "interp/program.go")
		if err != nil {
			return "", err
		}
		fsetA, fa, err := common.ParseFile(repo, "interp/ast.go")
		if err != nil {
			return "", err
		}
		fsetS, fs, err := common.ParseFile(repo, "interp/scope.go")
		if err != nil {
			return "", err
		}
		fsetG, fg, err := common.ParseFile(repo, "interp/gta.go")
		if err != nil {
			return "", err
		}
		fsetC, fc, err := common.ParseFile(repo, "interp/cfg.go")
		if err != nil {
			return "", err
		}
		fsetT, ft, err := common.ParseFile(repo, "interp/type.go")
		if err != nil {
			return "", err
		}
		shapes := [][2]string{}
		shape := func(k, v string) { shapes = append(shapes, [2]string{k, v}) }
		missing := "unrecognised: not found"

		// ---- resizeFrame
		copies := false
		{
			fd := common.FindFunc(fi, "Interpreter", "resizeFrame")
			cp, guard, zero := missing, missing, missing
			if fd != nil && fd.Body != nil {
				for _, st := range fd.Body.List {
					switch s := st.(type) {
					case *ast.ExprStmt:
						if c, ok := s.X.(*ast.CallExpr); ok {
							if id, ok := c.Fun.(*ast.Ident); ok && id.Name == "copy" {
								cp = norm(s)
							}
						}
					case *ast.IfStmt:
						if endsWithReturn(s.Body) {
							guard = norm(s.Cond)
						}
					case *ast.RangeStmt:
						zero = norm(s.Body) + "over" + norm(s.X)
					}
				}
			}
			copies = cp == "copy(data,interp.frame.data)"
			shape("resizeFrame.copy", cp)
			shape("resizeFrame.guard", guard)
			shape("resizeFrame.zero", zero)
		}

		// ---- gta: funcDecl arm, default clause: unconditional assignment of the symbol
		overwrites := false
		{
			fd := common.FindFunc(fg, "Interpreter", "gta")
			found := missing
			for _, cc := range caseClauses(fd, "funcDecl") {
				ast.Inspect(cc, func(n ast.Node) bool {
					inner, ok := n.(*ast.CaseClause)
					if !ok || inner == cc || inner.List != nil {
						return true
					}
					// the `default:` clause of the inner switch: its top-level statements
					for _, st := range inner.Body {
						if as, ok := st.(*ast.AssignStmt); ok && len(as.Lhs) == 1 && norm(as.Lhs[0]) == "sc.sym[ident]" {
							found = norm(as)
						}
					}
					return true
				})
			}
			overwrites = strings.HasPrefix(found, "sc.sym[ident]=&symbol{kind:funcSym,") && strings.Contains(found, "node:n")
			shape("gta.funcDecl", found)
			// variables: every declaration allocates a new index
			def, vs := missing, missing
			for _, cc := range caseClauses(fd, "defineStmt") {
				ast.Inspect(cc, func(n ast.Node) bool {
					if as, ok := n.(*ast.AssignStmt); ok && len(as.Lhs) == 1 && norm(as.Lhs[0]) == "sc.sym[dest.ident]" {
						def = norm(as)
					}
					return true
				})
			}
			for _, cc := range caseClauses(fd, "valueSpec") {
				ast.Inspect(cc, func(n ast.Node) bool {
					if as, ok := n.(*ast.AssignStmt); ok && len(as.Lhs) == 1 && norm(as.Lhs[0]) == "sc.sym[c.ident]" {
						vs = norm(as)
					}
					return true
				})
			}
			shape("gta.defineStmt", def)
			shape("gta.valueSpec", vs)
		}
		// ---- cfg: funcDecl post-order also points the symbol at the new node
		{
			fd := common.FindFunc(fc, "Interpreter", "cfg")
			found := missing
			for _, cc := range caseClauses(fd, "funcDecl") {
				ast.Inspect(cc, func(n ast.Node) bool {
					if ifs, ok := n.(*ast.IfStmt); ok && ifs.Init != nil && strings.HasPrefix(norm(ifs.Init), "sym:=sc.sym[funcName]") {
						found = norm(ifs)
					}
					return true
				})
			}
			shape("cfg.funcDecl", found)
		}
		// ---- iota: reset after the last spec of a const declaration, in cfg and in gta
		iotaReset := false
		{
			const want = "ifchildPos(n)==len(n.anc.child)-1{sc.iota=0}else{sc.iota++}"
			scan := func(fd *ast.FuncDecl) (ifShape, writes string) {
				ifShape = missing
				var ws []string
				if fd == nil {
					return ifShape, missing
				}
				ast.Inspect(fd, func(n ast.Node) bool {
					switch x := n.(type) {
					case *ast.IfStmt:
						if strings.Contains(norm(x.Body), "sc.iota") && strings.HasPrefix(norm(x.Cond), "childPos(n)") {
							ifShape = norm(x)
						}
					case *ast.AssignStmt:
						if len(x.Lhs) == 1 && norm(x.Lhs[0]) == "sc.iota" {
							ws = append(ws, norm(x))
						}
					case *ast.IncDecStmt:
						if norm(x.X) == "sc.iota" {
							ws = append(ws, norm(x))
						}
					}
					return true
				})
				return ifShape, strings.Join(ws, ";")
			}
			c1, w1 := scan(common.FindFunc(fc, "Interpreter", "cfg"))
			c2, w2 := scan(common.FindFunc(fg, "Interpreter", "gta"))
			iotaReset = c1 == want && c2 == want && w1 == "sc.iota=0;sc.iota++" && w2 == "sc.iota=0;sc.iota++"
			shape("cfg.constIota", c1)
			shape("cfg.iotaWrites", w1)
			shape("gta.constIota", c2)
			shape("gta.iotaWrites", w2)
		}
		// ---- scope.add
		allocEnd := false
		{
			fd := common.FindFunc(fs, "scope", "add")
			var idx, app string = missing, missing
			if fd != nil && fd.Body != nil {
				for _, st := range fd.Body.List {
					if as, ok := st.(*ast.AssignStmt); ok && len(as.Lhs) == 1 {
						switch norm(as.Lhs[0]) {
						case "index":
							idx = norm(as)
						case "s.types":
							app = norm(as)
						}
					}
				}
			}
			allocEnd = idx == "index=len(s.types)" && app == "s.types=append(s.types,t)"
			shape("scope.add", idx+";"+app)
		}
		// ---- parse (incremental mode)
		var declTokens []string
		wrapDefault := false
		funcRetry, firstErrorDecides := false, false
		{
			fd := common.FindFunc(fa, "Interpreter", "parse")
			declShape, wrapShape, bodyShape := missing, missing, missing
			if fd != nil {
				ast.Inspect(fd, func(n ast.Node) bool {
					sw, ok := n.(*ast.SwitchStmt)
					if !ok || norm(sw.Tag) != "tok" {
						return true
					}
					for _, st := range sw.Body.List {
						cc := st.(*ast.CaseClause)
						body := make([]string, len(cc.Body))
						for i, b := range cc.Body {
							body[i] = norm(b)
						}
						text := strings.Join(body, ";")
						switch {
						case cc.List == nil:
							wrapShape = text
						case text == `src="packagemain;"+src`:
							declShape = text
							for _, e := range cc.List {
								declTokens = append(declTokens, strings.ToLower(strings.TrimPrefix(norm(e), "token.")))
							}
						case text == "":
							// token.PACKAGE: nothing to do
						default:
							declTokens = append(declTokens, "unrecognised: case "+norm(cc.List[0])+" does "+text)
						}
					}
					return false
				})
				ast.Inspect(fd, func(n ast.Node) bool {
					if ifs, ok := n.(*ast.IfStmt); ok && norm(ifs.Cond) == "inFunc" {
						bodyShape = norm(ifs.Body)
					}
					return true
				})
			}
			sort.Strings(declTokens)
			wrapDefault = wrapShape == "inFunc=true;src=wrapInMain(src)" && bodyShape == "{returnf.Decls[0].(*ast.FuncDecl).Body,nil}"
			shape("parse.decl", declShape)
			shape("parse.wrap", wrapShape)
			shape("parse.body", bodyShape)
			// the second attempt for a text that starts with `func` and is not a file
			retryShape := missing
			if fd != nil {
				ast.Inspect(fd, func(n ast.Node) bool {
					if ifs, ok := n.(*ast.IfStmt); ok && norm(ifs.Cond) == "err!=nil" && strings.Contains(norm(ifs.Body), "ignoreError(") {
						retryShape = norm(ifs.Body)
					}
					return true
				})
			}
			funcRetry = retryShape == "{if!inc||tok!=token.FUNC{returnnil,err}ifignoreError(err,src){returnnil,err}initialError:=errsrc:=wrapInMain(strings.TrimPrefix(src,\"packagemain;\"))f,err=parser.ParseFile(interp.fset,name,src,mode)iferr!=nil{returnnil,initialError}inFunc=true}"
			shape("parse.retry", retryShape)
			ie, ise := missing, missing
			if f := common.FindFunc(fa, "", "ignoreError"); f != nil && f.Body != nil {
				ie = norm(f.Body)
			}
			if f := common.FindFunc(fi, "", "ignoreScannerError"); f != nil && f.Body != nil {
				ise = norm(f.Body)
			}
			firstErrorDecides = ie == "{se,ok:=err.(scanner.ErrorList)if!ok{returnfalse}iflen(se)==0{returnfalse}returnignoreScannerError(se[0],src)}"
			shape("ignoreError", ie)
			shape("ignoreScannerError", ise)
			w := missing
			if wf := common.FindFunc(fa, "", "wrapInMain"); wf != nil && wf.Body != nil && len(wf.Body.List) == 1 {
				w = norm(wf.Body.List[0])
			}
			shape("wrapInMain", w)
		}
		// ---- CompileAST: main appended to the init list, only with the program that declares it
		mainAppended, mainOwnOnly := false, false
		{
			fd := common.FindFunc(fp, "Interpreter", "CompileAST")
			found := missing
			if fd != nil {
				ast.Inspect(fd, func(n ast.Node) bool {
					if ifs, ok := n.(*ast.IfStmt); ok && ifs.Init != nil && strings.HasPrefix(norm(ifs.Init), "m:=gs.sym[mainID]") {
						found = norm(ifs)
					}
					return true
				})
			}
			const always = "ifm:=gs.sym[mainID];pkgName==mainID&&m!=nil{initNodes=append(initNodes,m.node)}"
			const own = "ifm:=gs.sym[mainID];pkgName==mainID&&m!=nil{fora:=m.node;a!=nil;a=a.anc{ifa==root{initNodes=append(initNodes,m.node)break}}}"
			mainAppended = found == always || found == own
			mainOwnOnly = found == own
			shape("CompileAST.main", found)
		}
		// ---- addMethod: a method declared again replaces the earlier one
		methodReplaces := false
		{
			fd := common.FindFunc(ft, "itype", "addMethod")
			loop, after := missing, missing
			if fd != nil && fd.Body != nil {
				var rest []string
				for _, st := range fd.Body.List {
					if rs, ok := st.(*ast.RangeStmt); ok {
						loop = "for" + norm(rs.Key) + "," + norm(rs.Value) + ":=range" + norm(rs.X) + norm(rs.Body)
					} else {
						rest = append(rest, norm(st))
					}
				}
				after = strings.Join(rest, ";")
			}
			methodReplaces = loop == "fori,m:=ranget.method{ifm==n{return}ifm.ident==n.ident{t.method[i]=nreturn}}" && after == "t.method=append(t.method,n)"
			shape("addMethod.loop", loop)
			shape("addMethod.append", after)
		}
		// ---- genGlobalVarDecl: what a variable waits for
		depsPendingOnly := false
		{
			fd := common.FindFunc(fc, "", "genGlobalVarDecl")
			var waits, pend []string
			if fd != nil {
				ast.Inspect(fd, func(n ast.Node) bool {
					switch x := n.(type) {
					case *ast.IfStmt:
						if strings.Contains(norm(x.Body), "canInit=false") && !strings.Contains(norm(x.Cond), "canInit") {
							waits = append(waits, norm(x))
						}
					case *ast.RangeStmt:
						if b := norm(x.Body); strings.HasPrefix(b, "{pending[") || strings.HasPrefix(b, "{inited[") {
							pend = append(pend, "for"+norm(x.Key)+","+norm(x.Value)+":=range"+norm(x.X)+b)
						}
					case *ast.AssignStmt:
						if l := norm(x.Lhs[0]); (l == "pending" || l == "inited" || strings.HasPrefix(l, "inited[")) && len(x.Lhs) == 1 {
							pend = append(pend, norm(x))
						}
					case *ast.ExprStmt:
						if c := norm(x); strings.HasPrefix(c, "delete(pending,") || strings.HasPrefix(c, "delete(inited,") {
							pend = append(pend, c)
						}
					}
					return true
				})
			}
			w, pd := strings.Join(waits, ";"), strings.Join(pend, ";")
			if fd == nil {
				w, pd = missing, missing
			}
			depsPendingOnly = w == "ifpending[d]{canInit=false}" && pd == "pending:=map[*node]bool{};for_,n:=rangenodes{pending[n]=true};delete(pending,n)"
			shape("genGlobalVarDecl.waits", w)
			shape("genGlobalVarDecl.pending", pd)
		}

		// ---- pipeline
		type ent struct {
			f    *ast.File
			name string
		}
		var pipe []string
		for _, e := range []ent{{fi, "Eval"}, {fi, "EvalPath"}, {fi, "eval"}, {fp, "Compile"}, {fp, "compileSrc"}, {fp, "CompileAST"}, {fp, "Execute"}} {
			pipe = append(pipe, "("+common.LeanStr(e.name)+", "+leanCalls(pipelineOf(common.FindFunc(e.f, "Interpreter", e.name)))+")")
		}
		shapeLines := make([]string, len(shapes))
		for i, s := range shapes {
			shapeLines[i] = "(" + common.LeanStr(s[0]) + ", " + common.LeanStr(s[1]) + ")"
		}
		hashes := []string{
			common.HashTable(fsetA, fa, [][2]string{{"Interpreter", "parse"}, {"", "wrapInMain"}, {"Interpreter", "firstToken"}, {"", "ignoreError"}}),
			common.HashTable(fsetI, fi, [][2]string{{"Interpreter", "resizeFrame"}, {"Interpreter", "eval"}, {"Interpreter", "Eval"}, {"Interpreter", "EvalPath"}, {"", "ignoreScannerError"}}),
			common.HashTable(fsetP, fp, [][2]string{{"Interpreter", "Compile"}, {"Interpreter", "compileSrc"}, {"Interpreter", "CompileAST"}, {"Interpreter", "Execute"}}),
			common.HashTable(fsetS, fs, [][2]string{{"scope", "add"}, {"scope", "lookup"}, {"Interpreter", "initScopePkg"}, {"Interpreter", "Globals"}}),
			common.HashTable(fsetC, fc, [][2]string{{"", "genGlobalVars"}, {"", "getVars"}, {"", "getVarDependencies"}}),
			common.HashTable(fsetG, fg, [][2]string{{"Interpreter", "gtaRetry"}}),
			common.HashTable(fsetT, ft, [][2]string{{"itype", "addMethod"}}),
		}
		return fmt.Sprintf(`import YaegiVerif.Model.Piecewise
namespace YaegiVerif.Generated.C11
open YaegiVerif.Piecewise
/-- the choices the model is parametrised by (see shapes for the statements they were read from) -/
def facts : Facts :=
  { resizeCopiesPrefix := %s,
    funcOverwrites := %s,
    allocAtEnd := %s,
    declTokens := %s,
    wrapDefault := %s,
    mainAppended := %s,
    mainOwnOnly := %s,
    methodReplaces := %s,
    depsPendingOnly := %s,
    funcRetry := %s,
    firstErrorDecides := %s,
    iotaResetAtEnd := %s }
/-- interp.go Eval, EvalPath, eval; program.go Compile, compileSrc, CompileAST, Execute: calls in source order -/
def pipeline : CallGraph :=
  [%s]
/-- the recognised statements, normalised (no white space, no comments) -/
def shapes : List (String × String) :=
  [%s]
/-- fingerprints of the functions that Model/Piecewise.lean transcribes -/
def sourceHashes : List (String × String) :=
  %s
end YaegiVerif.Generated.C11
`, leanBool(copies), leanBool(overwrites), leanBool(allocEnd), common.LeanStrList(declTokens), leanBool(wrapDefault), leanBool(mainAppended), leanBool(mainOwnOnly), leanBool(methodReplaces), leanBool(depsPendingOnly), leanBool(funcRetry), leanBool(firstErrorDecides), leanBool(iotaReset),
			strings.Join(pipe, ",\n   "), strings.Join(shapeLines, ",\n   "), strings.Join(hashes, " ++\n  ")), nil
	})
}
