// extract-C13: facts about restricted mode, re-read from the working tree of the repository.
//
//	(a) keys of the default symbol table stdlib.Symbols, for the files the installed toolchain selects on
//	    this host (go/build with its release tags), with path.Dir / path.Base as Interpreter.Use computes them;
//	    keys of the gated sets stdlib/unrestricted, stdlib/unsafe, stdlib/syscall;
//	(b) for the packages os, log, fmt, flag, log/slog: every name with the Go expression it is bound to;
//	    for the whole table: the host functions whose results mention log.Logger (go/types);
//	(c) stdlib/restricted.go: every function and method with its results and what it calls;
//	(d) interp/use.go fixStdlib: every p["Name"] = … with its package, guards and free identifiers, the locals;
//	    interp/run.go _print/_println: free identifiers;
//	(e) cmd/yaegi/run.go: which symbol sets are loaded under which flag, the flags, the options given to interp.New;
//	(f) interp/interp.go: the fields of Options and, for each statement of New that reads one, the target, the
//	    condition that guards the default (`== nil`, `len(…) > 0`, …) and the default;
//	(g) fingerprints of the hand-transcribed functions.
package main

import (
	"bytes"
	"crypto/sha256"
	"fmt"
	"go/ast"
	"go/build"
	"go/importer"
	"go/printer"
	"go/token"
	"go/types"
	"os"
	"path"
	"path/filepath"
	"sort"
	"strconv"
	"strings"

	"verif/extract/common"
)

var q = common.LeanStr

type entry struct {
	name string
	bind string // Lean term of type Bind
	kind string // host | hostVar | hostType | const | loc | locType | other
	pkg  string // for host*: the package alias as written
	sym  string // for host*/loc*: the identifier
}

type table struct {
	key     string
	entries []entry
	imports map[string]string // alias -> import path of the file that defines the table
}

// selectedFiles returns the .go files of a directory that the toolchain would compile on this host.
func selectedFiles(dir string) ([]string, error) {
	ctx := build.Default
	p, err := ctx.ImportDir(dir, 0)
	if err != nil {
		if _, ok := err.(*build.MultiplePackageError); !ok {
			return nil, err
		}
	}
	var out []string
	for _, f := range p.GoFiles {
		out = append(out, filepath.Join(dir, f))
	}
	sort.Strings(out)
	return out, nil
}

func chain(e ast.Expr) (string, bool) {
	switch x := e.(type) {
	case *ast.Ident:
		return x.Name, true
	case *ast.SelectorExpr:
		if s, ok := chain(x.X); ok {
			return s + "." + x.Sel.Name, true
		}
	}
	return "", false
}

func exprString(e ast.Node) string {
	var b bytes.Buffer
	printer.Fprint(&b, token.NewFileSet(), e)
	return strings.Join(strings.Fields(b.String()), " ")
}

// classify renders the value expression of a table entry.
func classify(name string, e ast.Expr) entry {
	en := entry{name: name, kind: "other"}
	other := func() entry {
		en.bind = ".other " + q(exprString(e))
		return en
	}
	// reflect.ValueOf(&pkg.Name).Elem()
	if c, ok := e.(*ast.CallExpr); ok && len(c.Args) == 0 {
		if sel, ok := c.Fun.(*ast.SelectorExpr); ok && sel.Sel.Name == "Elem" {
			if in, ok := sel.X.(*ast.CallExpr); ok && len(in.Args) == 1 {
				if f, _ := chain(in.Fun); f == "reflect.ValueOf" {
					if u, ok := in.Args[0].(*ast.UnaryExpr); ok && u.Op == token.AND {
						if s, ok := u.X.(*ast.SelectorExpr); ok {
							if p, ok := s.X.(*ast.Ident); ok {
								en.kind, en.pkg, en.sym = "hostVar", p.Name, s.Sel.Name
								en.bind = fmt.Sprintf(".hostVar %s %s", q(p.Name), q(s.Sel.Name))
								return en
							}
						}
					}
				}
			}
		}
		return other()
	}
	c, ok := e.(*ast.CallExpr)
	if !ok || len(c.Args) != 1 {
		return other()
	}
	if f, _ := chain(c.Fun); f != "reflect.ValueOf" {
		return other()
	}
	switch a := c.Args[0].(type) {
	case *ast.SelectorExpr:
		if p, ok := a.X.(*ast.Ident); ok {
			en.kind, en.pkg, en.sym = "host", p.Name, a.Sel.Name
			en.bind = fmt.Sprintf(".host %s %s", q(p.Name), q(a.Sel.Name))
			return en
		}
	case *ast.Ident:
		en.kind, en.sym = "loc", a.Name
		en.bind = ".loc " + q(a.Name)
		return en
	case *ast.CallExpr:
		if f, _ := chain(a.Fun); strings.HasPrefix(f, "constant.") {
			en.kind = "const"
			en.bind = ".const"
			return en
		}
		// (*T)(nil)
		if par, ok := a.Fun.(*ast.ParenExpr); ok && len(a.Args) == 1 {
			if st, ok := par.X.(*ast.StarExpr); ok {
				switch t := st.X.(type) {
				case *ast.SelectorExpr:
					if p, ok := t.X.(*ast.Ident); ok {
						en.kind, en.pkg, en.sym = "hostType", p.Name, t.Sel.Name
						en.bind = fmt.Sprintf(".hostType %s %s", q(p.Name), q(t.Sel.Name))
						return en
					}
				case *ast.Ident:
					en.kind, en.sym = "locType", t.Name
					en.bind = ".locType " + q(t.Name)
					return en
				}
			}
		}
	}
	return other()
}

// tablesOf reads every `Symbols["k"] = map[string]reflect.Value{…}` and `Symbols["k"]["n"] = v` of the files.
func tablesOf(files []string) (map[string]*table, error) {
	out := map[string]*table{}
	get := func(k string, imports map[string]string) *table {
		if out[k] == nil {
			out[k] = &table{key: k, imports: imports}
		}
		return out[k]
	}
	for _, fn := range files {
		fset := token.NewFileSet()
		f, err := parserParse(fset, fn)
		if err != nil {
			return nil, err
		}
		imports := map[string]string{}
		for _, im := range f.Imports {
			p, _ := strconv.Unquote(im.Path.Value)
			alias := path.Base(p)
			if im.Name != nil {
				alias = im.Name.Name
			}
			imports[alias] = p
		}
		ast.Inspect(f, func(n ast.Node) bool {
			as, ok := n.(*ast.AssignStmt)
			if !ok || len(as.Lhs) != 1 || len(as.Rhs) != 1 {
				return true
			}
			ix, ok := as.Lhs[0].(*ast.IndexExpr)
			if !ok {
				return true
			}
			keyOf := func(e ast.Expr) (string, bool) {
				b, ok := e.(*ast.BasicLit)
				if !ok || b.Kind != token.STRING {
					return "", false
				}
				s, err := strconv.Unquote(b.Value)
				return s, err == nil
			}
			if id, ok := ix.X.(*ast.Ident); ok && id.Name == "Symbols" {
				k, ok := keyOf(ix.Index)
				if !ok {
					get("unrecognised: key "+exprString(ix.Index), imports)
					return true
				}
				t := get(k, imports)
				cl, ok := as.Rhs[0].(*ast.CompositeLit)
				if !ok {
					t.entries = append(t.entries, entry{name: "unrecognised: table value", bind: ".other " + q(exprString(as.Rhs[0]))})
					return true
				}
				for _, el := range cl.Elts {
					kv, ok := el.(*ast.KeyValueExpr)
					if !ok {
						continue
					}
					name, ok := keyOf(kv.Key)
					if !ok {
						name = "unrecognised: " + exprString(kv.Key)
					}
					t.entries = append(t.entries, classify(name, kv.Value))
				}
				return true
			}
			// Symbols["k"]["n"] = v
			if in, ok := ix.X.(*ast.IndexExpr); ok {
				if id, ok := in.X.(*ast.Ident); ok && id.Name == "Symbols" {
					k, ok1 := keyOf(in.Index)
					name, ok2 := keyOf(ix.Index)
					if ok1 && ok2 {
						t := get(k, imports)
						t.entries = append(t.entries, classify(name, as.Rhs[0]))
					}
				}
			}
			return true
		})
	}
	return out, nil
}

func parserParse(fset *token.FileSet, fn string) (*ast.File, error) {
	_, f, err := common.ParseFile(filepath.Dir(fn), filepath.Base(fn))
	_ = fset
	return f, err
}

func leanKey(k string) string {
	return fmt.Sprintf("⟨%s, %s, %s⟩", q(k), q(path.Dir(k)), q(path.Base(k)))
}

func leanKeys(ks []string, indent string) string {
	var b strings.Builder
	b.WriteString("[")
	for i, k := range ks {
		if i > 0 {
			b.WriteString(",\n" + indent)
		}
		b.WriteString(leanKey(k))
	}
	b.WriteString("]")
	return b.String()
}

func sortedKeys(m map[string]*table) []string {
	var ks []string
	for k := range m {
		ks = append(ks, k)
	}
	sort.Strings(ks)
	return ks
}

// ---- identifiers

var universe = map[string]bool{"append": true, "delete": true, "string": true, "nil": true, "true": true, "false": true,
	"len": true, "cap": true, "make": true, "new": true, "error": true, "int": true, "bool": true, "byte": true, "_": true,
	"interface": true, "uint": true, "int64": true, "uintptr": true, "copy": true, "any": true}

func leanIdent(s string) string {
	parts := strings.Split(s, ".")
	return fmt.Sprintf("⟨%s, %s, %s⟩", q(s), q(parts[0]), q(parts[len(parts)-1]))
}

func leanIdents(xs []string) string {
	out := make([]string, len(xs))
	for i, x := range xs {
		out[i] = leanIdent(x)
	}
	return "[" + strings.Join(out, ", ") + "]"
}

// freeIdents lists, in order of first appearance, the identifiers and selector chains of a node whose root is
// not declared inside the node (parameters, named results, :=, range variables, var declarations).
func freeIdents(n ast.Node, bindParams bool) []string {
	bound := map[string]bool{}
	ast.Inspect(n, func(x ast.Node) bool {
		switch v := x.(type) {
		case *ast.FuncType:
			if bindParams {
				for _, fl := range []*ast.FieldList{v.Params, v.Results} {
					if fl == nil {
						continue
					}
					for _, f := range fl.List {
						for _, nm := range f.Names {
							bound[nm.Name] = true
						}
					}
				}
			}
		case *ast.AssignStmt:
			if v.Tok == token.DEFINE {
				for _, l := range v.Lhs {
					if id, ok := l.(*ast.Ident); ok {
						bound[id.Name] = true
					}
				}
			}
		case *ast.RangeStmt:
			if v.Tok == token.DEFINE {
				for _, l := range []ast.Expr{v.Key, v.Value} {
					if id, ok := l.(*ast.Ident); ok {
						bound[id.Name] = true
					}
				}
			}
		case *ast.ValueSpec:
			for _, nm := range v.Names {
				bound[nm.Name] = true
			}
		}
		return true
	})
	var out []string
	seen := map[string]bool{}
	add := func(s string) {
		root := strings.Split(s, ".")[0]
		if bound[root] || universe[root] || seen[s] {
			return
		}
		seen[s] = true
		out = append(out, s)
	}
	var walk func(x ast.Node)
	walk = func(x ast.Node) {
		ast.Inspect(x, func(y ast.Node) bool {
			switch v := y.(type) {
			case *ast.SelectorExpr:
				if s, ok := chain(v); ok {
					add(s)
					return false
				}
				walk(v.X)
				return false
			case *ast.Ident:
				add(v.Name)
			case *ast.KeyValueExpr:
				// struct field names of composite literals are not identifiers in scope
				walk(v.Value)
				if _, ok := v.Key.(*ast.Ident); !ok {
					walk(v.Key)
				}
				return false
			case *ast.Field:
				// parameter declarations: only the types
				walk(v.Type)
				return false
			}
			return true
		})
	}
	walk(n)
	return out
}

// ---- restricted.go

func declsOf(repo string) (string, error) {
	_, f, err := common.ParseFile(repo, "stdlib/restricted.go")
	if err != nil {
		return "", err
	}
	var items []string
	for _, d := range f.Decls {
		fd, ok := d.(*ast.FuncDecl)
		if !ok || fd.Body == nil {
			continue
		}
		name := fd.Name.Name
		if fd.Recv != nil && len(fd.Recv.List) == 1 {
			t := fd.Recv.List[0].Type
			if st, ok := t.(*ast.StarExpr); ok {
				t = st.X
			}
			name = exprString(t) + "." + name
		}
		var results []string
		if fd.Type.Results != nil {
			for _, r := range fd.Type.Results.List {
				n := len(r.Names)
				if n == 0 {
					n = 1
				}
				for i := 0; i < n; i++ {
					results = append(results, strings.TrimPrefix(exprString(r.Type), "*"))
				}
			}
		}
		var callees []string
		seen := map[string]bool{}
		ast.Inspect(fd.Body, func(x ast.Node) bool {
			if c, ok := x.(*ast.CallExpr); ok {
				s, ok := chain(c.Fun)
				if !ok {
					s = "unrecognised: " + exprString(c.Fun)
				}
				if !seen[s] {
					seen[s] = true
					callees = append(callees, s)
				}
			}
			return true
		})
		items = append(items, fmt.Sprintf("⟨%s, %s, %s⟩", q(name), common.LeanStrList(results), leanIdents(callees)))
	}
	return "[" + strings.Join(items, ",\n   ") + "]", nil
}

// ---- fixStdlib

type rebind struct {
	pkg, name string
	guards    []string
	free      []string
	shape     string // Lean term of type RebindShape
}

type localAssign struct {
	guards []string
	expr   string
	free   []string
}

type localDef struct {
	name    string
	pkg     string // the section of fixStdlib (binPkg key) the local is declared in
	expr    string // the defining expression as written
	free    []string
	assigns []localAssign // later `name = expr` statements with their guards
}

func binPkgKey(e ast.Expr) (string, bool) {
	ix, ok := e.(*ast.IndexExpr)
	if !ok {
		return "", false
	}
	if s, _ := chain(ix.X); s != "interp.binPkg" {
		return "", false
	}
	b, ok := ix.Index.(*ast.BasicLit)
	if !ok {
		return "", false
	}
	s, err := strconv.Unquote(b.Value)
	return s, err == nil
}

func stringLit(e ast.Expr) (string, bool) {
	b, ok := e.(*ast.BasicLit)
	if !ok || b.Kind != token.STRING {
		return "", false
	}
	s, err := strconv.Unquote(b.Value)
	return s, err == nil
}

// rebindShape recognises the forms of an assigned expression whose meaning the model reads (everything else is
// `.expr`: only the free identifiers are known). env maps the variable of an enclosing `range []string{…}` to the
// current element.
//
//	X.MethodByName("M")                                                        .method "X" "M"
//	reflect.MakeFunc(T, func(…) []reflect.Value { return []reflect.Value{X} })  .constFn "X"
//	reflect.ValueOf(func(a, b T) R { if b == A { b = B } …; return F(a, b) })   .remap F [(A, B), …]
func rebindShape(e ast.Expr, env map[string]string) string {
	c, ok := e.(*ast.CallExpr)
	if !ok {
		return ".expr"
	}
	fn, _ := chain(c.Fun)
	if strings.HasSuffix(fn, ".MethodByName") && len(c.Args) == 1 && strings.Count(fn, ".") == 1 {
		recv := strings.TrimSuffix(fn, ".MethodByName")
		if m, ok := stringLit(c.Args[0]); ok {
			return fmt.Sprintf(".method %s %s", q(recv), q(m))
		}
		if id, ok := c.Args[0].(*ast.Ident); ok {
			if m, ok := env[id.Name]; ok {
				return fmt.Sprintf(".method %s %s", q(recv), q(m))
			}
		}
		return ".expr"
	}
	if fn == "reflect.MakeFunc" && len(c.Args) == 2 {
		if fl, ok := c.Args[1].(*ast.FuncLit); ok && len(fl.Body.List) == 1 {
			if rs, ok := fl.Body.List[0].(*ast.ReturnStmt); ok && len(rs.Results) == 1 {
				if cl, ok := rs.Results[0].(*ast.CompositeLit); ok && exprString(cl.Type) == "[]reflect.Value" && len(cl.Elts) == 1 {
					if id, ok := cl.Elts[0].(*ast.Ident); ok {
						return ".constFn " + q(id.Name)
					}
				}
			}
		}
		return ".expr"
	}
	if fn == "reflect.ValueOf" && len(c.Args) == 1 {
		fl, ok := c.Args[0].(*ast.FuncLit)
		if !ok || len(fl.Body.List) < 2 {
			return ".expr"
		}
		var params []string
		for _, f := range fl.Type.Params.List {
			for _, nm := range f.Names {
				params = append(params, nm.Name)
			}
		}
		isParam := func(s string) bool {
			for _, p := range params {
				if p == s {
					return true
				}
			}
			return false
		}
		var maps []string
		n := len(fl.Body.List)
		for _, st := range fl.Body.List[:n-1] {
			is, ok := st.(*ast.IfStmt)
			if !ok || is.Init != nil || is.Else != nil {
				return ".expr"
			}
			be, ok := is.Cond.(*ast.BinaryExpr)
			if !ok || be.Op != token.EQL {
				return ".expr"
			}
			lhs, rhs, ok := singleAssign(is.Body)
			if !ok {
				return ".expr"
			}
			v, ok1 := be.X.(*ast.Ident)
			a, ok2 := chain(be.Y)
			b, ok3 := chain(rhs)
			if !ok1 || !ok2 || !ok3 || !isParam(v.Name) || exprString(lhs) != v.Name {
				return ".expr"
			}
			maps = append(maps, fmt.Sprintf("(%s, %s)", leanIdent(a), leanIdent(b)))
		}
		rs, ok := fl.Body.List[n-1].(*ast.ReturnStmt)
		if !ok || len(rs.Results) != 1 {
			return ".expr"
		}
		rc, ok := rs.Results[0].(*ast.CallExpr)
		if !ok || len(rc.Args) != len(params) {
			return ".expr"
		}
		for i, a := range rc.Args {
			if id, ok := a.(*ast.Ident); !ok || id.Name != params[i] {
				return ".expr"
			}
		}
		callee, ok := chain(rc.Fun)
		if !ok {
			return ".expr"
		}
		return fmt.Sprintf(".remap %s [%s]", q(callee), strings.Join(maps, ", "))
	}
	return ".expr"
}

func fixStdlibFacts(repo string) (rebinds string, locals string, err error) {
	_, f, err := common.ParseFile(repo, "interp/use.go")
	if err != nil {
		return "", "", err
	}
	fd := common.FindFunc(f, "", "fixStdlib")
	if fd == nil {
		return `[⟨"unrecognised: fixStdlib not found", "", [], [], .expr⟩]`, "[]", nil
	}
	var rb []rebind
	var localNames []string
	localOf := map[string]*localDef{}
	addFree := func(l *localDef, ids []string) {
		for _, id := range ids {
			dup := false
			for _, o := range l.free {
				if o == id {
					dup = true
				}
			}
			if !dup {
				l.free = append(l.free, id)
			}
		}
	}
	declLocal := func(name, pkg string, e ast.Expr) {
		l, ok := localOf[name]
		if !ok {
			l = &localDef{name: name, pkg: pkg, expr: exprString(e)}
			localOf[name] = l
			localNames = append(localNames, name)
		} else {
			// a second `:=` of the same name (another scope): both definitions count
			l.expr += " | " + exprString(e)
		}
		addFree(l, freeIdents(e, true))
	}
	without := func(ids []string, env map[string]string) []string {
		var out []string
		for _, id := range ids {
			if _, ok := env[strings.Split(id, ".")[0]]; !ok {
				out = append(out, id)
			}
		}
		return out
	}
	var walk func(stmts []ast.Stmt, pkg string, guards []string, inline []string, env map[string]string)
	walk = func(stmts []ast.Stmt, pkg string, guards []string, inline []string, env map[string]string) {
		unrec := func(st ast.Node) {
			rb = append(rb, rebind{pkg, "unrecognised: " + short(exprString(st)), append([]string(nil), guards...), nil, ".expr"})
		}
		for _, st := range stmts {
			switch s := st.(type) {
			case *ast.AssignStmt:
				// p := interp.binPkg["fmt"]
				if len(s.Lhs) == 1 && len(s.Rhs) == 1 {
					if k, ok := binPkgKey(s.Rhs[0]); ok {
						pkg = k
						continue
					}
					// p["Name"] = expr
					if ix, ok := s.Lhs[0].(*ast.IndexExpr); ok {
						if id, ok := ix.X.(*ast.Ident); ok && id.Name == "p" {
							name := "unrecognised: " + exprString(ix.Index)
							if n, ok := stringLit(ix.Index); ok {
								name = n
							} else if v, ok := ix.Index.(*ast.Ident); ok {
								if n, ok := env[v.Name]; ok {
									name = n
								}
							}
							free := without(freeIdents(s.Rhs[0], true), env)
							free = append(free, inline...)
							rb = append(rb, rebind{pkg, name, append([]string(nil), guards...), free, rebindShape(s.Rhs[0], env)})
							continue
						}
						continue // interp.mapTypes[…] = …
					}
				}
				if s.Tok == token.DEFINE {
					for i, l := range s.Lhs {
						id, ok := l.(*ast.Ident)
						if !ok {
							continue
						}
						if len(s.Rhs) == len(s.Lhs) {
							declLocal(id.Name, pkg, s.Rhs[i])
						} else {
							declLocal(id.Name, pkg, s.Rhs[0])
						}
					}
					continue
				}
				// name = expr : a later assignment to a local, under the current guards
				if s.Tok == token.ASSIGN && len(s.Lhs) == len(s.Rhs) {
					for i, l := range s.Lhs {
						id, ok := l.(*ast.Ident)
						if !ok {
							unrec(st)
							continue
						}
						ld, ok := localOf[id.Name]
						if !ok {
							unrec(st)
							continue
						}
						fr := freeIdents(s.Rhs[i], true)
						ld.assigns = append(ld.assigns, localAssign{append([]string(nil), guards...), exprString(s.Rhs[i]), fr})
						addFree(ld, fr)
					}
					continue
				}
				unrec(st)
			case *ast.ExprStmt:
				// c.SetOutput(stderr): configuration of a local
				if c, ok := s.X.(*ast.CallExpr); ok {
					if fn, ok := chain(c.Fun); ok {
						root := strings.Split(fn, ".")[0]
						if ld, isLocal := localOf[root]; isLocal {
							var ids []string
							for _, a := range c.Args {
								ids = append(ids, freeIdents(a, true)...)
							}
							addFree(ld, ids)
						}
					}
				}
			case *ast.RangeStmt:
				// for _, name := range []string{"A", "B"} { p[name] = … }: one pass over the body per element
				v, okv := s.Value.(*ast.Ident)
				cl, okc := s.X.(*ast.CompositeLit)
				keyOK := s.Key == nil
				if k, ok := s.Key.(*ast.Ident); ok && k.Name == "_" {
					keyOK = true
				}
				if !okv || !okc || !keyOK || s.Tok != token.DEFINE || exprString(cl.Type) != "[]string" {
					unrec(st)
					continue
				}
				var elems []string
				good := true
				for _, el := range cl.Elts {
					n, ok := stringLit(el)
					if !ok {
						good = false
					}
					elems = append(elems, n)
				}
				if !good {
					unrec(st)
					continue
				}
				for _, n := range elems {
					e2 := map[string]string{}
					for k, x := range env {
						e2[k] = x
					}
					e2[v.Name] = n
					walk(s.Body.List, pkg, guards, inline, e2)
				}
			case *ast.IfStmt:
				g := guards
				p := pkg
				inl := inline
				isPkgTest := false
				if as, ok := s.Init.(*ast.AssignStmt); ok && len(as.Rhs) == 1 {
					if k, ok := binPkgKey(as.Rhs[0]); ok {
						p = k
						isPkgTest = true
					} else if ta, ok := as.Rhs[0].(*ast.TypeAssertExpr); ok {
						g = append(append([]string(nil), guards...), exprString(ta))
						inl = append(append([]string(nil), inline...), freeIdents(ta.X, true)...)
						isPkgTest = true // the condition is the `ok` of the assertion
					}
				}
				if !isPkgTest {
					c := exprString(s.Cond)
					if c == "p == nil" {
						continue
					}
					g = append(append([]string(nil), guards...), c)
				}
				walk(s.Body.List, p, g, inl, env)
				if s.Else != nil {
					neg := append(append([]string(nil), guards...), "!("+exprString(s.Cond)+")")
					switch e := s.Else.(type) {
					case *ast.BlockStmt:
						walk(e.List, pkg, neg, inline, env)
					case *ast.IfStmt:
						walk([]ast.Stmt{e}, pkg, neg, inline, env)
					}
				}
			default:
				unrec(st)
			}
		}
	}
	// the first statement `p := interp.binPkg["fmt"]` opens the fmt section
	walk(fd.Body.List, "", nil, nil, map[string]string{})
	var items []string
	for _, r := range rb {
		items = append(items, fmt.Sprintf("⟨%s, %s, %s, %s, %s⟩", q(r.pkg), q(r.name), common.LeanStrList(r.guards), leanIdents(r.free), r.shape))
	}
	var ls []string
	for _, n := range localNames {
		l := localOf[n]
		var as []string
		for _, a := range l.assigns {
			as = append(as, fmt.Sprintf("⟨%s, %s, %s⟩", common.LeanStrList(a.guards), q(a.expr), leanIdents(a.free)))
		}
		ls = append(ls, fmt.Sprintf("⟨%s, %s, %s, %s, [%s]⟩", q(n), leanIdents(l.free), q(l.pkg), q(l.expr), strings.Join(as, ", ")))
	}
	return "[" + strings.Join(items, ",\n   ") + "]", "[" + strings.Join(ls, ",\n   ") + "]", nil
}

func builtinsOf(repo string) (string, error) {
	_, f, err := common.ParseFile(repo, "interp/run.go")
	if err != nil {
		return "", err
	}
	var items []string
	for _, n := range []string{"_print", "_println"} {
		fd := common.FindFunc(f, "", n)
		if fd == nil {
			items = append(items, fmt.Sprintf("(%s, %s)", q(n), leanIdents([]string{"unrecognised: not found"})))
			continue
		}
		items = append(items, fmt.Sprintf("(%s, %s)", q(n), leanIdents(freeIdents(fd.Body, false))))
	}
	return "[" + strings.Join(items, ",\n   ") + "]", nil
}

// ---- cmd/yaegi/run.go

func runFacts(repo string) (uses, flags, opts string, err error) {
	_, f, err := common.ParseFile(repo, "cmd/yaegi/run.go")
	if err != nil {
		return "", "", "", err
	}
	fd := common.FindFunc(f, "", "run")
	if fd == nil {
		return `[⟨"unrecognised: run not found", ""⟩]`, "[]", "[]", nil
	}
	var us, fl, op []string
	envOf := map[string]string{}
	var visit func(n ast.Node, guard string)
	visit = func(n ast.Node, guard string) {
		ast.Inspect(n, func(x ast.Node) bool {
			switch v := x.(type) {
			case *ast.IfStmt:
				if id, ok := v.Cond.(*ast.Ident); ok && v.Init == nil {
					visit(v.Body, id.Name)
					if v.Else != nil {
						visit(v.Else, "!"+id.Name)
					}
					return false
				}
			case *ast.AssignStmt:
				// useX, _ := strconv.ParseBool(os.Getenv("YAEGI_X"))
				if len(v.Lhs) == 2 && len(v.Rhs) == 1 {
					if c, ok := v.Rhs[0].(*ast.CallExpr); ok && len(c.Args) == 1 {
						if fn, _ := chain(c.Fun); fn == "strconv.ParseBool" {
							if in, ok := c.Args[0].(*ast.CallExpr); ok && len(in.Args) == 1 {
								if g, _ := chain(in.Fun); g == "os.Getenv" {
									if b, ok := in.Args[0].(*ast.BasicLit); ok {
										if id, ok := v.Lhs[0].(*ast.Ident); ok {
											envOf[id.Name], _ = strconv.Unquote(b.Value)
										}
									}
								}
							}
						}
					}
				}
			case *ast.CallExpr:
				fn, _ := chain(v.Fun)
				if fn == "i.Use" && len(v.Args) == 1 {
					a, ok := chain(v.Args[0])
					if !ok {
						a = "unrecognised: " + exprString(v.Args[0])
					}
					us = append(us, fmt.Sprintf("⟨%s, %s⟩", q(strings.TrimSuffix(a, ".Symbols")), q(guard)))
				}
				if strings.HasSuffix(fn, ".BoolVar") && len(v.Args) >= 3 {
					if u, ok := v.Args[0].(*ast.UnaryExpr); ok {
						if id, ok := u.X.(*ast.Ident); ok {
							name := exprString(v.Args[1])
							if b, ok := v.Args[1].(*ast.BasicLit); ok {
								name, _ = strconv.Unquote(b.Value)
							}
							def := exprString(v.Args[2])
							env := ""
							if def == id.Name {
								env = envOf[id.Name]
							}
							fl = append(fl, fmt.Sprintf("⟨%s, %s, %s⟩", q(id.Name), q(name), q(env)))
						}
					}
				}
				if fn == "interp.New" && len(v.Args) == 1 {
					if cl, ok := v.Args[0].(*ast.CompositeLit); ok {
						for _, el := range cl.Elts {
							if kv, ok := el.(*ast.KeyValueExpr); ok {
								op = append(op, fmt.Sprintf("(%s, %s)", q(exprString(kv.Key)), q(exprString(kv.Value))))
							}
						}
					}
				}
			}
			return true
		})
	}
	visit(fd.Body, "")
	j := func(xs []string) string { return "[" + strings.Join(xs, ", ") + "]" }
	return j(us), j(fl), j(op), nil
}


// ---- interp.Options and interp.New: how every field of Options reaches the interpreter

type optFlow struct {
	field, slot, target, kind, cond, dflt string
	outer                                 []string
}

func (o optFlow) lean() string {
	return fmt.Sprintf("⟨%s, %s, %s, %s, %s, %s, %s⟩", q(o.field), q(o.slot), q(o.target), q(o.kind), q(o.cond), q(o.dflt), common.LeanStrList(o.outer))
}

func mentionsIdent(n ast.Node, name string) bool {
	found := false
	ast.Inspect(n, func(x ast.Node) bool {
		if id, ok := x.(*ast.Ident); ok && id.Name == name {
			found = true
		}
		return !found
	})
	return found
}

// optionsField: is e the selector `options.F`?
func optionsField(e ast.Expr) (string, bool) {
	if s, ok := e.(*ast.SelectorExpr); ok {
		if id, ok := s.X.(*ast.Ident); ok && id.Name == "options" {
			return s.Sel.Name, true
		}
	}
	return "", false
}

func short(s string) string {
	if len(s) > 160 {
		return s[:160]
	}
	return s
}

// singleAssign: is the block exactly `T = V`?
func singleAssign(b *ast.BlockStmt) (lhs, rhs ast.Expr, ok bool) {
	if b == nil || len(b.List) != 1 {
		return nil, nil, false
	}
	as, ok := b.List[0].(*ast.AssignStmt)
	if !ok || as.Tok != token.ASSIGN || len(as.Lhs) != 1 || len(as.Rhs) != 1 {
		return nil, nil, false
	}
	return as.Lhs[0], as.Rhs[0], true
}

func optionsFacts(repo string) (fields, flows, stmtsHash string, err error) {
	_, f, err := common.ParseFile(repo, "interp/interp.go")
	if err != nil {
		return "", "", "", err
	}
	// the fields of Options
	var fl []string
	ast.Inspect(f, func(n ast.Node) bool {
		ts, ok := n.(*ast.TypeSpec)
		if !ok || ts.Name.Name != "Options" {
			return true
		}
		st, ok := ts.Type.(*ast.StructType)
		if !ok {
			fl = append(fl, fmt.Sprintf("(%s, %s)", q("unrecognised: Options is not a struct"), q(exprString(ts.Type))))
			return false
		}
		for _, fd := range st.Fields.List {
			t := exprString(fd.Type)
			if len(fd.Names) == 0 {
				fl = append(fl, fmt.Sprintf("(%s, %s)", q("embedded "+t), q(t)))
			}
			for _, nm := range fd.Names {
				fl = append(fl, fmt.Sprintf("(%s, %s)", q(nm.Name), q(t)))
			}
		}
		return false
	})
	if fl == nil {
		fl = append(fl, fmt.Sprintf("(%s, %s)", q("unrecognised: type Options not found"), q("")))
	}
	fd := common.FindFunc(f, "", "New")
	if fd == nil || fd.Body == nil {
		return "[" + strings.Join(fl, ", ") + "]", "[" + optFlow{field: "unrecognised: New not found"}.lean() + "]", "unrecognised: not found", nil
	}
	// what the composite literal at the head of New puts into the opt struct
	init := map[string]string{}
	for _, st := range fd.Body.List {
		as, ok := st.(*ast.AssignStmt)
		if !ok || len(as.Rhs) != 1 {
			continue
		}
		cl, ok := as.Rhs[0].(*ast.CompositeLit)
		if !ok || exprString(cl.Type) != "Interpreter" {
			continue
		}
		for _, el := range cl.Elts {
			kv, ok := el.(*ast.KeyValueExpr)
			if !ok || exprString(kv.Key) != "opt" {
				continue
			}
			if ocl, ok := kv.Value.(*ast.CompositeLit); ok {
				for _, oel := range ocl.Elts {
					if okv, ok := oel.(*ast.KeyValueExpr); ok {
						init[exprString(okv.Key)] = exprString(okv.Value)
					}
				}
			}
		}
		break
	}
	initOf := func(target string) string {
		rest := strings.TrimPrefix(target, "i.opt.")
		if rest == target {
			return "unrecognised: target outside i.opt"
		}
		parts := strings.SplitN(rest, ".", 2)
		v, ok := init[parts[0]]
		if !ok {
			return "zero"
		}
		if len(parts) == 2 {
			return v + "." + parts[1]
		}
		return v
	}
	slotOf := func(target string) string {
		parts := strings.Split(target, ".")
		return parts[len(parts)-1]
	}
	var out []optFlow
	var stmts []ast.Stmt
	unrec := func(st ast.Node, outer []string) {
		out = append(out, optFlow{field: "unrecognised: " + short(exprString(st)), outer: outer})
	}
	var walk func(list []ast.Stmt, outer []string, top bool)
	walk = func(list []ast.Stmt, outer []string, top bool) {
		for _, st := range list {
			if !mentionsIdent(st, "options") {
				if !top {
					unrec(st, outer) // a nested statement that is not about Options: re-read
				}
				continue
			}
			if top {
				stmts = append(stmts, st)
			}
			switch s := st.(type) {
			case *ast.AssignStmt:
				if s.Tok == token.ASSIGN && len(s.Lhs) == 1 && len(s.Rhs) == 1 {
					if fn, ok := optionsField(s.Rhs[0]); ok {
						t := exprString(s.Lhs[0])
						out = append(out, optFlow{fn, slotOf(t), t, "always", "", "", outer})
						continue
					}
				}
				unrec(st, outer)
			case *ast.IfStmt:
				// if T = options.F; COND(T) { T = DFLT }
				if ia, ok := s.Init.(*ast.AssignStmt); ok && ia.Tok == token.ASSIGN && len(ia.Lhs) == 1 && len(ia.Rhs) == 1 && s.Else == nil {
					fn, ok1 := optionsField(ia.Rhs[0])
					lhs, rhs, ok2 := singleAssign(s.Body)
					t := exprString(ia.Lhs[0])
					if ok1 && ok2 && exprString(lhs) == t && !mentionsIdent(s.Cond, "options") {
						out = append(out, optFlow{fn, slotOf(t), t, "default-if", strings.ReplaceAll(exprString(s.Cond), t, "_"), exprString(rhs), outer})
						continue
					}
					unrec(st, outer)
					continue
				}
				if s.Init != nil {
					unrec(st, outer)
					continue
				}
				// if options.F { T = true } [else {…}]
				if fn, ok := optionsField(s.Cond); ok {
					lhs, rhs, ok2 := singleAssign(s.Body)
					if ok2 && exprString(rhs) == "true" {
						t := exprString(lhs)
						out = append(out, optFlow{fn, slotOf(t), t, "flag", "_", initOf(t), outer})
					} else {
						unrec(s.Body, append(append([]string(nil), outer...), exprString(s.Cond)))
					}
					if s.Else != nil {
						neg := append(append([]string(nil), outer...), "!("+exprString(s.Cond)+")")
						switch e := s.Else.(type) {
						case *ast.BlockStmt:
							walk(e.List, neg, false)
						default:
							unrec(e, neg)
						}
					}
					continue
				}
				// if COND(options.F) { T = options.F }
				if lhs, rhs, ok := singleAssign(s.Body); ok && s.Else == nil {
					if fn, ok := optionsField(rhs); ok {
						t := exprString(lhs)
						out = append(out, optFlow{fn, slotOf(t), t, "set-if", strings.ReplaceAll(exprString(s.Cond), "options."+fn, "_"), initOf(t), outer})
						continue
					}
				}
				unrec(st, outer)
			case *ast.RangeStmt:
				// for _, e := range options.F { … T[k] = v … }
				if fn, ok := optionsField(s.X); ok {
					target := ""
					ast.Inspect(s.Body, func(x ast.Node) bool {
						if as, ok := x.(*ast.AssignStmt); ok && len(as.Lhs) == 1 {
							if ix, ok := as.Lhs[0].(*ast.IndexExpr); ok {
								t := exprString(ix.X)
								if target == "" {
									target = t
								} else if target != t {
									target = "unrecognised: several targets"
								}
							}
						}
						return true
					})
					out = append(out, optFlow{fn, slotOf(target), target, "range", "", initOf(target), outer})
					continue
				}
				unrec(st, outer)
			default:
				unrec(st, outer)
			}
		}
	}
	walk(fd.Body.List, nil, true)
	var items []string
	for _, o := range out {
		items = append(items, o.lean())
	}
	return "[" + strings.Join(fl, ", ") + "]", "[" + strings.Join(items, ",\n   ") + "]", nodeHash(&ast.BlockStmt{List: stmts}), nil
}

// ---- logger sources (go/types)

func mentionsLogger(t types.Type, depth int) bool {
	if depth > 4 {
		return false
	}
	switch x := t.(type) {
	case *types.Pointer:
		return mentionsLogger(x.Elem(), depth+1)
	case *types.Slice:
		return mentionsLogger(x.Elem(), depth+1)
	case *types.Named:
		o := x.Obj()
		return o != nil && o.Pkg() != nil && o.Pkg().Path() == "log" && o.Name() == "Logger"
	}
	return false
}

func loggerSources(tabs map[string]*table) string {
	fset := token.NewFileSet()
	imp := importer.ForCompiler(fset, "source", nil)
	var items []string
	for _, k := range sortedKeys(tabs) {
		t := tabs[k]
		dir := path.Dir(k)
		var pkg *types.Package
		loaded := false
		for _, e := range t.entries {
			if e.kind != "host" && e.kind != "hostType" {
				continue
			}
			ipath := t.imports[e.pkg]
			if ipath == "" {
				continue
			}
			if !loaded {
				loaded = true
				p, err := imp.Import(ipath)
				if err != nil {
					items = append(items, fmt.Sprintf("⟨%s, %s, .other %s, []⟩", q(dir), q("unrecognised: go/types cannot load "+ipath), q(err.Error())))
				}
				pkg = p
			}
			if pkg == nil || pkg.Path() != ipath {
				p, err := imp.Import(ipath)
				if err != nil {
					continue
				}
				pkg = p
			}
			obj := pkg.Scope().Lookup(e.sym)
			if obj == nil {
				continue
			}
			report := func(name string, sig *types.Signature) {
				hit := false
				var rs []string
				for i := 0; i < sig.Results().Len(); i++ {
					rt := sig.Results().At(i).Type()
					rs = append(rs, types.TypeString(rt, func(p *types.Package) string { return p.Name() }))
					if mentionsLogger(rt, 0) {
						hit = true
					}
				}
				if hit {
					items = append(items, fmt.Sprintf("⟨%s, %s, %s, %s⟩", q(dir), q(name), e.bind, common.LeanStrList(rs)))
				}
			}
			switch o := obj.(type) {
			case *types.Func:
				report(e.name, o.Type().(*types.Signature))
			case *types.TypeName:
				ms := types.NewMethodSet(types.NewPointer(o.Type()))
				for i := 0; i < ms.Len(); i++ {
					m := ms.At(i).Obj()
					if fn, ok := m.(*types.Func); ok && fn.Exported() {
						report(e.name+"."+fn.Name(), fn.Type().(*types.Signature))
					}
				}
			case *types.Var:
				if mentionsLogger(o.Type(), 0) {
					items = append(items, fmt.Sprintf("⟨%s, %s, %s, [%s]⟩", q(dir), q(e.name), e.bind, q(o.Type().String())))
				}
			}
		}
	}
	return "[" + strings.Join(items, ",\n   ") + "]"
}

// ---- fingerprints of statements

func nodeHash(n ast.Node) string {
	if n == nil {
		return "unrecognised: not found"
	}
	var b bytes.Buffer
	if err := (&printer.Config{Mode: printer.RawFormat}).Fprint(&b, token.NewFileSet(), n); err != nil {
		return "unrecognised: " + err.Error()
	}
	norm := strings.Join(strings.Fields(b.String()), " ")
	return fmt.Sprintf("%x", sha256.Sum256([]byte(norm)))[:16]
}

// importSpecClause returns the `case importSpec:` clause of gta.go.
func importSpecClause(f *ast.File) ast.Node {
	var out ast.Node
	ast.Inspect(f, func(n ast.Node) bool {
		if cc, ok := n.(*ast.CaseClause); ok && len(cc.List) == 1 {
			if id, ok := cc.List[0].(*ast.Ident); ok && id.Name == "importSpec" && out == nil {
				// strip comments by printing the statements only
				out = &ast.BlockStmt{List: cc.Body}
				return false
			}
		}
		return true
	})
	return out
}

// envStmt returns the `if options.Unrestricted {…} else {…}` statement of interp.New.
func envStmt(f *ast.File) ast.Node {
	fd := common.FindFunc(f, "", "New")
	if fd == nil {
		return nil
	}
	for _, st := range fd.Body.List {
		if is, ok := st.(*ast.IfStmt); ok && exprString(is.Cond) == "options.Unrestricted" {
			return is
		}
	}
	return nil
}

func hashes(repo string, newOptionsHash string) string {
	var items []string
	add := func(label, h string) { items = append(items, fmt.Sprintf("(%s, %s)", q(label), q(h))) }
	if fset, f, err := common.ParseFile(repo, "interp/use.go"); err == nil {
		add("use.fixStdlib", common.FuncHash(fset, f, "", "fixStdlib"))
		add("use.Interpreter.Use", common.FuncHash(fset, f, "Interpreter", "Use"))
	} else {
		add("use.go", "unrecognised: "+err.Error())
	}
	if fset, f, err := common.ParseFile(repo, "interp/interp.go"); err == nil {
		add("interp.Interpreter.ImportUsed", common.FuncHash(fset, f, "Interpreter", "ImportUsed"))
		add("interp.fixKey", common.FuncHash(fset, f, "", "fixKey"))
		add("interp.New.env", nodeHash(envStmt(f)))
		add("interp.New.options", newOptionsHash)
	} else {
		add("interp.go", "unrecognised: "+err.Error())
	}
	if _, f, err := common.ParseFile(repo, "interp/gta.go"); err == nil {
		add("gta.importSpec", nodeHash(importSpecClause(f)))
	} else {
		add("gta.go", "unrecognised: "+err.Error())
	}
	if fset, f, err := common.ParseFile(repo, "stdlib/restricted.go"); err == nil {
		for _, n := range []string{"osExit", "osFindProcess", "logNew"} {
			add("restricted."+n, common.FuncHash(fset, f, "", n))
		}
	} else {
		add("restricted.go", "unrecognised: "+err.Error())
	}
	return "[" + strings.Join(items, ",\n   ") + "]"
}

func leanTable(t *table, pkg string) string {
	var b strings.Builder
	fmt.Fprintf(&b, "  ⟨%s, [", q(pkg))
	if t != nil {
		es := append([]entry(nil), t.entries...)
		sort.SliceStable(es, func(i, j int) bool { return es[i].name < es[j].name })
		for i, e := range es {
			if i > 0 {
				b.WriteString(",")
			}
			fmt.Fprintf(&b, "\n    ⟨%s, %s⟩", q(e.name), e.bind)
		}
	}
	b.WriteString("]⟩")
	return b.String()
}

func main() {
	common.Main("C13", func(repo string) (string, error) {
		files, err := selectedFiles(filepath.Join(repo, "stdlib"))
		if err != nil {
			return "", err
		}
		tabs, err := tablesOf(files)
		if err != nil {
			return "", err
		}
		keys := sortedKeys(tabs)
		var gated []string
		for _, set := range []string{"unrestricted", "unsafe", "syscall"} {
			fs, err := selectedFiles(filepath.Join(repo, "stdlib", set))
			if err != nil {
				gated = append(gated, fmt.Sprintf("(%s, [%s])", q(set), leanKey("unrecognised: "+err.Error())))
				continue
			}
			ts, err := tablesOf(fs)
			if err != nil {
				return "", err
			}
			gated = append(gated, fmt.Sprintf("(%s, %s)", q(set), leanKeys(sortedKeys(ts), "     ")))
		}
		var tl []string
		for _, p := range []string{"os", "log", "fmt", "flag", "log/slog"} {
			tl = append(tl, leanTable(tabs[p+"/"+path.Base(p)], p))
		}
		decls, err := declsOf(repo)
		if err != nil {
			return "", err
		}
		rebinds, locals, err := fixStdlibFacts(repo)
		if err != nil {
			return "", err
		}
		builtins, err := builtinsOf(repo)
		if err != nil {
			return "", err
		}
		uses, flags, opts, err := runFacts(repo)
		if err != nil {
			return "", err
		}
		optFields, optFlows, optHash, err := optionsFacts(repo)
		if err != nil {
			return "", err
		}
		var logger string
		if os.Getenv("VERIF_C13_NOTYPES") != "" {
			logger = "[]"
		} else {
			logger = loggerSources(tabs)
		}
		return fmt.Sprintf(`import YaegiVerif.Model.Restricted
namespace YaegiVerif.Generated.C13
open YaegiVerif.Restricted

/-- keys of stdlib.Symbols (files selected for %s/%s, %s), with path.Dir and path.Base -/
def defaultKeys : List Key :=
  %s

/-- keys of the separately loaded sets -/
def gated : List (String × List Key) :=
  [%s]

/-- stdlib/go1_2x_{os,log,fmt,flag,log_slog}.go -/
def tables : List PkgTable := [
%s]

/-- host functions, methods and variables of the default table whose (result) type mentions log.Logger -/
def loggerReturning : List LoggerSrc :=
  %s

/-- stdlib/restricted.go -/
def decls : List Decl :=
  %s

/-- interp/use.go fixStdlib -/
def rebinds : List Rebind :=
  %s

def locals : List LocalDef :=
  %s

/-- interp/run.go -/
def builtins : List (String × List Ident) :=
  %s

/-- cmd/yaegi/run.go -/
def uses : List UseCall := %s
def gateFlags : List GateFlag := %s
def newOptions : List (String × String) := %s

/-- interp/interp.go: the fields of Options; the statements of New that read them -/
def optionFields : List (String × String) := %s
def optFlows : List OptFlow :=
  %s

def facts : Facts :=
  { defaultKeys := defaultKeys, gated := gated, tables := tables, loggerReturning := loggerReturning, decls := decls,
    rebinds := rebinds, locals := locals, builtins := builtins, uses := uses, gateFlags := gateFlags,
    optionFields := optionFields, optFlows := optFlows }

/-- fingerprints of the functions / statements transcribed by hand -/
def sourceHashes : List (String × String) :=
  %s
end YaegiVerif.Generated.C13
`, build.Default.GOOS, build.Default.GOARCH, build.Default.ReleaseTags[len(build.Default.ReleaseTags)-1],
			leanKeys(keys, "   "), strings.Join(gated, ",\n   "), strings.Join(tl, ",\n"), logger, decls, rebinds, locals, builtins,
			uses, flags, opts, optFields, optFlows, hashes(repo, optHash)), nil
	})
}
