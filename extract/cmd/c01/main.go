// extract-C01: fingerprints of the clauses of interp/cfg.go and the functions of interp/run.go that
// Model/Cfg.lean transcribes: the per-kind wiring cases of the CFG builder for if/for/&&/||/
// break/continue, wireChild, setFNext, and the execution loop runCfg with the branch closure.
package main

import (
	"bytes"
	"crypto/sha256"
	"fmt"
	"go/ast"
	"go/printer"
	"go/token"
	"sort"
	"strings"

	"verif/extract/common"
)

var kinds = []string{"ifStmt0", "ifStmt1", "ifStmt2", "ifStmt3", "forStmt0", "forStmt1", "forStmt2", "forStmt3",
	"forStmt4", "forStmt5", "forStmt6", "forStmt7", "landExpr", "lorExpr", "breakStmt", "continueStmt", "parenExpr"}

func clauseHash(cc *ast.CaseClause) string {
	var b bytes.Buffer
	cp := *cc
	if err := (&printer.Config{Mode: printer.RawFormat}).Fprint(&b, token.NewFileSet(), &cp); err != nil {
		return "unrecognised: " + err.Error()
	}
	norm := strings.Join(strings.Fields(b.String()), " ")
	return fmt.Sprintf("%x", sha256.Sum256([]byte(norm)))[:16]
}

func main() {
	common.Main("C01", func(repo string) (string, error) {
		fset, f, err := common.ParseFile(repo, "interp/cfg.go")
		if err != nil {
			return "", err
		}
		want := map[string]bool{}
		for _, k := range kinds {
			want[k] = true
		}
		count := map[string]int{}
		var rows [][2]string
		cfg := common.FindFunc(f, "Interpreter", "cfg")
		if cfg == nil {
			rows = append(rows, [2]string{"cfg", "unrecognised: (*Interpreter).cfg not found"})
		} else {
			ast.Inspect(cfg, func(n ast.Node) bool {
				cc, ok := n.(*ast.CaseClause)
				if !ok {
					return true
				}
				for _, e := range cc.List {
					if id, ok := e.(*ast.Ident); ok && want[id.Name] {
						label := fmt.Sprintf("case %s#%d", id.Name, count[id.Name])
						count[id.Name]++
						rows = append(rows, [2]string{label, clauseHash(cc)})
					}
				}
				return true
			})
		}
		for _, k := range kinds {
			if count[k] == 0 {
				rows = append(rows, [2]string{"case " + k, "unrecognised: no such case in (*Interpreter).cfg"})
			}
		}
		sort.Slice(rows, func(i, j int) bool { return rows[i][0] < rows[j][0] })
		for _, fn := range []string{"wireChild", "setFNext"} {
			rows = append(rows, [2]string{fn, common.FuncHash(fset, f, "", fn)})
		}
		fset2, f2, err := common.ParseFile(repo, "interp/run.go")
		if err != nil {
			return "", err
		}
		for _, fn := range []string{"runCfg", "branch", "nop"} {
			rows = append(rows, [2]string{fn, common.FuncHash(fset2, f2, "", fn)})
		}
		var b strings.Builder
		b.WriteString("namespace YaegiVerif.Generated.C01\n/-- fingerprints of the cfg.go clauses and run.go functions transcribed by Model/Cfg.lean -/\ndef sourceHashes : List (String × String) :=\n  [")
		for i, r := range rows {
			if i > 0 {
				b.WriteString(",\n   ")
			}
			fmt.Fprintf(&b, "(%s, %s)", common.LeanStr(r[0]), common.LeanStr(r[1]))
		}
		b.WriteString("]\nend YaegiVerif.Generated.C01\n")
		return b.String(), nil
	})
}
