// extract-C01: fingerprints of the clauses of interp/cfg.go and the functions of interp/run.go that
// Model/Cfg.lean transcribes: the per-kind wiring cases of the CFG builder for if/for/&&/||/
// break/continue, wireChild, setFNext, and the execution loop runCfg with the branch closure;
// and, for Model/CfgSlots.lean, the slot-choosing switches of the assignStmt / binaryExpr / unaryExpr
// cases, isArithmeticAction, and the closures assign, _return, neg, bitNot (run.go), add, quo, lower (op.go).
// For Model/Closures.lean (variables as cells, :=, function literals, loop variables): fingerprints of the
// frame functions, the closures of run.go that allocate / copy cells, the scope functions and the cfg.go
// clauses that allocate slots (closureHashes), and the four choices the model takes as parameters (mechFacts).
package main

import (
	"bytes"
	"crypto/sha256"
	"fmt"
	"go/ast"
	"go/printer"
	"go/token"
	"sort"
	"strings"

	"verif/extract/common"
)

var kinds = []string{"ifStmt0", "ifStmt1", "ifStmt2", "ifStmt3", "forStmt0", "forStmt1", "forStmt2", "forStmt3",
	"forStmt4", "forStmt5", "forStmt6", "forStmt7", "landExpr", "lorExpr", "breakStmt", "continueStmt", "parenExpr",
	// the clause wiring of switch statements (hand-transcribed in Model/Cfg.lean: Clauses, fallthrough, break out of a switch)
	"switchStmt", "switchIfStmt"}

func clauseHash(cc *ast.CaseClause) string {
	var b bytes.Buffer
	cp := *cc
	if err := (&printer.Config{Mode: printer.RawFormat}).Fprint(&b, token.NewFileSet(), &cp); err != nil {
		return "unrecognised: " + err.Error()
	}
	norm := strings.Join(strings.Fields(b.String()), " ")
	return fmt.Sprintf("%x", sha256.Sum256([]byte(norm)))[:16]
}

func nodeHash(n ast.Node) string {
	var b bytes.Buffer
	if err := (&printer.Config{Mode: printer.RawFormat}).Fprint(&b, token.NewFileSet(), n); err != nil {
		return "unrecognised: " + err.Error()
	}
	norm := strings.Join(strings.Fields(b.String()), " ")
	return fmt.Sprintf("%x", sha256.Sum256([]byte(norm)))[:16]
}

func exprText(e ast.Expr) string {
	var b bytes.Buffer
	if err := (&printer.Config{Mode: printer.RawFormat}).Fprint(&b, token.NewFileSet(), e); err != nil {
		return ""
	}
	return strings.Join(strings.Fields(b.String()), " ")
}

// slotSwitches: the tagless `switch { … }` statements of (*Interpreter).cfg that choose frame slots,
// transcribed by Model/CfgSlots.lean. Each is found inside the post-order clause of the named node
// kind by the text of its first case.
var slotSwitches = []struct{ label, kind, firstCase string }{
	// the skip-assign optimisations: x = a op b, x = f(…) write straight into x, the assign node becomes nop
	{"assignStmt: skip-assign switch", "assignStmt", "n.action != aAssign"},
	// findex of an operator node: destination of the enclosing assignment / return slot / own slot (sc.add)
	{"binaryExpr: findex switch", "binaryExpr", "n.rval.IsValid()"},
	{"unaryExpr: findex switch", "unaryExpr", "n.rval.IsValid()"},
}

func findSlotSwitch(cfg *ast.FuncDecl, kind, firstCase string) string {
	found, n := "unrecognised: no `switch { case "+firstCase+": … }` in case "+kind, 0
	ast.Inspect(cfg, func(x ast.Node) bool {
		cc, ok := x.(*ast.CaseClause)
		if !ok {
			return true
		}
		named := false
		for _, e := range cc.List {
			if id, ok := e.(*ast.Ident); ok && id.Name == kind {
				named = true
			}
		}
		if !named {
			return true
		}
		ast.Inspect(cc, func(y ast.Node) bool {
			sw, ok := y.(*ast.SwitchStmt)
			if !ok || sw.Tag != nil || sw.Init != nil || len(sw.Body.List) == 0 {
				return true
			}
			first, ok := sw.Body.List[0].(*ast.CaseClause)
			if !ok || len(first.List) != 1 || exprText(first.List[0]) != firstCase {
				return true
			}
			n++
			found = nodeHash(sw)
			return true
		})
		return true
	})
	if n > 1 {
		return fmt.Sprintf("unrecognised: %d candidate switches in case %s", n, kind)
	}
	return found
}

func main() {
	common.Main("C01", func(repo string) (string, error) {
		fset, f, err := common.ParseFile(repo, "interp/cfg.go")
		if err != nil {
			return "", err
		}
		want := map[string]bool{}
		for _, k := range kinds {
			want[k] = true
		}
		count := map[string]int{}
		var rows [][2]string
		cfg := common.FindFunc(f, "Interpreter", "cfg")
		if cfg == nil {
			rows = append(rows, [2]string{"cfg", "unrecognised: (*Interpreter).cfg not found"})
		} else {
			ast.Inspect(cfg, func(n ast.Node) bool {
				cc, ok := n.(*ast.CaseClause)
				if !ok {
					return true
				}
				for _, e := range cc.List {
					if id, ok := e.(*ast.Ident); ok && want[id.Name] {
						label := fmt.Sprintf("case %s#%d", id.Name, count[id.Name])
						count[id.Name]++
						rows = append(rows, [2]string{label, clauseHash(cc)})
					}
				}
				return true
			})
		}
		for _, k := range kinds {
			if count[k] == 0 {
				rows = append(rows, [2]string{"case " + k, "unrecognised: no such case in (*Interpreter).cfg"})
			}
		}
		sort.Slice(rows, func(i, j int) bool { return rows[i][0] < rows[j][0] })
		for _, fn := range []string{"wireChild", "setFNext"} {
			rows = append(rows, [2]string{fn, common.FuncHash(fset, f, "", fn)})
		}
		fset2, f2, err := common.ParseFile(repo, "interp/run.go")
		if err != nil {
			return "", err
		}
		for _, fn := range []string{"runCfg", "branch", "nop"} {
			rows = append(rows, [2]string{fn, common.FuncHash(fset2, f2, "", fn)})
		}
		// frame-slot level (Model/CfgSlots.lean): where cfg.go puts results, and the closures that do it
		for _, sw := range slotSwitches {
			h := "unrecognised: (*Interpreter).cfg not found"
			if cfg != nil {
				h = findSlotSwitch(cfg, sw.kind, sw.firstCase)
			}
			rows = append(rows, [2]string{sw.label, h})
		}
		rows = append(rows, [2]string{"isArithmeticAction", common.FuncHash(fset, f, "", "isArithmeticAction")})
		for _, fn := range []string{"assign", "_return", "neg", "bitNot"} {
			rows = append(rows, [2]string{"run.go " + fn, common.FuncHash(fset2, f2, "", fn)})
		}
		fset3, f3, err := common.ParseFile(repo, "interp/op.go")
		if err != nil {
			return "", err
		}
		for _, fn := range []string{"add", "quo", "lower"} {
			rows = append(rows, [2]string{"op.go " + fn, common.FuncHash(fset3, f3, "", fn)})
		}
		var b strings.Builder
		b.WriteString("namespace YaegiVerif.Generated.C01\n/-- fingerprints of the cfg.go clauses and run.go functions transcribed by Model/Cfg.lean -/\ndef sourceHashes : List (String × String) :=\n  [")
		for i, r := range rows {
			if i > 0 {
				b.WriteString(",\n   ")
			}
			fmt.Fprintf(&b, "(%s, %s)", common.LeanStr(r[0]), common.LeanStr(r[1]))
		}
		b.WriteString("]\n")
		b.WriteString(closureTables(repo, cfg, fset2, f2))
		b.WriteString("end YaegiVerif.Generated.C01\n")
		return b.String(), nil
	})
}
