package main

// Facts for Model/Closures.lean: how yaegi keeps variables in frames.
//
//	closureHashes : fingerprints of interp.go newFrame / (*frame).clone, run.go getFrame / getFunc /
//	                assignFromCall / loopVarFor / loopVarForEnd / loopVarKey / loopVarVal / rangeInt, the define branch
//	                of run.go assign, scope.go lookup / add / push / pushFunc / pop, and of the cfg.go clauses
//	                that allocate slots and resolve names (case funcLit, the forStmt7 and rangeStmt parts of case blockStmt,
//	                the define part of case assignStmt/defineStmt)
//	mechFacts     : the four choices the model is parametrised by, recognised structurally:
//	                getFunc clones the frame; the define branch of assign allocates a fresh value;
//	                loopVarFor / loopVarKey allocate a fresh value per iteration; loopVarForEnd copies the body's value
//	                back (and cfg.go installs it on the body block); plus: identExpr takes (level, index)
//	                from scope.lookup
//
// Anything that cannot be recognised is emitted as "unrecognised: …", which cannot equal the expectation.

import (
	"bytes"
	"fmt"
	"go/ast"
	"go/printer"
	"go/token"
	"strings"

	"verif/extract/common"
)

// caseClausesNamed: the clauses of (*Interpreter).cfg whose list names `kind`, in source order.
func caseClausesNamed(cfg *ast.FuncDecl, kind string) []*ast.CaseClause {
	var out []*ast.CaseClause
	ast.Inspect(cfg, func(n ast.Node) bool {
		cc, ok := n.(*ast.CaseClause)
		if !ok {
			return true
		}
		for _, e := range cc.List {
			if id, ok := e.(*ast.Ident); ok && id.Name == kind {
				out = append(out, cc)
			}
		}
		return true
	})
	return out
}

// ifWithCond: the unique `if <cond> { … }` statement inside n whose condition prints as (or starts with) cond.
func ifWithCond(n ast.Node, cond string, prefix bool) (*ast.IfStmt, string) {
	var found []*ast.IfStmt
	ast.Inspect(n, func(x ast.Node) bool {
		is, ok := x.(*ast.IfStmt)
		if !ok || is.Init != nil {
			return true
		}
		t := exprText(is.Cond)
		if t == cond || (prefix && strings.HasPrefix(t, cond)) {
			found = append(found, is)
		}
		return true
	})
	if len(found) != 1 {
		return nil, fmt.Sprintf("unrecognised: %d statements `if %s`", len(found), cond)
	}
	return found[0], ""
}

// printNode: a node as source text, whitespace-normalised.
func printNode(n ast.Node) string {
	var b bytes.Buffer
	if err := (&printer.Config{Mode: printer.RawFormat}).Fprint(&b, token.NewFileSet(), n); err != nil {
		return "unprintable: " + err.Error()
	}
	return strings.Join(strings.Fields(b.String()), " ")
}

// execLit: the function literal assigned to n.exec in a run.go generator (`n.exec = func(f *frame) bltn {…}`);
// with several (assign has one per case) the caller selects.
func execLits(n ast.Node) []*ast.FuncLit {
	var out []*ast.FuncLit
	ast.Inspect(n, func(x ast.Node) bool {
		as, ok := x.(*ast.AssignStmt)
		if !ok || len(as.Lhs) != 1 || len(as.Rhs) != 1 || exprText(as.Lhs[0]) != "n.exec" {
			return true
		}
		if fl, ok := as.Rhs[0].(*ast.FuncLit); ok {
			out = append(out, fl)
		}
		return true
	})
	return out
}

// hasStmt: does n contain a statement that prints exactly as one of texts (whitespace-normalised)?
func hasStmt(n ast.Node, text string) bool {
	ok := false
	ast.Inspect(n, func(x ast.Node) bool {
		if s, isS := x.(ast.Stmt); isS {
			switch s.(type) {
			case *ast.AssignStmt, *ast.ExprStmt:
				if printNode(s) == text {
					ok = true
				}
			}
		}
		return true
	})
	return ok
}

// litField: the value of field `key` in the `&frame{…}` literal a function returns ("" if there is not exactly one).
func litField(fd *ast.FuncDecl, key string) string {
	var vals []string
	ast.Inspect(fd, func(x ast.Node) bool {
		cl, ok := x.(*ast.CompositeLit)
		if !ok || exprText(cl.Type) != "frame" {
			return true
		}
		for _, e := range cl.Elts {
			if kv, ok := e.(*ast.KeyValueExpr); ok && exprText(kv.Key) == key {
				vals = append(vals, exprText(kv.Value))
			}
		}
		return true
	})
	if len(vals) != 1 {
		return ""
	}
	return vals[0]
}

func boolFact(ok bool) string {
	if ok {
		return "true"
	}
	return "false"
}

// defineBranch: the clause `case n.kind == defineStmt:` of the single-assignment switch of run.go assign.
func defineBranch(assign *ast.FuncDecl) (*ast.CaseClause, string) {
	if assign == nil {
		return nil, "unrecognised: func assign not found"
	}
	var found []*ast.CaseClause
	ast.Inspect(assign, func(x ast.Node) bool {
		sw, ok := x.(*ast.SwitchStmt)
		if !ok || sw.Tag != nil {
			return true
		}
		// the switch `switch s, d, i := svalue[0], dvalue[0], ivalue[0]; { … }`
		if sw.Init == nil || !strings.HasPrefix(printNode(sw.Init), "s, d, i := svalue[0], dvalue[0], ivalue[0]") {
			return true
		}
		for _, st := range sw.Body.List {
			cc := st.(*ast.CaseClause)
			if len(cc.List) == 1 && exprText(cc.List[0]) == "n.kind == defineStmt" {
				found = append(found, cc)
			}
		}
		return true
	})
	if len(found) != 1 {
		return nil, fmt.Sprintf("unrecognised: %d clauses `case n.kind == defineStmt` in the single-assignment switch of assign", len(found))
	}
	return found[0], ""
}

func closureTables(repo string, cfg *ast.FuncDecl, fsetRun *token.FileSet, run *ast.File) string {
	newCallFrameOK := true
	var rows [][2]string
	add := func(label, h string) { rows = append(rows, [2]string{label, h}) }
	var facts [][2]string
	fact := func(label, v string) { facts = append(facts, [2]string{label, v}) }

	// interp.go: the frame
	var tabs []string
	if fset, f, err := common.ParseFile(repo, "interp/interp.go"); err != nil {
		add("interp.go", "unrecognised: "+err.Error())
	} else {
		tabs = append(tabs, common.HashTable(fset, f, [][2]string{{"", "newFrame"}, {"", "newCallFrame"}, {"frame", "clone"}}))
		// newCallFrame(anc, length) must be newFrame(anc, length, …): the ancestor is the first argument
		// (since dc95f3e it builds the frame itself: `&frame{anc: anc, …, data: make([]reflect.Value, length), …}`)
		if nc := common.FindFunc(f, "", "newCallFrame"); nc == nil ||
			!(hasStmt(nc, "f := newFrame(anc, length, root.runid())") || (litField(nc, "anc") == "anc" && litField(nc, "data") == "make([]reflect.Value, length)")) {
			newCallFrameOK = false
		}
	}
	// run.go: the closures that allocate, share and copy cells
	tabs = append(tabs, common.HashTable(fsetRun, run, [][2]string{{"", "getFrame"}, {"", "getFunc"}, {"", "assignFromCall"},
		{"", "loopVarFor"}, {"", "loopVarForEnd"}, {"", "loopVarKey"}, {"", "loopVarVal"}, {"", "rangeInt"}}))
	// scope.go
	if fset, f, err := common.ParseFile(repo, "interp/scope.go"); err != nil {
		add("scope.go", "unrecognised: "+err.Error())
	} else {
		tabs = append(tabs, common.HashTable(fset, f, [][2]string{{"scope", "lookup"}, {"scope", "add"}, {"scope", "push"},
			{"scope", "pushBloc"}, {"scope", "pushFunc"}, {"scope", "pop"}}))
	}

	// run.go assign: the define branch
	assign := common.FindFunc(run, "", "assign")
	db, msg := defineBranch(assign)
	if db == nil {
		add("run.go assign: define branch", msg)
		fact("define allocates a fresh value", msg)
	} else {
		add("run.go assign: define branch", clauseHash(db))
		lits := execLits(db)
		ok := len(lits) == 1 &&
			hasStmt(lits[0], "data := getFrame(f, l).data") &&
			hasStmt(lits[0], "data[ind] = reflect.New(data[ind].Type()).Elem()") &&
			hasStmt(lits[0], "data[ind].Set(s(f))")
		if len(lits) != 1 {
			fact("define allocates a fresh value", fmt.Sprintf("unrecognised: %d closures in the define branch", len(lits)))
		} else {
			fact("define allocates a fresh value", boolFact(ok))
		}
	}

	// getFunc: fr := f.clone()
	if gf := common.FindFunc(run, "", "getFunc"); gf == nil {
		fact("getFunc clones the frame", "unrecognised: func getFunc not found")
	} else {
		lits := execLits(gf)
		switch {
		case len(lits) != 1:
			fact("getFunc clones the frame", fmt.Sprintf("unrecognised: %d closures in getFunc", len(lits)))
		case !hasStmt(lits[0], "fr2 := newFrame(fr, len(n.types), fr.runid())") &&
			!(newCallFrameOK && (hasStmt(lits[0], "fr2 := newCallFrame(fr, len(n.types))") ||
				hasStmt(lits[0], "fr2 := newCallFrame(n.interp, fr, len(n.types), fr.getEpoch())"))):
			fact("getFunc clones the frame", "unrecognised: the call frame is not newFrame(fr, …) / newCallFrame(fr, …)")
		default:
			fact("getFunc clones the frame", boolFact(hasStmt(lits[0], "fr := f.clone()")))
		}
	}

	// loopVarFor: nv := reflect.New(fv.Type()).Elem(); nv.Set(fv); f.data[n.findex] = nv
	if lf := common.FindFunc(run, "", "loopVarFor"); lf == nil {
		fact("loopVarFor allocates a fresh value", "unrecognised: func loopVarFor not found")
	} else {
		lits := execLits(lf)
		switch {
		case len(lits) != 1:
			fact("loopVarFor allocates a fresh value", fmt.Sprintf("unrecognised: %d closures in loopVarFor", len(lits)))
		case !hasStmt(lf, "ixn := n.anc.anc.child[0].child[0]") || !hasStmt(lits[0], "fv := f.data[ixn.findex]"):
			fact("loopVarFor allocates a fresh value", "unrecognised: the source is not the init statement's variable")
		default:
			fact("loopVarFor allocates a fresh value", boolFact(hasStmt(lits[0], "nv := reflect.New(fv.Type()).Elem()") &&
				hasStmt(lits[0], "nv.Set(fv)") && hasStmt(lits[0], "f.data[n.findex] = nv")))
		}
	}

	// loopVarKey: rv := f.data[ixn.findex]; nv := reflect.New(rv.Type()).Elem(); nv.Set(rv); f.data[n.findex] = nv
	if lk := common.FindFunc(run, "", "loopVarKey"); lk == nil {
		fact("loopVarKey allocates a fresh value", "unrecognised: func loopVarKey not found")
	} else {
		lits := execLits(lk)
		switch {
		case len(lits) != 1:
			fact("loopVarKey allocates a fresh value", fmt.Sprintf("unrecognised: %d closures in loopVarKey", len(lits)))
		case !hasStmt(lk, "ixn := n.anc.anc.child[0]") || !hasStmt(lits[0], "rv := f.data[ixn.findex]"):
			fact("loopVarKey allocates a fresh value", "unrecognised: the source is not the range statement's index")
		default:
			fact("loopVarKey allocates a fresh value", boolFact(hasStmt(lits[0], "nv := reflect.New(rv.Type()).Elem()") &&
				hasStmt(lits[0], "nv.Set(rv)") && hasStmt(lits[0], "f.data[n.findex] = nv")))
		}
	}

	// rangeInt: the init closure `ixn.exec = func(f *frame) bltn { f.data[index2] = value(f); … }` with value = genValue(mxn)
	if ri := common.FindFunc(run, "", "rangeInt"); ri == nil {
		fact("rangeInt keeps the value object of the bound", "unrecognised: func rangeInt not found")
	} else {
		switch {
		case !hasStmt(ri, "value = genValue(mxn)") || !hasStmt(ri, "mxn := n.child[1]") || !hasStmt(ri, "index2 := index0 - 1"):
			fact("rangeInt keeps the value object of the bound", "unrecognised: the bound is not genValue(n.child[1]) / the max slot is not index0 - 1")
		case hasStmt(ri, "f.data[index2] = value(f)"):
			// before 716c992 (F51): the hidden slot takes the value object — a variable's own cell
			fact("rangeInt keeps the value object of the bound", "true")
		case hasStmt(ri, "f.data[index2].SetInt(value(f).Int())"):
			// the bound is copied when the loop is entered
			fact("rangeInt keeps the value object of the bound", "false")
		default:
			fact("rangeInt keeps the value object of the bound", "unrecognised: how the init closure of rangeInt sets the max slot")
		}
	}

	// run.go call (declared functions): the callee's result slots are cells of its own, copied to the destination when the
	// call returns (1b5ab85; before, `nf.data[i] = v(f)` aliased them to the caller's destination cells: F01). Tied only —
	// both Lean levels with calls (Model/Cfg.lean doReturn, Model/CfgSlots.lean doReturn2) deliver the result at the return.
	if cl := common.FindFunc(run, "", "call"); cl == nil {
		fact("call copies the results when the callee returns", "unrecognised: func call not found")
	} else {
		fresh := hasStmt(cl, "nf.data[i] = reflect.New(def.types[i]).Elem()")
		alias := hasStmt(cl, "nf.data[i] = v(f)")
		copies := hasStmt(cl, "v(f).Set(nf.data[i])")
		switch {
		case fresh && copies && !alias:
			fact("call copies the results when the callee returns", "true")
		case alias:
			fact("call copies the results when the callee returns", "false")
		default:
			fact("call copies the results when the callee returns", "unrecognised: result slots of the call frame")
		}
	}

	// cfg.go post-order `case switchIfStmt`: every condition of a case list is chained (3b98047; before, only c.child[0] was
	// wired: F53). Model/Cfg.lean compileCaseList takes it as its parameter; the driver reads `(alt a b)` accordingly.
	if cfg == nil {
		fact("switchIfStmt chains every condition of a case list", "unrecognised: (*Interpreter).cfg not found")
	} else {
		cls := caseClausesNamed(cfg, "switchIfStmt")
		chained, first := false, false
		for _, cc := range cls {
			ast.Inspect(cc, func(x ast.Node) bool {
				if fs, ok := x.(*ast.ForStmt); ok && fs.Init != nil && printNode(fs.Init) == "j := len(c.child) - 2" &&
					hasStmt(fs, "cond := c.child[j]") && hasStmt(fs, "cond.tnext = body.start") && hasStmt(fs, "setFNext(cond, nextTest)") && hasStmt(fs, "nextTest = cond.start") {
					chained = true
				}
				return true
			})
			if hasStmt(cc, "cond := c.child[0]") && hasStmt(cc, "setFNext(cond, nextTest)") {
				first = true
			}
		}
		switch {
		case chained && !first:
			fact("switchIfStmt chains every condition of a case list", "true")
		case first && !chained:
			fact("switchIfStmt chains every condition of a case list", "false")
		default:
			fact("switchIfStmt chains every condition of a case list", "unrecognised: wiring of the clause conditions")
		}
	}

	// cfg.go: slots of the loop variable, and loopVarForEnd on the body block
	var forIf *ast.IfStmt
	if cfg == nil {
		add("cfg.go", "unrecognised: (*Interpreter).cfg not found")
	} else {
		for i, cc := range caseClausesNamed(cfg, "funcLit") {
			add(fmt.Sprintf("case funcLit#%d", i), clauseHash(cc))
		}
		if len(caseClausesNamed(cfg, "funcLit")) == 0 {
			add("case funcLit", "unrecognised: no such case in (*Interpreter).cfg")
		}
		bs := caseClausesNamed(cfg, "blockStmt")
		if len(bs) == 0 {
			add("case blockStmt: forStmt7 loop variable", "unrecognised: no case blockStmt")
		} else {
			// the two range parts: slots of the bound / hidden index, and the per-iteration key / value in the body's scope
			var rangeIfs []*ast.IfStmt
			ast.Inspect(bs[0], func(x ast.Node) bool {
				if is, ok := x.(*ast.IfStmt); ok && is.Init == nil && exprText(is.Cond) == "n.anc != nil && n.anc.kind == rangeStmt" {
					rangeIfs = append(rangeIfs, is)
				}
				return true
			})
			if len(rangeIfs) != 2 {
				add("case blockStmt: rangeStmt loop variables", fmt.Sprintf("unrecognised: %d statements `if n.anc != nil && n.anc.kind == rangeStmt`", len(rangeIfs)))
			} else {
				add("case blockStmt: rangeStmt slots", nodeHash(rangeIfs[0]))
				add("case blockStmt: rangeStmt loop variables", nodeHash(rangeIfs[1]))
			}
			is, msg := ifWithCond(bs[0], "n.anc != nil && n.anc.kind == forStmt7", false)
			if is == nil {
				add("case blockStmt: forStmt7 loop variable", msg)
			} else {
				forIf = is
				add("case blockStmt: forStmt7 loop variable", nodeHash(is))
			}
		}
		as := caseClausesNamed(cfg, "defineStmt")
		var defIf *ast.IfStmt
		msg := "unrecognised: no case assignStmt, defineStmt with the define part"
		for _, cc := range as {
			if is, m := ifWithCond(cc, "n.kind == defineStmt ||", true); is != nil {
				defIf = is
			} else if !strings.Contains(m, " 0 statements") {
				msg = m
			}
		}
		const redeclFact = "a define of the loop variable's name in the loop body is a nop"
		if defIf == nil {
			add("case assignStmt, defineStmt: define allocates a slot", msg)
			fact(redeclFact, msg)
		} else {
			add("case assignStmt, defineStmt: define allocates a slot", nodeHash(defIf))
			// before 26ad67e (F52): `if fi != nil && dest.ident == fi.ident { n.gen = nop; break }`;
			// since: `case n.kind == defineStmt && isLoopVarCopy(n.anc, dest.ident, sc):` with an empty body,
			// so that the declaration takes a slot of its own like any new name
			newClause := false
			ast.Inspect(defIf, func(x ast.Node) bool {
				if cc, ok := x.(*ast.CaseClause); ok && len(cc.List) == 1 && len(cc.Body) == 0 &&
					exprText(cc.List[0]) == "n.kind == defineStmt && isLoopVarCopy(n.anc, dest.ident, sc)" {
					newClause = true
				}
				return true
			})
			oldNop := hasStmt(defIf, "n.gen = nop")
			switch {
			case oldNop && !newClause:
				fact(redeclFact, "true")
			case newClause && !oldNop:
				fact(redeclFact, "false")
			default:
				fact(redeclFact, "unrecognised: neither the nop of a redefined loop variable nor the isLoopVarCopy clause")
			}
		}
		if fsetC, fC, err := common.ParseFile(repo, "interp/cfg.go"); err == nil {
			add("isLoopVarCopy", common.FuncHash(fsetC, fC, "", "isLoopVarCopy"))
		}
		ids := caseClausesNamed(cfg, "identExpr")
		ok := false
		for _, cc := range ids {
			if hasStmt(cc, "sym, level, found := sc.lookup(n.ident)") &&
				hasStmt(cc, "n.sym, n.typ, n.findex, n.level = sym, sym.typ, sym.index, level") {
				ok = true
			}
		}
		fact("identExpr takes level and index from scope.lookup", boolFact(ok))
	}

	// loopVarForEnd: installed by cfg.go on the body block, and copies back
	if le := common.FindFunc(run, "", "loopVarForEnd"); le == nil {
		fact("loopVarForEnd copies back", "unrecognised: func loopVarForEnd not found")
	} else {
		lits := execLits(le)
		switch {
		case len(lits) != 1:
			fact("loopVarForEnd copies back", fmt.Sprintf("unrecognised: %d closures in loopVarForEnd", len(lits)))
		case forIf == nil:
			fact("loopVarForEnd copies back", "unrecognised: forStmt7 part of case blockStmt not found")
		default:
			installed := hasStmt(forIf, "n.gen = loopVarForEnd") && hasStmt(forIf, "lv.gen = loopVarFor")
			copies := hasStmt(le, "lv, ixn := n.child[0], n.anc.child[0].child[0]") &&
				hasStmt(lits[0], "f.data[ixn.findex].Set(f.data[lv.findex])")
			fact("loopVarForEnd copies back", boolFact(installed && copies))
		}
	}

	var b strings.Builder
	b.WriteString("/-- fingerprints of the functions and clauses Model/Closures.lean transcribes -/\ndef closureHashes : List (String × String) :=\n  ")
	b.WriteString(strings.Join(tabs, " ++\n  "))
	b.WriteString(" ++\n  [")
	for i, r := range rows {
		if i > 0 {
			b.WriteString(",\n   ")
		}
		fmt.Fprintf(&b, "(%s, %s)", common.LeanStr(r[0]), common.LeanStr(r[1]))
	}
	b.WriteString("]\n")
	b.WriteString("/-- the choices of the source Model/Closures.lean is parametrised by (`Mech`) -/\ndef mechFacts : List (String × String) :=\n  [")
	for i, r := range facts {
		if i > 0 {
			b.WriteString(",\n   ")
		}
		fmt.Fprintf(&b, "(%s, %s)", common.LeanStr(r[0]), common.LeanStr(r[1]))
	}
	b.WriteString("]\n")
	return b.String()
}
