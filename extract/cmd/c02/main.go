// extract-C02: the operator table of interp/op.go (+ the hand-written unary operators of
// interp/run.go) and the widening table of interp/value.go, re-read from the working tree.
//
// Operator table: one entry per generated closure, i.e. per
//
//	(function, kind class, variant, sub-variant)
//
// where variant = interface destination / constant left / constant right / two variables (or, for the
// compile-time folding functions xxxConst, the `case isXxx(t)` arm) and sub-variant = branch / value
// form of a comparison. Each entry records, exactly as written in the source text,
//   - how the left and the right operand are obtained (genValueInt(c0), vUint(c1.rval), v0(f).String(), literal 1 …),
//   - the Go operator token applied to them,
//   - how the result is stored (SetInt / SetUint / … / Set(reflect.ValueOf(·).Convert(typ)) / branch).
//
// Widening table: for genValueInt/genValueUint/genValueShiftCount/genValueFloat/genComplex/vInt/vUint/vFloat/vComplex,
// per source kind class, the conversion expression applied to the reflect.Value (v.Int(), int64(v.Uint()), …; the
// statement `_ = 0 << i` of genValueShiftCount, a run-time panic for a negative i, is rendered as `.nonNeg`).
//
// Anything the walker does not recognise is emitted as an `unrecognised` constructor plus a line of
// `def unrecognised`, which the tie theorem requires to be empty.
package main

import (
	"bytes"
	"fmt"
	"go/ast"
	"go/printer"
	"go/token"
	"sort"
	"strings"

	"verif/extract/common"
)

// ---------- symbolic operands ----------

// operand: how a Go identifier / expression inside a closure denotes an operand.
type operand struct {
	Ext   string // genValueInt, genValueUint, genValueShiftCount, genValueFloat, genComplex, genValue, genValueString, vInt, vUint, vFloat, vComplex, vString, rval, lit1, none
	Child int    // 0, 1 (operand index), 2 = the node itself (n), -1 = n/a
	Acc   string // accessor applied to a raw reflect.Value: "", String, Complex, Int, Uint, Float, Bool, Interface
}

func (o operand) lean() string {
	ext := o.Ext
	if !knownExt[ext] {
		ext = "unrecognised"
	}
	acc := o.Acc
	if acc == "" {
		acc = "none"
	}
	if !knownAcc[acc] {
		acc = "unrecognised"
	}
	ch := o.Child
	if ch < 0 {
		ch = 9
	}
	return fmt.Sprintf("⟨.%s, %d, .%s⟩", ext, ch, lower(acc))
}

var knownExt = map[string]bool{"genValueInt": true, "genValueUint": true, "genValueShiftCount": true, "genValueFloat": true, "genComplex": true, "genValue": true,
	"genValueString": true, "vInt": true, "vUint": true, "vFloat": true, "vComplex": true, "vString": true, "constValue": true, "rval": true, "lit1": true, "none": true}
var knownAcc = map[string]bool{"none": true, "String": true, "Complex": true, "Int": true, "Uint": true, "Float": true, "Bool": true, "Interface": true, "Pointer": true}

func lower(s string) string {
	if s == "" {
		return s
	}
	return strings.ToLower(s[:1]) + s[1:]
}

type entry struct {
	Fn      string // Go function name (add, addAssign, addConst, equal, neg, …)
	Cls     string // int, uint, uintNoPtr, float, complex, string, other, any
	Variant string // iface, cl, cr, vv, fold (xxxConst arms), plain
	Sub     string // none, br, val
	L, R    operand
	Tok     string // Lean constructor of the Go token
	Store   string // setInt, setUint, setFloat, setComplex, setString, setBool, convertTyp, branch, setValue
	Recv    string // dest, inplace, rval
	Line    int
}

type walker struct {
	fset  *token.FileSet
	out   []entry
	unrec []string
	fn    string
}

func (w *walker) bad(pos token.Pos, format string, a ...interface{}) {
	w.unrec = append(w.unrec, fmt.Sprintf("%s:%d: ", w.fn, w.fset.Position(pos).Line)+fmt.Sprintf(format, a...))
}

func src(n ast.Node) string {
	var b bytes.Buffer
	printer.Fprint(&b, token.NewFileSet(), n)
	return strings.Join(strings.Fields(b.String()), " ")
}

type ctx struct {
	cls, variant, sub string
	env               map[string]operand
	recvKind          map[string]string // identifier -> dest|inplace (for `v, i := v0(f)` / dest := genValue…)
}

func (c ctx) clone() ctx {
	n := c
	n.env = map[string]operand{}
	for k, v := range c.env {
		n.env[k] = v
	}
	n.recvKind = map[string]string{}
	for k, v := range c.recvKind {
		n.recvKind[k] = v
	}
	return n
}

var kindClasses = map[string]string{
	"Int,Int8,Int16,Int32,Int64":                 "int",
	"Uint,Uint8,Uint16,Uint32,Uint64,Uintptr":    "uint",
	"Uint,Uint8,Uint16,Uint32,Uint64":            "uintNoPtr",
	"Float32,Float64":                            "float",
	"Complex64,Complex128":                       "complex",
	"String":                                     "string",
	"Bool":                                       "bool",
}

func classOfCase(list []ast.Expr) string {
	var ks []string
	for _, e := range list {
		s, ok := e.(*ast.SelectorExpr)
		if !ok {
			return "unrecognised"
		}
		ks = append(ks, s.Sel.Name)
	}
	if c, ok := kindClasses[strings.Join(ks, ",")]; ok {
		return c
	}
	return "unrecognised"
}

// condLabel classifies a `case` condition of a tagless switch / an if condition.
func condLabel(e ast.Expr) (kind, label string) {
	s := src(e)
	switch s {
	case "isInterface":
		return "variant", "iface"
	case "c0.rval.IsValid()":
		return "variant", "cl"
	case "c1.rval.IsValid()":
		return "variant", "cr"
	case "n.fnext != nil":
		return "sub", "br"
	case "isConst":
		return "cls", "untypedConst"
	case "isString(t)", "isString(t0) || isString(t1)":
		return "cls", "string"
	case "isFloat(t)", "isFloat(t0) || isFloat(t1)":
		return "cls", "float"
	case "isUint(t)", "isUint(t0) || isUint(t1)":
		return "cls", "uint"
	case "isInt(t)", "isInt(t0) || isInt(t1)":
		return "cls", "int"
	case "isComplex(t)", "isComplex(t0) || isComplex(t1)":
		return "cls", "complex"
	case "c0.typ.cat == linkedT || c1.typ.cat == linkedT":
		return "cls", "linked"
	case "t0.Kind() == reflect.Interface || t1.Kind() == reflect.Interface":
		return "cls", "ifaceOperand"
	case "t0.Kind() == reflect.Chan && t1.Kind() == reflect.Chan && t0 != t1":
		return "cls", "chanMixed" // a bidirectional channel compared with a directional one (repair 6110e8a)
	}
	return "", ""
}

func childOf(e ast.Expr) (int, bool) {
	switch s := src(e); s {
	case "c0", "n.child[0]":
		return 0, true
	case "c1", "n.child[1]":
		return 1, true
	case "n":
		return 2, true
	case "c0.rval", "v0raw":
		return 0, true
	case "c1.rval":
		return 1, true
	}
	return -1, false
}

// bindCall interprets `x := f(arg)` outside a closure.
func (w *walker) bindCall(c *ctx, name string, call *ast.CallExpr) {
	fn := src(call.Fun)
	switch fn {
	case "genValueInt", "genValueUint", "genValueShiftCount", "genValueFloat", "genComplex", "genValue", "genValueString", "vInt", "vUint", "vFloat", "vComplex", "vString":
		if len(call.Args) == 1 {
			if ch, ok := childOf(call.Args[0]); ok {
				if ch == 2 { // dest := genValue(n)
					c.recvKind[name] = "dest"
					return
				}
				c.env[name] = operand{Ext: fn, Child: ch}
				return
			}
		}
	case "genValueOutput":
		c.recvKind[name] = "dest"
		return
	case "getExec", "isMapEntry", "reflect.TypeOf":
		return
	case "c0.rval.Interface":
		c.env[name] = operand{Ext: "rval", Child: 0, Acc: "Interface"}
		return
	case "c1.rval.Interface":
		c.env[name] = operand{Ext: "rval", Child: 1, Acc: "Interface"}
		return
	}
	// other helper bindings (typ, next, …) are irrelevant unless used as operands later
	c.env[name] = operand{Ext: "unrecognised:" + src(call), Child: -1}
}

// resolve turns an operand expression inside a closure into a symbolic operand.
func (w *walker) resolve(c *ctx, e ast.Expr) operand {
	switch x := e.(type) {
	case *ast.ParenExpr:
		return w.resolve(c, x.X)
	case *ast.Ident:
		if o, ok := c.env[x.Name]; ok {
			return o
		}
	case *ast.BasicLit:
		if x.Value == "1" {
			return operand{Ext: "lit1", Child: -1}
		}
	case *ast.CallExpr:
		// v0(f)  |  v0(f).String()  |  v.Complex()  |  v0.Int() (rval in xxxConst)
		if id, ok := x.Fun.(*ast.Ident); ok && len(x.Args) == 1 && src(x.Args[0]) == "f" {
			if o, ok := c.env[id.Name]; ok {
				return o
			}
		}
		if sel, ok := x.Fun.(*ast.SelectorExpr); ok && len(x.Args) == 0 {
			base := w.resolve(c, sel.X)
			if base.Ext != "" && !strings.HasPrefix(base.Ext, "unrecognised") && base.Acc == "" {
				base.Acc = sel.Sel.Name
				return base
			}
		}
		// vInt(v0) in xxxConst
		if id, ok := x.Fun.(*ast.Ident); ok && len(x.Args) == 1 {
			switch id.Name {
			case "vInt", "vUint", "vFloat", "vComplex", "vString", "constValue":
				if a, ok := x.Args[0].(*ast.Ident); ok {
					if o, ok := c.env[a.Name]; ok && o.Ext == "rval" && o.Acc == "" {
						return operand{Ext: id.Name, Child: o.Child}
					}
				}
			}
		}
	}
	return operand{Ext: "unrecognised:" + src(e), Child: -1}
}

var tokName = map[token.Token]string{
	token.ADD: "add", token.SUB: "sub", token.MUL: "mul", token.QUO: "quo", token.REM: "rem",
	token.AND: "and", token.OR: "or", token.XOR: "xor", token.AND_NOT: "andNot", token.SHL: "shl", token.SHR: "shr",
	token.EQL: "eql", token.NEQ: "neq", token.LSS: "lss", token.LEQ: "leq", token.GTR: "gtr", token.GEQ: "geq",
	token.NOT: "lnot",
}

// operation decomposes the stored / tested expression.
func (w *walker) operation(c *ctx, e ast.Expr) (l, r operand, tok string) {
	none := operand{Ext: "none", Child: -1}
	switch x := e.(type) {
	case *ast.ParenExpr:
		return w.operation(c, x.X)
	case *ast.BinaryExpr:
		t, ok := tokName[x.Op]
		if !ok {
			t = "unrecognised"
		}
		return w.resolve(c, x.X), w.resolve(c, x.Y), t
	case *ast.UnaryExpr:
		t := map[token.Token]string{token.SUB: "neg", token.ADD: "pos", token.XOR: "bitNot", token.NOT: "lnot"}[x.Op]
		if t == "" {
			t = "unrecognised"
		}
		return w.resolve(c, x.X), none, t
	}
	// a bare operand: pos() stores the value itself
	return w.resolve(c, e), none, "ident"
}

var storeName = map[string]string{"SetInt": "setInt", "SetUint": "setUint", "SetFloat": "setFloat", "SetComplex": "setComplex",
	"SetString": "setString", "SetBool": "setBool"}

func (w *walker) emit(c *ctx, pos token.Pos, recv ast.Expr, method string, arg ast.Expr) {
	e := entry{Fn: w.fn, Cls: c.cls, Variant: c.variant, Sub: c.sub, Line: w.fset.Position(pos).Line}
	if e.Cls == "" {
		e.Cls = "any"
	}
	if e.Variant == "" {
		e.Variant = "plain"
	}
	if e.Sub == "" {
		e.Sub = "none"
	}
	// receiver
	switch r := src(recv); {
	case r == "n.rval":
		e.Recv = "rval"
	case r == "dest(f)":
		e.Recv = "dest"
	default:
		if id, ok := recv.(*ast.Ident); ok && c.recvKind[id.Name] == "inplace" {
			e.Recv = "inplace"
		} else {
			e.Recv = "unrecognised"
			w.bad(pos, "receiver %s", r)
		}
	}
	if method == "setConstFloat" {
		// setConstFloat(n.rval, constant.BinaryOp(constValue(v0), token.ADD, constValue(v1)))
		// setConstFloat(n.rval, constant.UnaryOp(token.SUB, constValue(v0), 0))
		// exact go/constant arithmetic on the typed operands, rounded once to the type of n.rval
		e.Store = "setConstFloat"
		none := operand{Ext: "none", Child: -1}
		e.L, e.R, e.Tok = operand{Ext: "unrecognised:" + src(arg), Child: -1}, none, "unrecognised"
		tokOf := func(x ast.Expr, unary bool) string {
			m := map[string]string{"token.ADD": "add", "token.SUB": "sub", "token.MUL": "mul", "token.QUO": "quo"}
			if unary {
				m = map[string]string{"token.ADD": "pos", "token.SUB": "neg"}
			}
			if t, ok := m[src(x)]; ok {
				return t
			}
			return "unrecognised"
		}
		if call, ok := arg.(*ast.CallExpr); ok {
			switch {
			case src(call.Fun) == "constant.BinaryOp" && len(call.Args) == 3:
				e.L, e.Tok, e.R = w.resolve(c, call.Args[0]), tokOf(call.Args[1], false), w.resolve(c, call.Args[2])
			case src(call.Fun) == "constant.UnaryOp" && len(call.Args) == 3 && src(call.Args[2]) == "0":
				e.Tok, e.L = tokOf(call.Args[0], true), w.resolve(c, call.Args[1])
			}
		}
	} else if method == "Set" {
		// Set(reflect.ValueOf(EXPR).Convert(typ))  |  Set(value(f))  |  Set(reflect.ValueOf(v))
		s := src(arg)
		if strings.HasPrefix(s, "reflect.ValueOf(") && strings.HasSuffix(s, ").Convert(typ)") {
			call := arg.(*ast.CallExpr).Fun.(*ast.SelectorExpr).X.(*ast.CallExpr)
			e.Store = "convertTyp"
			e.L, e.R, e.Tok = w.operation(c, call.Args[0])
		} else if s == "reflect.ValueOf(v)" {
			e.Store = "constantValue" // untyped constant arithmetic through go/constant (C03's subject)
			e.L, e.R, e.Tok = operand{Ext: "none", Child: -1}, operand{Ext: "none", Child: -1}, "ident"
			if o, ok := c.env["v"]; ok {
				_ = o
			}
		} else {
			e.Store = "setValue"
			e.L, e.R, e.Tok = w.operation(c, arg)
		}
	} else {
		st, ok := storeName[method]
		if !ok {
			st = "unrecognised"
			w.bad(pos, "store method %s", method)
		}
		e.Store = st
		e.L, e.R, e.Tok = w.operation(c, arg)
	}
	for _, o := range []operand{e.L, e.R} {
		if strings.HasPrefix(o.Ext, "unrecognised") {
			w.bad(pos, "operand %s", o.Ext)
		}
	}
	if e.Tok == "unrecognised" {
		w.bad(pos, "operator in %s", src(arg))
	}
	w.out = append(w.out, e)
}

// storeCall recognises `RECV.SetXxx(ARG)`.
func storeCall(s ast.Stmt) (recv ast.Expr, method string, arg ast.Expr, ok bool) {
	es, isExpr := s.(*ast.ExprStmt)
	if !isExpr {
		return
	}
	call, isCall := es.X.(*ast.CallExpr)
	if !isCall || len(call.Args) != 1 {
		return
	}
	sel, isSel := call.Fun.(*ast.SelectorExpr)
	if !isSel || !strings.HasPrefix(sel.Sel.Name, "Set") || sel.Sel.Name == "SetMapIndex" {
		return
	}
	return sel.X, sel.Sel.Name, call.Args[0], true
}

// closure walks the body of `n.exec = func(f *frame) bltn {…}`.
func (w *walker) closure(c ctx, body *ast.BlockStmt) {
	c = c.clone()
	emitted := false
	for _, s := range body.List {
		switch st := s.(type) {
		case *ast.AssignStmt:
			if st.Tok != token.DEFINE {
				w.bad(st.Pos(), "assignment in closure: %s", src(st))
				continue
			}
			if len(st.Rhs) != 1 {
				w.bad(st.Pos(), "multi-rhs define")
				continue
			}
			if len(st.Lhs) == 2 {
				// _, i := v0(f)   |   v, i := v0(f)
				o := w.resolve(&c, st.Rhs[0])
				if a, ok := st.Lhs[0].(*ast.Ident); ok && a.Name != "_" {
					c.recvKind[a.Name] = "inplace"
					c.env[a.Name] = operand{Ext: "genValue", Child: o.Child}
				}
				if b, ok := st.Lhs[1].(*ast.Ident); ok && b.Name != "_" {
					c.env[b.Name] = o
				}
				continue
			}
			if id, ok := st.Lhs[0].(*ast.Ident); ok {
				o := w.resolve(&c, st.Rhs[0])
				c.env[id.Name] = o
				// `v := v0(f)` with v0 := genValue(c0): v is also the in-place destination (complex inc/dec/assign)
				if o.Ext == "genValue" && o.Acc == "" && o.Child == 0 {
					c.recvKind[id.Name] = "inplace"
				}
			}
		case *ast.ExprStmt:
			if recv, m, arg, ok := storeCall(st); ok {
				if emitted && m == "SetBool" && src(arg) == "false" {
					continue // second half of a branch form
				}
				w.emit(&c, st.Pos(), recv, m, arg)
				emitted = true
				continue
			}
			w.bad(st.Pos(), "statement in closure: %s", src(st))
		case *ast.IfStmt:
			// if COND { dest(f).SetBool(true); return tnext }   (branch form)   |   if setMap {…}
			if src(st.Cond) == "setMap" {
				continue
			}
			if len(st.Body.List) == 2 {
				if _, m, arg, ok := storeCall(st.Body.List[0]); ok && m == "SetBool" && src(arg) == "true" {
					e := entry{Fn: w.fn, Cls: c.cls, Variant: c.variant, Sub: c.sub, Store: "branch", Recv: "dest", Line: w.fset.Position(st.Pos()).Line}
					if e.Sub == "" {
						e.Sub = "none"
					}
					if e.Cls == "" {
						e.Cls = "any"
					}
					if e.Variant == "" {
						e.Variant = "plain"
					}
					e.L, e.R, e.Tok = w.operation(&c, st.Cond)
					for _, o := range []operand{e.L, e.R} {
						if strings.HasPrefix(o.Ext, "unrecognised") {
							w.bad(st.Pos(), "operand %s", o.Ext)
						}
					}
					w.out = append(w.out, e)
					emitted = true
					continue
				}
			}
			w.bad(st.Pos(), "if in closure: %s", src(st.Cond))
		case *ast.ReturnStmt:
		default:
			w.bad(s.Pos(), "statement in closure: %s", src(s))
		}
	}
	if !emitted {
		w.bad(body.Pos(), "closure stores nothing")
	}
}

// stmts walks generator-level statements.
func (w *walker) stmts(c ctx, list []ast.Stmt) {
	c = c.clone()
	for i, s := range list {
		switch st := s.(type) {
		case *ast.AssignStmt:
			if src(st.Lhs[0]) == "n.exec" {
				if fl, ok := st.Rhs[0].(*ast.FuncLit); ok {
					w.closure(c, fl.Body)
				} else {
					w.bad(st.Pos(), "n.exec = %s", src(st.Rhs[0]))
				}
				continue
			}
			if src(st.Lhs[0]) == "n.rval" {
				continue // n.rval = reflect.New(t).Elem()
			}
			if st.Tok == token.DEFINE && len(st.Lhs) == 1 && len(st.Rhs) == 1 {
				name := st.Lhs[0].(*ast.Ident).Name
				if call, ok := st.Rhs[0].(*ast.CallExpr); ok {
					if name == "v" && (strings.HasPrefix(src(call.Fun), "constant.")) {
						continue // v := constant.BinaryOp(…): untyped constant arithmetic (C03)
					}
					w.bindCall(&c, name, call)
					continue
				}
				switch src(st.Rhs[0]) {
				case "n.child[0]":
					continue
				case "n.child[0].rval":
					c.env[name] = operand{Ext: "rval", Child: 0}
					continue
				}
				continue
			}
			if st.Tok == token.DEFINE && len(st.Lhs) == 2 && len(st.Rhs) == 2 {
				for k := range st.Lhs {
					name := st.Lhs[k].(*ast.Ident).Name
					switch src(st.Rhs[k]) {
					case "n.child[0].rval":
						c.env[name] = operand{Ext: "rval", Child: 0}
					case "n.child[1].rval":
						c.env[name] = operand{Ext: "rval", Child: 1}
					}
				}
				continue
			}
		case *ast.DeclStmt:
		case *ast.SwitchStmt:
			if st.Tag != nil {
				tag := src(st.Tag)
				if tag != "typ.Kind()" && tag != "n.typ.TypeOf().Kind()" {
					w.bad(st.Pos(), "switch tag %s", tag)
					continue
				}
				for _, cc := range st.Body.List {
					cl := cc.(*ast.CaseClause)
					c2 := c.clone()
					c2.cls = classOfCase(cl.List)
					if c2.cls == "unrecognised" {
						w.bad(cl.Pos(), "kind list %s", src(cl))
					}
					w.stmts(c2, cl.Body)
				}
				continue
			}
			for _, cc := range st.Body.List {
				cl := cc.(*ast.CaseClause)
				c2 := c.clone()
				if cl.List == nil {
					// default
					if c.variantSwitch(st) {
						c2.variant = "vv"
					} else {
						c2.cls = "other"
					}
				} else {
					// `case isComplex(t), isFloat(t):` — one walk of the body per listed condition, in source order
					okAll := true
					var walks []ctx
					for _, cond := range cl.List {
						k, l := condLabel(cond)
						c3 := c.clone()
						switch {
						case k == "variant" && len(cl.List) == 1:
							c3.variant = l
						case k == "cls":
							c3.cls = l
							if w.isConstFn() {
								c3.variant = "fold"
							}
						default:
							w.bad(cl.Pos(), "case condition %s", src(cond))
							okAll = false
						}
						walks = append(walks, c3)
					}
					if okAll {
						for _, c3 := range walks {
							w.stmts(c3, cl.Body)
						}
					}
					continue
				}
				w.stmts(c2, cl.Body)
			}
		case *ast.IfStmt:
			k, l := condLabel(st.Cond)
			cond := src(st.Cond)
			switch {
			case cond == "setMap" || cond == "isConst" && w.isConstFn() && st.Else == nil && !hasStore(st.Body):
				continue
			case k == "variant" && l == "cr": // xxxAssign: if c1.rval.IsValid() {…} else {…}
				c2 := c.clone()
				c2.variant = "cr"
				w.stmts(c2, st.Body.List)
				if st.Else != nil {
					c3 := c.clone()
					c3.variant = "vv"
					w.stmts(c3, st.Else.(*ast.BlockStmt).List)
				}
			case k == "variant" && l == "iface": // neg/bitNot: if isInterface { n.exec = …; return }
				c2 := c.clone()
				c2.variant = "iface"
				w.stmts(c2, st.Body.List)
				c.variant = "plain"
			case k == "sub":
				c2 := c.clone()
				c2.sub = "br"
				w.stmts(c2, st.Body.List)
				if st.Else != nil {
					c3 := c.clone()
					c3.sub = "val"
					w.stmts(c3, st.Else.(*ast.BlockStmt).List)
				}
			case k == "cls" && (l == "linked" || l == "ifaceOperand" || l == "chanMixed"): // equal/notEqual: comparison through interface{} values / channel pointers
				c2 := c.clone()
				c2.cls = l
				w.stmts(c2, st.Body.List)
			case c.cls == "untypedConst":
				continue // choice of the go/constant operator (quoConst): untyped constant arithmetic is C03's subject
			case cond == "isConst" && w.isConstFn(): // notConst: if isConst {…} else { n.rval.SetBool(!v0.Bool()) }
				if st.Else != nil {
					c3 := c.clone()
					c3.cls, c3.variant = "bool", "fold"
					w.stmts(c3, st.Else.(*ast.BlockStmt).List)
				}
				c2 := c.clone()
				c2.cls, c2.variant = "untypedConst", "fold"
				w.stmts(c2, st.Body.List)
			default:
				w.bad(st.Pos(), "if %s", cond)
			}
		case *ast.ExprStmt:
			if recv, m, arg, ok := storeCall(st); ok {
				w.emit(&c, st.Pos(), recv, m, arg)
				continue
			}
			if call, ok := st.X.(*ast.CallExpr); ok && src(call.Fun) == "setConstFloat" && len(call.Args) == 2 {
				w.emit(&c, st.Pos(), call.Args[0], "setConstFloat", call.Args[1])
				continue
			}
			w.bad(st.Pos(), "statement %s", src(st))
		case *ast.ReturnStmt:
		default:
			w.bad(s.Pos(), "statement %d: %s", i, src(s))
		}
	}
}

func hasStore(b *ast.BlockStmt) bool {
	for _, s := range b.List {
		if _, _, _, ok := storeCall(s); ok {
			return true
		}
	}
	return false
}

func (w *walker) isConstFn() bool { return strings.HasSuffix(w.fn, "Const") }

// variantSwitch: a tagless switch whose cases are the variant conditions.
func (c ctx) variantSwitch(st *ast.SwitchStmt) bool {
	for _, cc := range st.Body.List {
		cl := cc.(*ast.CaseClause)
		if cl.List != nil {
			k, _ := condLabel(cl.List[0])
			return k == "variant"
		}
	}
	return false
}

// ---------- the widening table ----------

type widenEntry struct {
	Fn, Cls, Conv string
}

// convExpr renders the conversion applied to v as a Lean term of type Conv. env: local variables of the extractor's
// closure bound to a conversion of v (`i := v.Int()`).
func convExpr(e ast.Expr, env map[string]string) string {
	switch x := e.(type) {
	case *ast.ParenExpr:
		return convExpr(x.X, env)
	case *ast.Ident:
		if c, ok := env[x.Name]; ok {
			return c
		}
	case *ast.CallExpr:
		f := src(x.Fun)
		switch f {
		case "v.Int", "value(f).Int":
			return ".int"
		case "v.Uint", "value(f).Uint":
			return ".uint"
		case "v.Float", "value(f).Float":
			return ".float"
		case "v.Complex", "value(f).Complex":
			return ".complex"
		case "int8", "int16", "int32", "int64", "int", "uint8", "uint16", "uint32", "uint64", "uint", "uintptr", "float32", "float64", "real":
			if len(x.Args) == 1 {
				return "(.cast ." + castName(f) + " " + convExpr(x.Args[0], env) + ")"
			}
		case "complex":
			if len(x.Args) == 2 && src(x.Args[1]) == "0" {
				return "(.cast .complexRe " + convExpr(x.Args[0], env) + ")"
			}
		}
	}
	return "(.unrecognised)"
}

func castName(s string) string {
	if s == "real" {
		return "realPart"
	}
	return "t" + strings.ToUpper(s[:1]) + s[1:]
}

// closureConv interprets the body of an extractor's closure
//
//	func(f *frame) (reflect.Value, T) { v := value(f); [NAME := CONV;] [_ = 0 << NAME;] return v, CONV }
//
// and returns the conversion of v it yields. `_ = 0 << NAME` (a run-time panic for a negative signed NAME) wraps the
// conversion bound to NAME in `.nonNeg`. Any other statement makes the result unrecognised.
func closureConv(fl *ast.FuncLit) string {
	env := map[string]string{}
	n := len(fl.Body.List)
	for k, s := range fl.Body.List {
		switch st := s.(type) {
		case *ast.AssignStmt:
			if len(st.Lhs) != 1 || len(st.Rhs) != 1 {
				return "(.unrecognised)"
			}
			lhs := src(st.Lhs[0])
			switch {
			case st.Tok == token.DEFINE && lhs == "v" && src(st.Rhs[0]) == "value(f)":
			case st.Tok == token.DEFINE && lhs != "_":
				env[lhs] = convExpr(st.Rhs[0], env)
			case st.Tok == token.ASSIGN && lhs == "_":
				// _ = 0 << NAME
				be, ok := st.Rhs[0].(*ast.BinaryExpr)
				if !ok || be.Op != token.SHL || src(be.X) != "0" {
					return "(.unrecognised)"
				}
				id, ok := be.Y.(*ast.Ident)
				if !ok || env[id.Name] == "" {
					return "(.unrecognised)"
				}
				env[id.Name] = "(.nonNeg " + env[id.Name] + ")"
			default:
				return "(.unrecognised)"
			}
		case *ast.ReturnStmt:
			if k != n-1 || len(st.Results) == 0 {
				return "(.unrecognised)"
			}
			return convExpr(st.Results[len(st.Results)-1], env)
		default:
			return "(.unrecognised)"
		}
	}
	return "(.unrecognised)"
}

// widenOf walks a genValueXxx / vXxx function: `switch KIND { case reflect.Int…: <return closure | i = EXPR> }`.
// delegate: the function ends with `return OTHER(n)`: the kind classes without an arm of their own are OTHER's.
func widenOf(fd *ast.FuncDecl, unrec *[]string) (out []widenEntry, delegate string) {
	name := fd.Name.Name
	var sw *ast.SwitchStmt
	for _, s := range fd.Body.List {
		if st, ok := s.(*ast.SwitchStmt); ok && st.Tag != nil {
			sw = st
		}
	}
	if sw == nil {
		*unrec = append(*unrec, name+": no kind switch")
		return nil, ""
	}
	if tag := src(sw.Tag); tag != "n.typ.TypeOf().Kind()" && tag != "v.Type().Kind()" && tag != "v.Kind()" {
		*unrec = append(*unrec, name+": switch tag "+tag)
	}
	if last, ok := fd.Body.List[len(fd.Body.List)-1].(*ast.ReturnStmt); ok && len(last.Results) == 1 {
		if call, ok := last.Results[0].(*ast.CallExpr); ok {
			if len(call.Args) == 1 && src(call.Args[0]) == "n" && strings.HasPrefix(src(call.Fun), "genValue") {
				delegate = src(call.Fun)
			} else {
				*unrec = append(*unrec, name+": final "+src(last))
			}
		}
	}
	// vXxx: `if c := vConstantValue(v); c != nil { i, _ = constant.Int64Val(constant.ToInt(c)); return i }`
	if first, ok := fd.Body.List[0].(*ast.IfStmt); ok && first.Init != nil && src(first.Init) == "c := vConstantValue(v)" {
		conv := "(.unrecognised)"
		body := src(first.Body)
		switch {
		case strings.Contains(body, "i, _ = constant.Int64Val(constant.ToInt(c))"):
			conv = ".constInt64"
		case strings.Contains(body, "i, _ = constant.Uint64Val(constant.ToInt(c))"):
			conv = ".constUint64"
		case strings.Contains(body, "i, _ = constant.Float64Val(constant.ToFloat(c))"):
			conv = ".constFloat64"
		case strings.Contains(body, "c = constant.ToComplex(c)") && strings.Contains(body, "return complex(rel, img)"):
			conv = ".constComplex"
		default:
			*unrec = append(*unrec, name+": constant arm")
		}
		out = append(out, widenEntry{name, "untypedConst", conv})
	} else if strings.HasPrefix(name, "v") {
		*unrec = append(*unrec, name+": no constant arm")
	}
	for _, cc := range sw.Body.List {
		cl := cc.(*ast.CaseClause)
		cls := classOfCase(cl.List)
		conv := "(.unrecognised)"
		var find func(n ast.Node) bool
		find = func(n ast.Node) bool {
			switch x := n.(type) {
			case *ast.ReturnStmt:
				// return func(f *frame) (reflect.Value, int64) { v := value(f); return v, CONV }   |   return func(f) complex128 { return CONV }
				if len(x.Results) == 1 {
					if fl, ok := x.Results[0].(*ast.FuncLit); ok {
						conv = closureConv(fl)
						return false
					}
				}
			case *ast.AssignStmt:
				if x.Tok == token.ASSIGN && len(x.Lhs) == 1 && (src(x.Lhs[0]) == "i" || src(x.Lhs[0]) == "c") {
					conv = convExpr(x.Rhs[0], nil)
					return false
				}
			}
			return true
		}
		for _, s := range cl.Body {
			ast.Inspect(s, find)
		}
		if conv == "(.unrecognised)" || cls == "unrecognised" {
			*unrec = append(*unrec, fmt.Sprintf("%s: arm %s", name, src(cl)[:40]))
		}
		out = append(out, widenEntry{name, cls, conv})
	}
	return out, delegate
}

// ---------- run.go convert: its arms, in source order ----------

type convArm struct{ Guard, Act string }

// convClosure classifies the closure assigned to n.exec by an arm of convert.
func convClosure(fl *ast.FuncLit, flagConst bool) string {
	var body []ast.Stmt
	for _, s := range fl.Body.List {
		if _, ok := s.(*ast.ReturnStmt); ok {
			continue
		}
		body = append(body, s)
	}
	if len(body) != 1 {
		return "unrecognised"
	}
	switch src(body[0]) {
	case "dest(f).Set(reflect.New(typ).Elem())":
		return "zeroValue"
	case "fn(value(f), dest(f))":
		return "hook"
	case "if doConvert { dest(f).Set(value(f).Convert(typ)) } else { dest(f).Set(value(f)) }":
		if flagConst { // doConvert := true is its only assignment: the else branch is dead
			return "reflectConvert"
		}
	}
	return "unrecognised"
}

// execOf finds the single `n.exec = func…` below a statement (nil, 0 if none).
func execOf(s ast.Node) (fl *ast.FuncLit, count int) {
	ast.Inspect(s, func(n ast.Node) bool {
		if as, ok := n.(*ast.AssignStmt); ok && len(as.Lhs) == 1 && src(as.Lhs[0]) == "n.exec" {
			count++
			fl, _ = as.Rhs[0].(*ast.FuncLit)
			return false
		}
		return true
	})
	return fl, count
}

// convertArms walks run.go convert: every top-level statement that installs a closure is an arm.
func convertArms(fd *ast.FuncDecl, unrec *[]string) []convArm {
	var out []convArm
	// doConvert must be assigned exactly once, by `doConvert := true`
	nAssign, okInit := 0, false
	ast.Inspect(fd.Body, func(n ast.Node) bool {
		if as, ok := n.(*ast.AssignStmt); ok {
			for _, l := range as.Lhs {
				if src(l) == "doConvert" {
					nAssign++
					okInit = okInit || src(as) == "doConvert := true"
				}
			}
		}
		return true
	})
	flagConst := nAssign == 1 && okInit
	for _, st := range fd.Body.List {
		fl, cnt := execOf(st)
		if cnt == 0 {
			continue // bindings (dest, c, typ, next, doConvert, value)
		}
		arm := convArm{Act: "unrecognised"}
		switch x := st.(type) {
		case *ast.IfStmt:
			arm.Guard = src(x.Cond)
			if x.Else != nil || cnt != 1 {
				fl = nil
			}
		case *ast.RangeStmt:
			arm.Guard = "range " + src(x.X)
			if cnt != 1 {
				fl = nil
			}
		case *ast.AssignStmt:
			arm.Guard = ""
		default:
			arm.Guard = "unrecognised: " + src(st)
			fl = nil
		}
		if fl != nil {
			arm.Act = convClosure(fl, flagConst)
		}
		if arm.Act == "unrecognised" {
			*unrec = append(*unrec, fmt.Sprintf("convert: arm with guard %q", arm.Guard))
		}
		out = append(out, arm)
	}
	return out
}

func main() {
	common.Main("C02", func(repo string) (string, error) {
		fset, opf, err := common.ParseFile(repo, "interp/op.go")
		if err != nil {
			return "", err
		}
		fsetRun, runf, err := common.ParseFile(repo, "interp/run.go")
		if err != nil {
			return "", err
		}
		fsetR := token.NewFileSet()
		_ = fsetR
		_, valf, err := common.ParseFile(repo, "interp/value.go")
		if err != nil {
			return "", err
		}
		w := &walker{fset: fset}
		var fns []string
		for _, d := range opf.Decls {
			if fd, ok := d.(*ast.FuncDecl); ok && fd.Recv == nil {
				fns = append(fns, fd.Name.Name)
				w.fn = fd.Name.Name
				w.stmts(ctx{env: map[string]operand{}, recvKind: map[string]string{}}, fd.Body.List)
			}
		}
		// hand-written unary operators of run.go
		for _, name := range []string{"neg", "pos", "bitNot", "not"} {
			fd := common.FindFunc(runf, "", name)
			if fd == nil {
				w.unrec = append(w.unrec, "run.go: func "+name+" not found")
				continue
			}
			w.fn = name
			c := ctx{env: map[string]operand{"value": {Ext: "genValue", Child: 0}}, recvKind: map[string]string{"dest": "dest"}}
			w.stmts(c, fd.Body.List)
		}
		var widen []widenEntry
		byName := map[string][]widenEntry{}
		for _, name := range []string{"genValueInt", "genValueUint", "genValueShiftCount", "genValueFloat", "genComplex", "vInt", "vUint", "vFloat", "vComplex"} {
			fd := common.FindFunc(valf, "", name)
			if fd == nil {
				w.unrec = append(w.unrec, "value.go: func "+name+" not found")
				continue
			}
			es, delegate := widenOf(fd, &w.unrec)
			if delegate != "" {
				// `return genValueUint(n)` after the switch: the remaining kind classes are read as genValueUint reads them
				target, ok := byName[delegate]
				if !ok {
					w.unrec = append(w.unrec, "value.go: "+name+" delegates to "+delegate+", which was not walked before it")
				}
				own := map[string]bool{}
				for _, e := range es {
					own[e.Cls] = true
				}
				for _, e := range target {
					if !own[e.Cls] {
						es = append(es, widenEntry{name, e.Cls, e.Conv})
					}
				}
			}
			byName[name] = es
			widen = append(widen, es...)
		}
		sort.Strings(fns)

		var b strings.Builder
		b.WriteString("import YaegiVerif.Model.Ops\nnamespace YaegiVerif.Generated.C02\nopen YaegiVerif.Ops\n\n")
		b.WriteString("/-- interp/op.go + run.go neg/pos/bitNot/not: one entry per generated closure, in source order -/\n")
		// one definition per function so that ties and diagnostics are per function
		byFn := map[string][]entry{}
		var order []string
		for _, e := range w.out {
			if _, ok := byFn[e.Fn]; !ok {
				order = append(order, e.Fn)
			}
			byFn[e.Fn] = append(byFn[e.Fn], e)
		}
		for _, fn := range order {
			fmt.Fprintf(&b, "def t_%s : List Entry := [\n", fn)
			for i, e := range byFn[fn] {
				sep := ","
				if i == len(byFn[fn])-1 {
					sep = ""
				}
				fmt.Fprintf(&b, "  ⟨.%s, .%s, .%s, .%s, %s, %s, .%s, .%s, .%s⟩%s\n", fnLean(e.Fn), clsLean(e.Cls), e.Variant, e.Sub, e.L.lean(), e.R.lean(), tokLean(e.Tok), storeLean(e.Store), recvLean(e.Recv), sep)
			}
			b.WriteString("]\n")
		}
		b.WriteString("\ndef opTable : List Entry :=\n  ")
		for i, fn := range order {
			if i > 0 {
				b.WriteString(" ++ ")
				if i%8 == 0 {
					b.WriteString("\n  ")
				}
			}
			b.WriteString("t_" + fn)
		}
		if len(order) == 0 {
			b.WriteString("[]")
		}
		b.WriteString("\n\n/-- interp/value.go: conversion applied per source kind class by each widening function -/\ndef widenTable : List WidenEntry := [\n")
		for i, e := range widen {
			sep := ","
			if i == len(widen)-1 {
				sep = ""
			}
			fmt.Fprintf(&b, "  ⟨.%s, .%s, %s⟩%s\n", e.Fn, clsLean(e.Cls), e.Conv, sep)
		}
		b.WriteString("]\n\n/-- the functions of interp/op.go, sorted -/\ndef opFunctions : List String :=\n  " + common.LeanStrList(fns) + "\n")
		// run.go convert
		b.WriteString("\n/-- interp/run.go convert: its arms in source order (guard as written, action of the closure) -/\ndef convertArms : List ConvArm := [")
		if fd := common.FindFunc(runf, "", "convert"); fd == nil {
			w.unrec = append(w.unrec, "run.go: func convert not found")
		} else {
			for i, a := range convertArms(fd, &w.unrec) {
				if i > 0 {
					b.WriteString(", ")
				}
				fmt.Fprintf(&b, "⟨%s, .%s⟩", common.LeanStr(a.Guard), a.Act)
			}
		}
		b.WriteString("]\n\n/-- fingerprint of the functions read structurally only -/\ndef sourceHashes : List (String × String) :=\n  " +
			common.HashTable(fsetRun, runf, [][2]string{{"", "convert"}}) + "\n")
		b.WriteString("\n/-- source constructs the extractor could not interpret (must be empty) -/\ndef unrecognised : List String :=\n  " + common.LeanStrList(w.unrec) + "\n")
		b.WriteString("\nend YaegiVerif.Generated.C02\n")
		return b.String(), nil
	})
}

var knownFn = map[string]bool{}

func init() {
	for _, op := range []string{"add", "sub", "mul", "quo", "rem", "and", "or", "xor", "andNot", "shl", "shr"} {
		knownFn[op], knownFn[op+"Assign"], knownFn[op+"Const"] = true, true, true
	}
	for _, f := range []string{"inc", "dec", "equal", "notEqual", "lower", "lowerEqual", "greater", "greaterEqual",
		"bitNotConst", "negConst", "notConst", "posConst", "neg", "pos", "bitNot", "not"} {
		knownFn[f] = true
	}
}

func fnLean(s string) string {
	if knownFn[s] {
		return "f_" + s
	}
	return "f_unrecognised"
}

func clsLean(s string) string {
	switch s {
	case "int", "uint", "uintNoPtr", "float", "complex", "string", "bool", "other", "any", "untypedConst", "linked", "ifaceOperand", "chanMixed":
		return s
	}
	return "unrecognised"
}

func tokLean(s string) string {
	switch s {
	case "add", "sub", "mul", "quo", "rem", "and", "or", "xor", "andNot", "shl", "shr", "eql", "neq", "lss", "leq", "gtr", "geq",
		"neg", "pos", "bitNot", "lnot", "ident":
		return s
	}
	return "unrecognised"
}

func storeLean(s string) string {
	switch s {
	case "setInt", "setUint", "setFloat", "setComplex", "setString", "setBool", "convertTyp", "branch", "setValue", "constantValue", "setConstFloat":
		return s
	}
	return "unrecognised"
}

func recvLean(s string) string {
	switch s {
	case "dest", "inplace", "rval":
		return s
	}
	return "unrecognised"
}
