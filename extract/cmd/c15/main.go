// extract-C15: facts about the order in which a package is run, read from the source text:
//
//   - the sequence of phases in (*Interpreter).Execute (interp/program.go), CompileAST and
//     importSrc (interp/src.go), as tokens in source order (see tokens below);
//   - fingerprints of the functions that Model/VarInit.lean transcribes by hand
//     (getVars, genGlobalVars, genGlobalVarDecl, getVarDependencies, equalNodes);
//   - which function declarations are init functions (initFacts): the conjuncts of the condition
//     under which cfg (interp/cfg.go, pre-order processing of a funcDecl node) adds the node to
//     initNodes, how it adds it, how importSrc joins the lists of the files of a directory, and the
//     cases of the switch of gta (interp/gta.go) that decides which function declarations get a
//     symbol in the package scope; fingerprints of those statements and of the loops that run the list.
//
//   - how the dependencies of a variable specification are found (depFacts): how getVarDependencies
//     resolves an identifier (by name in the package scope, or by the symbol cfg attached to the
//     node), whether it follows references to functions / to methods, whether a reference of a
//     specification to itself is dropped; whether gta makes the variables of `var a, b = f()` global
//     symbols carrying their node and comes back to the declaration until the callee is declared;
//     whether ast takes `var a, b = x, y` apart at package level; whether genGlobalVarDecl collects the
//     dependencies of every specification (no skipped kinds); which method selectors matchSelectorMethod
//     tags with aGetMethod (method expressions and methods with receiver); fingerprints of those statements.
//
// A construct that is no longer recognised yields a token "unrecognised: …", which cannot equal
// the hand-written expectation.
package main

import (
	"bytes"
	"crypto/sha256"
	"fmt"
	"go/ast"
	"go/printer"
	"go/token"
	"strconv"
	"strings"

	"verif/extract/common"
)

func exprString(e ast.Expr) string {
	switch x := e.(type) {
	case *ast.Ident:
		return x.Name
	case *ast.SelectorExpr:
		return exprString(x.X) + "." + x.Sel.Name
	case *ast.IndexExpr:
		return exprString(x.X) + "[" + exprString(x.Index) + "]"
	case *ast.CallExpr:
		args := make([]string, len(x.Args))
		for i, a := range x.Args {
			args[i] = exprString(a)
		}
		s := exprString(x.Fun) + "(" + strings.Join(args, ",")
		if x.Ellipsis != token.NoPos {
			s += "..."
		}
		return s + ")"
	case *ast.BasicLit:
		return x.Value
	case *ast.CompositeLit:
		return "lit{…}"
	}
	return "?"
}

// tokens walks a function body in source order and names the steps the model knows:
//
//	once      `if interp.srcPkg[importPath] != nil {` … return        (importSrc: already imported)
//	rdir-check `if interp.rdir[importPath] {` … return error          (import cycle)
//	rdir-set  `interp.rdir[importPath] = true`
//	gta       call of interp.gta / interp.gtaRetry (imports are processed there, first one only)
//	cfg       call of interp.cfg (first one only)
//	register  `interp.srcPkg[importPath] = gs.sym`
//	root      interp.run(p.root, nil), or interp.run(n, nil) in a loop over rootNodes
//	gen       call of genGlobalVars
//	globals   interp.run(n, nil) outside any loop
//	main-last `initNodes = append(initNodes, m.node)`
//	init      interp.run(n, interp.frame) in a loop over p.init / initNodes
func tokens(fd *ast.FuncDecl) []string {
	if fd == nil || fd.Body == nil {
		return []string{"unrecognised: function not found"}
	}
	var out []string
	seen := map[string]bool{}
	once := func(t string) {
		if !seen[t] {
			seen[t] = true
			out = append(out, t)
		}
	}
	var walk func(n ast.Node, loop string)
	walk = func(n ast.Node, loop string) {
		ast.Inspect(n, func(m ast.Node) bool {
			switch x := m.(type) {
			case *ast.FuncLit:
				return false // deferred recover closure etc.
			case *ast.RangeStmt:
				walk(x.Body, exprString(x.X))
				return false
			case *ast.ForStmt:
				walk(x.Body, "for")
				return false
			case *ast.IfStmt:
				if exprString(x.Cond) == "interp.rdir[importPath]" {
					ret := false
					for _, s := range x.Body.List {
						if _, ok := s.(*ast.ReturnStmt); ok {
							ret = true
						}
					}
					if ret {
						out = append(out, "rdir-check")
					} else {
						out = append(out, "unrecognised: rdir test without return")
					}
					return false
				}
				if c, ok := x.Cond.(*ast.BinaryExpr); ok && c.Op == token.NEQ && exprString(c.X) == "interp.srcPkg[importPath]" && exprString(c.Y) == "nil" {
					ret := false
					for _, s := range x.Body.List {
						if _, ok := s.(*ast.ReturnStmt); ok {
							ret = true
						}
					}
					if ret {
						out = append(out, "once")
					} else {
						out = append(out, "unrecognised: srcPkg test without return")
					}
					return false
				}
			case *ast.AssignStmt:
				if len(x.Lhs) == 1 && len(x.Rhs) == 1 {
					l, r := exprString(x.Lhs[0]), exprString(x.Rhs[0])
					if l == "interp.rdir[importPath]" {
						if r == "true" {
							out = append(out, "rdir-set")
						} else {
							out = append(out, "unrecognised: rdir = "+r)
						}
					}
					if l == "interp.srcPkg[importPath]" {
						out = append(out, "register")
					}
					if l == "initNodes" && strings.HasPrefix(r, "append(") && strings.Contains(r, "m.node") {
						if r == "append(initNodes,m.node)" {
							out = append(out, "main-last")
						} else {
							out = append(out, "unrecognised: "+r)
						}
					}
				}
			case *ast.CallExpr:
				f := exprString(x.Fun)
				switch f {
				case "interp.gta", "interp.gtaRetry":
					once("gta")
				case "interp.cfg":
					once("cfg")
				case "genGlobalVars":
					out = append(out, "gen")
				case "interp.run":
					if len(x.Args) != 2 {
						out = append(out, "unrecognised: interp.run arity")
						break
					}
					a0, a1 := exprString(x.Args[0]), exprString(x.Args[1])
					switch {
					case a0 == "p.root" && loop == "":
						out = append(out, "root")
					case a0 == "n" && loop == "rootNodes":
						out = append(out, "root")
					case a0 == "n" && loop == "" && a1 == "nil":
						out = append(out, "globals")
					case a0 == "n" && (loop == "p.init" || loop == "initNodes") && a1 == "interp.frame":
						out = append(out, "init")
					default:
						out = append(out, "unrecognised: interp.run("+a0+","+a1+") in loop "+loop)
					}
				}
			}
			return true
		})
	}
	walk(fd.Body, "")
	return out
}


// render prints a node without comments and without any white space.
func render(n ast.Node) string {
	var b bytes.Buffer
	if err := (&printer.Config{Mode: printer.RawFormat}).Fprint(&b, token.NewFileSet(), n); err != nil {
		return "?" + err.Error()
	}
	return strings.Join(strings.Fields(b.String()), "")
}

// nodeHash is common.FuncHash for an arbitrary statement.
func nodeHash(n ast.Node) string {
	if n == nil {
		return "unrecognised: statement not found"
	}
	var b bytes.Buffer
	if err := (&printer.Config{Mode: printer.RawFormat}).Fprint(&b, token.NewFileSet(), n); err != nil {
		return "unrecognised: " + err.Error()
	}
	norm := strings.Join(strings.Fields(b.String()), " ")
	return fmt.Sprintf("%x", sha256.Sum256([]byte(norm)))[:16]
}

func other(s string) string { return ".other " + common.LeanStr(s) }

// conjuncts flattens a && b && (c && d).
func conjuncts(e ast.Expr) []ast.Expr {
	switch x := e.(type) {
	case *ast.ParenExpr:
		return conjuncts(x.X)
	case *ast.BinaryExpr:
		if x.Op == token.LAND {
			return append(conjuncts(x.X), conjuncts(x.Y)...)
		}
	}
	return []ast.Expr{e}
}

// regCond names one conjunct of the registration condition (Lean constructor of VarInit.RegCond).
//
//	n.child[1].ident == "s"                  .nameIs "s"
//	strings.HasPrefix(n.child[1].ident, "s") .namePrefix "s"
//	strings.EqualFold(n.child[1].ident, "s") .nameFold "s"
//	len(n.child[0].child) == 0               .recvEmpty      (child[0] of a funcDecl: the receiver field list)
//	len(n.child[2].child[k].child) == 0      .tparamsEmpty / .paramsEmpty / .resultsEmpty  (child[2]: the funcType; k = 0, 1, 2)
func regCond(e ast.Expr) string {
	t := render(e)
	const pre = `n.child[1].ident==`
	if strings.HasPrefix(t, pre) {
		if b, ok := e.(*ast.BinaryExpr); ok && b.Op == token.EQL {
			if l, ok := b.Y.(*ast.BasicLit); ok && l.Kind == token.STRING {
				if v, err := strconv.Unquote(l.Value); err == nil {
					return ".nameIs " + common.LeanStr(v)
				}
			}
		}
	}
	for _, fn := range [][2]string{{"strings.HasPrefix", ".namePrefix "}, {"strings.EqualFold", ".nameFold "}} {
		if c, ok := e.(*ast.CallExpr); ok && render(c.Fun) == fn[0] && len(c.Args) == 2 && render(c.Args[0]) == "n.child[1].ident" {
			if l, ok := c.Args[1].(*ast.BasicLit); ok && l.Kind == token.STRING {
				if v, err := strconv.Unquote(l.Value); err == nil {
					return fn[1] + common.LeanStr(v)
				}
			}
		}
	}
	switch t {
	case "len(n.child[0].child)==0":
		return ".recvEmpty"
	case "len(n.child[2].child[0].child)==0":
		return ".tparamsEmpty"
	case "len(n.child[2].child[1].child)==0":
		return ".paramsEmpty"
	case "len(n.child[2].child[2].child)==0":
		return ".resultsEmpty"
	}
	return other(t)
}

func leanList(xs []string) string { return "[" + strings.Join(xs, ", ") + "]" }

// isIdent reports whether e is the identifier name.
func isIdent(e ast.Expr, name string) bool {
	id, ok := e.(*ast.Ident)
	return ok && id.Name == name
}

// cfgInitFacts finds, in the function cfg, every assignment to initNodes and reads the one it
// expects: `if COND { initNodes = append(initNodes, n) }` directly in the `case funcDecl:` clause
// of the pre-order function (the first function literal passed to root.Walk).
func cfgInitFacts(fd *ast.FuncDecl) (register, add string, site ast.Node) {
	if fd == nil || fd.Body == nil {
		return leanList([]string{other("function cfg not found")}), other("function cfg not found"), nil
	}
	type found struct {
		asg   *ast.AssignStmt
		stack []ast.Node
	}
	var all []found
	var stack []ast.Node
	ast.Inspect(fd.Body, func(n ast.Node) bool {
		if n == nil {
			stack = stack[:len(stack)-1]
			return true
		}
		stack = append(stack, n)
		if a, ok := n.(*ast.AssignStmt); ok && len(a.Lhs) == 1 && isIdent(a.Lhs[0], "initNodes") {
			all = append(all, found{a, append([]ast.Node{}, stack...)})
		}
		return true
	})
	if len(all) != 1 {
		m := fmt.Sprintf("%d assignments to initNodes in cfg", len(all))
		return leanList([]string{other(m)}), other(m), nil
	}
	f := all[0]
	// how the node is added
	switch r := render(f.asg); r {
	case "initNodes=append(initNodes,n)":
		add = ".append"
	case "initNodes=append([]*node{n},initNodes...)":
		add = ".prepend"
	default:
		add = other(r)
	}
	// enclosing statements, innermost first: block, if, case clause funcDecl, …, pre-order literal
	st := f.stack[:len(f.stack)-1]
	var ifs *ast.IfStmt
	var clause *ast.CaseClause
	var lit *ast.FuncLit
	var walk *ast.CallExpr
	nIf := 0
	for i := len(st) - 1; i >= 0; i-- {
		switch x := st[i].(type) {
		case *ast.IfStmt:
			if clause == nil {
				nIf++
				if ifs == nil {
					ifs = x
				}
			}
		case *ast.CaseClause:
			if clause == nil {
				clause = x
			}
		case *ast.FuncLit:
			if lit == nil {
				lit = x
			}
		case *ast.CallExpr:
			if lit != nil && walk == nil {
				walk = x
			}
		case *ast.ForStmt, *ast.RangeStmt:
			if lit == nil {
				return leanList([]string{other("initNodes extended inside a loop")}), add, nil
			}
		}
	}
	var conds []string
	switch {
	case ifs == nil || nIf != 1 || ifs.Init != nil || ifs.Else != nil || len(ifs.Body.List) != 1:
		conds = append(conds, other("not a plain `if COND { initNodes = … }` in the case clause"))
	default:
		for _, c := range conjuncts(ifs.Cond) {
			conds = append(conds, regCond(c))
		}
	}
	if clause == nil || len(clause.List) != 1 || !isIdent(clause.List[0], "funcDecl") {
		conds = append(conds, other("not in `case funcDecl:`"))
	}
	if lit == nil || walk == nil || render(walk.Fun) != "root.Walk" || len(walk.Args) != 2 || walk.Args[0] != ast.Expr(lit) {
		conds = append(conds, other("not in the pre-order function of root.Walk"))
	}
	return leanList(conds), add, ifs
}

// importJoin reads `initNodes = append(initNodes, nodes...)` in the loop over rootNodes of importSrc.
func importJoin(fd *ast.FuncDecl) (join string, loop ast.Node, runLoop ast.Node) {
	if fd == nil || fd.Body == nil {
		return other("function importSrc not found"), nil, nil
	}
	join = other("per-file lists are not joined")
	n := 0
	ast.Inspect(fd.Body, func(m ast.Node) bool {
		rs, ok := m.(*ast.RangeStmt)
		if !ok {
			return true
		}
		switch render(rs.X) {
		case "rootNodes":
			ast.Inspect(rs.Body, func(k ast.Node) bool {
				a, ok := k.(*ast.AssignStmt)
				if !ok || len(a.Lhs) != 1 || !isIdent(a.Lhs[0], "initNodes") {
					return true
				}
				n++
				loop = rs
				switch r := render(a); r {
				case "initNodes=append(initNodes,nodes...)":
					join = ".append"
				case "initNodes=append(nodes,initNodes...)":
					join = ".prepend"
				default:
					join = other(r)
				}
				return true
			})
		case "initNodes":
			runLoop = rs
		}
		return true
	})
	if n > 1 {
		join = other("several joins of initNodes in importSrc")
	}
	return join, loop, runLoop
}

// rangeLoop finds `for … := range <x>` in a function.
func rangeLoop(fd *ast.FuncDecl, x string) ast.Node {
	var out ast.Node
	if fd == nil || fd.Body == nil {
		return nil
	}
	ast.Inspect(fd.Body, func(m ast.Node) bool {
		if rs, ok := m.(*ast.RangeStmt); ok && render(rs.X) == x && out == nil {
			out = rs
		}
		return true
	})
	return out
}

// gtaCases reads, in the `case funcDecl:` clause of gta, the tag-less switch that starts with
// `case isMethod(n):`:
//
//	case isMethod(n):            .method
//	case ident == "s": (empty)   .nameIs "s"     (ident := n.child[1].ident)
//	default: sc.sym[ident] = &symbol{kind: funcSym, …}   .default
//
// The fingerprint covers the case expressions and the bodies of all cases but the method case.
func gtaCases(fd *ast.FuncDecl) (cases string, hash string) {
	bad := func(m string) (string, string) { return leanList([]string{other(m)}), "unrecognised: " + m }
	if fd == nil || fd.Body == nil {
		return bad("function gta not found")
	}
	var clause *ast.CaseClause
	ast.Inspect(fd.Body, func(m ast.Node) bool {
		if c, ok := m.(*ast.CaseClause); ok && clause == nil && len(c.List) == 1 && isIdent(c.List[0], "funcDecl") {
			clause = c
			return false
		}
		return true
	})
	if clause == nil {
		return bad("no `case funcDecl:` in gta")
	}
	identOK := false
	var sw *ast.SwitchStmt
	for _, s := range clause.Body {
		if a, ok := s.(*ast.AssignStmt); ok && render(a) == "ident:=n.child[1].ident" {
			identOK = true
		}
		if x, ok := s.(*ast.SwitchStmt); ok && x.Tag == nil && x.Init == nil && sw == nil {
			sw = x
		}
	}
	if sw == nil {
		return bad("no switch in `case funcDecl:` of gta")
	}
	var out []string
	var forHash strings.Builder
	for _, s := range sw.Body.List {
		c := s.(*ast.CaseClause)
		var label string
		switch {
		case c.List == nil:
			label = other("default case does not declare the function symbol")
			for _, b := range c.Body {
				if a, ok := b.(*ast.AssignStmt); ok && strings.HasPrefix(render(a), "sc.sym[ident]=&symbol{kind:funcSym,") {
					label = ".default"
				}
			}
		case len(c.List) == 1 && render(c.List[0]) == "isMethod(n)":
			label = ".method"
		case len(c.List) == 1 && strings.HasPrefix(render(c.List[0]), "ident=="):
			label = other(render(c.List[0]))
			if b, ok := c.List[0].(*ast.BinaryExpr); ok && identOK && len(c.Body) == 0 {
				if l, ok := b.Y.(*ast.BasicLit); ok && l.Kind == token.STRING {
					if v, err := strconv.Unquote(l.Value); err == nil {
						label = ".nameIs " + common.LeanStr(v)
					}
				}
			}
		default:
			label = other("case " + render(&ast.CaseClause{List: c.List}))
		}
		out = append(out, label)
		forHash.WriteString(label + "{")
		if label != ".method" {
			for _, b := range c.Body {
				forHash.WriteString(render(b) + ";")
			}
		}
		forHash.WriteString("}")
	}
	return leanList(out), fmt.Sprintf("%x", sha256.Sum256([]byte(forHash.String())))[:16]
}


// stmts renders a statement list, statements separated by ";".
func stmts(l []ast.Stmt) string {
	out := make([]string, len(l))
	for i, s := range l {
		out[i] = render(s)
	}
	return strings.Join(out, ";")
}

func leanBool(b bool) string {
	if b {
		return "true"
	}
	return "false"
}

// depWalkFacts reads getVarDependencies (interp/cfg.go). Three shapes are known:
//
//	sym, _, ok := sc.lookup(n.ident) … if sym.kind != varSym || !sym.global || sym.node == nod { return false }
//	    resolve .byName, nothing followed, skipSelf                       (before round 3)
//	sym := n.sym; if sym == nil || sym.kind != varSym || !sym.global || sym.node == nod { return false }
//	    resolve .lexical, nothing followed, skipSelf
//	switch { case n.kind == selectorExpr && n.action == aGetMethod: fn, _ = n.val.(*node)
//	         case n.kind != identExpr || n.sym == nil:
//	         case n.sym.kind == funcSym: fn = n.sym.node
//	         case n.sym.kind == varSym && n.sym.global [&& n.sym.node != nod]: deps = append(deps, n.sym.node) }
//	if fn != nil && !seen[fn] { seen[fn] = true; fn.Walk(visit, nil) }
//	    resolve .lexical; a case that is present is followed; skipSelf iff the last conjunct is there
//
// Anything else: resolve .other (the whole function is fingerprinted besides: source_tie).
func depWalkFacts(fd *ast.FuncDecl) (resolve string, followFuncs, followMethods, skipSelf bool) {
	if fd == nil || fd.Body == nil {
		return other("function getVarDependencies not found"), false, false, false
	}
	body := render(fd.Body)
	byName := strings.Contains(body, "sc.lookup(n.ident)")
	var sw *ast.SwitchStmt
	follow := false
	ast.Inspect(fd.Body, func(m ast.Node) bool {
		switch x := m.(type) {
		case *ast.SwitchStmt:
			if x.Tag == nil && x.Init == nil && sw == nil {
				sw = x
			}
		case *ast.IfStmt:
			if render(x.Cond) == "fn!=nil&&!seen[fn]" && x.Else == nil && stmts(x.Body.List) == "seen[fn]=true;fn.Walk(visit,nil)" {
				follow = true
			}
		}
		return true
	})
	if sw == nil {
		cond := ""
		ast.Inspect(fd.Body, func(m ast.Node) bool {
			if x, ok := m.(*ast.IfStmt); ok && strings.Contains(render(x.Cond), "sym.kind!=varSym") {
				cond = render(x.Cond)
			}
			return true
		})
		switch {
		case byName && cond == "sym.kind!=varSym||!sym.global||sym.node==nod":
			return ".byName", false, false, true
		case !byName && strings.Contains(body, "sym:=n.sym") && cond == "sym==nil||sym.kind!=varSym||!sym.global||sym.node==nod":
			return ".lexical", false, false, true
		}
		return other("getVarDependencies: test " + cond), false, false, false
	}
	if byName {
		return other("getVarDependencies: switch and sc.lookup"), false, false, false
	}
	resolve = ".lexical"
	guard, varCase := false, false
	for _, s := range sw.Body.List {
		c := s.(*ast.CaseClause)
		cond := ""
		if len(c.List) == 1 {
			cond = render(c.List[0])
		}
		b := stmts(c.Body)
		switch {
		case cond == "n.kind==selectorExpr&&n.action==aGetMethod" && b == "fn,_=n.val.(*node)":
			followMethods = follow
		case cond == "n.kind!=identExpr||n.sym==nil" && b == "":
			guard = true
		case cond == "n.sym.kind==funcSym" && b == "fn=n.sym.node":
			followFuncs = follow
		case cond == "n.sym.kind==varSym&&n.sym.global" && b == "deps=append(deps,n.sym.node)":
			varCase = true
		case cond == "n.sym.kind==varSym&&n.sym.global&&n.sym.node!=nod" && b == "deps=append(deps,n.sym.node)":
			varCase, skipSelf = true, true
		default:
			resolve = other("getVarDependencies: case " + cond + ": " + b)
		}
	}
	if !guard || !varCase {
		resolve = other("getVarDependencies: the guard or the variable case is missing")
	}
	return resolve, followFuncs, followMethods, skipSelf
}

// collectSkipFact reads, in genGlobalVarDecl, the loop that fills `deps`:
//
//	for _, n := range nodes { deps[n] = getVarDependencies(n, sc) }                     .none
//	… { if n.kind == defineStmt && n.lastChild().kind == funcLit { continue }; deps[n] = … }   .funcLit
//
// anything else: .other (the loop is no longer "dependencies are collected for every node").
func collectSkipFact(fd *ast.FuncDecl) string {
	if fd == nil || fd.Body == nil {
		return other("function genGlobalVarDecl not found")
	}
	var loops []*ast.RangeStmt
	ast.Inspect(fd.Body, func(m ast.Node) bool {
		if rs, ok := m.(*ast.RangeStmt); ok && strings.Contains(render(rs.Body), "getVarDependencies(") {
			loops = append(loops, rs)
		}
		return true
	})
	if len(loops) != 1 {
		return other(fmt.Sprintf("%d loops calling getVarDependencies in genGlobalVarDecl", len(loops)))
	}
	rs := loops[0]
	if render(rs.X) != "nodes" || render(rs.Value) != "n" {
		return other("loop over " + render(rs.X))
	}
	const asg = "deps[n]=getVarDependencies(n,sc)"
	l := rs.Body.List
	switch {
	case len(l) == 1 && render(l[0]) == asg:
		return ".none"
	case len(l) == 2 && render(l[1]) == asg:
		if x, ok := l[0].(*ast.IfStmt); ok && x.Init == nil && x.Else == nil && stmts(x.Body.List) == "continue" &&
			render(x.Cond) == "n.kind==defineStmt&&n.lastChild().kind==funcLit" {
			return ".funcLit"
		}
	}
	return other("genGlobalVarDecl: " + stmts(l))
}

// methodTagFact reads, in matchSelectorMethod, the branch for a method of a source type
//
//	if m, lind := n.typ.lookupMethod(name); m != nil { …
//	    n.action = aGetMethod                        <- here: .both
//	    if n.child[0].isType(sc) { method expression  <- only here: .exprOnly
//	    } else { method with receiver }               <- only here: .recvOnly
//
// (`aGetMethod` is the action getVarDependencies follows into the method's body).
func methodTagFact(fd *ast.FuncDecl) string {
	if fd == nil || fd.Body == nil {
		return other("function matchSelectorMethod not found")
	}
	var branch *ast.IfStmt
	for _, st := range fd.Body.List {
		if x, ok := st.(*ast.IfStmt); ok && x.Init != nil && render(x.Init) == "m,lind:=n.typ.lookupMethod(name)" && render(x.Cond) == "m!=nil" {
			branch = x
		}
	}
	if branch == nil {
		return other("matchSelectorMethod: no branch `if m, lind := n.typ.lookupMethod(name); m != nil`")
	}
	const tag = "n.action=aGetMethod"
	has := func(l []ast.Stmt) bool {
		for _, st := range l {
			if render(st) == tag {
				return true
			}
		}
		return false
	}
	var split *ast.IfStmt
	for _, st := range branch.Body.List {
		if x, ok := st.(*ast.IfStmt); ok && render(x.Cond) == "n.child[0].isType(sc)" {
			split = x
		}
	}
	els, _ := func() (*ast.BlockStmt, bool) {
		if split == nil {
			return nil, false
		}
		b, ok := split.Else.(*ast.BlockStmt)
		return b, ok
	}()
	if split == nil || els == nil {
		return other("matchSelectorMethod: no `if n.child[0].isType(sc) { … } else { … }` in the branch")
	}
	top, inExpr, inRecv := has(branch.Body.List), has(split.Body.List), has(els.List)
	n := strings.Count(render(branch.Body), tag)
	switch {
	case top && !inExpr && !inRecv && n == 1:
		return ".both"
	case !top && inExpr && inRecv && n == 2:
		return ".both"
	case !top && !inExpr && inRecv && n == 1:
		return ".recvOnly"
	case !top && inExpr && !inRecv && n == 1:
		return ".exprOnly"
	case n == 0:
		return ".none"
	}
	return other(fmt.Sprintf("matchSelectorMethod: %d assignments of aGetMethod in the source-method branch", n))
}

// caseClause finds the first `case <name>:` (a single expression) in a function.
func caseClause(fd *ast.FuncDecl, name string) *ast.CaseClause {
	var out *ast.CaseClause
	if fd == nil || fd.Body == nil {
		return nil
	}
	ast.Inspect(fd.Body, func(m ast.Node) bool {
		if c, ok := m.(*ast.CaseClause); ok && out == nil && len(c.List) == 1 && render(c.List[0]) == name {
			out = c
			return false
		}
		return true
	})
	return out
}

// gtaMultiFacts reads `case defineXStmt:` of gta:
//
//	multiGlobal  `sym.global, sym.node = true, n` in a loop over n.child[:n.nleft], after compDefineX
//	multiRetry   `revisit = append(revisit, n)` followed by `return false`, before compDefineX, and
//	             gtaRetry reports the error kept in n.meta for a defineXStmt
//	operandRetry the retry also covers the comma-ok sources (fb8122a): the operand whose type is
//	             awaited is chosen by `case src.kind == callExpr, src.kind == indexExpr,
//	             src.kind == unaryExpr && src.action == aRecv: operand = src.child[0]` (and
//	             `case src.kind == typeAssertExpr: operand = src.child[1]`); before, the test was
//	             `src.kind == callExpr` alone
func gtaMultiFacts(gta, retry *ast.FuncDecl) (global, again, operands bool, clause ast.Node) {
	c := caseClause(gta, "defineXStmt")
	if c == nil {
		return false, false, false, nil
	}
	compiled := false
	ast.Inspect(c, func(m ast.Node) bool {
		switch x := m.(type) {
		case *ast.CaseClause:
			if x != c && !compiled && stmts(x.Body) == "operand=src.child[0]" {
				var es []string
				for _, e := range x.List {
					es = append(es, render(e))
				}
				if strings.Join(es, ",") == "src.kind==callExpr,src.kind==indexExpr,src.kind==unaryExpr&&src.action==aRecv" {
					operands = true
				}
			}
		case *ast.CallExpr:
			if render(x.Fun) == "compDefineX" {
				compiled = true
			}
		case *ast.RangeStmt:
			if compiled && render(x.X) == "n.child[:n.nleft]" && strings.Contains(render(x.Body), "sym.global,sym.node=true,n") {
				global = true
			}
		case *ast.BlockStmt:
			if !compiled && strings.HasSuffix(stmts(x.List), "revisit=append(revisit,n);returnfalse") {
				again = true
			}
		}
		return true
	})
	if again {
		// the retry pass must know the node kind
		again = false
		if retry != nil && retry.Body != nil {
			ast.Inspect(retry.Body, func(m ast.Node) bool {
				if cc, ok := m.(*ast.CaseClause); ok {
					for _, e := range cc.List {
						if render(e) == "defineXStmt" && strings.Contains(stmts(cc.Body), "n.meta.(error)") {
							again = true
						}
					}
				}
				return true
			})
		}
	}
	return global, again, again && operands, c
}

// astSplitFacts reads `case token.VAR:` of ast (interp/ast.go):
// `kind = varDecl; if anc.node != nil && anc.node.kind == fileStmt { a.Specs = splitVarSpecs(a.Specs) }`.
func astSplitFacts(fd *ast.FuncDecl) (split bool, clause ast.Node) {
	c := caseClause(fd, "token.VAR")
	if c == nil {
		return false, nil
	}
	for _, s := range c.Body {
		if x, ok := s.(*ast.IfStmt); ok && render(x.Cond) == "anc.node!=nil&&anc.node.kind==fileStmt" && x.Else == nil &&
			stmts(x.Body.List) == "a.Specs=splitVarSpecs(a.Specs)" {
			split = true
		}
	}
	return split, c
}

func main() {
	common.Main("C15", func(repo string) (string, error) {
		_, fp, err := common.ParseFile(repo, "interp/program.go")
		if err != nil {
			return "", err
		}
		_, fs, err := common.ParseFile(repo, "interp/src.go")
		if err != nil {
			return "", err
		}
		fsetC, fc, err := common.ParseFile(repo, "interp/cfg.go")
		if err != nil {
			return "", err
		}
		fsetG, fg, err := common.ParseFile(repo, "interp/gta.go")
		if err != nil {
			return "", err
		}
		fsetA, fa, err := common.ParseFile(repo, "interp/ast.go")
		if err != nil {
			return "", err
		}
		resolve, fFuncs, fMeths, skipSelf := depWalkFacts(common.FindFunc(fc, "", "getVarDependencies"))
		mGlobal, mRetry, opRetry, gtaClause := gtaMultiFacts(common.FindFunc(fg, "Interpreter", "gta"), common.FindFunc(fg, "Interpreter", "gtaRetry"))
		split, astClause := astSplitFacts(common.FindFunc(fa, "Interpreter", "ast"))
		dh := [][2]string{
			{"gta: case defineXStmt", nodeHash(gtaClause)},
			{"gtaRetry", common.FuncHash(fsetG, fg, "Interpreter", "gtaRetry")},
			{"ast: case token.VAR", nodeHash(astClause)},
			{"splitVarSpecs", common.FuncHash(fsetA, fa, "", "splitVarSpecs")},
			{"compDefineX", common.FuncHash(fsetC, fc, "", "compDefineX")},
			{"matchSelectorMethod", common.FuncHash(fsetC, fc, "", "matchSelectorMethod")},
		}
		var dhs []string
		for _, kv := range dh {
			dhs = append(dhs, fmt.Sprintf("(%s, %s)", common.LeanStr(kv[0]), common.LeanStr(kv[1])))
		}
		h1 := common.HashTable(fsetC, fc, [][2]string{{"", "getVars"}, {"", "genGlobalVars"}, {"", "genGlobalVarDecl"}, {"", "getVarDependencies"}})
		h2 := common.HashTable(fsetG, fg, [][2]string{{"", "equalNodes"}})
		register, add, regIf := cfgInitFacts(common.FindFunc(fc, "Interpreter", "cfg"))
		join, joinLoop, runLoop := importJoin(common.FindFunc(fs, "Interpreter", "importSrc"))
		gcases, ghash := gtaCases(common.FindFunc(fg, "Interpreter", "gta"))
		ih := [][2]string{
			{"cfg: if … { initNodes = append(initNodes, n) }", nodeHash(regIf)},
			{"importSrc: loop over rootNodes (cfg, join)", nodeHash(joinLoop)},
			{"importSrc: loop over initNodes", nodeHash(runLoop)},
			{"Execute: loop over p.init", nodeHash(rangeLoop(common.FindFunc(fp, "Interpreter", "Execute"), "p.init"))},
			{"gta: switch of case funcDecl (cases; bodies except the method case)", ghash},
			{"isMethod", common.FuncHash(fsetC, fc, "", "isMethod")},
		}
		var ihs []string
		for _, kv := range ih {
			ihs = append(ihs, fmt.Sprintf("(%s, %s)", common.LeanStr(kv[0]), common.LeanStr(kv[1])))
		}
		return fmt.Sprintf(`import YaegiVerif.Model.VarInit
namespace YaegiVerif.Generated.C15
open YaegiVerif.VarInit
/-- interp/program.go Execute, CompileAST; interp/src.go importSrc: steps in source order -/
def execFacts : ExecFacts :=
  { execute := %s,
    compile := %s,
    importSrc := %s }
/-- fingerprints of the functions that Model/VarInit.lean transcribes -/
def sourceHashes : List (String × String) :=
  %s ++
  %s
/-- interp/cfg.go cfg (pre-order, case funcDecl): the condition under which a function declaration
    is added to initNodes and how; interp/src.go importSrc: how the lists of the files are joined;
    interp/gta.go gta (case funcDecl): which declarations get a function symbol -/
def initFacts : InitFacts :=
  { register := %s,
    add := %s,
    join := %s,
    gta := %s }
/-- fingerprints of the statements initFacts was read from and of the loops that run the list -/
def initHashes : List (String × String) :=
  [%s]
/-- interp/cfg.go getVarDependencies: how an identifier is resolved, what is followed, whether a
    reference to the specification itself is dropped; interp/gta.go gta (case defineXStmt): the
    variables of var a, b = f() are global symbols with their node, the declaration is revisited
    until its callee is declared; interp/ast.go ast (case token.VAR): var a, b = x, y is taken
    apart at package level -/
def depFacts : DepFacts :=
  { resolve := %s,
    followFuncs := %s,
    followMethods := %s,
    skipSelf := %s,
    multiGlobal := %s,
    multiRetry := %s,
    operandRetry := %s,
    splitPaired := %s,
    collectSkip := %s,
    methodTag := %s }
/-- fingerprints of the statements depFacts was read from (getVarDependencies is in sourceHashes) -/
def depHashes : List (String × String) :=
  [%s]
end YaegiVerif.Generated.C15
`, common.LeanStrList(tokens(common.FindFunc(fp, "Interpreter", "Execute"))),
			common.LeanStrList(tokens(common.FindFunc(fp, "Interpreter", "CompileAST"))),
			common.LeanStrList(tokens(common.FindFunc(fs, "Interpreter", "importSrc"))),
			h1, h2, register, add, join, gcases, strings.Join(ihs, ",\n   "),
			resolve, leanBool(fFuncs), leanBool(fMeths), leanBool(skipSelf), leanBool(mGlobal), leanBool(mRetry), leanBool(opRetry), leanBool(split), collectSkipFact(common.FindFunc(fc, "", "genGlobalVarDecl")), methodTagFact(common.FindFunc(fc, "", "matchSelectorMethod")),
			strings.Join(dhs, ",\n   ")), nil
	})
}
