// extract-C15: facts about the order in which a package is run, read from the source text:
//
//   - the sequence of phases in (*Interpreter).Execute (interp/program.go), CompileAST and
//     importSrc (interp/src.go), as tokens in source order (see tokens below);
//   - fingerprints of the functions that Model/VarInit.lean transcribes by hand
//     (getVars, genGlobalVars, genGlobalVarDecl, getVarDependencies, equalNodes).
//
// A construct that is no longer recognised yields a token "unrecognised: …", which cannot equal
// the hand-written expectation.
package main

import (
	"fmt"
	"go/ast"
	"go/token"
	"strings"

	"verif/extract/common"
)

func exprString(e ast.Expr) string {
	switch x := e.(type) {
	case *ast.Ident:
		return x.Name
	case *ast.SelectorExpr:
		return exprString(x.X) + "." + x.Sel.Name
	case *ast.IndexExpr:
		return exprString(x.X) + "[" + exprString(x.Index) + "]"
	case *ast.CallExpr:
		args := make([]string, len(x.Args))
		for i, a := range x.Args {
			args[i] = exprString(a)
		}
		s := exprString(x.Fun) + "(" + strings.Join(args, ",")
		if x.Ellipsis != token.NoPos {
			s += "..."
		}
		return s + ")"
	case *ast.BasicLit:
		return x.Value
	case *ast.CompositeLit:
		return "lit{…}"
	}
	return "?"
}

// tokens walks a function body in source order and names the steps the model knows:
//
//	once      `if interp.srcPkg[importPath] != nil {` … return        (importSrc: already imported)
//	rdir-check `if interp.rdir[importPath] {` … return error          (import cycle)
//	rdir-set  `interp.rdir[importPath] = true`
//	gta       call of interp.gta / interp.gtaRetry (imports are processed there, first one only)
//	cfg       call of interp.cfg (first one only)
//	register  `interp.srcPkg[importPath] = gs.sym`
//	root      interp.run(p.root, nil), or interp.run(n, nil) in a loop over rootNodes
//	gen       call of genGlobalVars
//	globals   interp.run(n, nil) outside any loop
//	main-last `initNodes = append(initNodes, m.node)`
//	init      interp.run(n, interp.frame) in a loop over p.init / initNodes
func tokens(fd *ast.FuncDecl) []string {
	if fd == nil || fd.Body == nil {
		return []string{"unrecognised: function not found"}
	}
	var out []string
	seen := map[string]bool{}
	once := func(t string) {
		if !seen[t] {
			seen[t] = true
			out = append(out, t)
		}
	}
	var walk func(n ast.Node, loop string)
	walk = func(n ast.Node, loop string) {
		ast.Inspect(n, func(m ast.Node) bool {
			switch x := m.(type) {
			case *ast.FuncLit:
				return false // deferred recover closure etc.
			case *ast.RangeStmt:
				walk(x.Body, exprString(x.X))
				return false
			case *ast.ForStmt:
				walk(x.Body, "for")
				return false
			case *ast.IfStmt:
				if exprString(x.Cond) == "interp.rdir[importPath]" {
					ret := false
					for _, s := range x.Body.List {
						if _, ok := s.(*ast.ReturnStmt); ok {
							ret = true
						}
					}
					if ret {
						out = append(out, "rdir-check")
					} else {
						out = append(out, "unrecognised: rdir test without return")
					}
					return false
				}
				if c, ok := x.Cond.(*ast.BinaryExpr); ok && c.Op == token.NEQ && exprString(c.X) == "interp.srcPkg[importPath]" && exprString(c.Y) == "nil" {
					ret := false
					for _, s := range x.Body.List {
						if _, ok := s.(*ast.ReturnStmt); ok {
							ret = true
						}
					}
					if ret {
						out = append(out, "once")
					} else {
						out = append(out, "unrecognised: srcPkg test without return")
					}
					return false
				}
			case *ast.AssignStmt:
				if len(x.Lhs) == 1 && len(x.Rhs) == 1 {
					l, r := exprString(x.Lhs[0]), exprString(x.Rhs[0])
					if l == "interp.rdir[importPath]" {
						if r == "true" {
							out = append(out, "rdir-set")
						} else {
							out = append(out, "unrecognised: rdir = "+r)
						}
					}
					if l == "interp.srcPkg[importPath]" {
						out = append(out, "register")
					}
					if l == "initNodes" && strings.HasPrefix(r, "append(") && strings.Contains(r, "m.node") {
						if r == "append(initNodes,m.node)" {
							out = append(out, "main-last")
						} else {
							out = append(out, "unrecognised: "+r)
						}
					}
				}
			case *ast.CallExpr:
				f := exprString(x.Fun)
				switch f {
				case "interp.gta", "interp.gtaRetry":
					once("gta")
				case "interp.cfg":
					once("cfg")
				case "genGlobalVars":
					out = append(out, "gen")
				case "interp.run":
					if len(x.Args) != 2 {
						out = append(out, "unrecognised: interp.run arity")
						break
					}
					a0, a1 := exprString(x.Args[0]), exprString(x.Args[1])
					switch {
					case a0 == "p.root" && loop == "":
						out = append(out, "root")
					case a0 == "n" && loop == "rootNodes":
						out = append(out, "root")
					case a0 == "n" && loop == "" && a1 == "nil":
						out = append(out, "globals")
					case a0 == "n" && (loop == "p.init" || loop == "initNodes") && a1 == "interp.frame":
						out = append(out, "init")
					default:
						out = append(out, "unrecognised: interp.run("+a0+","+a1+") in loop "+loop)
					}
				}
			}
			return true
		})
	}
	walk(fd.Body, "")
	return out
}

func main() {
	common.Main("C15", func(repo string) (string, error) {
		_, fp, err := common.ParseFile(repo, "interp/program.go")
		if err != nil {
			return "", err
		}
		_, fs, err := common.ParseFile(repo, "interp/src.go")
		if err != nil {
			return "", err
		}
		fsetC, fc, err := common.ParseFile(repo, "interp/cfg.go")
		if err != nil {
			return "", err
		}
		fsetG, fg, err := common.ParseFile(repo, "interp/gta.go")
		if err != nil {
			return "", err
		}
		h1 := common.HashTable(fsetC, fc, [][2]string{{"", "getVars"}, {"", "genGlobalVars"}, {"", "genGlobalVarDecl"}, {"", "getVarDependencies"}})
		h2 := common.HashTable(fsetG, fg, [][2]string{{"", "equalNodes"}})
		return fmt.Sprintf(`import YaegiVerif.Model.VarInit
namespace YaegiVerif.Generated.C15
open YaegiVerif.VarInit
/-- interp/program.go Execute, CompileAST; interp/src.go importSrc: steps in source order -/
def execFacts : ExecFacts :=
  { execute := %s,
    compile := %s,
    importSrc := %s }
/-- fingerprints of the functions that Model/VarInit.lean transcribes -/
def sourceHashes : List (String × String) :=
  %s ++
  %s
end YaegiVerif.Generated.C15
`, common.LeanStrList(tokens(common.FindFunc(fp, "Interpreter", "Execute"))),
			common.LeanStrList(tokens(common.FindFunc(fp, "Interpreter", "CompileAST"))),
			common.LeanStrList(tokens(common.FindFunc(fs, "Interpreter", "importSrc"))),
			h1, h2), nil
	})
}
