// extract-C10: the same RunIdFacts record as extract-C09 (C10 is proved over the same machine),
// emitted under its own namespace so that the two checks are independent.
package main

import (
	"verif/extract/cmd/c09/runid"
	"verif/extract/common"
)

func main() {
	common.Main("C10", func(repo string) (string, error) { return runid.Lean("C10", repo) })
}
