package main

import (
	"fmt"
	"strings"
)

type T struct{ a, b int }

func (t T) sum() int { return t.a + t.b }

func f(n int) int { fmt.Println("f called", n); return n * 2 }

func classify(v int) string {
	switch d := v % 10; d * d {
	case 0, 1:
		return "small"
	case 4, 9, 16:
		return "mid"
	default:
		return "big"
	}
}

func main() {
	x, y := 3, 4
	// compound tag over the init variable
	switch s := y; (s + x) % 4 {
	case 3:
		fmt.Println("3")
	case 1:
		fmt.Println("1")
	}

	// simple identifier tag (worked before)
	switch s := x + y; s {
	case 7:
		fmt.Println("seven")
	default:
		fmt.Println("other")
	}

	// function call tag, evaluated exactly once, after init
	switch s := f(1); f(s) {
	case 4:
		fmt.Println("four")
	default:
		fmt.Println("not four")
	}

	// string tag, default in the middle, fallthrough
	switch s := "Hello"; strings.ToLower(s) + "!" {
	case "x":
		fmt.Println("x")
	default:
		fmt.Println("default")
	case "hello!":
		fmt.Println("hello")
		fallthrough
	case "y":
		fmt.Println("y (fallthrough)")
	case "z":
		fmt.Println("z")
	}
	switch s := "Nope"; strings.ToLower(s) + "!" {
	case "x":
		fmt.Println("x")
	default:
		fmt.Println("default taken")
	case "hello!":
		fmt.Println("hello")
	}

	// method call and field selector in tag
	switch t := (T{1, 2}); t.sum() {
	case 3:
		fmt.Println("sum 3")
	}
	switch t := (T{1, 2}); t.b {
	case 2:
		fmt.Println("b 2")
	}

	// init is an assignment, not a definition; tag is unary / index / comparison
	var i int
	arr := []int{5, 6, 7}
	switch i = 1; arr[i] {
	case 6:
		fmt.Println("arr 6")
	}
	switch i = 2; -i {
	case -2:
		fmt.Println("neg 2")
	}
	switch i++; i > 2 {
	case true:
		fmt.Println("gt", i)
	case false:
		fmt.Println("le", i)
	}

	// in a loop, with break and continue, nested switch
	for k := 0; k < 5; k++ {
		switch m := k * 3; m % 4 {
		case 0:
			fmt.Println(k, "zero")
			continue
		case 1:
			fmt.Println(k, "one")
			switch n := m; n + 1 {
			case 10:
				fmt.Println("  nested ten")
			default:
				fmt.Println("  nested default")
			}
		case 2:
			if k == 2 {
				break
			}
			fmt.Println(k, "two")
		default:
			fmt.Println(k, "three")
		}
	}

	// return from function
	for _, v := range []int{11, 12, 27, 30} {
		fmt.Println(v, classify(v))
	}

	// conversion, float
	switch fl := 2.5; int(fl * 2) {
	case 5:
		fmt.Println("five")
	}

	// init declares several variables; no clause matches; empty switch
	switch a, b := 1, 2; a*10 + b {
	case 21:
		fmt.Println("21")
	}
	switch a := 1; a + 1 {
	}

	// closure call in tag
	g := func(z int) int { return z }
	switch q := 6; g(q + 1) {
	case 7:
		fmt.Println("closure 7")
	case 8:
		fmt.Println("closure 8")
	}

	// init only (tagless) and tag only still work
	switch z := x * y; {
	case z > 10:
		fmt.Println("z > 10")
	default:
		fmt.Println("z <= 10")
	}
	switch (x + y) % 5 {
	case 2:
		fmt.Println("two")
	}

	// constant tag after init
	switch w := 1; 2 {
	case 2:
		fmt.Println("const two", w)
	}
	// labeled break
outer:
	for {
		switch w := x; w * 2 {
		case 6:
			fmt.Println("six, leave")
			break outer
		}
	}
}
