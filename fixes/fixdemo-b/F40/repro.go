package main

import "fmt"

func main() {
	x, y := 3, 4
	switch s := y; (s + x) % 4 {
	case 3:
		fmt.Println("3")
	case 1:
		fmt.Println("1")
	}
}
