package main

import "fmt"

type P struct{ X, Y int }

func one() int { return 1 }

func main() {
	k := 5
	a, b := P{1, 2}, k
	fmt.Println(a, b)
	c, d := k, P{3, 4}
	fmt.Println(c, d)
	a, b = P{7, 8}, 9
	fmt.Println(a, b)
	b, a = 10, P{11, 12}
	fmt.Println(a, b)
	s, t := []int{1}, 2
	s, t = []int{3}, 4
	fmt.Println(s, t)
	m, u := map[string]int{"a": 1}, 2
	m, u = map[string]int{"b": 1}, k
	fmt.Println(m, u)
	x, y := one(), 2
	x, y = one(), 3
	fmt.Println(x, y)
	a, d = P{d.X, 0}, P{a.X, 0}
	fmt.Println(a, d)
	s1, s2 := []int{1}, []int{2}
	s1, s2 = []int{s2[0]}, []int{s1[0]}
	fmt.Println(s1, s2)
}
