package main

import (
	"fmt"
	"strings"
)

type P struct{ X, Y int }

type Q struct{ A, B int } // no method

func mk(i int) P { return P{i, i} }

func (p P) swap() P { return P{p.Y, p.X} }

func one() int { return 1 }

var ga, gb = mk(1), 2
var gc, gd = P{3, 3}, one()

func two() (int, string) { return 2, "two" }

func main() {
	fmt.Println(ga, gb, gc, gd)

	// calls
	a, b := mk(1), mk(2)
	a, b = b.swap(), a.swap()
	fmt.Println(a, b)
	x, y := 0, 0
	x, y = one(), 5
	fmt.Println(x, y)
	y, x = x+1, one()+y
	fmt.Println(x, y)
	s, n := "", 0
	s, n = strings.ToUpper("abc"), len("abc")
	fmt.Println(s, n)
	s, n = fmt.Sprint(n), n+one()
	fmt.Println(s, n)

	// channel receive
	c := make(chan int, 4)
	c <- 1
	c <- 2
	c <- 3
	c <- 4
	r1, r2 := <-c, <-c
	fmt.Println(r1, r2)
	r2, r1 = <-c, r2
	fmt.Println(r1, r2)
	r1, x = <-c, 9
	fmt.Println(r1, x)

	// literals of every kind, with swap
	sl, mp, ar := []int{1}, map[string]int{"a": 1}, [2]int{1, 2}
	sl, mp, ar = []int{ar[0], ar[1]}, map[string]int{"len": len(sl)}, [2]int{mp["a"], 7}
	fmt.Println(sl, mp, ar)
	p, q := &P{1, 1}, &P{2, 2}
	p, q = &P{q.X, 0}, &P{p.X, 0}
	fmt.Println(*p, *q)

	// destinations: fields, elements, map entries, dereferences, blank
	var st struct{ A, B P }
	arr := make([]P, 2)
	m := map[string]P{}
	pp := &P{}
	st.A, arr[1], m["k"], *pp, _ = P{1, 1}, P{2, 2}, P{3, 3}, P{4, 4}, P{5, 5}
	fmt.Println(st, arr, m, *pp)
	st.A, st.B = P{st.B.X + 1, 0}, P{st.A.X + 1, 0}
	fmt.Println(st)

	// interfaces
	var i1, i2 interface{}
	i1, i2 = Q{1, 2}, one()
	fmt.Println(i1, i2)
	i1, i2 = i2, Q{i2.(int), 0}
	fmt.Println(i1, i2)
	var e1, e2 error
	e1, e2 = fmt.Errorf("e%d", 1), nil
	fmt.Println(e1, e2)

	// for clause and loop
	for i, j := one(), mk(3); i < 3; i, j = i+one(), mk(j.X+1) {
		fmt.Println(i, j)
	}
	var k int
	var last P
	for it := 0; it < 3; it++ {
		last, k = P{it, k}, k+it
	}
	fmt.Println(last, k)

	// var declarations
	var v1, v2 = P{1, 2}, "v2"
	var v3, v4 int = one(), 4
	var v5, v6 P
	var v7, v8 *P = nil, &P{8, 8}
	fmt.Println(v1, v2, v3, v4, v5, v6, v7, *v8)

	// single-value forms are unchanged
	z := mk(7)
	z = P{z.Y + 1, 0}
	w, txt := two()
	fmt.Println(z, w, txt)
}
