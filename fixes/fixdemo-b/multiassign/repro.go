// Not part of F47 (different root cause, see fix-F47-multi.diff): in an
// assignment with several operands, one operand being a literal, a call or an
// arithmetic expression makes the interpreter skip the assignment of the
// other operands, and literals are written before the other right-hand sides
// are read.
package main

import "fmt"

type P struct{ X, Y int }

func main() {
	m1, m2 := P{1, 1}, P{2, 2}
	q1, q2 := &m1, &m2
	m1, m2 = P{3, 3}, P{4, 4}
	fmt.Println(m1, m2, *q1, *q2)
	m1, m2 = P{m2.X, 0}, P{m1.X, 0}
	fmt.Println(m1, m2, *q1, *q2)
	k := 1
	m1, k = P{6, 6}, 2
	fmt.Println(m1, k, *q1)

}
