package main

import "fmt"

type P struct{ X, Y int }

func main() {
	p := P{1, 2}
	q := &p
	p = P{0, -7}
	p.X = q.X
	fmt.Println(p, *q)
}
