package main

import (
	"fmt"
	"sync"
	"time"
)

var gv Later

type Later struct {
	Kids []Later
	M    map[string]*Later
	Up   *Later
	F    func(Later) int
	E    Emb
	I    Shape
	Any  interface{}
}

type Emb struct {
	Base
	N int
}

type Base struct{ ID int }

type Shape interface{ Area() int }

type Sq struct{ s int }

func (s Sq) Area() int { return s.s * s.s }

type Alias = Base

type Holder struct {
	mu sync.Mutex
	d  time.Duration
	b  Base
}

func (h *Holder) set(i int) {
	h.b = Base{i}
	h.d = time.Duration(i)
}

func main() {
	pg := &gv
	gv = Later{Kids: []Later{{}}, E: Emb{Base{1}, 2}, I: Sq{3}, Any: 4}
	fmt.Println(len(pg.Kids), pg.E, pg.I.Area(), pg.Any, pg == &gv)
	gv = Later{Up: pg, F: func(l Later) int { return l.E.N }}
	fmt.Println(len(pg.Kids), pg.Up == pg, pg.F(Later{E: Emb{N: 8}}))

	var e Emb
	pe := &e
	pb := &e.Base
	e = Emb{Base{5}, 6}
	fmt.Println(e, *pe, *pb, e.ID)
	e.Base = Base{7}
	fmt.Println(e, *pe, *pb, e.ID)

	var al Alias
	pal := &al
	al = Alias{3}
	al = Base{4}
	fmt.Println(al, *pal)

	type local struct {
		a string
		b []byte
	}
	lv := local{"a", nil}
	plv := &lv
	lv = local{b: []byte("xyz")}
	fmt.Printf("%q %q\n", plv.a, plv.b)

	h := &Holder{}
	pb2 := &h.b
	h.set(3)
	fmt.Println(h.b, *pb2, h.d)

	// struct containing arrays, assigned in select/for/if/switch bodies
	type grid struct{ c [2][2]int }
	var gr grid
	pgr := &gr
	for i := 0; i < 2; i++ {
		if i == 1 {
			gr = grid{[2][2]int{{i, i}, {i, i}}}
		}
		switch i {
		case 0:
			gr = grid{c: [2][2]int{{9, 9}, {9, 9}}}
			fmt.Println(*pgr)
		}
	}
	fmt.Println(*pgr)

	// goroutines each assigning their own local
	var wg sync.WaitGroup
	res := make([]Base, 4)
	for i := 0; i < 4; i++ {
		wg.Add(1)
		go func(i int) {
			defer wg.Done()
			var b Base
			p := &b
			b = Base{i * 10}
			res[i] = *p
		}(i)
	}
	wg.Wait()
	fmt.Println(res)

	// recursion: every activation has its own variable
	fmt.Println(rec(3))

	// time.Time etc. binary struct with unexported fields, zero literal
	t0 := time.Unix(5, 0)
	pt := &t0
	t0 = time.Time{}
	fmt.Println(pt.IsZero(), t0.IsZero())
}

func rec(n int) []int {
	var b Base
	p := &b
	b = Base{n}
	if n == 0 {
		return []int{p.ID}
	}
	r := rec(n - 1)
	return append(r, p.ID)
}
