package main

import (
	"fmt"
	"image"
)

type P struct{ X, Y int }

type N struct {
	A P
	S string
	L []int
}

type W struct {
	p P
}

func (w *W) reset() { w.p = P{-1, -1} }

func setp(p *P) { *p = P{8, 9} }

var g = P{1, 1}
var gq = &g

func main() {
	// unkeyed, pointer taken before
	p := P{1, 2}
	q := &p
	p = P{0, -7}
	p.X = q.X
	fmt.Println(p, *q)

	// keyed
	p = P{Y: 5}
	fmt.Println(p, *q, q == &p)

	// write through the pointer is seen by the variable
	q.X = 11
	fmt.Println(p, *q)

	// literal that reads the variable through the pointer
	p = P{q.Y, q.X}
	fmt.Println(p, *q)

	// closure captured variable
	c := P{1, 2}
	show := func() P { return c }
	c = P{3, 4}
	fmt.Println(show(), c)
	set := func() { c = P{5, 6} }
	set()
	fmt.Println(show(), c)

	// nested struct
	n := N{P{1, 2}, "a", []int{1}}
	pn := &n
	n = N{A: P{3, 4}, S: "b"}
	fmt.Println(n, *pn)
	pa := &n.A
	n.A = P{7, 7}
	fmt.Println(n.A, *pa)

	// in a loop, pointer taken outside
	l := P{}
	pl := &l
	for i := 0; i < 3; i++ {
		l = P{i, i * 2}
		fmt.Println(l, *pl)
	}

	// define in a loop keeps a fresh variable per iteration
	var ps []*P
	for i := 0; i < 3; i++ {
		d := P{i, i}
		ps = append(ps, &d)
	}
	for _, x := range ps {
		fmt.Print(*x, " ")
	}
	fmt.Println()

	// assign in a loop: same variable
	var ps2 []*P
	var e P
	for i := 0; i < 3; i++ {
		e = P{i, i}
		ps2 = append(ps2, &e)
	}
	for _, x := range ps2 {
		fmt.Print(*x, " ")
	}
	fmt.Println()

	// method with pointer receiver, parameter
	w := W{P{1, 2}}
	wp := &w.p
	w.reset()
	fmt.Println(w, *wp)
	var a P
	setp(&a)
	fmt.Println(a)

	// global
	g = P{2, 2}
	fmt.Println(g, *gq)

	// binary struct
	ip := image.Point{1, 2}
	iq := &ip
	ip = image.Point{3, 4}
	fmt.Println(ip, *iq)
	ip = image.Point{Y: 9}
	fmt.Println(ip, *iq)

	// interface destination
	var i interface{} = 1
	pi := &i
	i = P{1, 2}
	fmt.Println(i, *pi)
	var s fmt.Stringer
	_ = s

	// array of struct / slice element / map entry
	arr := [2]P{}
	parr := &arr[0]
	arr[0] = P{1, 2}
	fmt.Println(arr, *parr)
	ms := map[string]P{}
	ms["a"] = P{1, 2}
	fmt.Println(ms)

	// anonymous struct
	an := struct{ A, B int }{1, 2}
	pan := &an
	an = struct{ A, B int }{3, 4}
	fmt.Println(an, *pan)

	// deref pointer dest
	*q = P{100, 200}
	fmt.Println(p, *q)
}
