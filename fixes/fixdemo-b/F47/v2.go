package main

import (
	"fmt"
	"sort"
)

type T struct{ V int }

type I interface{ Get() int }

func (t T) Get() int { return t.V }

type Node struct {
	Next *Node
	V    int
}

type byV []T

func (b byV) Len() int           { return len(b) }
func (b byV) Less(i, j int) bool { return b[i].V < b[j].V }
func (b byV) Swap(i, j int)      { b[i], b[j] = b[j], b[i] }

type G[A any] struct{ a A }

func main() {
	// interpreter interface destination in a loop
	var it I
	var il []I
	for i := 0; i < 3; i++ {
		it = T{i}
		il = append(il, it)
	}
	for _, x := range il {
		fmt.Print(x.Get(), " ")
	}
	fmt.Println(it.Get())

	// empty interface
	var e interface{}
	var el []interface{}
	for i := 0; i < 3; i++ {
		e = T{i}
		el = append(el, e)
	}
	fmt.Println(el, e)

	// slice and map element in a loop
	ts := make([]T, 3)
	mt := map[int]T{}
	for i := range ts {
		ts[i] = T{i}
		mt[i] = T{i * 2}
	}
	fmt.Println(ts, mt)

	// recursive type
	var n Node
	pn := &n
	n = Node{nil, 1}
	n = Node{Next: &Node{nil, 3}, V: 2}
	fmt.Println(n.V, n.Next.V, pn.V, pn.Next.V)
	head := Node{}
	cur := &head
	for i := 0; i < 3; i++ {
		cur.Next = &Node{V: i}
		cur = cur.Next
	}
	*cur = Node{V: 42}
	for x := head.Next; x != nil; x = x.Next {
		fmt.Print(x.V, " ")
	}
	fmt.Println()

	// pointers kept across iterations to a reassigned variable
	var v T
	ptrs := []*T{}
	for i := 0; i < 3; i++ {
		v = T{i}
		ptrs = append(ptrs, &v)
		w := v
		ptrs = append(ptrs, &w)
	}
	for _, p := range ptrs {
		fmt.Print(p.V, " ")
	}
	fmt.Println()

	// goroutine-free closure list
	var fs []func() int
	var cv T
	for i := 0; i < 3; i++ {
		cv = T{i}
		fs = append(fs, func() int { return cv.V })
	}
	for _, f := range fs {
		fmt.Print(f(), " ")
	}
	fmt.Println()

	// struct assigned then sorted via binary call
	b := byV{}
	var t T
	for _, x := range []int{3, 1, 2} {
		t = T{x}
		b = append(b, t)
	}
	sort.Sort(b)
	fmt.Println(b)

	// generic struct
	g := G[int]{1}
	pg := &g
	g = G[int]{2}
	fmt.Println(g, *pg)

	// pointer-typed destination
	pt := &T{1}
	pt2 := pt
	pt = &T{2}
	fmt.Println(*pt, *pt2)

	// function-level variable assigned in nested function (level > 0)
	outer := T{1}
	po := &outer
	func() {
		outer = T{9}
		func() { outer = T{V: outer.V + 1} }()
	}()
	fmt.Println(outer, *po)

	// struct result through named return value
	fmt.Println(named())
}

func named() (r T) {
	p := &r
	r = T{5}
	p.V++
	return
}
