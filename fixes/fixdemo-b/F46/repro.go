package main

import "fmt"

func main() {
	m := map[string]int{"k": 1}
	for i := 0; i < 3; i++ {
		r, ok := m["absent"]
		fmt.Println(r, ok)
		r += -60
	}
}
