package main

import (
	"fmt"
	"net/http"
)

type T struct {
	A int
	B string
}

type I interface{ M() int }

type U int

func (u U) M() int { return int(u) }

type S struct {
	v  int
	ok bool
}

func lookup(m map[int][]int, k int) int {
	total := 0
	for j := 0; j < 4; j++ {
		s, ok := m[k+j]
		total += len(s)
		s = append(s, 1, 2, 3)
		_ = ok
	}
	return total
}

func main() {
	// plain assignment (not define) of a previously non-zero variable
	m := map[string]int{"k": 1}
	r, ok := 5, true
	r, ok = m["absent"]
	fmt.Println(r, ok)
	r, ok = m["k"]
	fmt.Println(r, ok)
	r, _ = m["nope"]
	fmt.Println(r)

	// variable key
	keys := []string{"k", "x", "k", "y"}
	for _, k := range keys {
		v, ok := m[k]
		fmt.Println(k, v, ok)
		v += 10
	}

	// struct element
	ms := map[int]T{1: {1, "one"}}
	for i := 0; i < 3; i++ {
		t, ok := ms[i]
		fmt.Println(t, ok)
		t.A = 99
		t.B = "dirty"
	}

	// pointer element
	mp := map[int]*T{1: {1, "one"}}
	for i := 0; i < 3; i++ {
		p, ok := mp[i%2+1]
		fmt.Println(p == nil, ok)
		p = &T{}
	}

	// string element, nested loops
	mstr := map[string]string{"a": "A"}
	for i := 0; i < 2; i++ {
		for _, k := range []string{"a", "b"} {
			s, ok := mstr[k]
			fmt.Printf("%q %v\n", s, ok)
			s += "zz"
		}
	}

	// interface element
	mi := map[string]I{"u": U(3)}
	for _, k := range []string{"u", "w", "u", "w"} {
		x, ok := mi[k]
		fmt.Println(x == nil, ok)
		if x != nil {
			fmt.Println(x.M())
		}
		x = U(7)
	}

	// empty interface element and destination
	me := map[string]interface{}{"a": 1}
	var e interface{} = "before"
	e, ok = me["zz"]
	fmt.Println(e, ok)
	mint := map[string]int{}
	var e2 interface{} = "before"
	e2, ok = mint["zz"]
	fmt.Println(e2, ok)

	// destination is a field / index
	var st S
	st.v, st.ok = 42, true
	st.v, st.ok = m["absent"]
	fmt.Println(st)
	arr := []int{7, 8, 9}
	arr[1], _ = m["absent"]
	fmt.Println(arr)

	// slices
	fmt.Println(lookup(map[int][]int{1: {1}, 3: {1, 2}}, 0))

	// binary (runtime) map type
	h := http.Header{"A": {"x"}}
	for _, k := range []string{"A", "B", "A", "B"} {
		vals, ok := h[k]
		fmt.Println(vals, len(vals), ok)
		vals = append(vals, "more")
	}

	// if with init
	for i := 0; i < 3; i++ {
		if v, ok := m["absent"]; !ok {
			fmt.Println(v)
			v -= 5
		}
	}

	// nil map
	var nm map[string]float64
	fl := 1.5
	fl, ok = nm["a"]
	fmt.Println(fl, ok)

	// named map type, bool elem
	type Set map[string]bool
	set := Set{"a": true}
	for _, k := range []string{"a", "b", "a", "b"} {
		in, ok := set[k]
		fmt.Println(in, ok)
		in = true
	}
}
