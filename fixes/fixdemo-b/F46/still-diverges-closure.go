// Not part of F46: a variable defined by "v, ok := m[k]" in a loop body is
// shared by the closures of all iterations (define statements from a single
// value get a fresh variable per iteration, comma-ok defines do not).
// Go prints 0 1 2; the interpreter (before and after the F46 patch) prints 2 2 2.
package main

import "fmt"

func main() {
	m := map[string]int{"k": 1}
	fs := []func() int{}
	for i := 0; i < 3; i++ {
		c, ok := m[fmt.Sprint("k", i)]
		_ = ok
		c += i
		fs = append(fs, func() int { return c })
	}
	for _, f := range fs {
		fmt.Println(f())
	}

}
