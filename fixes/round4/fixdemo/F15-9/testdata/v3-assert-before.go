package main

var v, ok = x.(T)

type T struct{ n int }

var x interface{} = T{3}

func main() { println(v.n, ok) }
