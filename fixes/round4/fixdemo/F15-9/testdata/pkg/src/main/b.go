package main

var M = map[string]int{"a": 1}
