package main

import "lib"

var V, Ok = M["a"]

var R, Ok2 = <-lib.C

func main() { println(V, Ok, R, Ok2, lib.X, lib.OkX) }
