package lib

const Key = "k"

var table = map[string]float64{Key: 1.5}

var C = func() chan int { c := make(chan int, 2); c <- 4; c <- 5; return c }()
