package lib

var X, OkX = table[Key]

var Y, OkY = <-C
