package main

var a, okA = <-chans[name]

var name, okN = names[0]

var names = map[int]string{0: "x"}

var chans = map[string]chan string{"x": mkc()}

func mkc() chan string { c := make(chan string, 1); c <- "hello"; return c }

func main() { println(a, okA, name, okN) }
