package main

var v, ok = <-c

var c = mk()

func mk() chan int { c := make(chan int, 1); c <- 7; return c }

func main() { println(v, ok) }
