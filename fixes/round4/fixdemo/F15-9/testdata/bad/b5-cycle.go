package main

var v, ok = m[v]

var m = map[int]int{}

func main() { println(v, ok) }
