package main

var v, ok = <-c

func main() { println(v, ok) }
