package main

var v, ok = s[0]

var s = []int{1}

func main() { println(v, ok) }
