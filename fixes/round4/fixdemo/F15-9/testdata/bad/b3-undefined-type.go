package main

var x interface{} = 1

var v, ok = x.(T)

func main() { println(v, ok) }
