package main

var v, ok = <-c

var c = 3

func main() { println(v, ok) }
