package main

var v, ok = m["a"]

func main() { println(v, ok) }
