package main

var m = map[string]int{"a": 1}

var c = func() chan int { c := make(chan int, 1); close(c); return c }()

var v, ok = m["z"]

var r, ok2 = <-c

func main() { println(v, ok, r, ok2) }
