package main

var _, present = reg.m["a"]

var first, _ = <-reg.c

var reg = newReg()

type R struct {
	m map[string]S
	c chan S
}

type S struct{ n int }

func (s S) N() int { return s.n }

func newReg() *R {
	r := &R{m: map[string]S{"a": {1}}, c: make(chan S, 1)}
	r.c <- S{5}
	return r
}

var s, okS = reg.m["a"]

func main() { println(present, first.N(), s.N(), okS) }
