package main

var v, ok = m["a"]

var m = map[string]int{"a": 1}

func main() { println(v, ok) }
