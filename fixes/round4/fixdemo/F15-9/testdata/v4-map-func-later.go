package main

var v, ok = m[key()]

func key() K { return K{"b"} }

type K struct{ s string }

var m = map[K][]int{{"b"}: {1, 2}}

var w, ok2 = m[K{"c"}]

func main() { println(len(v), ok, len(w), ok2) }
