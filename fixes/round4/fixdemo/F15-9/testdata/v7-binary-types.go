package main

import (
	"net/http"
	"time"
)

var t, ok = <-after

var after = time.After(time.Millisecond)

var e, okE = err.(interface{ Timeout() bool })

var err error = http.ErrHandlerTimeout

var d, okD = unit.(time.Duration)

var unit interface{} = time.Second

func main() { println(t.IsZero(), ok, e == nil, okE, d.String(), okD) }
