#!/bin/sh
# Compare every program under go run and under the interpreter, then the invalid ones.
export GOFLAGS=-mod=mod GOPROXY=off GOSUMDB=off GOTOOLCHAIN=local
cd "$(dirname "$0")"
go build ${MODFILE:+-modfile=$MODFILE} -o /tmp/f159-runner . || exit 1
rc=0
for s in testdata/*.go; do
	want=$(go run "$s" 2>&1)
	got=$(/tmp/f159-runner "$s" 2>&1 | head -3)
	if [ "$want" = "$got" ]; then echo "ok   $s: $got"; else echo "FAIL $s: go run: $want / yaegi: $got"; rc=1; fi
done
# A main package of two files (the operand is in the later file) importing a source package.
want=$(cd testdata/pkg && GOFLAGS= GO111MODULE=off GOPATH=$PWD go run ./src/main 2>&1 | sed 's/+1.500000e+000/1.5/')
got=$(cd testdata/pkg && GOPATH=$PWD /tmp/f159-runner ./src/main 2>&1 | head -3)
if [ "$want" = "$got" ]; then echo "ok   testdata/pkg: $got"; else echo "FAIL testdata/pkg: go run: $want / yaegi: $got"; rc=1; fi
/tmp/f159-runner bad 2>&1 | head -40 || rc=1
/tmp/f159-runner bad >/dev/null 2>&1 || rc=1
exit $rc
