// F15-9: package level comma-ok declarations (`var v, ok = m[k]`, `= <-c`, `= x.(T)`) which
// stand before the declaration of their operand made the compiler panic.
//
//	go run . file.go|dir      evaluate (to compare with go run, see cmp.sh)
//	go run . bad              invalid programs and REPL sequences: an error, no panic
package main

import (
	"fmt"
	"os"
	"path/filepath"
	"strings"

	"github.com/traefik/yaegi/interp"
	"github.com/traefik/yaegi/stdlib"
)

func newInterp() *interp.Interpreter {
	i := interp.New(interp.Options{GoPath: os.Getenv("GOPATH")})
	if err := i.Use(stdlib.Symbols); err != nil {
		panic(err)
	}
	return i
}

func safely(f func() error) (err error, panicked interface{}) {
	defer func() { panicked = recover() }()
	return f(), nil
}

var bad = map[string]string{
	"b1-undefined-map.go":  "undefined: m",
	"b2-undefined-chan.go": "undefined: c",
	"b3-undefined-type.go": "undefined: T",
	"b5-cycle.go":          "definition loop",
	"b6-not-chan.go":       "cannot receive from non-channel",
}

func main() {
	if len(os.Args) < 2 {
		fmt.Println("usage: F15-9 file.go | dir | bad")
		os.Exit(2)
	}
	if os.Args[1] != "bad" {
		if _, err := newInterp().EvalPath(os.Args[1]); err != nil {
			fmt.Println("error:", err)
			os.Exit(1)
		}
		return
	}
	fails := 0
	for name, want := range bad {
		err, p := safely(func() error { _, err := newInterp().EvalPath(filepath.Join("testdata", "bad", name)); return err })
		if p != nil || err == nil || !strings.Contains(err.Error(), want) {
			fails++
			fmt.Printf("FAIL %-22s error: %v panic: %v (want an error with %q)\n", name, err, p, want)
			continue
		}
		fmt.Printf("ok   %-22s %v\n", name, err)
	}
	// REPL: the operand does not exist yet when the declaration is evaluated: an error;
	// the interpreter goes on, and the declaration works once the operand exists.
	i := newInterp()
	steps := []struct{ src, want string }{
		{`var v, ok = m["a"]`, "undefined: m"},
		{`var r, ok2 = <-c`, "undefined: c"},
		{`var m = map[string]int{"a": 1}`, ""},
		{`var c = make(chan int, 1)`, ""},
		{`c <- 3`, ""},
		{`var v, ok = m["a"]`, ""},
		{`var r, ok2 = <-c`, ""},
		{`println(v, ok, r, ok2)`, ""},
		{`v + r`, "=4"},
	}
	for _, s := range steps {
		var res string
		err, p := safely(func() error {
			v, err := i.Eval(s.src)
			if err == nil && v.IsValid() && v.CanInt() {
				res = fmt.Sprint("=", v.Int())
			}
			return err
		})
		okStep := p == nil
		switch {
		case strings.HasPrefix(s.want, "="):
			okStep = okStep && err == nil && res == s.want
		case s.want == "":
			okStep = okStep && err == nil
		default:
			okStep = okStep && err != nil && strings.Contains(err.Error(), s.want)
		}
		if !okStep {
			fails++
			fmt.Printf("FAIL repl %-34s error: %v panic: %v result: %s (want %q)\n", s.src, err, p, res, s.want)
			continue
		}
		fmt.Printf("ok   repl %-34s %v %s\n", s.src, err, res)
	}
	if fails > 0 {
		fmt.Println(fails, "failures")
		os.Exit(1)
	}
	fmt.Println("all ok")
}
