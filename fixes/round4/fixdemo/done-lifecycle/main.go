// The cancellation channel of the interpreter: a cancellation must release every
// interpreted channel operation which is blocked at that moment, as it stops every frame
// which runs at that moment, whichever call created them. Each *WithContext call
// installed a new channel: the operations started before it kept a channel which nothing
// closes any more, and their goroutines stayed blocked for ever.
package main

import (
	"context"
	"fmt"
	"os"
	"reflect"
	"runtime"
	"sync/atomic"
	"time"

	"github.com/traefik/yaegi/interp"
	"github.com/traefik/yaegi/stdlib"
)

var fails int

func check(name string, got, want interface{}) {
	if !reflect.DeepEqual(got, want) {
		fails++
		fmt.Printf("FAIL %-58s got %v want %v\n", name, got, want)
		return
	}
	fmt.Printf("ok   %-58s %v\n", name, got)
}

func newInterp(left *int64) *interp.Interpreter {
	i := interp.New(interp.Options{})
	if err := i.Use(stdlib.Symbols); err != nil {
		panic(err)
	}
	if err := i.Use(interp.Exports{"host/host": {
		"Leave": reflect.ValueOf(func() { atomic.AddInt64(left, 1) }),
	}}); err != nil {
		panic(err)
	}
	return i
}

func cancelled(i *interp.Interpreter, src string, d time.Duration) {
	ctx, cancel := context.WithTimeout(context.Background(), d)
	defer cancel()
	if _, err := i.EvalWithContext(ctx, src); err != context.DeadlineExceeded {
		fails++
		fmt.Println("FAIL cancellation:", err)
	}
}

func settle(base int) int {
	for k := 0; k < 50 && runtime.NumGoroutine() > base; k++ {
		time.Sleep(10 * time.Millisecond)
	}
	return runtime.NumGoroutine() - base
}

const defs = `import "host"
var never, out = make(chan int), make(chan int)
func Block() int { defer host.Leave(); return <-never + 1 }
func Spawn(n int) { for i := 0; i < n; i++ { go func() { defer host.Leave(); select { case <-never: case out <- 1: } }() } }
`

func main() {
	// A host call blocked in a channel operation belongs to the current run: the next
	// cancellation releases it.
	var left int64
	i := newInterp(&left)
	if _, err := i.Eval(defs); err != nil {
		panic(err)
	}
	base := runtime.NumGoroutine()
	v, _ := i.Eval("main.Block")
	block := v.Interface().(func() int)
	res := make(chan int, 1)
	go func() { res <- block() }()
	select {
	case <-res:
		check("host call blocks", "returned", "blocked")
	case <-time.After(100 * time.Millisecond):
		check("host call blocks", "blocked", "blocked")
	}
	cancelled(i, "for {}", 50*time.Millisecond)
	select {
	case r := <-res:
		check("host call released by a cancellation", r, 0)
	case <-time.After(time.Second):
		check("host call released by a cancellation", "blocked", 0)
	}
	check("host call: goroutines left", settle(base), 0)

	// Goroutines left blocked by a completed evaluation (plain Eval, then EvalWithContext).
	left = 0
	if _, err := i.Eval("Spawn(3)"); err != nil {
		panic(err)
	}
	if _, err := i.EvalWithContext(context.Background(), "Spawn(2)"); err != nil {
		panic(err)
	}
	time.Sleep(20 * time.Millisecond)
	check("completed evaluations: blocked goroutines", runtime.NumGoroutine()-base, 5)
	cancelled(i, "select {}", 50*time.Millisecond)
	check("completed evaluations: goroutines left after a cancellation", settle(base), 0)
	check("completed evaluations: deferred binary calls", atomic.LoadInt64(&left), int64(5))

	// Two evaluations at the same time: the one which started first is cancelled.
	left = 0
	i = newInterp(&left)
	if _, err := i.Eval(`import "time"` + "\n" + defs); err != nil {
		panic(err)
	}
	base = runtime.NumGoroutine()
	other := make(chan error, 1)
	go func() {
		time.Sleep(30 * time.Millisecond)
		_, err := i.EvalWithContext(context.Background(), "time.Sleep(300 * time.Millisecond)")
		other <- err
	}()
	cancelled(i, "Spawn(4); select {}", 100*time.Millisecond)
	time.Sleep(50 * time.Millisecond)
	check("concurrent: goroutines of the cancelled evaluation released", atomic.LoadInt64(&left), int64(4))
	<-other
	check("concurrent: goroutines left", settle(base), 0)

	// Channel operations after the cancellations work.
	if _, err := i.Eval(`func later() int { c := make(chan int); go func() { c <- 21 }(); return <-c * 2 }`); err != nil {
		panic(err)
	}
	check("later Eval", fmt.Sprint(i.Eval("later()")), "42 <nil>")
	check("later EvalWithContext", fmt.Sprint(i.EvalWithContext(context.Background(), "later()")), "42 <nil>")

	if fails > 0 {
		fmt.Println(fails, "failures")
		os.Exit(1)
	}
	fmt.Println("all ok")
}
