//go:build verif

package main

import (
	"context"
	"fmt"
	"sync/atomic"
	"time"

	"github.com/traefik/yaegi/interp"
)

func init() { forced = runForced }

func runForced() int {
	fails := 0
	for p := range progs {
		for k := 5; k <= 64; k++ {
			var steps, cancelled, wrong int64
			i := newInterp(func() {
				if atomic.LoadInt64(&cancelled) != 0 {
					atomic.AddInt64(&wrong, 1)
				}
			})
			ctx, cancel := context.WithCancel(context.Background())
			interp.VerifSetStepHook(func(interp.VerifStepInfo) {
				if atomic.AddInt64(&steps, 1) == int64(k) {
					cancel()
					// The activations in flight return from their sleep and are stopped;
					// EvalWithContext returns.
					time.Sleep(100 * time.Millisecond)
					atomic.StoreInt64(&cancelled, 1)
				}
			})
			_, err := i.EvalWithContext(ctx, progs[p])
			time.Sleep(250 * time.Millisecond)
			interp.VerifSetStepHook(nil)
			if w := atomic.LoadInt64(&wrong); w > 0 || err != context.Canceled {
				fails++
				fmt.Printf("FAIL prog %d cancelled before operation %d: %d activations of fv ran after the cancellation (%v)\n", p, k, w, err)
			}
		}
	}
	return fails
}
