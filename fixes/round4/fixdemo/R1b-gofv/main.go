// R1(b): `go fv()` in flight at the cancellation. The goroutine of a function value makes
// its frame when it starts: when it starts after the cancellation (and after the return
// of the cancelled Execute), the function must not run.
//
//	go run ./R1b-gofv                stress: timing only
//	go run -tags verif ./R1b-gofv    forced: the evaluation is cancelled just before its
//	                                 k-th operation, which is, for some k, the go statement
//
// fv sleeps, then reports: an activation started before the cancellation is stopped when
// the sleep returns, so that every report made after the cancellation is wrong.
package main

import (
	"context"
	"fmt"
	"os"
	"reflect"
	"sync/atomic"
	"time"

	"github.com/traefik/yaegi/interp"
	"github.com/traefik/yaegi/stdlib"
)

var progs = []string{
	// a closure
	`package main
import ("time"; "host")
func main() {
	n := 0
	fv := func() { n++; time.Sleep(60 * time.Millisecond); host.Report() }
	for { go fv(); for i := 0; i < 200; i++ {} }
}`,
	// a method value
	`package main
import ("time"; "host")
type T struct{ n int }
func (t *T) M() { time.Sleep(60 * time.Millisecond); host.Report() }
func main() {
	fv := (&T{}).M
	for { go fv(); for i := 0; i < 200; i++ {} }
}`,
	// a function value in a struct field, with an argument, started by a goroutine
	`package main
import ("time"; "host")
type H struct{ f func(int) }
func main() {
	h := H{func(x int) { time.Sleep(60 * time.Millisecond); host.Report() }}
	go func() { for i := 0; ; i++ { go h.f(i); for j := 0; j < 200; j++ {} } }()
	select {}
}`,
}

var forced func() int // set with -tags verif

func newInterp(report func()) *interp.Interpreter {
	i := interp.New(interp.Options{})
	if err := i.Use(stdlib.Symbols); err != nil {
		panic(err)
	}
	if err := i.Use(interp.Exports{"host/host": {"Report": reflect.ValueOf(report)}}); err != nil {
		panic(err)
	}
	return i
}

func stress() int {
	fails := 0
	for k := 0; k < 30; k++ {
		var cancelled, wrong int64
		i := newInterp(func() {
			if atomic.LoadInt64(&cancelled) != 0 {
				atomic.AddInt64(&wrong, 1)
			}
		})
		ctx, cancel := context.WithTimeout(context.Background(), time.Duration(20+k)*time.Millisecond)
		_, err := i.EvalWithContext(ctx, progs[k%len(progs)])
		atomic.StoreInt64(&cancelled, 1)
		cancel()
		time.Sleep(150 * time.Millisecond)
		if w := atomic.LoadInt64(&wrong); w > 0 || err != context.DeadlineExceeded {
			fails++
			fmt.Printf("FAIL run %d prog %d: %d activations of fv ran after the cancellation (%v)\n", k, k%len(progs), w, err)
		}
	}
	return fails
}

func main() {
	fails := 0
	if forced != nil {
		fails = forced()
	} else {
		fails = stress()
	}
	if fails > 0 {
		fmt.Println(fails, "failures")
		os.Exit(1)
	}
	fmt.Println("all ok")
}
