// Cost of a call of a function value (informational).
package main

import (
	"fmt"
	"time"

	"github.com/traefik/yaegi/interp"
)

func main() {
	i := interp.New(interp.Options{})
	if _, err := i.Eval(`
func mk(a int) func(int) int { return func(x int) int { return a + x } }
var clo = mk(1)
func loop(n int) int { s := 0; for i := 0; i < n; i++ { s = clo(s) }; return s }
`); err != nil {
		panic(err)
	}
	v, _ := i.Eval("clo")
	clo := v.Interface().(func(int) int)
	for r := 0; r < 3; r++ {
		t0 := time.Now()
		s := 0
		for k := 0; k < 1000000; k++ {
			s = clo(s)
		}
		d1 := time.Since(t0)
		t0 = time.Now()
		if _, err := i.Eval("loop(1000000)"); err != nil {
			panic(err)
		}
		fmt.Printf("host calls: %v/call, interpreted calls of a closure: %v/call (%d)\n", d1/1000000, time.Since(t0)/1000000, s)
	}
}
