// R1(c): the goroutines blocked in a channel operation are released by the cancellation
// and run their deferred calls. A deferred interpreted function value is a call made by
// the cancelled evaluation: it must not run (a deferred call of a binary function does,
// as it always did: it is not interpreted code).
package main

import (
	"context"
	"fmt"
	"os"
	"reflect"
	"sort"
	"strings"
	"sync"
	"time"

	"github.com/traefik/yaegi/interp"
	"github.com/traefik/yaegi/stdlib"
)

const src = `package main
import "host"

type T struct{ name string }
func (t T) Done() { host.Mark("method " + t.name) }

func named() { host.Mark("named") }

func wait(c chan int, name string) {
	defer host.Mark("bin " + name)                       // binary function: runs
	defer func() { host.Mark("closure " + name) }()      // interpreted: must not run
	defer T{name}.Done()                                   // interpreted method value: must not run
	defer named()                                          // interpreted function: must not run
	<-c
	host.Mark("went on " + name)
}

func main() {
	c := make(chan int)
	for _, n := range []string{"a", "b", "c"} {
		go wait(c, n)
	}
	go func() {
		defer func() { host.Mark("closure lit") }()
		d := make(chan int)
		select { case <-d: case d <- 1: }
	}()
	// The evaluation is cancelled in a sleep: Execute returns well after EvalWithContext.
	time.Sleep(%s)
	for {}
}
`

func run(sleep string) bool {
	var (
		mu    sync.Mutex
		marks []string
	)
	i := interp.New(interp.Options{})
	if err := i.Use(stdlib.Symbols); err != nil {
		panic(err)
	}
	if err := i.Use(interp.Exports{"host/host": {
		"Mark": reflect.ValueOf(func(s string) { mu.Lock(); marks = append(marks, s); mu.Unlock() }),
	}}); err != nil {
		panic(err)
	}
	ctx, cancel := context.WithTimeout(context.Background(), 100*time.Millisecond)
	defer cancel()
	prog := strings.Replace(strings.Replace(src, "%s", sleep, 1), `import "host"`, `import ("host"; "time")`, 1)
	_, err := i.EvalWithContext(ctx, prog)
	time.Sleep(400 * time.Millisecond)
	mu.Lock()
	sort.Strings(marks)
	got := strings.Join(marks, ", ")
	mu.Unlock()
	want := "bin a, bin b, bin c"
	ok := got == want && err == context.DeadlineExceeded
	status := "ok  "
	if !ok {
		status = "FAIL"
	}
	fmt.Printf("%s main sleeps %-22s ran: %s\n     %-34s want: %s (%v)\n", status, sleep, got, "", want, err)
	return ok
}

func main() {
	fails := 0
	// Execute returns at once (the deferred calls race with its return), or 200ms later.
	for _, sleep := range []string{"0", "0", "0", "time.Millisecond", "300 * time.Millisecond"} {
		if !run(sleep) {
			fails++
		}
	}
	if fails > 0 {
		fmt.Println(fails, "failures")
		os.Exit(1)
	}
	fmt.Println("all ok")
}
