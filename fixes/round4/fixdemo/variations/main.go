// Variations around the cancellation of evaluations and function values.
package main

import (
	"context"
	"fmt"
	"os"
	"reflect"
	"sync"
	"sync/atomic"
	"time"

	"github.com/traefik/yaegi/interp"
	"github.com/traefik/yaegi/stdlib"
)

var fails int

func check(name string, got, want interface{}) {
	if !reflect.DeepEqual(got, want) {
		fails++
		fmt.Printf("FAIL %-64s got %v want %v\n", name, got, want)
		return
	}
	fmt.Printf("ok   %-64s %v\n", name, got)
}

type hostT struct {
	mu    sync.Mutex
	funcs map[string]func() int
	count int64
}

func newInterp(h *hostT) *interp.Interpreter {
	i := interp.New(interp.Options{})
	if err := i.Use(stdlib.Symbols); err != nil {
		panic(err)
	}
	h.funcs = map[string]func() int{}
	if err := i.Use(interp.Exports{"host/host": {
		"Register": reflect.ValueOf(func(name string, f func() int) { h.mu.Lock(); h.funcs[name] = f; h.mu.Unlock() }),
		"Record":   reflect.ValueOf(func() { atomic.AddInt64(&h.count, 1) }),
	}}); err != nil {
		panic(err)
	}
	return i
}

func ev(i *interp.Interpreter, src string) string {
	v, err := i.Eval(src)
	return fmt.Sprint(v, err)
}

func cancelled(i *interp.Interpreter, src string, d time.Duration) {
	ctx, cancel := context.WithTimeout(context.Background(), d)
	defer cancel()
	t0 := time.Now()
	_, err := i.EvalWithContext(ctx, src)
	if err != context.DeadlineExceeded || time.Since(t0) > d+time.Second {
		fails++
		fmt.Println("FAIL cancellation of", src, ":", err, time.Since(t0))
	}
}

const defs = `
import ("host"; "time")

func mk(a int) func() int { return func() int { return a + 1 } }
var clo = mk(1)

type T struct{ n int }
func (t *T) Inc() int { t.n++; return t.n }
var obj = &T{}
var mv = obj.Inc

type H struct{ f func() int }
var hs = H{f: mk(10)}
var mp = map[string]func() int{"k": mk(20)}

func counter() func() int { n := 0; return func() int { n++; return n } }
var cnt = counter()

var spin = func() func() int { n := 0; return func() int { for { n++ }; return n } }()
var nap = func() int { time.Sleep(300 * time.Millisecond); host.Record(); return 1 }

func init() {
	host.Register("clo", clo)
	host.Register("mv", mv)
	host.Register("hs.f", hs.f)
	host.Register("mp.k", mp["k"])
	host.Register("cnt", cnt)
	host.Register("spin", spin)
	host.Register("nap", nap)
}
`

func uses(i *interp.Interpreter, h *hostT, tag string, n int) {
	check(tag+" Eval clo()+hs.f()+mp[\"k\"]()", ev(i, `clo()+hs.f()+mp["k"]()`), "34 <nil>")
	check(tag+" host clo, hs.f, mp.k", h.funcs["clo"]()+h.funcs["hs.f"]()+h.funcs["mp.k"](), 34)
	check(tag+" Eval cnt()", ev(i, "cnt()"), fmt.Sprint(2*n-1, " <nil>"))
	check(tag+" host cnt()", h.funcs["cnt"](), 2*n)
	check(tag+" Eval mv()", ev(i, "mv()"), fmt.Sprint(2*n-1, " <nil>"))
	check(tag+" host mv()", h.funcs["mv"](), 2*n)
}

// Function values defined by a completed evaluation survive any number of cancellations,
// called by the host (handles registered during the evaluation) and by later evaluations.
func successive() {
	h := &hostT{}
	i := newInterp(h)
	if _, err := i.Eval(defs); err != nil {
		panic(err)
	}
	uses(i, h, "successive: before", 1)
	cancelled(i, "for {}", 50*time.Millisecond)
	uses(i, h, "successive: after 1", 2)
	cancelled(i, "for { clo(); mv(); cnt() }", 50*time.Millisecond)
	cancelled(i, "select {}", 50*time.Millisecond)
	_, _ = i.Eval("var x = cnt() + mv() - cnt() - mv()") // 4 more calls: n advances by 2
	var n int
	if v, err := i.Eval("cnt()"); err == nil {
		n = int(v.Int())
	}
	check("successive: counters went on in the cancelled loop", n > 8, true)

	// A closure defined by a completed evaluation, called by the host and by a later
	// evaluation which is then cancelled: both calls are stopped.
	res := make(chan int, 1)
	go func() { res <- h.funcs["spin"]() }()
	time.Sleep(20 * time.Millisecond)
	cancelled(i, "spin()", 100*time.Millisecond)
	select {
	case r := <-res:
		check("stopped: host call of spin in flight", r, 0)
	case <-time.After(time.Second):
		check("stopped: host call of spin in flight", "still spinning", 0)
	}
	// ... in a native call as well: what follows the sleep is not run.
	atomic.StoreInt64(&h.count, 0)
	go func() { res <- h.funcs["nap"]() }()
	time.Sleep(20 * time.Millisecond)
	cancelled(i, "nap()", 100*time.Millisecond)
	time.Sleep(400 * time.Millisecond)
	check("stopped: host.Record after the sleeps of nap", atomic.LoadInt64(&h.count), int64(0))
	<-res
	// ... and they work again afterwards.
	check("stopped: nap() later", ev(i, "nap()"), "1 <nil>")
	check("stopped: host nap() later", h.funcs["nap"](), 1)
	check("stopped: clo() later", ev(i, "clo()"), "2 <nil>")
}

// A function value defined by the cancelled evaluation itself is dead, the ones defined
// before are not; a later definition works.
func ownDefinitions() {
	h := &hostT{}
	i := newInterp(h)
	if _, err := i.Eval(`import "host"` + "\nfunc mk(a int) func() int { return func() int { return a + 1 } }\nvar old = mk(1)"); err != nil {
		panic(err)
	}
	cancelled(i, `var mine = mk(5); func init() { host.Register("mine", mine); host.Register("old", old); for {} }`, 50*time.Millisecond)
	check("own: host call of a closure of the cancelled evaluation", h.funcs["mine"](), 0)
	check("own: host call of an earlier closure registered by it", h.funcs["old"](), 2)
	check("own: Eval old()", ev(i, "old()"), "2 <nil>")
	check("own: later definition", ev(i, "mk(7)()"), "8 <nil>")
}

// Two evaluations at the same time, one is cancelled: stop has always cancelled every
// evaluation in progress. Whatever was running is stopped, what was defined before, and
// what is defined afterwards, works.
func concurrent() {
	h := &hostT{}
	i := newInterp(h)
	if _, err := i.Eval(defs); err != nil {
		panic(err)
	}
	var wg sync.WaitGroup
	wg.Add(2)
	var errA, errB error
	go func() {
		defer wg.Done()
		_, errA = i.EvalWithContext(context.Background(), `func() { for i := 0; i < 40; i++ { time.Sleep(5 * time.Millisecond); host.Record() } }()`)
	}()
	go func() {
		defer wg.Done()
		time.Sleep(20 * time.Millisecond)
		ctx, cancel := context.WithTimeout(context.Background(), 60*time.Millisecond)
		defer cancel()
		_, errB = i.EvalWithContext(ctx, `func() { c := make(chan int); go func() { defer host.Record(); <-c }(); for {} }()`)
	}()
	wg.Wait()
	check("concurrent: errors", fmt.Sprint(errA, " / ", errB), "<nil> / context deadline exceeded")
	time.Sleep(50 * time.Millisecond)
	n := atomic.LoadInt64(&h.count)
	check("concurrent: the other evaluation was stopped too (known)", n < 30, true)
	time.Sleep(150 * time.Millisecond)
	check("concurrent: nothing runs after the cancellation", atomic.LoadInt64(&h.count), n)
	uses(i, h, "concurrent: after", 1)

	// Host calls in parallel with an evaluation using the same closures, no cancellation.
	var bad int64
	for k := 0; k < 8; k++ {
		wg.Add(1)
		go func() {
			defer wg.Done()
			for j := 0; j < 200; j++ {
				if h.funcs["clo"]() != 2 || h.funcs["hs.f"]() != 11 {
					atomic.AddInt64(&bad, 1)
				}
			}
		}()
	}
	if _, err := i.Eval(`func loop() int { s := 0; for j := 0; j < 2000; j++ { s += clo() + hs.f() }; return s }`); err != nil {
		panic(err)
	}
	v, err := i.EvalWithContext(context.Background(), `loop()`)
	wg.Wait()
	check("concurrent: evaluation in parallel with host calls", fmt.Sprint(v, err), "26000 <nil>")
	check("concurrent: wrong results of the host calls", bad, int64(0))
}

// A server-like evaluation: main blocks, native code calls the handlers. They work while
// the evaluation runs, whatever happened before, and are dead once it is cancelled.
func longRunning() {
	h := &hostT{}
	i := newInterp(h)
	cancelled(i, "for {}", 30*time.Millisecond) // a cancellation before
	ctx, cancel := context.WithCancel(context.Background())
	done := make(chan error)
	go func() {
		_, err := i.EvalWithContext(ctx, `package main
import "host"
type S struct{ n int }
func (s *S) Handle() int { s.n++; host.Record(); return s.n }
func main() {
	s := &S{}
	host.Register("handler", s.Handle)
	host.Register("lit", func() int { host.Record(); return -1 })
	select {}
}`)
		done <- err
	}()
	time.Sleep(100 * time.Millisecond)
	h.mu.Lock()
	handler, lit := h.funcs["handler"], h.funcs["lit"]
	h.mu.Unlock()
	check("server: handler while running", handler()+handler(), 3)
	check("server: literal while running", lit(), -1)
	cancel()
	check("server: cancelled", fmt.Sprint(<-done), "context canceled")
	check("server: handler after the cancellation", handler(), 0)
	check("server: literal after the cancellation", lit(), 0)
	check("server: side effects", atomic.LoadInt64(&h.count), int64(3))
	check("server: interpreter still usable", ev(i, "1+2"), "3 <nil>")
}

func main() {
	successive()
	ownDefinitions()
	concurrent()
	longRunning()
	if fails > 0 {
		fmt.Println(fails, "failures")
		os.Exit(1)
	}
	fmt.Println("all ok")
}
