// R3: after a cancelled evaluation, the channel operations of a function value called by
// the host (or by a plain Eval) must not be cancelled: they used the closed cancellation
// channel kept by the global frame.
package main

import (
	"context"
	"fmt"
	"os"
	"reflect"
	"time"

	"github.com/traefik/yaegi/interp"
	"github.com/traefik/yaegi/stdlib"
)

const defs = `package main

func N(x int) int { c := make(chan int); go func() { c <- x }(); return <-c }

// send, receive with ok, select, range
func S(x int) int {
	c, d := make(chan int), make(chan int)
	go func() { v, ok := <-c; if ok { d <- v * 2 } }()
	c <- x
	select {
	case v := <-d:
		return v
	}
}

func R(x int) int {
	c := make(chan int)
	go func() { for i := 0; i < x; i++ { c <- i }; close(c) }()
	s := 0
	for v := range c { s += v }
	return s
}

var Clo = func() func(int) int {
	c := make(chan int, 1)
	return func(x int) int { go func() { c <- x + 1 }(); return <-c }
}()

type T struct{ c chan int }
func (t *T) M(x int) int { go func() { t.c <- x * 3 }(); return <-t.c }
var Mv = (&T{make(chan int)}).M
`

var fails int

func check(name string, got, want interface{}) {
	if !reflect.DeepEqual(got, want) {
		fails++
		fmt.Printf("FAIL %-32s got %v want %v\n", name, got, want)
		return
	}
	fmt.Printf("ok   %-32s %v\n", name, got)
}

func cancelled(i *interp.Interpreter, src string) {
	ctx, cancel := context.WithTimeout(context.Background(), 50*time.Millisecond)
	defer cancel()
	if _, err := i.EvalWithContext(ctx, src); err != context.DeadlineExceeded {
		fails++
		fmt.Println("FAIL cancellation:", err)
	}
}

func main() {
	i := interp.New(interp.Options{})
	if err := i.Use(stdlib.Symbols); err != nil {
		panic(err)
	}
	if _, err := i.Eval(defs); err != nil {
		panic(err)
	}
	h := map[string]func(int) int{}
	for _, n := range []string{"N", "S", "R", "Clo", "Mv"} {
		v, err := i.Eval("main." + n)
		if err != nil {
			panic(err)
		}
		h[n] = v.Interface().(func(int) int)
	}
	uses := func(tag string) {
		check(tag+" host N(1)", h["N"](1), 1)
		check(tag+" host S(4)", h["S"](4), 8)
		check(tag+" host R(5)", h["R"](5), 10)
		check(tag+" host Clo(1)", h["Clo"](1), 2)
		check(tag+" host Mv(2)", h["Mv"](2), 6)
		v, err := i.Eval("N(1) + S(4) + R(5) + Clo(1) + Mv(2)")
		check(tag+" Eval", fmt.Sprint(v, err), "27 <nil>")
		v, err = i.EvalWithContext(context.Background(), "N(1) + S(4) + R(5) + Clo(1) + Mv(2)")
		check(tag+" EvalWithContext", fmt.Sprint(v, err), "27 <nil>")
	}
	uses("before")
	cancelled(i, "for {}")
	uses("after 1")
	cancelled(i, "for { N(1) }")
	uses("after 2")
	cancelled(i, "select {}")
	uses("after 3")

	if fails > 0 {
		fmt.Println(fails, "failures")
		os.Exit(1)
	}
	fmt.Println("all ok")
}
