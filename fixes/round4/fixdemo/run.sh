#!/bin/sh
# Run every regression program. MODFILE=go.head.mod ./run.sh runs them against a pristine
# checkout in ../_head (they fail there), MODFILE=go.p1.mod against ../_p1.
export GOFLAGS=-mod=mod GOPROXY=off GOSUMDB=off GOTOOLCHAIN=local
cd "$(dirname "$0")"
mf=${MODFILE:+-modfile=$MODFILE}
rc=0
for d in R1a-callbacks R1b-gofv R1c-deferred R2-hostcall R3-done variations done-lifecycle; do
	if timeout 600 go run $mf ./$d >/tmp/fixdemo-$d.out 2>&1; then echo "ok   $d"; else echo "FAIL $d (see /tmp/fixdemo-$d.out)"; rc=1; fi
done
if timeout 900 go run $mf -tags verif ./R1b-gofv >/tmp/fixdemo-R1b-forced.out 2>&1; then echo "ok   R1b-gofv (forced schedule)"; else echo "FAIL R1b-gofv (forced schedule, see /tmp/fixdemo-R1b-forced.out)"; rc=1; fi
if MODFILE=${MODFILE:+$PWD/$MODFILE} ./F15-9/cmp.sh >/tmp/fixdemo-F15-9.out 2>&1; then echo "ok   F15-9"; else echo "FAIL F15-9 (see /tmp/fixdemo-F15-9.out)"; rc=1; fi
echo "known-open (informational):"
timeout 120 go run $mf ./known-open
exit $rc
