// R2: a function value called by the host must work whatever the state of the last
// evaluation:
//   - window: EvalWithContext has returned the error of the context, the cancelled Execute
//     has not returned yet (the evaluation is in a native call);
//   - edge: the context expires just as the evaluation finishes (sweep of timeouts around
//     the duration of the evaluation);
//   - before any Execute has refreshed anything: handles taken by Symbols at that moment.
package main

import (
	"context"
	"fmt"
	"os"
	"reflect"
	"time"

	"github.com/traefik/yaegi/interp"
	"github.com/traefik/yaegi/stdlib"
)

const defs = `package main
import "time"

func mk(a int) func(int) int { return func(x int) int { return a*x + 2 } }

var Clo = mk(5)

type T struct{ n int }
func (t T) M(x int) int { return t.n + x }
var Mv = T{3}.M

func Top(x int) int { return x + 1 }

func Nest(x int) int { f := func(y int) int { return Top(y) * 2 }; return f(x) }

type H struct{ F func(int) int }
var Hs = H{F: mk(7)}
var Mp = map[string]func(int) int{"a": mk(9)}

func Nap(d time.Duration) { time.Sleep(d) }
`

var fails int

func check(name string, got, want interface{}) {
	if !reflect.DeepEqual(got, want) {
		fails++
		fmt.Printf("FAIL %-44s got %v want %v\n", name, got, want)
		return
	}
	fmt.Printf("ok   %-44s %v\n", name, got)
}

type handles struct {
	clo, mv, top, nest, hf, mp func(int) int
}

func get(i *interp.Interpreter) handles {
	g := func(src string) func(int) int {
		v, err := i.Eval(src)
		if err != nil {
			panic(err)
		}
		return v.Interface().(func(int) int)
	}
	return handles{g("main.Clo"), g("main.Mv"), g("main.Top"), g("main.Nest"), g("main.Hs.F"), g(`main.Mp["a"]`)}
}

func (h handles) check(tag string) {
	check(tag+" Clo(4)", h.clo(4), 22)
	check(tag+" Mv(4)", h.mv(4), 7)
	check(tag+" Top(4)", h.top(4), 5)
	check(tag+" Nest(4)", h.nest(4), 10)
	check(tag+" Hs.F(1)", h.hf(1), 9)
	check(tag+` Mp["a"](1)`, h.mp(1), 11)
}

func symbols(i *interp.Interpreter, tag string) {
	s := i.Symbols("main")["main"]
	check(tag+" Symbols Top(4)", s["Top"].Interface().(func(int) int)(4), 5)
	check(tag+" Symbols Nest(4)", s["Nest"].Interface().(func(int) int)(4), 10)
	check(tag+" Symbols Clo(4)", s["Clo"].Interface().(func(int) int)(4), 22)
}

func main() {
	i := interp.New(interp.Options{})
	if err := i.Use(stdlib.Symbols); err != nil {
		panic(err)
	}
	if _, err := i.Eval(defs); err != nil {
		panic(err)
	}
	h := get(i)
	h.check("before")

	// Window: the cancelled evaluation sleeps in native code for 400ms more.
	for _, src := range []string{"Nap(500 * time.Millisecond)", "func() { Nap(500 * time.Millisecond) }()"} {
		ctx, cancel := context.WithTimeout(context.Background(), 100*time.Millisecond)
		t0 := time.Now()
		_, err := i.EvalWithContext(ctx, src)
		cancel()
		check("window: cancelled", fmt.Sprint(err, time.Since(t0) < 300*time.Millisecond), "context deadline exceeded true")
		h.check("window")
		symbols(i, "window")
		time.Sleep(500 * time.Millisecond) // the cancelled Execute returns
		h.check("after window")
		symbols(i, "after window")
	}

	// Edge: the evaluation lasts about 10ms; timeouts from 8ms to 12ms.
	bad := 0
	for k := 0; k < 200; k++ {
		d := 8*time.Millisecond + time.Duration(k%50)*80*time.Microsecond
		ctx, cancel := context.WithTimeout(context.Background(), d)
		_, _ = i.EvalWithContext(ctx, "Nap(10 * time.Millisecond)")
		cancel()
		if h.top(4) != 5 || h.clo(4) != 22 || h.mv(4) != 7 || h.nest(4) != 10 {
			bad++
		}
	}
	check("edge: wrong host calls in 200 evaluations", bad, 0)

	// The interpreter is still fine.
	v, err := i.Eval("Clo(1) + Mv(1) + Top(1) + Nest(1)")
	check("later Eval", fmt.Sprint(v, err), "17 <nil>")

	if fails > 0 {
		fmt.Println(fails, "failures")
		os.Exit(1)
	}
	fmt.Println("all ok")
}
