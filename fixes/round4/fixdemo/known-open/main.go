// What still diverges after the repair (informational: prints what happens, never fails).
package main

import (
	"context"
	"fmt"
	"reflect"
	"sync/atomic"
	"time"

	"github.com/traefik/yaegi/interp"
	"github.com/traefik/yaegi/stdlib"
)

var count *int64

func newInterp() *interp.Interpreter {
	c := new(int64) // the callbacks of the previous case may still run
	count = c
	i := interp.New(interp.Options{})
	if err := i.Use(stdlib.Symbols); err != nil {
		panic(err)
	}
	if err := i.Use(interp.Exports{"host/host": {
		"Record": reflect.ValueOf(func() { atomic.AddInt64(c, 1) }),
	}}); err != nil {
		panic(err)
	}
	return i
}

func cancelled(i *interp.Interpreter, src string, d time.Duration) {
	ctx, cancel := context.WithTimeout(context.Background(), d)
	defer cancel()
	_, err := i.EvalWithContext(ctx, src)
	fmt.Println("   cancelled:", err)
}

func main() {
	// 1. A function value defined by an earlier, completed evaluation, called by what is
	// left of a cancelled one: it runs in the current run.
	i := newInterp()
	if _, err := i.Eval(`import ("host"; "time")
var tick func()
func init() { tick = func() { host.Record(); time.AfterFunc(5*time.Millisecond, tick) } }`); err != nil {
		panic(err)
	}
	fmt.Println("1. callback defined by an earlier evaluation, armed by the cancelled one")
	cancelled(i, "tick(); select {}", 100*time.Millisecond)
	n := atomic.LoadInt64(count)
	time.Sleep(300 * time.Millisecond)
	fmt.Printf("   calls at the cancellation: %d, 300ms later: %d (want the same)\n", n, atomic.LoadInt64(count))

	// 2. Top level code of a cancelled evaluation which is in a native call: it goes on
	// when the native call returns if another evaluation has started meanwhile (the
	// global frame is shared and has got the run id of the new evaluation).
	i = newInterp()
	if _, err := i.Eval(`import ("host"; "time")`); err != nil {
		panic(err)
	}
	fmt.Println("2. top level code in a native call, another evaluation starts before it returns")
	cancelled(i, "time.Sleep(300 * time.Millisecond); host.Record()", 100*time.Millisecond)
	_, _ = i.Eval("time.Sleep(400 * time.Millisecond)")
	fmt.Printf("   host.Record after the cancelled sleep: %d (want 0)\n", atomic.LoadInt64(count))

	// 3. The context is done before the execution starts (during the compilation):
	// nothing is running when stop is called, the execution then runs in full.
	i = newInterp()
	if _, err := i.Eval(`import "host"`); err != nil {
		panic(err)
	}
	fmt.Println("3. context done before the execution starts")
	ctx, cancel := context.WithCancel(context.Background())
	cancel()
	_, err := i.EvalWithContext(ctx, "host.Record()")
	time.Sleep(100 * time.Millisecond)
	fmt.Printf("   error: %v, host.Record: %d (want 0)\n", err, atomic.LoadInt64(count))
}
