// R1(a): once EvalWithContext has returned the error of the context, native code started
// by the cancelled evaluation must not be able to run interpreted code any more: every
// program below re-arms a timer whose callback is an interpreted function value.
// The callbacks must stop (a call in flight at the cancellation may complete).
package main

import (
	"context"
	"fmt"
	"os"
	"reflect"
	"sync/atomic"
	"testing/fstest"
	"time"

	"github.com/traefik/yaegi/interp"
	"github.com/traefik/yaegi/stdlib"
)

type tcase struct{ name, src string }

const hdr = "package main\nimport (\"time\"; \"host\")\n"

var cases = []tcase{
	{"named function", hdr + `
func tick() { host.Record(); time.AfterFunc(5*time.Millisecond, tick) }
func main() { tick(); select {} }`},
	{"function literal", hdr + `
var tick func()
func main() {
	tick = func() { host.Record(); time.AfterFunc(5*time.Millisecond, tick) }
	tick()
	<-make(chan int)
}`},
	{"closure over a local", hdr + `
func main() {
	n := 0
	var tick func()
	tick = func() { n++; host.Record(); time.AfterFunc(5*time.Millisecond, tick) }
	tick()
	for {}
}`},
	{"method value", hdr + `
type T struct{ n int }
func (t *T) Tick() { t.n++; host.Record(); time.AfterFunc(5*time.Millisecond, t.Tick) }
func main() { t := &T{}; t.Tick(); select {} }`},
	{"function value in a struct", hdr + `
type H struct{ f func() }
var h H
func main() {
	h.f = func() { host.Record(); time.AfterFunc(5*time.Millisecond, h.f) }
	h.f()
	select {}
}`},
	{"function value in a map", hdr + `
var m = map[string]func(){}
func main() {
	m["t"] = func() { host.Record(); time.AfterFunc(5*time.Millisecond, m["t"]) }
	m["t"]()
	for { time.Sleep(time.Millisecond) }
}`},
	{"armed by a top level statement", hdr + `
func tick() { host.Record(); time.AfterFunc(5*time.Millisecond, tick) }
var t = time.AfterFunc(time.Millisecond, tick)
func main() { select {} }`},
	{"armed by an init function, closure made by a function", hdr + `
func mk(d time.Duration) func() {
	var f func()
	f = func() { host.Record(); time.AfterFunc(d, f) }
	return f
}
func init() { mk(5*time.Millisecond)() }
func main() { c := make(chan int); c <- 1 }`},
	{"callback through an interface method", hdr + `
import "sort"
type S []int
func (s S) Len() int { return len(s) }
func (s S) Less(i, j int) bool { host.Record(); return s[i] < s[j] }
func (s S) Swap(i, j int) { s[i], s[j] = s[j], s[i] }
func again() { sort.Sort(S{3, 1, 2}); time.AfterFunc(5*time.Millisecond, again) }
func main() { again(); select {} }`},
}

func run(c tcase, how string) bool {
	var count int64
	fsys := fstest.MapFS{"src/main/main.go": &fstest.MapFile{Data: []byte(c.src)}}
	i := interp.New(interp.Options{GoPath: "./", SourcecodeFilesystem: fsys})
	if err := i.Use(stdlib.Symbols); err != nil {
		panic(err)
	}
	if err := i.Use(interp.Exports{"host/host": {
		"Record": reflect.ValueOf(func() { atomic.AddInt64(&count, 1) }),
	}}); err != nil {
		panic(err)
	}
	ctx, cancel := context.WithTimeout(context.Background(), 150*time.Millisecond)
	defer cancel()
	var err error
	switch how {
	case "EvalWithContext":
		_, err = i.EvalWithContext(ctx, c.src)
	case "ExecuteWithContext":
		var p *interp.Program
		if p, err = i.Compile(c.src); err != nil {
			panic(err)
		}
		_, err = i.ExecuteWithContext(ctx, p)
	case "EvalPathWithContext": // a directory: the package is run by importSrc
		_, err = i.EvalPathWithContext(ctx, "./src/main")
	}
	atCancel := atomic.LoadInt64(&count)
	time.Sleep(100 * time.Millisecond) // the call in flight settles
	settled := atomic.LoadInt64(&count)
	// A later evaluation must not revive the callbacks either.
	if _, err2 := i.Eval("1+1"); err2 != nil && how != "EvalPathWithContext" {
		fmt.Println("later Eval:", err2)
	}
	time.Sleep(400 * time.Millisecond)
	after := atomic.LoadInt64(&count)
	ok := err == context.DeadlineExceeded && atCancel > 0 && after == settled
	status := "ok  "
	if !ok {
		status = "FAIL"
	}
	fmt.Printf("%s %-19s %-50s calls at cancel=%d settled=%d later=%d err=%v\n", status, how, c.name, atCancel, settled, after, err)
	return ok
}

func main() {
	fails := 0
	for _, c := range cases {
		for _, how := range []string{"EvalWithContext", "ExecuteWithContext", "EvalPathWithContext"} {
			if !run(c, how) {
				fails++
			}
		}
	}
	if fails > 0 {
		fmt.Println(fails, "failures")
		os.Exit(1)
	}
	fmt.Println("all ok")
}
