package main

import (
	"bytes"
	"fmt"
)

type A struct {
	p  **B
	q  *B
	m  map[string]*B
}

type B struct {
	n    int
	next *B
	back **A
}

type P struct {
	I *int
	J **int
	K interface{}
}

type G[X any] struct{ v *X }

func (g *G[X]) Get() X { return *g.v }

type Int int

func (b *B) inc() *B { b.n++; return b }

var gb = &B{n: 1}
var gpb = &gb
var ga = A{gpb, *gpb, map[string]*B{"x": *gpb}}

func main() {
	x := 5
	px := &x
	ppx := &px
	fmt.Println(*P{px, ppx, nil}.I, **P{px, ppx, nil}.J)
	fmt.Println(P{(*int)(nil), (**int)(nil), (*int)(nil)}.I == nil)
	fmt.Println(P{*ppx, ppx, *px}.K, *P{*ppx, ppx, **ppx}.I)
	fmt.Println(len([]*B{gb, *gpb}), []**B{gpb}[0] == gpb)
	fmt.Println([]interface{}{(*int)(nil), (**P)(nil)}...)
	fmt.Println(map[string]*int{"a": px}["a"] == px, *map[*int]*int{px: *ppx}[px])
	fmt.Println(ga.q.n, (*ga.p).n, ga.m["x"].inc().n)
	g := G[int]{px}
	pg := &g
	fmt.Println(g.Get(), []int{(*pg).Get(), *(*pg).v, *pg.v})
	fmt.Println([]G[int]{*pg}[0].Get())
	Int := &x // shadows the type Int
	fmt.Println([]int{*Int, *Int + 1}, [][]int{{*Int}})
	bb := bytes.NewBufferString("buf")
	pbb := &bb
	fmt.Println([]string{(*pbb).String(), (**pbb).String()[1:]}, []bytes.Buffer{**pbb}[0].Len())
	fmt.Println([]fmt.Stringer{*pbb, bb}[0].String())
	np := new(*B)
	*np = gb
	fmt.Println([]int{(*np).n, (**np).n}, [1]B{**np}[0].n)
	arr := [2][]int{{1, 2}, {3, 4}}
	parr := &arr
	fmt.Println([][]int{(*parr)[1], parr[0][1:], (*parr)[0][:1]}, [][][]int{(*parr)[:1]})
	type L struct {
		p *[2]int
		s []int
	}
	l := L{&[2]int{7, 8}, nil}
	pl := &l
	fmt.Println(L{(*pl).p, (*pl).p[:1]}.s, L{pl.p, (*(*pl).p)[1:]}.s)
	ch := make(chan *[2]int, 1)
	ch <- l.p
	fmt.Println(L{nil, (*<-ch)[:]}.s)
	f := func(p *[2]int) *[2]int { return p }
	fmt.Println(L{f(l.p), (*f(l.p))[1:]}.s, L{s: (*f(l.p))[:1]}.s)
	var e interface{} = l.p
	fmt.Println(L{nil, (*e.(*[2]int))[:]}.s)
}
