package main

import "fmt"

type T struct{ S []int }

type Q struct{ f []int }

type U struct {
	A []int
	B int
	C string
	D *[3]int
	E [3]int
}

func main() {
	a := [3]int{1, 2, 3}
	pa := &a
	s := []int{4, 5, 6}
	ps := &s
	q := &Q{s}
	pq := &q
	fn := func() []int { return s }
	pf := &fn
	str := "hello"
	pstr := &str
	ppa := &pa

	fmt.Println(T{(*pa)[0:2]})
	fmt.Println(T{(*pa)[:]})
	fmt.Println(T{(*pa)[1:2:3]})
	fmt.Println(T{pa[0:2]})
	fmt.Println(T{(*ps)[1:]})
	fmt.Println(T{(*ps)})
	fmt.Println(T{*ps})
	fmt.Println(T{(*pq).f})
	fmt.Println(T{(**pq).f[1:]})
	fmt.Println(T{(*pf)()})
	fmt.Println(T{(*pf)()[:1]})
	fmt.Println(T{(**ppa)[1:]})
	fmt.Println(T{(*(*ppa))[1:]})
	fmt.Println([][]int{(*pa)[1:]})
	fmt.Println([][]int{(*pa)[1:], pa[:1], (*ps)[2:], *ps})
	fmt.Println([]string{(*pstr)[1:3], *pstr})
	fmt.Println([]int{(*pa)[0], (*ps)[1]})
	fmt.Println(map[string][]int{"k": (*pa)[1:]})
	fmt.Println([]interface{}{(*pa)[1:], *pa, *ps, *pstr})
	fmt.Println(U{(*pa)[1:], (*pa)[2], (*pstr)[:2], nil, *pa})
	fmt.Println([]T{{(*pa)[1:]}, {(*ps)[:1]}})
	fmt.Println([][3]int{*pa, **ppa})
	fmt.Println(&T{(*pa)[:2]})
	fmt.Println(*[]*[3]int{*ppa}[0])
}
