package main

import "fmt"

type T struct{ S []int }

func main() {
	pa := &[3]int{1, 2, 3}
	t := T{(*pa)[0:2]}
	u := T{pa[0:2]}
	v := [][]int{(*pa)[1:]}
	w := [][]int{pa[1:]}
	fmt.Println(t, u, v, w)
}
