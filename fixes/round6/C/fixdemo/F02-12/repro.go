package main

import "fmt"

const c0, c1 float64 = 0.0, -2.5

func g() interface{} { return c0 / c1 }

func main() {
	var e interface{} = c0 * c1
	fmt.Println(e, g())
}
