package main

import "fmt"

type Celsius float64

func (c Celsius) String() string { return fmt.Sprintf("%.1fC", float64(c)) }

const boil Celsius = 100

// Diverging before and after the F02-12 repair (other causes):
//   - a value of a type with methods as element of a []interface{} literal is printed as the
//     internal valueInterface wrapper ({0xc... {...}});
//   - Go rejects 1 / (c0 * c1) (division by zero), yaegi prints +Inf.
func main() {
	var c Celsius = 3
	fmt.Println([]interface{}{boil, c}...)
}
