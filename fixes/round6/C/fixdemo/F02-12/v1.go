package main

import "fmt"

const c0, c1 float64 = 0.0, -2.5
const f0, f1 float32 = 0, -3
const z0, z1 complex128 = 0, -1 - 1i
const y0 complex64 = 0
const i0, i1 int = 0, -4

type F float64

const t0, t1 F = 0, -1

var g0 interface{} = c0 * c1
var g1, g2 interface{} = c0 / c1, f0 * f1
var g3 fmt.Stringer
var g4 any = z0 * z1

func g() interface{}        { return c0 / c1 }
func h() (interface{}, any) { return c0 * c1, z0 / z1 }
func k() (a interface{})    { return f0 * f1 }
func m() (int, interface{}) { return 1, t0 * t1 }

func main() {
	var e interface{} = c0 * c1
	fmt.Println(e, g())
	fmt.Println(g0, g1, g2, g4)
	fmt.Println(h())
	fmt.Println(k())
	fmt.Println(m())
	var e1, e2 interface{} = c0 / c1, z0 * z1
	fmt.Println(e1, e2)
	var e3 interface{} = -c0
	var e4 interface{} = c0 * -1
	var e5 interface{} = (c0 * c1) + c0
	var e6 interface{} = y0 * -1
	var e7 interface{} = i0 * i1
	var e8 interface{} = c1 * c1
	var e9 any = t0 / t1
	fmt.Println(e3, e4, e5, e6, e7, e8, e9)
	fmt.Printf("%T %T %T %T\n", e, e6, e7, g2)
	var e10 interface{} = c0*c1 == 0
	fmt.Println(e10)
	e = c0 * c1
	fmt.Println(e)
	var s []interface{} = []interface{}{c0 * c1}
	var mm = map[string]interface{}{"a": c0 * c1}
	fmt.Println(s, mm)
}
