package main

import (
	"fmt"
	"math"
	"time"
)

type Celsius float64

func (c Celsius) String() string { return fmt.Sprintf("%.1fC", float64(c)) }

type Weekday int

const (
	Sunday Weekday = iota
	Monday
	Tuesday
)

const (
	KB int64 = 1 << (10 * (iota + 1))
	MB
)

const boil, freeze Celsius = 100, 0
const s0, s1 string = "ab", "cd"
const u8 uint8 = 200
const i8 int8 = 100
const big = 1 << 40
const fl32 float32 = 0.1
const timeout = 2 * time.Second

var arr [Tuesday * 2]int

func ret() (interface{}, fmt.Stringer, any, error) { return s0 + s1, boil - freeze, KB * 2, nil }

func dur() interface{} { return timeout * 3 }

func mix(x float64) interface{} { return x * c() }

func c() float64 { return 2 }

func main() {
	var a interface{} = boil - freeze
	var b fmt.Stringer = boil / 4
	var d interface{} = s0 + s1
	var e interface{} = Monday + Tuesday
	var f interface{} = KB * 3
	var g interface{} = u8 / 3
	var h interface{} = i8 - 28
	var i interface{} = big * 2
	var j interface{} = fl32 * 3
	var k interface{} = timeout / 4
	var l interface{} = 2 * time.Millisecond
	var m interface{} = math.Pi * 2
	var n interface{} = math.MaxInt32 + 1
	var o any = u8 &^ 0x0f
	var p any = u8 | 1 ^ 2
	fmt.Println(a, b, d, e, f, g, h, i, j, k, l, m, n, o, p)
	fmt.Printf("%T %T %T %T %T %T %T %T %T\n", d, f, g, h, i, j, k, l, m)
	fmt.Println(ret())
	fmt.Println(dur(), mix(1.5), len(arr))
	x, y := 3.0, -0.0
	var q interface{} = x * y
	var r interface{} = x*2 + boilF()
	fmt.Println(q, r)
	var t interface{}
	t = boil * 2
	if v, ok := t.(Celsius); ok {
		fmt.Println("celsius", v+1)
	}
	t = s0 + "x"
	switch v := t.(type) {
	case string:
		fmt.Println("string", v+s1)
	}
	t = KB - 24
	fmt.Println(t.(int64) + 1)
	var z1, z2 interface{} = u8 % 7, i8 << 0
	fmt.Println(z1, z2)
	lst := []interface{}{float64(boil + 1), s0 + s1, u8 - 1}
	fmt.Println(lst...)
	fmt.Println(map[interface{}]interface{}{i8 + 1: fl32 * 2})
	func(v ...interface{}) { fmt.Println(v...) }(float64(boil*1), KB+1)
	ch := make(chan interface{}, 1)
	ch <- u8 + 5
	fmt.Println(<-ch)
}

func boilF() float64 { return float64(boil) }
