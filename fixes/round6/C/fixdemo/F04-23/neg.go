package main

import (
	"bytes"
	"errors"
	"fmt"
	"io"
	"os"
	"path/filepath"
	"strconv"
	"strings"
	"time"
)

type S struct{ buf bytes.Buffer }

func (s *S) get() (a string, n int) {
	s.buf.WriteString("hello")
	return s.buf.String(), s.buf.Len()
}

func g1(s string) (int, error) { return strconv.Atoi(s) }

func g2(s string) (n int, err error) {
	if s == "" {
		return 0, errors.New("empty")
	}
	for i := 0; i < 2; i++ {
		if i == 1 {
			return strconv.Atoi(s)
		}
	}
	return
}

func g3() (r io.Reader, s fmt.Stringer) {
	b := bytes.NewBufferString("abc")
	return strings.NewReader("xyz"), b
}

func g4() (a, b string) {
	f := func() (c, d string) {
		c, d = "c", "d"
		return strings.ToUpper(d), c
	}
	x, y := f()
	return strings.ToLower(x), y + a
}

func g5(n int) (a string, b int) {
	if n == 0 {
		return "", 0
	}
	a, b = g5(n - 1)
	return strings.Repeat("x", b+1) + a, len(a)
}

func g6() (a error) {
	w := func(path string, info os.FileInfo, err error) error { return fmt.Errorf("w %s", path) }
	return filepath.WalkFunc(w)("p", nil, nil)
}

func g7() (d time.Duration, s string) {
	d = time.Second
	return time.Duration(2) * d, d.String()
}

func g8() (f func(string) string, s string) {
	s = "q"
	return strings.ToUpper, strings.ToUpper(s)
}

func g9() (a interface{}, b interface{}) {
	a, b = 1, 2
	return fmt.Sprint(b), fmt.Sprint(a)
}

func g10() (a []string, b string) {
	b = "a,b"
	return strings.Split(b, ","), strings.Replace(b, ",", ";", -1)
}

func g11() (a string, b string) {
	a, b = "x", "y"
	defer func() { a = a + "!" }()
	return fmt.Sprint(b), a
}

func g12() (x, y int) {
	x, y = 3, 4
	return cap(make([]int, y, 10)), len(make([]int, x))
}

func g13() (a string, err error) {
	a = "z"
	_, err = strconv.Atoi("q")
	return fmt.Sprint(err != nil), fmt.Errorf("wrap %s: %w", a, err)
}

func main() {
	s := &S{}
	fmt.Println(s.get())
	fmt.Println(g1("42"))
	fmt.Println(g2("17"))
	fmt.Println(g2(""))
	r, st := g3()
	bs, _ := io.ReadAll(r)
	fmt.Println(string(bs), st)
	fmt.Println(g4())
	fmt.Println(g5(4))
	fmt.Println(g6())
	fmt.Println(g7())
	f, u := g8()
	fmt.Println(f("k"), u)
	fmt.Println(g9())
	fmt.Println(g10())
	fmt.Println(g11())
	fmt.Println(g12())
	fmt.Println(g13())
}
