package main

import "fmt"

func f() (a, b string) {
	a, b = "x", "y"
	return fmt.Sprint(b), a
}

func main() { fmt.Println(f()) }
