package main

import (
	"fmt"
	"strings"
)

// Still diverging after the F04-23 repair (limit of the two-phase return of 8544122, also with
// script functions): the named result is read by a closure called in a later operand, which
// the operand walk does not see (level 1). Go: X x; yaegi: X X.
func f14() (a, b string) {
	a, b = "x", "y"
	return strings.ToUpper(a), func() string { return a }()
}

func main() { fmt.Println(f14()) }

// Also diverging before and after the repair (not a return-order problem): a call of a function
// FIELD converted to an interface result prints an empty line (Go: me-test):
//
//	type SecretProvider func(user, realm string) string
//	type BasicAuth struct { Realm string; Secrets SecretProvider }
//	func (a *BasicAuth) Itf() interface{} { return a.Secrets("me", a.Realm) }
