package main

import "fmt"

type SecretProvider func(user, realm string) string

type BasicAuth struct {
	Realm   string
	Secrets SecretProvider
}

func (a *BasicAuth) CheckAuth() string { return a.Secrets("me", a.Realm) }

func (a *BasicAuth) Two() (string, string) { return a.Secrets("me", a.Realm), "z" }

func (a *BasicAuth) Three() (x, y string, z interface{}) {
	x, y = "x", "y"
	return a.Secrets(y, a.Realm), x, a.Secrets(x, y)
}


func secretBasic(user, realm string) string { return user + "-" + realm }

func main() {
	b := &BasicAuth{"test", secretBasic}
	fmt.Println(b.CheckAuth())
	fmt.Println(b.Two())
	fmt.Println(b.Three())
}
