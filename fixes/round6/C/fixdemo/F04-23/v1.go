package main

import (
	"bytes"
	"fmt"
	"path/filepath"
	"os"
	"strconv"
	"strings"
)

type I interface{ String() string }

func f1() (a, b string) {
	a, b = "x", "y"
	return fmt.Sprint(b), a
}

func f2() (a int, b string) {
	a, b = 7, "yy"
	return len(b), strconv.Itoa(a)
}

func f3() (a, b, c string) {
	a, b, c = "x", "y", "z"
	return strings.ToUpper(c), strings.ToUpper(a), a + b
}

func f4() (a, b string) {
	a, b = "x", "y"
	return (fmt.Sprint(b)), (a)
}

func f5() (a int64, b int) {
	a, b = 5, 9
	return int64(b), int(a)
}

func f6() (a, b string) {
	a, b = "x", "y"
	return string([]byte(b)), a
}

func f7() (a interface{}, b string) {
	a, b = "x", "y"
	return strings.Repeat(b, 2), fmt.Sprint(a)
}

func f8() (a I, b string) {
	a = bytes.NewBufferString("x")
	b = "y"
	return bytes.NewBufferString(b), a.String()
}

func f9() (a int, b []int) {
	a, b = 1, []int{1, 2, 3}
	return cap(b) + len(b), append(b, a)
}

func f10() (a, b string) {
	a, b = "x", "y"
	return strings.ToUpper(b) + "!", a
}

func f11() (n int, err error) {
	return strconv.Atoi("12")
}

func f12() (a string, b error) {
	a = "x"
	b = fmt.Errorf("e")
	return fmt.Sprint(b), fmt.Errorf("%s", a)
}

func f13() (a, b string) {
	a, b = "x", "y"
	return strings.ToUpper(a), strings.ToUpper(b)
}

func f14() (a, b string) {
	a, b = "x", "y"
	return strings.ToUpper(a), func() string { return a }()
}

func f15() (a error, b string) {
	b = "q"
	w := func(path string, info os.FileInfo, err error) error { return fmt.Errorf("w %s", path) }
	return filepath.WalkFunc(w)(b, nil, nil), fmt.Sprint(a)
}

func f16() (a, b, c int) {
	a, b, c = 1, 2, 3
	return len(strconv.Itoa(c * 100)), a, b
}

func f17() (a, b float64) {
	a, b = 1.5, 2.5
	return float64(int(b)), a
}

func f18() (a, b string) {
	a, b = "x", "y"
	return strings.Join([]string{b, a}, "-"), strings.Join([]string{a, b}, "+")
}

func main() {
	fmt.Println(f1())
	fmt.Println(f2())
	fmt.Println(f3())
	fmt.Println(f4())
	fmt.Println(f5())
	fmt.Println(f6())
	fmt.Println(f7())
	fmt.Println(f8())
	fmt.Println(f9())
	fmt.Println(f10())
	fmt.Println(f11())
	fmt.Println(f12())
	fmt.Println(f13())
	fmt.Println(f15())
	fmt.Println(f16())
	fmt.Println(f17())
	fmt.Println(f18())
}
