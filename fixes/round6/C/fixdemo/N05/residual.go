package main

import "fmt"

// Still diverging after the N05 repair (different cause: a NON-constant shift of an untyped
// constant inside a conversion gets no integer type): prints nothing and exits 0.
func main() {
	s := uint(3)
	fmt.Println(int8(2.0 << s))
	fmt.Println(int64(1.0 << s))
}
