package main

import "fmt"

const k = 2

type MyInt int16

var p0 interface{} = 1.0 << 3
var p1 interface{} = (4 + 0i) << 1
var p2 any = 16.0 >> 2
var p3, p4 interface{} = 'a' << 1, 1 << k
var p5 = 1.0 << 3
var p6 float64 = 1.0 << 3
var p7 interface{} = 1 << 3
var p8 interface{} = 2.0 * 4
var p9 interface{} = (1.0 << 3) + 0.5
var p10 interface{} = 1.0<<3 | 1

func r0() interface{}        { return 1.0 << 3 }
func r1() (interface{}, any) { return 3, 8.0 >> k }
func r2() int8               { return 2.0 << 3 }
func r3() float32            { return 2.0 << 3 }
func r4() (x interface{})    { return (2 + 0i) << k }

func show(vs ...interface{}) {
	for _, v := range vs {
		fmt.Printf("%v %T; ", v, v)
	}
	fmt.Println()
}

func main() {
	show(p0, p1, p2, p3, p4, p5, p6, p7, p8, p9, p10)
	var i interface{} = 1.0 << 3
	var j = 1.0 << 3
	x := 16.0 >> 2
	y := (4 + 0i) << 1
	var z interface{} = (4 + 0i) << 1
	var w, v interface{} = 64.0 >> 2, 1.0 << 62
	show(i, j, x, y, z, w, v)
	show(r0())
	show(r1())
	show(r2(), r3(), r4())
	var e interface{}
	e = 1.0 << 4
	show(e)
	e = 'a' << 1
	show(e)
	var m MyInt = 1.0 << 3
	m += 2.0 << 1
	var f32 float32 = 1 << 3
	var c complex128 = 2.0 << 1
	var u8 uint8 = 1.0 << 7
	show(int16(m), f32, c, u8)
	show(1.0<<3, map[string]interface{}{"a": 4.0 >> 1})
	fmt.Println([]interface{}{2.0 << 2, 1.0<<3 | 1})
	var arr [1.0 << 2]int
	show(len(arr), 1.0<<3 == 8, 1.0<<3 + 0.5)
	const c1 = 1.0 << 3
	const c2 float64 = 1.0 << 3
	const c3 int8 = 1.0 << 3
	var ic interface{} = c1
	show(c1, c2, c3, ic, c1/3, c1/3.0)
	s := uint(3)
	var n1 int8 = 2.0 << s
	var n2 = 1 << s
	show(n1, n2)
	ch := make(chan interface{}, 1)
	ch <- 2.0 << 2
	show(<-ch)
	switch q := interface{}(3.0 << 1).(type) {
	case int:
		show("int", q)
	default:
		show("other", q)
	}
}
