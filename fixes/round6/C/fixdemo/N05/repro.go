package main

import "fmt"

var i interface{} = 1.0 << 3
var k interface{} = (4 + 0i) << 1

func main() {
	fmt.Printf("%v %T\n", i, i)
	fmt.Printf("%v %T\n", k, k)
	var l interface{} = 1.0 << 3
	fmt.Printf("%v %T\n", l, l)
	fmt.Println("end")
}
