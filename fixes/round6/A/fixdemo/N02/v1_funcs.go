package main

import (
	"fmt"
	"strconv"
)

func mapf[T, U any](a []T, f func(T) U) []U {
	var r []U
	for _, x := range a {
		r = append(r, f(x))
	}
	return r
}

func reduce[T, A any](a []T, init A, f func(A, T) A) A {
	acc := init
	for _, x := range a {
		acc = f(acc, x)
	}
	return acc
}

func filter[T any](a []T, keep func(T) bool) []T {
	var r []T
	for _, x := range a {
		if keep(x) {
			r = append(r, x)
		}
	}
	return r
}

func compose[A, B, C any](f func(A) B, g func(B) C) func(A) C {
	return func(a A) C { return g(f(a)) }
}

func apply2[T, U, V any](t T, u U, f func(T, U) (V, error)) (V, error) { return f(t, u) }

type point struct{ x, y int }

func main() {
	fmt.Println(mapf([]int{1, 2}, func(i int) string { return fmt.Sprint(i) + "!" }))
	fmt.Println(mapf([]string{"a", "bb"}, func(s string) int { return len(s) }))
	fmt.Println(mapf([]float64{1.5, 2.5}, func(f float64) bool { return f > 2 }))
	fmt.Println(mapf([]point{{1, 2}, {3, 4}}, func(p point) int { return p.x * p.y }))
	fmt.Println(mapf([]int{1, 2}, func(i int) int { return i * 2 }))
	fmt.Println(reduce([]int{1, 2, 3}, "", func(acc string, i int) string { return acc + strconv.Itoa(i) }))
	fmt.Println(reduce([]string{"a", "bcd"}, 0, func(acc int, s string) int { return acc + len(s) }))
	fmt.Println(filter([]int{1, 2, 3, 4}, func(i int) bool { return i%2 == 0 }))
	h := compose(func(i int) string { return strconv.Itoa(i) }, func(s string) []byte { return []byte(s + s) })
	fmt.Println(h(12))
	fmt.Println(apply2("12", 10, func(s string, base int) (int64, error) { return strconv.ParseInt(s, base, 64) }))
	// Nested instantiations.
	fmt.Println(mapf(mapf([]int{1, 2, 3}, func(i int) float64 { return float64(i) / 2 }), func(f float64) string { return fmt.Sprintf("%.1f", f) }))
}
