package main

import "fmt"

func same[T any](a T, b T) string { return fmt.Sprintf("%T %v %v", a, a, b) }

func grouped[T, U any](a, b T, c U) string { return fmt.Sprintf("%T %T %v %v %v", a, c, a, b, c) }

func rev[T, U any](u U, t T) string { return fmt.Sprintf("%T %T", u, t) }

func rev3[A, B, C any](c C, a A, b B) string { return fmt.Sprintf("%T %T %T", a, b, c) }

func pair[K comparable, V any](m map[K]V, k K, d V) V {
	if v, ok := m[k]; ok {
		return v
	}
	return d
}

func revmap[K comparable, V any](d V, m map[K]V, k K) V {
	if v, ok := m[k]; ok {
		return v
	}
	return d
}

func keysOf[V any, K comparable](m map[K]V) int { return len(m) }

func send[T any](c chan T, p *T) { c <- *p }

func zip[T, U any](a []T, b []U, f func(T, U) string) (r []string) {
	for i := range a {
		r = append(r, f(a[i], b[i]))
	}
	return
}

func main() {
	x, y := 1, 2
	fmt.Println(same(x, y))
	fmt.Println(same("a", "b"))
	fmt.Println(grouped(x, y, "s"))
	fmt.Println(grouped("s", "t", 2.5))
	fmt.Println(rev("a", x))
	fmt.Println(rev(x, "a"))
	fmt.Println(rev3(true, x, "b"))
	m := map[string]float64{"a": 1.5}
	fmt.Println(pair(m, "a", 0.5), pair(m, "b", 0.5))
	fmt.Println(revmap(0.5, m, "a"), revmap(0.5, m, "b"))
	fmt.Println(keysOf(m))
	c := make(chan int, 1)
	send(c, &x)
	fmt.Println(<-c)
	fmt.Println(zip([]int{1, 2}, []string{"a", "b"}, func(i int, s string) string { return fmt.Sprint(i, s) }))
}
