package main

import "fmt"

func mapf[T, U any](a []T, f func(T) U) []U {
	var r []U
	for _, x := range a {
		r = append(r, f(x))
	}
	return r
}

func main() {
	fmt.Println(mapf([]int{1, 2}, func(i int) string { return fmt.Sprint(i) + "!" }))
}
