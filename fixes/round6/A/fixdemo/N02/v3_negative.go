package main

import "fmt"

// Programs which worked before the repair.
type Number interface{ ~int | ~int64 | ~float64 }

func sum[T Number](a []T) (s T) {
	for _, x := range a {
		s += x
	}
	return
}

func first[T any](a []T) T { return a[0] }

func kv[K comparable, V any](m map[K]V) (ks []K, vs []V) {
	for k, v := range m {
		ks = append(ks, k)
		vs = append(vs, v)
	}
	return
}

func ident[T any](t T) T { return t }

func two[T, U any](t T, u U) string { return fmt.Sprintf("%T %T", t, u) }

func each[T any](a []T, f func(T)) {
	for _, x := range a {
		f(x)
	}
}

type Stack[T any] struct{ items []T }

func (s *Stack[T]) Push(t T) { s.items = append(s.items, t) }
func (s *Stack[T]) Pop() T {
	t := s.items[len(s.items)-1]
	s.items = s.items[:len(s.items)-1]
	return t
}

type MyInt int

func explicit[T, U any](t T) U {
	var u U
	return u
}

func main() {
	fmt.Println(sum([]int{1, 2, 3}), sum([]float64{1.5, 2}), sum([]MyInt{4, 5}))
	fmt.Println(first([]string{"a"}), first([][]int{{1}}))
	ks, vs := kv(map[string]int{"a": 1})
	fmt.Println(ks, vs)
	fmt.Println(ident(3), ident("s"), ident([]int{1}), ident(map[string]bool{"a": true}))
	fmt.Println(two(1, "a"), two("a", 1.5), two([]int{}, struct{}{}))
	each([]int{1, 2}, func(i int) { fmt.Println("each", i) })
	s := &Stack[string]{}
	s.Push("a")
	s.Push("b")
	fmt.Println(s.Pop(), s.Pop())
	fmt.Println(explicit[int, string](1) == "", sum[int64]([]int64{1, 2}))
	// The same instance called twice, and two different instances of one function.
	fmt.Println(two(2, "b"), two(true, 1))
}
