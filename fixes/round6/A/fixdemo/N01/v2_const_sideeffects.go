package main

import "fmt"

var trace []string

func t(name string, v bool) bool {
	trace = append(trace, name)
	return v
}

const yes = true
const no = false

func k(n int) string {
	switch {
	case false, n == 1:
		return "false-or-1"
	case no, n == 2, no:
		return "no-or-2"
	case n == 3, false:
		return "3-or-false"
	case (n == 4), (false), (n == 5):
		return "paren"
	case n == 6, true:
		return "6-or-true"
	case n == 7:
		return "unreachable"
	}
	return "other"
}

func k2(n int) string {
	switch {
	case yes, n == 1:
		return "yes"
	}
	return "other"
}

func k3(n int) string {
	switch {
	case 1 > 2, 2 > 3:
		return "never"
	case !(n != 9), 3 > 2 && n == 8:
		return "8-or-9"
	}
	return "other"
}

func s(n int) string {
	trace = nil
	r := "other"
	switch {
	case t("a", n == 0), t("b", n == 1), t("c", n == 2):
		r = "first"
	case t("d", n == 3), t("e", n == 1):
		r = "second"
	default:
		r = "default"
	case t("f", n == 4), t("g", n > 4):
		r = "third"
	}
	return fmt.Sprint(r, trace)
}

func main() {
	for n := 0; n < 10; n++ {
		fmt.Println(n, k(n), k2(n), k3(n))
	}
	for n := 0; n < 7; n++ {
		fmt.Println(n, s(n))
	}
}
