package main

import "fmt"

func classify(n int) string {
	switch {
	case n == 0, n == 1:
		return "small"
	case n > 10 || n < -10, n == 7:
		return "big-or-seven"
	}
	return "other"
}

func main() {
	for _, n := range []int{0, 1, 7, 11, 5} {
		fmt.Println(n, classify(n))
	}
}
